"""Worker of property C10: one pool program per process.

Builds the program through the real front end, enumerates the configuration-focused attempts
(delete_config / write_config / bind_config at every position, call_eqv with callee variants derived
by configuration-affecting and by neutral rewrites and with callees that must be refused, ordinary
rewrites next to configuration accesses, two-step chains), applies them through the real public
API and checks every accepted one with obs_cfg.Observer.  Returns a json-able record.
"""
from __future__ import annotations

import json
import os
import random
import sys
import traceback

ORDINARY = {"reorder_stmts", "fission", "fuse", "insert_pass", "delete_pass", "add_loop", "remove_loop",
            "unroll_loop", "cut_loop", "join_loops", "lift_scope", "specialize", "eliminate_dead_code",
            "inline", "simplify", "extract_subproc", "shift_loop", "reorder_loops", "divide_loop",
            "mult_loops", "parallelize_loop"}
CONFIG_OPS = {"delete_config", "write_config", "bind_config", "call_eqv"}
MUST_REJECT = {"unrelated", "partial_eval", "add_assertion", "other_proc"}


def _kinds(env):
    import obs_cfg
    return obs_cfg.field_kinds(env["configs"])


def _cfg_pyname(env, cfgname):
    for py, cfg in env["configs"].items():
        if cfg.name() == cfgname:
            return py
    return cfgname


def scalar_args(p):
    """(bool argument names, real scalar argument names)"""
    bools, reals = [], []
    for a in p.args():
        t = str(a.type())
        if t == "ExoType.Bool":
            bools.append(a.name())
        elif not a.is_tensor() and t in ("ExoType.F32", "ExoType.F64", "ExoType.R", "ExoType.F16", "ExoType.I8", "ExoType.I32"):
            reals.append(a.name())
    return bools, reals


def rhs_choices(kind, bools, reals):
    if kind == "bool":
        return ["True", "False"] + bools[:2]
    if kind == "real":
        return reals[:2] + ["1.0"]
    return ["0", "1", "2", "3"]


def bindable_reads(p):
    """[(expr path, 'bool'|'real')] of variable reads bind_config could take"""
    import stream
    exo, C, S = stream._api()
    out = []

    def visit(ec, path):
        for epath, c in stream.walk_exprs(ec, path):
            if isinstance(c, C.ReadCursor) and len(c.idx()) == 0:
                t = c._impl._node.type
                if str(t) == "bool":
                    out.append((epath, "bool"))
                elif t.is_real_scalar():
                    out.append((epath, "real"))

    for path, c, _ in stream.walk_stmts(p):
        if isinstance(c, (C.AssignCursor, C.ReduceCursor, C.AssignConfigCursor)):
            visit(c.rhs(), path + [["rhs"]])
        if isinstance(c, (C.AssignCursor, C.ReduceCursor)):
            for k in range(len(c.idx())):
                visit(c.idx()[k], path + [["idx", k]])
        if isinstance(c, C.IfCursor):
            visit(c.cond(), path + [["cond"]])
        if isinstance(c, C.CallCursor):
            for k in range(len(c.args())):
                try:
                    visit(c.args()[k], path + [["args", k]])
                except Exception:
                    pass
    return out


def _kinds_in(node):
    """names of the LoopIR node classes in the subtree (callee bodies included)"""
    out, todo = [], [node]
    while todo:
        n = todo.pop()
        out.append(type(n).__name__)
        for f in getattr(type(n), "__attrs_attrs__", ()):
            v = getattr(n, f.name)
            if f.name == "f" and hasattr(v, "body"):
                todo += list(v.body)
            elif isinstance(v, list):
                todo += [x for x in v if hasattr(type(x), "__attrs_attrs__")]
            elif hasattr(type(v), "__attrs_attrs__") and f.name not in ("type", "srcinfo"):
                todo.append(v)
    return " ".join(out)


def config_attempts(p, env, with_calls=True):
    """configuration operations on p at every position"""
    import stream
    exo, C, S = stream._api()
    kinds = _kinds(env)
    bools, reals = scalar_args(p)
    out = []

    def A(op, path, **args):
        out.append({"op": op, "path": path, "args": args})

    stmts = list(stream.walk_stmts(p))
    for path, c, _ in stmts:
        if isinstance(c, C.AssignConfigCursor):
            A("delete_config", path)
        elif isinstance(c, (C.ForCursor, C.IfCursor, C.CallCursor)) and "WriteConfig" in repr(type(c._impl._node)) + _kinds_in(c._impl._node):
            # delete_config takes ANY statement that only modifies configuration state: a loop / branch / call
            # around a configuration write (seeded change C10_1 lives in the loop dataflow of such a statement)
            A("delete_config", path)
        for (cn, fn), kind in sorted(kinds.items()):
            for rhs in rhs_choices(kind, bools, reals):
                A("write_config", path, where="before", config=_cfg_pyname(env, cn), field=fn, rhs=rhs)
            # after the last statement of a block only (other gaps are "before" of the next one)
            if isinstance(c.next(), C.InvalidCursor):
                for rhs in rhs_choices(kind, bools, reals):
                    A("write_config", path, where="after", config=_cfg_pyname(env, cn), field=fn, rhs=rhs)
        if with_calls and isinstance(c, C.CallCursor):
            for v in callee_variants(c.subproc(), env):
                A("call_eqv", path, **v)
    for epath, k in bindable_reads(p):
        for (cn, fn), kind in sorted(kinds.items()):
            if kind == k or (kind == "index" and k == "bool"):  # the second is a type error: near miss
                A("bind_config", epath, config=_cfg_pyname(env, cn), field=fn)
    return out


def callee_variants(callee, env):
    """descriptions of callees to swap in: lists of rewrite steps on the callee, or special ones"""
    import stream
    exo, C, S = stream._api()
    vs = [{"special": "self"}, {"special": "unrelated"}, {"special": "rename"},
          {"special": "partial_eval"}, {"special": "add_assertion"}, {"special": "other_proc"}]
    single = [a for a in config_attempts(callee, env, with_calls=False)]
    first = [["body", 0]]
    neutral = [{"op": "simplify", "path": [], "args": {}},
               {"op": "insert_pass", "path": first, "args": {"where": "before"}},
               {"op": "insert_pass", "path": first, "args": {"where": "after"}}]
    if len(callee.body()) > 1:
        neutral.append({"op": "reorder_stmts", "path": first, "args": {}})
    for a in neutral:
        vs.append({"steps": [a], "cls": "neutral"})
    for a in single:
        vs.append({"steps": [a], "cls": "single"})
    for a in single:
        vs.append({"steps": [a, neutral[0]], "cls": "multi"})
        vs.append({"steps": [neutral[1], _shift(a)], "cls": "multi"})
    # two configuration steps
    for a in single[:: max(1, len(single) // 6)]:
        for b in single[1:: max(1, len(single) // 5)]:
            vs.append({"steps": [a, b], "cls": "multi"})
    return vs


def _shift(att):
    """the same attempt after a `pass` was inserted in front of the first statement"""
    a = json.loads(json.dumps(att))
    if a["path"] and a["path"][0][0] == "body":
        a["path"][0][1] += 1
    return a



# ---------------------------------------------------------------------- correspondence A requests
def split_path(path):
    sp = [s for s in path if s[0] in ("body", "orelse")]
    return sp, path[len(sp):]


def lean_steps(sp):
    return [[sp[j][0], sp[j - 1][1]] for j in range(1, len(sp))], sp[-1][1]


def block_at(pj, steps):
    block = pj["body"]
    for kind, i in steps:
        st = block[i]
        if st[0] == "for":
            block = st[4]
        elif st[0] == "if":
            block = st[2] if kind == "body" else st[3]
        else:
            raise KeyError("not a compound statement")
    return block


def model_request(p, att, p2, env, new_callee=None):
    """driver request comparing the Lean model of the operation with its real result (or None)"""
    import export_ir, obs_cfg
    op, a = att["op"], att["args"]
    pj, _ = export_ir.export(p)
    pj2, _ = export_ir.export(p2)
    sp, ep = split_path(att["path"])
    if not sp:
        return None
    steps, idx = lean_steps(sp)
    req = {"proc": pj, "derived": pj2, "steps": steps, "idx": idx}
    if op == "delete_config":
        req["op"] = "delete"
    elif op == "write_config":
        gap = idx if a["where"] == "before" else idx + 1
        ins = block_at(pj2, steps)[gap]
        if ins[0] != "writecfg":
            return {"op": "write", "broken": "no configuration write at the gap in the result", **req}
        req.update(op="write", idx=gap, cfg=ins[1], fld=ins[2], rhs=ins[3], isData=ins[4])
    elif op == "bind_config":
        cfg = env["configs"][a["config"]]
        kinds = obs_cfg.all_fields(env["configs"])
        slot = {"rhs": ["rhs"], "cond": ["cond"], "lo": ["lo"], "hi": ["hi"]}.get(ep[0][0])
        if ep[0][0] == "idx":
            slot = ["idx", ep[0][1]]
        elif ep[0][0] == "args":
            slot = ["arg", ep[0][1]]
        if slot is None:
            return None
        epath = []
        for s in ep[1:]:
            epath.append({"lhs": 0, "rhs": 1, "arg": 0}.get(s[0], s[1] if len(s) > 1 else 0))
        req.update(op="bind", cfg=cfg.name(), fld=a["field"], isData=kinds[(cfg.name(), a["field"])] == "d",
                   slot=slot, epath=epath)
    elif op == "call_eqv":
        if new_callee is None:
            return None
        gj, _ = export_ir.export(new_callee)
        req.update(op="call", callee=gj)
    else:
        return None
    return req


class Rejected(Exception):
    def __init__(self, cls, msg, stage="op"):
        super().__init__(f"{cls}: {msg}")
        self.cls, self.msg, self.stage = cls, msg, stage


def apply(p, att, env, st):
    """apply an attempt through the real API (watched: see `_watchdog`)"""
    import time as _t
    st["running"] = (_t.time(), att)
    try:
        return _apply(p, att, env, st)
    finally:
        st["running"] = None


def _watchdog(st, rec, out_path, limit):
    """A mutated (or the real) tree may never return from one call (an SMT query that does not
    terminate cannot be interrupted from Python).  If one attempt runs longer than `limit` seconds
    the record collected so far is written out with the attempt named, and the process exits."""
    import time as _t
    while True:
        _t.sleep(2.0)
        r = st.get("running")
        if r is not None and _t.time() - r[0] > limit:
            rec.setdefault("timeouts", []).append({"att": r[1], "limit_s": limit})
            rec["counts"]["attempt-timeout"] = rec["counts"].get("attempt-timeout", 0) + 1
            try:
                with open(out_path, "w") as f:
                    json.dump(rec, f, default=str)
            finally:
                os._exit(0)


def _apply(p, att, env, st):
    """apply an attempt through the real API.  st: worker state (module source for `unrelated`)."""
    import stream
    exo, C, S = stream._api()
    if att["op"] != "call_eqv" or "how" in att["args"]:
        try:
            return stream.apply_attempt(p, att, env)
        except stream.Rejected as r:
            raise Rejected(r.cls, r.msg)
    a = att["args"]
    try:
        c = stream.locate(p, att["path"])
        callee = c.subproc()
    except BaseException as e:
        raise Rejected(type(e).__name__, str(e)[:200], "locate")
    if "special" in a:
        sp = a["special"]
        try:
            if sp == "self":
                new = callee
            elif sp == "unrelated":
                import exo_build
                mod2 = exo_build.build_module(st["src"])
                new = exo_build.procs_of(mod2)[callee.name()]
            elif sp == "rename":
                new = S.rename(callee, callee.name() + "_r")
            elif sp == "partial_eval":
                new = callee.partial_eval(2)
            elif sp == "add_assertion":
                sz = [x.name() for x in callee.args() if str(x.type()) == "ExoType.Size"]
                new = callee.add_assertion(f"{sz[0]} > 1" if sz else "1 > 0")
            elif sp == "other_proc":
                others = [q for n, q in env["callees"].items() if n != callee.name()]
                if not others:
                    raise Rejected("NoOtherProc", "", "variant")
                new = others[0]
            else:
                raise ValueError(sp)
        except Rejected:
            raise
        except BaseException as e:
            raise Rejected(type(e).__name__, str(e)[:200], "variant")
    else:
        new = callee
        for step in a["steps"]:
            try:
                nxt = stream.apply_attempt(new, step, env)
            except stream.Rejected as r:
                raise Rejected(r.cls, r.msg, "variant")
            st["callee_pairs"].append((new, step, nxt))
            new = nxt
    st["last_callee"] = (callee, new)
    try:
        return S.call_eqv(p, c, new)
    except BaseException as e:
        if isinstance(e, (KeyboardInterrupt, SystemExit, MemoryError)):
            raise
        raise Rejected(type(e).__name__, str(e)[:300])


def near_config(p, att):
    """is the attempt at / next to / around a configuration access?"""
    import stream
    exo, C, S = stream._api()
    if not att["path"]:
        return True
    try:
        c = stream.locate(p, att["path"])
    except Exception:
        return False
    txt = str(c._impl._node) if hasattr(c, "_impl") else ""
    if "Cfg" in txt:
        return True
    for nb in (c.next(), c.prev()):
        if not isinstance(nb, C.InvalidCursor) and "Cfg" in str(nb._impl._node):
            return True
    return False


def signature(p):
    return [(a.name(), str(a.type()), bool(a.is_tensor())) for a in p.args()]


def _model_case(rec, opts, p, att, p2, env, new_callee):
    cases = rec.setdefault("model_cases", [])
    per_op = sum(1 for c in cases if c["op"] == att["op"])
    if per_op >= opts.get("model_cases_per_op", 12):
        return
    try:
        req = model_request(p, att, p2, env, new_callee)
    except Exception as e:
        rec["counts"]["model-request-failed"] = rec["counts"].get("model-request-failed", 0) + 1
        return
    if req is not None:
        cases.append({"op": att["op"], "program": rec["name"], "att": att, "req": req,
                      "before": str(p), "after": str(p2)})


def worker(job, out_path=None):
    (name, src, seed, opts) = job
    sys.path.insert(0, os.path.dirname(os.path.dirname(os.path.abspath(__file__))))
    import common
    rec = {"name": name, "records": [], "counts": {}, "error": None, "src": src, "samples": []}
    import time as _time
    _t0 = _time.time()

    def cnt(k, n=1):
        rec["counts"][k] = rec["counts"].get(k, 0) + n

    try:
        common.import_exo()
        import exo_build, stream, obs_cfg
        from exo.core.configs import Config
        rng = random.Random(f"c10:{name}:{seed}")
        try:
            mod = exo_build.build_module(src)
        except BaseException as e:
            rec["error"] = f"front end rejected pool program: {type(e).__name__}: {str(e)[:300]}"
            return rec
        procs = exo_build.procs_of(mod)
        names = list(procs)
        p0 = procs[names[-1]]
        env = {"callees": {k: procs[k] for k in names[:-1]},
               "configs": {k: v for k, v in vars(mod).items() if isinstance(v, Config)}}
        st = {"src": src, "callee_pairs": [], "last_callee": None, "running": None}
        if out_path is not None:
            import threading
            threading.Thread(target=_watchdog, args=(st, rec, out_path, opts.get("attempt_limit_s", 180)),
                             daemon=True).start()
        obs = obs_cfg.Observer(rec, rng, opts)
        obs.start(p0, env, src)
        try:
            if opts.get("replay"):
                _replay(opts["replay"], p0, env, st, obs, rec)
                return rec
            accepted = []
            # ---------------- configuration operations, everywhere
            atts = config_attempts(p0, env)
            rng.shuffle(atts)
            quota = dict(opts.get("quota", {}))
            seen_callee_pairs = set()
            for att in atts:
                op = att["op"]
                sub = op
                if op == "call_eqv":
                    sub = "call_eqv:" + (att["args"].get("special") or "derived")
                qk = sub + ":" + att["args"].get("cls", "") if sub == "call_eqv:derived" else sub
                if quota.get(qk, quota.get(sub, quota.get(op, 10 ** 9))) <= 0:
                    continue
                quota[qk] = quota.get(qk, quota.get(sub, quota.get(op, 10 ** 9))) - 1
                cnt("attempts")
                cnt("attempts:" + sub)
                fp = str(p0)
                n_cp = len(st["callee_pairs"])
                try:
                    p2 = apply(p0, att, env, st)
                except Rejected as r:
                    cnt(f"rejected:{sub}")
                    cnt(f"rejcls:{r.cls}" + ("" if r.stage == "op" else f"@{r.stage}"))
                    p2 = None
                if str(p0) != fp:
                    rec["records"].append({"kind": "impure", "att": att, "program": name, "src": src,
                                           "before": fp, "now": str(p0)})
                    break
                # derivations of callee variants are configuration operations of their own
                for (q, step, q2) in st["callee_pairs"][n_cp:]:
                    key = (id(q), json.dumps(step, sort_keys=True))
                    if key in seen_callee_pairs or step["op"] not in CONFIG_OPS:
                        continue
                    seen_callee_pairs.add(key)
                    cnt("accepted:callee-" + step["op"])
                    _model_case(rec, opts, q, step, q2, env, None)
                    r = obs.check_pair(q, q2, step, [], label=step["op"])
                    if r is not None:
                        r["on_callee"] = q.name()
                        rec["records"].append(r)
                if p2 is None:
                    continue
                cnt(f"accepted:{sub}")
                if op == "call_eqv":
                    sp = att["args"].get("special")
                    callee, new = st["last_callee"]
                    if sp in MUST_REJECT or signature(callee) != signature(new):
                        rec["records"].append({
                            "kind": "mismatch", "key": f"call_eqv:accepted-{sp or 'signature-changed'}-callee",
                            "what": f"call_eqv accepted a callee that is not derived from the called procedure by "
                                    f"equivalence-preserving steps ({sp or 'signature changed'})",
                            "att": att, "hist": [], "program": name, "src": src, "before": str(p0),
                            "after": str(p2), "old_callee": str(callee), "new_callee": str(new)})
                        continue
                _model_case(rec, opts, p0, att, p2, env, st["last_callee"][1] if op == "call_eqv" else None)
                r = obs.check_pair(p0, p2, att, [])
                if r is not None:
                    if op == "call_eqv":
                        callee, new = st["last_callee"]
                        r["old_callee"], r["new_callee"] = str(callee), str(new)
                        eqc, Kc = obs_cfg.reported_modulo(callee, new)
                        r["callee_reported_modulo"] = sorted(map(list, Kc))
                    rec["records"].append(r)
                accepted.append((p2, att))
            # ---------------- ordinary rewrites next to configuration accesses
            oatts = [a for a in stream.attempts(p0, callees=[], configs=[])
                     if a["op"] in ORDINARY and near_config(p0, a)]
            rng.shuffle(oatts)
            for att in oatts[: opts.get("ordinary", 60)]:
                cnt("attempts")
                cnt("attempts:ordinary")
                fp = str(p0)
                try:
                    p2 = apply(p0, att, env, st)
                except Rejected as r:
                    cnt(f"rejected:{att['op']}")
                    continue
                if str(p0) != fp:
                    rec["records"].append({"kind": "impure", "att": att, "program": name, "src": src,
                                           "before": fp, "now": str(p0)})
                    break
                cnt(f"accepted:{att['op']}")
                cnt("accepted:ordinary")
                r = obs.check_pair(p0, p2, att, [])
                if r is not None:
                    rec["records"].append(r)
                accepted.append((p2, att))
            # ---------------- chains: a second configuration operation on a derived procedure
            rng.shuffle(accepted)
            for (p1, att1) in accepted[: opts.get("chain_procs", 4)]:
                try:
                    atts2 = config_attempts(p1, env, with_calls=False)
                except BaseException as e:
                    cnt("chain-enumeration-failed")
                    continue
                rng.shuffle(atts2)
                for att2 in atts2[: opts.get("chain_attempts", 12)]:
                    cnt("attempts")
                    cnt("attempts:chain")
                    try:
                        p2 = apply(p1, att2, env, st)
                    except Rejected as r:
                        cnt(f"rejected:chain:{att2['op']}")
                        continue
                    cnt(f"accepted:chain:{att2['op']}")
                    r = obs.check_pair(p1, p2, att2, [att1])
                    if r is not None:
                        rec["records"].append(r)
                    r = obs.check_pair(p0, p2, att2, [att1], label="chain")
                    if r is not None:
                        rec["records"].append(r)
        finally:
            obs.finish()
            rec["wall_s"] = round(_time.time() - _t0, 1)
    except common.InfraError as e:
        rec["error"] = f"infra: {e}"
    except BaseException as e:
        rec["error"] = f"worker exception: {type(e).__name__}: {str(e)[:300]}\n{traceback.format_exc()[-2000:]}"
    return rec


def _replay(rp, p0, env, st, obs, rec):
    """re-run one recorded instance: history, then the attempt, on the recorded input"""
    import obs_cfg, export_ir
    p = p0
    for h in rp.get("hist", []):
        p = apply(p, h, env, st)
    if rp.get("on_callee"):
        p = env["callees"][rp["on_callee"]]
    try:
        p2 = apply(p, rp["att"], env, st)
    except Rejected as r:
        rec["counts"]["replay-rejected"] = 1
        rec["replay_outcome"] = f"rejected now: {r}"
        return
    if rp.get("input") is None:
        rec["replay_outcome"] = "accepted now (the record has no input: acceptance itself was the violation)"
        rec["records"].append(dict(rp, kind="mismatch"))
        return
    pj, _ = export_ir.export(p)
    pj2, _ = export_ir.export(p2)
    ra = obs.run(pj, [rp["input"]])[0]
    rb = obs.run(pj2, [rp["input"]])[0]
    eq, K = obs_cfg.reported_modulo(p, p2)
    stt, det = obs_cfg.diff_runs(ra, rb)
    bad = (not eq) or stt in ("derived-fails", "buffer-differs") or \
        (stt == "ok" and any((d[0], d[1]) not in K for d in det))
    rec["replay_outcome"] = {"status": stt, "detail": det, "reported": sorted(map(list, K)), "violates": bad}
    if bad:
        rec["records"].append(dict(rp, kind="mismatch", orig_result=ra, derived_result=rb,
                                   reported_modulo=sorted(map(list, K))))


def main(argv):
    """python c10_worker.py job.json out.json  — one program per OS process"""
    job = json.load(open(argv[1]))
    rec = worker((job["name"], job["src"], job["seed"], job["opts"]), out_path=argv[2])
    with open(argv[2], "w") as f:
        json.dump(rec, f, default=str)
    return 0


if __name__ == "__main__":
    sys.path.insert(0, os.path.dirname(os.path.dirname(os.path.abspath(__file__))))
    sys.exit(main(sys.argv))
