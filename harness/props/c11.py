"""C11 — procedure-equivalence tracking (src/exo/core/proc_eqv.py) is a sound congruence.

Parts (see docs/C11.md):
  1. proof obligations  : lean/ExoModel/Props/C11.lean (all histories, infinite field universe)
  2. correspondence     : random histories replayed on the REAL module (worker subprocess, fresh
                          module state per history), on the Lean model (Drivers/C11.lean) and on an
                          independent Python reference (closure by BFS).  Compared: every call's
                          result, the raw parent dicts (model vs real), the canonical partition of
                          every union-find (all three).
  3. call sites         : real `Procedure`s built through the front end, scheduled (rename, simplify,
                          write_config, call_eqv, unsafe_assert_eq, partial_eval, transpose); the
                          calls that reach proc_eqv are recorded by wrapping the names in exo.API /
                          new_eff, answers compared with the reference and with the model.
  4. search / verdicts  : REAL != reference  -> concrete violation (history is the replay)
                          MODEL != REAL only -> correspondence break -> more histories against the
                          reference -> `no_input` violation if none fails.
"""
from __future__ import annotations

import json
import os
import subprocess
import sys
import tempfile
from pathlib import Path

from common import import_exo, lean_batch, InfraError, LEAN, REPO, ROOT

WORKER = Path(__file__).resolve().parent / "c11_worker.py"
DRIVER = LEAN / "Drivers" / "C11.lean"
FIELD_POOL = [0, 3, 5, 8, 11, 16, 24, 7, 2, 1000003]
FRESH = -1  # stands for every field no recorded step mentions


# --------------------------------------------------------------------------------------------
# generation
# --------------------------------------------------------------------------------------------
def _subset(rng, pool, weights=(0.4, 0.3, 0.2, 0.1)):
    if not pool:
        return []
    n = rng.choices(range(len(weights)), weights)[0]
    return rng.sample(pool, min(n, len(pool)))


def gen_history(rng, nops, nfields):
    fields = rng.sample(FIELD_POOL, nfields)
    never = [f for f in FIELD_POOL if f not in fields][:2] + [999999]
    # late first mentions: a field may appear in a modulo-set only from its activation time on
    act = {f: (rng.randrange(0, nops) if rng.random() < 0.7 else 0) for f in fields}
    style = rng.choice(["api", "wild", "wild"])  # api: what exo itself produces (assert with {} only)
    procs, nxt, ops = [], 1, []

    def pick():
        if rng.random() < 0.03:
            return 90 + rng.randrange(3)  # (probably) never declared -> KeyError stream
        return rng.choice(procs)

    for t in range(nops):
        avail = [f for f in fields if act[f] <= t]
        r = rng.random()
        if not procs or r < 0.08:
            p = nxt if (style == "api" or rng.random() < 0.9 or not procs) else rng.choice(procs)
            ops.append(["d", p])
            if p == nxt:
                procs.append(nxt)
                nxt += 1
        elif r < 0.45:
            o = pick()
            if style == "wild" and rng.random() < 0.06:
                n = rng.choice(procs)  # re-derive an existing proc (acts like an assert)
            else:
                n = nxt
                procs.append(nxt)
                nxt += 1
            ops.append(["r", o, n, _subset(rng, avail)])
        elif r < 0.60:
            K = [] if (style == "api" or rng.random() < 0.4) else _subset(rng, avail, (0.1, 0.5, 0.3, 0.1))
            ops.append(["a", pick(), pick(), K])
        elif r < 0.85:
            ops.append(["c", pick(), pick(), _subset(rng, fields + never, (0.35, 0.3, 0.2, 0.15))])
        elif r < 0.97:
            ops.append(["s", pick(), pick()])
        else:
            ops.append(["g", pick()])
    return ops


# --------------------------------------------------------------------------------------------
# the three executions
# --------------------------------------------------------------------------------------------
def run_real(histories, chunk=150):
    """replay on the real module; returns list of dicts (orders, answer) / {"fatal":..}"""
    env = dict(os.environ)
    env["PYTHONPATH"] = str(REPO / "src")
    env["PYTHONDONTWRITEBYTECODE"] = "1"
    res = []
    for i in range(0, len(histories), chunk):
        part = histories[i : i + chunk]
        if res and res[-1].get("fatal", "").startswith("timeout"):
            res += [{"fatal": "timeout (skipped after an earlier timeout)"} for _ in part]
            continue
        inp = "".join(json.dumps(h) + "\n" for h in part)
        try:
            p = subprocess.run(
                [sys.executable, str(WORKER), str(REPO)], input=inp, capture_output=True, text=True,
                env=env, timeout=300,
            )
        except subprocess.TimeoutExpired:
            # a mutated `find` may loop for ever: that is a verdict about the real code
            res += [{"fatal": "timeout (real code did not terminate)"} for _ in part]
            continue
        lines = [l for l in p.stdout.split("\n") if l.strip()]
        if len(lines) != len(part):
            res += [{"fatal": f"worker died rc={p.returncode}: {p.stderr[-400:]}"} for _ in part]
            continue
        for l in lines:
            d = json.loads(l)
            if "infra" in d:
                raise InfraError(d["infra"])
            res.append(d)
    return res


def lean_line(hist, orders):
    def K(ks):
        return ",".join(str(k) for k in ks) if ks else "-"

    toks = []
    for op, order in zip(hist, orders):
        t = op[0]
        if t == "d":
            toks.append(f"d {op[1]}")
        elif t in ("r", "a"):
            toks.append(f"{t} {op[1]} {op[2]} {K(order if order is not None else op[3])}")
        elif t == "c":
            toks.append(f"c {op[1]} {op[2]} {K(op[3])}")
        elif t == "s":
            toks.append(f"s {op[1]} {op[2]}")
        elif t == "g":
            toks.append(f"g {op[1]}")
    return "; ".join(toks)


def run_model(histories, orders_list):
    lines = [lean_line(h, o) for h, o in zip(histories, orders_list)]
    out = []
    for i in range(0, len(lines), 400):
        out += lean_batch(DRIVER, lines[i : i + 400], timeout=2400)
    return out


class Ref:
    """independent reference: recorded steps + closure by graph search"""

    def __init__(self):
        self.declared = set()
        self.edges = []  # (p, q, frozenset K)
        self.known = []  # fields with their own union-find, in creation order

    def _conn(self, pred, p, q):
        if p == q:
            return True
        adj = {}
        for a, b, K in self.edges:
            if pred(K):
                adj.setdefault(a, []).append(b)
                adj.setdefault(b, []).append(a)
        seen, todo = {p}, [p]
        while todo:
            x = todo.pop()
            for y in adj.get(x, ()):
                if y == q:
                    return True
                if y not in seen:
                    seen.add(y)
                    todo.append(y)
        return False

    def conn(self, k, p, q):
        return self._conn(lambda K: k not in K, p, q)

    def strict(self, p, q):
        return self._conn(lambda K: not K, p, q)

    def fields(self):
        fs = set()
        for _, _, K in self.edges:
            fs |= K
        return fs

    def step(self, op, order):
        """returns expected output string, or ('g', p) for get_repr (checked by predicate)"""
        t = op[0]
        if t == "d":
            self.declared.add(op[1])
            return "N"
        if t in ("r", "a"):
            p, q, K = op[1], op[2], op[3]
            if t == "r":
                self.declared.add(q)
            for k in order if order is not None else K:
                if k not in self.known:
                    self.known.append(k)
            if p in self.declared and q in self.declared:
                self.edges.append((p, q, frozenset(K)))
                return "N"
            return "EkeyError"
        if t == "c":
            p, q, K = op[1], op[2], set(op[3])
            if p not in self.declared or q not in self.declared:
                return "EkeyError"
            ok = all(self.conn(k, p, q) for k in (self.fields() | {FRESH}) if k not in K)
            return "T" if ok else "F"
        if t == "s":
            p, q = op[1], op[2]
            if p not in self.declared or q not in self.declared:
                return "EkeyError"
            if not self.conn(FRESH, p, q):
                return "S0:"
            ks = sorted(k for k in self.fields() if not self.conn(k, p, q))
            return "S1:" + ",".join(str(k) for k in ks)
        if t == "g":
            if op[1] not in self.declared:
                return "EkeyError"
            return ("g", op[1])
        raise ValueError(t)

    def partition(self):
        labels = [("strict", lambda K: not K), ("unv", lambda K: True)] + [
            (str(k), (lambda k: (lambda K: k not in K))(k)) for k in self.known
        ]
        nodes = sorted(self.declared)
        out = []
        for lab, pred in labels:
            adj = {}
            for a, b, K in self.edges:
                if pred(K):
                    adj.setdefault(a, []).append(b)
                    adj.setdefault(b, []).append(a)
            rep = {}
            for v in nodes:  # ascending, so the first node of a component is its least member
                if v in rep:
                    continue
                rep[v] = v
                todo = [v]
                while todo:
                    x = todo.pop()
                    for y in adj.get(x, ()):
                        if y not in rep:
                            rep[y] = v
                            todo.append(y)
            out.append(lab + ":" + ",".join(f"{v}={rep[v]}" for v in nodes))
        return "|".join(out)


def reference_verdict(hist, real):
    """compare the real module's answer with the reference; returns None or (kind, detail)"""
    if "fatal" in real:
        return ("fatal", real["fatal"])
    outs_s, _dump, part = [x.strip() for x in real["answer"].split(" # ")]
    outs = outs_s.split(";") if outs_s else []
    if len(outs) != len(hist):
        return ("shape", f"{len(outs)} outputs for {len(hist)} ops")
    ref = Ref()
    names = {"d": "decl_new_proc", "r": "derive_proc", "a": "assert_eqv_proc", "c": "check_eqv_proc",
             "s": "get_strictest_eqv_proc", "g": "get_repr_proc"}
    for i, (op, order, got) in enumerate(zip(hist, real["orders"], outs)):
        exp = ref.step(op, order)
        if isinstance(exp, tuple):
            ok = got.startswith("P") and got[1:].isdigit() and int(got[1:]) in ref.declared and ref.strict(op[1], int(got[1:]))
            if not ok:
                return (names["g"], f"op {i} {op}: returned {got}, not a strict equivalent")
        elif got != exp:
            kind = names[op[0]]
            if got.startswith("E") and got != "EkeyError":
                kind += ":exception"
            elif got == "EkeyError":
                kind += ":KeyError"
            elif exp == "EkeyError":
                kind += ":missing-KeyError"
            elif op[0] in "cs":
                # unsound = reports more equivalence than the closure; incomplete = less
                if op[0] == "c":
                    kind += ":unsound" if got == "T" else ":incomplete"
                else:
                    kind += ":mismatch"
            return (kind, f"op {i} {op}: real={got} closure={exp}")
    exp_part = ref.partition()
    if part != exp_part:
        return ("partition", f"real={part} closure={exp_part}")
    return None


# --------------------------------------------------------------------------------------------
# call sites: real Procedures
# --------------------------------------------------------------------------------------------
E2E_SRC = '''
from __future__ import annotations
from exo import proc, config
from exo.stdlib.scheduling import *

@config
class CfgA:
    x: f32
    y: f32

@proc
def leaf(n: size, A: f32[n]):
    tmp: f32
    tmp = 1.0
    for i in seq(0, n):
        A[i] = tmp

@proc
def other(n: size, A: f32[n]):
    tmp: f32
    tmp = 1.0
    for i in seq(0, n):
        A[i] = tmp

@proc
def caller(n: size, A: f32[n], B: f32[n, n]):
    leaf(n, A)
    for i in seq(0, n):
        for j in seq(0, n):
            B[i, j] = 0.0
'''


def call_sites(ctx):
    """drive the module through exo.API / call_eqv with real Procedures; record what reaches proc_eqv"""
    exo = import_exo()
    import importlib

    pe = importlib.import_module("exo.core.proc_eqv")
    API = importlib.import_module("exo.API")
    new_eff = importlib.import_module("exo.rewrite.new_eff")
    sched = importlib.import_module("exo.rewrite.LoopIR_scheduling")

    ids, keyids, hist, orders, real_outs = {}, {}, [], [], []
    keep = []

    def pid(p):
        if id(p) not in ids:
            ids[id(p)] = len(ids) + 1
            keep.append(p)
        return ids[id(p)]

    def kid(k):
        if k not in keyids:
            keyids[k] = len(keyids) + 1
        return keyids[k]

    def exc(e):
        n = type(e).__name__
        return "EkeyError" if n == "KeyError" else "E" + n

    def record(op, order, thunk, show):
        hist.append(op)
        orders.append(order)
        try:
            r = thunk()
            real_outs.append(show(r))
            return r
        except Exception as e:  # noqa
            real_outs.append(exc(e))
            raise

    orig = dict(decl=API.decl_new_proc, derive=API.derive_proc, asrt=API.assert_eqv_proc,
                repr=new_eff.get_repr_proc, strictest=sched.get_strictest_eqv_proc)

    def w_decl(p):
        return record(["d", pid(p)], None, lambda: orig["decl"](p), lambda r: "N")

    def w_derive(o, n, cs=frozenset()):
        order = [kid(k) for k in cs]
        return record(["r", pid(o), pid(n), list(order)], order, lambda: orig["derive"](o, n, cs), lambda r: "N")

    def w_assert(a, b, cs=frozenset()):
        order = [kid(k) for k in cs]
        return record(["a", pid(a), pid(b), list(order)], order, lambda: orig["asrt"](a, b, cs), lambda r: "N")

    def w_repr(p):
        return record(["g", pid(p)], None, lambda: orig["repr"](p), lambda r: f"P{pid(r)}")

    def w_strictest(a, b):
        return record(["s", pid(a), pid(b)], None, lambda: orig["strictest"](a, b),
                      lambda r: f"S{1 if r[0] else 0}:" + ",".join(str(x) for x in sorted(kid(k) for k in r[1])))

    # fresh module state, then spy
    pe._UF_Unv, pe._UF_Strict, pe._UF_Unv_key = pe._UnionFind(), pe._UnionFind(), dict()
    API.decl_new_proc, API.derive_proc, API.assert_eqv_proc = w_decl, w_derive, w_assert
    new_eff.get_repr_proc = w_repr
    sched.get_strictest_eqv_proc = w_strictest
    events = []
    named, keyids_by_name, fixed_strict, is_eq_vals, real_part, setup_error = {}, {}, {}, None, "", None

    class _Timeout(Exception):
        pass

    def _alarm(signum, frame):
        raise _Timeout()

    import signal

    old_handler = signal.signal(signal.SIGALRM, _alarm)
    signal.alarm(ctx.scale(240, 900))
    try:
      try:
        with tempfile.TemporaryDirectory() as td:
            modname = f"c11_e2e_{os.getpid()}"
            (Path(td) / f"{modname}.py").write_text(E2E_SRC)
            sys.path.insert(0, td)
            try:
                m = importlib.import_module(modname)
            finally:
                sys.path.remove(td)
            S = importlib.import_module("exo.stdlib.scheduling")
            leaf, other, caller, Cfg = m.leaf, m.other, m.caller, m.CfgA

            def attempt(name, f):
                try:
                    r = f()
                    events.append((name, "ok"))
                    ctx.count("e2e:" + name + ":ok")
                    return r
                except Exception as e:  # noqa
                    events.append((name, type(e).__name__))
                    ctx.count("e2e:" + name + ":" + type(e).__name__)
                    return None

            leaf2 = attempt("rename", lambda: S.rename(leaf, "leaf2"))
            leaf3 = attempt("write_config.x", lambda: S.write_config(leaf2, leaf2.find("tmp = _").after(), Cfg, "x", "tmp"))
            leaf4 = attempt("write_config.y", lambda: S.rename(S.write_config(leaf3, leaf3.find("tmp = _").after(), Cfg, "y", "tmp"), "leaf4"))
            leaf5 = attempt("simplify", lambda: S.simplify(leaf))
            pe_leaf = attempt("partial_eval", lambda: leaf.partial_eval(8))
            tr = attempt("transpose", lambda: caller.transpose(caller.args()[2]))
            # add_assertion narrows the admissible inputs: a new origin, like partial_eval / transpose
            aa_leaf = attempt("add_assertion", lambda: leaf.add_assertion(f"{leaf.args()[0].name()} >= 1"))
            # call_eqv: equivalent modulo {} / modulo {x} / modulo {x,y} / not equivalent / new origin
            c2 = attempt("call_eqv.leaf2", lambda: S.call_eqv(caller, "leaf(_, _)", leaf2))
            c3 = attempt("call_eqv.leaf3", lambda: S.call_eqv(caller, "leaf(_, _)", leaf3))
            c4 = attempt("call_eqv.leaf4", lambda: S.call_eqv(caller, "leaf(_, _)", leaf4))
            cX = attempt("call_eqv.other", lambda: S.call_eqv(caller, "leaf(_, _)", other))
            cP = attempt("call_eqv.partial_eval", lambda: S.call_eqv(caller, "leaf(_, _)", pe_leaf)) if pe_leaf else None
            attempt("unsafe_assert_eq", lambda: other.unsafe_assert_eq(leaf5 or leaf))
            cY = attempt("call_eqv.other.after_assert", lambda: S.call_eqv(caller, "leaf(_, _)", other))
            if c4 is not None and c2 is not None:
                attempt("call_eqv.back", lambda: S.call_eqv(c4, "leaf4(_, _)", leaf2))
            is_eq_vals = [attempt("is_eq", lambda: leaf.is_eq(leaf)), attempt("is_eq", lambda: leaf.is_eq(leaf2))]
            cA = attempt("call_eqv.add_assertion", lambda: S.call_eqv(caller, "leaf(_, _)", aa_leaf)) if aa_leaf else None
            named = dict(leaf=leaf, leaf2=leaf2, leaf3=leaf3, leaf4=leaf4, leaf5=leaf5, pe_leaf=pe_leaf, tr=tr, aa_leaf=aa_leaf,
                         c2=c2, c3=c3, c4=c4, other=other, caller=caller)
            # answers after the fixed scenario (before the random tail changes the relation)
            for a, b in [("leaf", "leaf2"), ("leaf", "leaf3"), ("leaf", "leaf4"), ("leaf", "pe_leaf"), ("leaf", "aa_leaf"), ("leaf", "other"),
                         ("caller", "tr"), ("caller", "c2"), ("caller", "c4")]:
                if named.get(a) is not None and named.get(b) is not None:
                    try:
                        w_strictest(named[a]._loopir_proc, named[b]._loopir_proc)
                        fixed_strict[(a, b)] = real_outs[-1]
                    except Exception as e:  # noqa
                        fixed_strict[(a, b)] = real_outs[-1]
            for k in list(keyids):
                keyids_by_name[str(k)] = keyids[k]
            # a random tail of scheduling operations over the same families
            leafs = [x for x in (leaf, leaf2, leaf3, leaf4, leaf5, other) if x is not None]
            callers = [(x, nm) for x, nm in ((caller, "leaf"), (c2, "leaf2"), (c3, "leaf2"), (c4, "leaf4"), (cY, "other"))
                       if x is not None]
            rng = ctx.rng
            for step in range(ctx.scale(12, 60)):
                r = rng.random()
                if r < 0.2:
                    x = rng.choice(leafs)
                    y = attempt("rand:rename", lambda: S.rename(x, f"leaf_r{step}"))
                    if y is not None:
                        leafs.append(y)
                elif r < 0.3:
                    x = rng.choice(leafs)
                    y = attempt("rand:simplify", lambda: S.simplify(x))
                    if y is not None:
                        leafs.append(y)
                elif r < 0.55:
                    x, fld = rng.choice(leafs), rng.choice(["x", "y"])
                    y = attempt("rand:write_config", lambda: S.write_config(x, x.find("tmp = _").after(), Cfg, fld, "tmp"))
                    if y is not None:
                        leafs.append(y)
                elif r < 0.63:
                    a, b = rng.choice(leafs), rng.choice(leafs)
                    attempt("rand:unsafe_assert_eq", lambda: a.unsafe_assert_eq(b))
                elif r < 0.7:
                    x = rng.choice(leafs)
                    y = attempt("rand:partial_eval", lambda: x.partial_eval(4))
                    if y is not None:
                        attempt("rand:call_eqv.new_origin", lambda: S.call_eqv(callers[0][0], f"{callers[0][1]}(_, _)", y))
                else:
                    (cv, nm), tgt = rng.choice(callers), rng.choice(leafs)
                    y = attempt("rand:call_eqv", lambda: S.call_eqv(cv, f"{nm}(_, _)", tgt))
                    if y is not None:
                        callers.append((y, tgt.name()))
            # all-pairs queries through the module itself (recorded as history ops)
            plist = list(keep)[:22]
            for a in plist:
                for b in plist:
                    try:
                        w_strictest(a, b)
                    except Exception:  # noqa
                        pass
            allk = list(keyids)
            for k in allk:
                keyids_by_name[str(k)] = keyids[k]
            for a in plist[:6]:
                for b in plist[:6]:
                    for K in ([], allk[:1], allk):
                        try:
                            record(["c", pid(a), pid(b), [kid(k) for k in K]], None,
                                   lambda: pe.check_eqv_proc(a, b, frozenset(K)),
                                   lambda r: "T" if r is True else "F" if r is False else "X")
                        except Exception:  # noqa
                            pass
            try:
                real_part = _part_inproc(pe, pid, kid)
            except Exception as e:  # noqa
                real_part = "E" + type(e).__name__
      except InfraError:
        raise
      except _Timeout:
        setup_error = "timeout (a call into exo did not return)"
      except Exception as e:  # noqa: a mutated tree may raise anywhere, also outside `attempt`
        setup_error = f"{type(e).__name__}: {e}"
    finally:
        signal.alarm(0)
        signal.signal(signal.SIGALRM, old_handler)
        API.decl_new_proc, API.derive_proc, API.assert_eqv_proc = orig["decl"], orig["derive"], orig["asrt"]
        new_eff.get_repr_proc = orig["repr"]
        sched.get_strictest_eqv_proc = orig["strictest"]

    ev = dict(events)
    info = {"events": events, "ops": len(hist), "procs": len(ids), "fields": {str(k): v for k, v in keyids.items()},
            "recorded_calls": {t: sum(1 for op in hist if op[0] == t) for t in "drasgc"}}
    ctx.extra["call_sites"] = info
    replay = {"kind": "call_sites", "history": hist, "orders": orders, "real_outs": real_outs, "events": events}
    if setup_error is not None:
        ctx.violation("call-site:scenario-aborted", f"call-site scenario aborted: {setup_error}", replay)
        return None
    # expectations about the scenario itself (what the property says about the call sites)
    expect = {"rename": "ok", "write_config.x": "ok", "write_config.y": "ok", "call_eqv.leaf2": "ok",
              "call_eqv.leaf3": "ok", "call_eqv.leaf4": "ok", "call_eqv.back": "ok",
              "call_eqv.other": "SchedulingError", "call_eqv.other.after_assert": "ok", "partial_eval": "ok"}
    for k, v in expect.items():
        if ev.get(k) != v:
            ctx.violation(f"call-site:{k}", f"call site scenario: {k} gave {ev.get(k)}, expected {v}", replay)
    # what the scheduling ops must have recorded: write_config(CfgA.x) disturbs (at most and at least) CfgA.x
    def strictest_of(a, b):
        return fixed_strict.get((a, b))

    kx, ky = keyids_by_name.get("CfgA_x", "<CfgA_x>"), keyids_by_name.get("CfgA_y", "<CfgA_y>")
    want = {("leaf", "leaf2"): "S1:", ("leaf", "leaf3"): f"S1:{kx}", ("leaf", "leaf4"): f"S1:{kx},{ky}",
            ("leaf", "pe_leaf"): "S0:", ("leaf", "aa_leaf"): "S0:", ("leaf", "other"): "S1:", ("caller", "tr"): "S0:", ("caller", "c2"): "S1:",
            ("caller", "c4"): f"S1:{kx},{ky}"}
    for (a, b), w in want.items():
        got = strictest_of(a, b)
        ctx.count("e2e:expect:" + ("ok" if got == w else "bad"))
        if got != w:
            ctx.violation(f"call-site:recorded:{a}-{b}",
                          f"after the scenario get_strictest_eqv_proc({a}, {b}) = {got}, expected {w}", replay)
    if is_eq_vals != [True, True]:
        ctx.violation("API.is_eq:never-true",
                      f"Procedure.is_eq(p, p) and p.is_eq(rename(p)) returned {is_eq_vals}, expected True (API.py:363 compares the bool from check_eqv_proc with frozenset())",
                      {"python": "from exo import proc\n@proc\ndef f(): pass\nassert f.is_eq(f)"})
    if ev.get("add_assertion") == "ok" and ev.get("call_eqv.add_assertion") == "ok":
        ctx.violation("call-site:call_eqv.add_assertion", "call_eqv accepted a proc of a new origin (after add_assertion)", replay)
    if ev.get("partial_eval") == "ok" and ev.get("call_eqv.partial_eval") == "ok":
        ctx.violation("call-site:call_eqv.partial_eval", "call_eqv accepted a proc of a new origin (after partial_eval)", replay)
    # reference
    real = {"orders": orders, "answer": ";".join(real_outs) + " #  # " + real_part}
    v = reference_verdict(hist, real)
    ctx.evaluated(("call_sites", len(hist)), nontrivial=len(keyids) >= 1 and len(hist) > 20)
    if v is not None:
        ctx.violation("call-site:real-vs-closure:" + v[0], "call sites: " + v[1], replay)
    # model
    ans = lean_batch(DRIVER, [lean_line(hist, orders)])[0]
    model_outs = ans.split(" # ")[0].strip().split(";")
    if model_outs == real_outs and ans.split(" # ")[2].strip() != real_part:
        return ("call-sites", "model and real partitions differ after the recorded call-site history", replay)
    if model_outs != real_outs:
        bad = [i for i, (a, b) in enumerate(zip(model_outs, real_outs)) if a != b][:3]
        return ("call-sites", f"model and real differ on recorded call-site history at ops {bad}: "
                + "; ".join(f"{hist[i]} model={model_outs[i]} real={real_outs[i]}" for i in bad), replay)
    return None


def _part_inproc(pe, pid, kid):
    """canonical partition of the real module's union-finds (in-process, procs named by pid)"""
    def part(uf):
        look = dict(uf.lookup.items())
        root = {}
        for v in look:
            x, n = v, 0
            while look[x] is not x and n <= len(look) + 1:
                x, n = look[x], n + 1
            root[id(v)] = x
        rep = {}
        for v in look:
            r = id(root[id(v)])
            rep[r] = min(rep.get(r, pid(v)), pid(v))
        return ",".join(f"{pid(v)}={rep[id(root[id(v)])]}" for v in sorted(look, key=pid))

    labelled = [("strict", pe._UF_Strict), ("unv", pe._UF_Unv)] + [(str(kid(k)), u) for k, u in pe._UF_Unv_key.items()]
    return "|".join(f"{l}:{part(u)}" for l, u in labelled)


# --------------------------------------------------------------------------------------------
def run(ctx):
    import_exo()
    ctx.rule = (
        "a case is one history (sequence of decl_new_proc / derive_proc / assert_eqv_proc / check_eqv_proc / "
        "get_strictest_eqv_proc / get_repr_proc calls over integer-tagged proc objects and integer fields); distinct = "
        "distinct op sequence; non-trivial = at least one positive and one negative equivalence answer, or "
        "two different per-field partitions"
    )
    ctx.assumptions += [
        "procs are compared by identity (LoopIR.proc.__hash__ is id(self)); the harness uses plain objects with the same property",
        "weak references of WeakKeyDictionary are not modelled: a collected proc cannot be mentioned again and links only point to roots-at-the-time",
        "the per-field statement (1) is the property; the literal single-walk reading is false on assert-cycles (Lean: single_path_converse_fails_on_cycle) and its forest converse is not proved",
        "semantic soundness (3) is relative to the recorded steps being semantically what they claim (that is C01-C10's job, and unsafe_assert_eq is the user's)",
    ]
    ctx.trusted += [
        "lean/Drivers/C11.lean (text protocol, canonical partition printer)",
        "harness/props/c11_worker.py (drives the real module; resets its three globals per history)",
        "frozenset iteration order is taken from the real run and handed to the model as a list",
    ]

    # 1. proof obligations --------------------------------------------------------------
    broken = ctx.lean_obligations(["ExoModel.Props.C11"])
    for b in broken:
        ctx.count("obligation-broken")

    # replay mode ------------------------------------------------------------------------
    if ctx.replay:
        rep = json.loads(Path(ctx.replay).read_text()).get("replay") or {}
        hists = [rep["history"]] if "history" in rep else []
    else:
        hists = None

    # 2. correspondence ------------------------------------------------------------------
    if hists is None:
        n = ctx.scale(600, 8000)
        hists = []
        for i in range(n):
            if ctx.quick:
                nops = ctx.rng.choice([6, 12, 20, 30, 40])
            else:
                nops = ctx.rng.choice([8, 20, 40, 40, 80, 120, 200])
            hists.append(gen_history(ctx.rng, nops, ctx.rng.randrange(0, 7)))
        # a few fixed shapes: diamond through an assert, late first mention after a long chain
        hists.append([["d", 1], ["r", 1, 2, [4]], ["r", 1, 3, [5]], ["a", 3, 2, []], ["c", 1, 2, []], ["s", 1, 2]])
        hists.append([["d", 1]] + [["r", i, i + 1, []] for i in range(1, 30)] + [["r", 30, 31, [7]], ["c", 1, 31, []],
                     ["c", 1, 31, [7]], ["c", 1, 30, []], ["s", 1, 31], ["g", 31], ["c", 1, 31, [8]]])
    tie_break = None
    real = run_real(hists)
    usable = [(h, r) for h, r in zip(hists, real) if "fatal" not in r]
    model = run_model([h for h, _ in usable], [r["orders"] for _, r in usable]) if usable else []
    model_of = {id(h): m for (h, _), m in zip(usable, model)}
    for h, r in zip(hists, real):
        key = json.dumps(h)
        v = reference_verdict(h, r)
        for op in h:
            ctx.count("op:" + op[0])
        if v is not None:
            ctx.count("real-vs-closure:" + v[0])
            ctx.violation("real-vs-closure:" + v[0],
                          f"real proc_eqv disagrees with the closure of the recorded steps: {v[1]}",
                          {"history": h, "real": r})
            ctx.evaluated(key)
            continue
        outs = r["answer"].split(" # ")[0].split(";")
        pos = any(o == "T" or o.startswith("S1") for o in outs)
        neg = any(o == "F" or o.startswith("S0") for o in outs)
        parts = set(x.split(":", 1)[1] for x in r["answer"].split(" # ")[2].split("|"))
        ctx.evaluated(key, nontrivial=(pos and neg) or len(parts) > 1)
        for o in outs:
            ctx.count("out:" + (o[:2] if o[0] in "SE" else o[0]))
        ctx.count("fields-known:" + str(len(r["answer"].split(" # ")[1].split("|")) - 2))
        m = model_of.get(id(h))
        if m != r["answer"]:
            ms, rs = m.split(" # "), r["answer"].split(" # ")
            what = "outs" if ms[0] != rs[0] else "partition" if ms[2] != rs[2] else "parent-dict"
            ctx.count("model-vs-real:" + what)
            if tie_break is None:
                tie_break = (what, f"model and real differ ({what}) while real agrees with the closure",
                             {"history": h, "real": r["answer"], "model": m})
        elif len(h) > 5:
            ctx.sample({"history": lean_line(h, r["orders"]), "answer": r["answer"]}, limit=3)

    # 3. call sites ----------------------------------------------------------------------
    hung = any("timeout" in r.get("fatal", "") for r in real)
    if hung:
        ctx.count("call-sites:skipped-after-timeout")
    if not ctx.replay and not hung:
        tb = call_sites(ctx)
        if tb is not None and tie_break is None:
            tie_break = tb

    # 4. search when something broke ----------------------------------------------------
    if (tie_break is not None or broken) and not any(not v["no_input"] for v in ctx.violations):
        n = ctx.scale(600, 4000)
        extra = [gen_history(ctx.rng, ctx.rng.choice([10, 25, 40, 80]), ctx.rng.randrange(0, 7)) for _ in range(n)]
        found = False
        for h, r in zip(extra, run_real(extra)):
            ctx.count("search:histories")
            v = reference_verdict(h, r)
            ctx.evaluated(json.dumps(h))
            if v is not None:
                found = True
                ctx.violation("real-vs-closure:" + v[0],
                              f"real proc_eqv disagrees with the closure of the recorded steps: {v[1]}",
                              {"history": h, "real": r})
        if not found:
            if tie_break is not None:
                ctx.violation("correspondence:" + tie_break[0], tie_break[1], tie_break[2], no_input=True)
            for b in broken:
                ctx.violation("obligation:" + b[:60], f"Lean obligation broken: {b}", {"obligation": b}, no_input=True)
