"""C19 — signature- and annotation-changing utilities keep the loop nest.

Parts
  1. obligations    : lake build + axiom audit of ExoModel.Props.C19 (substitution / coincidence lemmas,
                      partial_eval, parallelize_loop, rename, set_window, add_assertion, transpose).
  2. correspondence : for every program (harness/pool.py + generated ones, built through the real front
                      end) and every applicable (utility, arguments): the REAL utility is run, its result
                      exported (harness/export_ir.py) and compared field by field with the output of
                      the Lean model (Drivers/C19.lean over ExoModel/SigOps.lean); a refusal of the real
                      code (exception class) is compared with the model's refusal.  For make_instr /
                      set_precision / set_memory (fields the mirror does not have) the tie is "the export
                      is unchanged" plus a table of declared/used precisions and memories in which only
                      the targeted declaration (and the uses of that Sym) may change.
  3. search (always): original and derived procedure are both run in the Lean reference interpreter on
                      inputs RELATED by the documented change of signature
                        partial_eval : original gets a valid input, derived the same input without the
                                       fixed arguments (values taken from the valid input; additionally
                                       values from [-2, 6] overriding it, where results must still agree
                                       exactly unless a fixed size is <= 0)
                        transpose    : derived gets the same buffers, the view of the argument with its
                                       two (extent, stride) pairs swapped
                        add_assertion: same input; equal results where the assertion (evaluated by
                                       Python on the input) holds, rejected where it does not
                        rename / make_instr / set_* / parallelize_loop : same input, equal results
                      results must be EQUAL (final buffers and configuration, or both tripping a monitor).
                      A difference is a concrete violation whose replay holds source, utility, arguments,
                      the input pair and both results.
  4. near misses    : partial_eval of a numeric / unknown / stride argument, transpose of 1-D / 3-D /
                      control arguments, of a buffer passed to a callee, of a buffer with a 2-interval
                      window; add_assertion with unknown names; set_window on scalars / allocations;
                      parallelize_loop on a non-loop.  Real and model must both refuse.
"""
from __future__ import annotations

import itertools
import json
import traceback

from common import import_exo, LeanDriver, InfraError
import exo_build
import export_ir
import interp as interp_mod
import pool as pool_mod
import stream

DRIVER = "Drivers/C19.lean"

KEY_STALE = "transpose:assert-on-stride-not-rewritten"


# ------------------------------------------------------------------------------------------------
# generated programs
# ------------------------------------------------------------------------------------------------
def gen_programs(rng, count):
    """source texts (last @proc is the target) exercising what the utilities touch: control
    arguments in shapes / asserts / bounds / conditions / indices / call arguments / config writes,
    bool arguments, 2-D tensors and windows (accesses, reduces, windows with one and two intervals,
    stride expressions in body and asserts), buffers passed to callees, 1-D / 3-D tensors, scalars"""
    out = []
    for k in range(count):
        t = k % 8
        c = rng.randint(0, 2)
        c2 = rng.randint(1, 3)
        win = rng.random() < 0.6
        A = "[f32][n, m]" if win else "f32[n, m]"
        if t == 0:
            sa = rng.choice(["", "    assert stride(A, 1) == 1\n", "    assert stride(A, 1) == 2\n"]) if win else \
                rng.choice(["", "    assert stride(A, 1) == 1\n"])
            body_extra = rng.choice([
                "    if b:\n        x[0] = A[0, 0]\n",
                "    x[k] = 2.0\n",
                "    w = A[k, 0:m]\n    for j in seq(0, m):\n        w[j] += 1.0\n",
                "    for j in seq(0, m):\n        A[k, j] += x[k]\n",
            ])
            src = f'''
@proc
def gen{k}(n: size, m: size, k: index, b: bool, A: {A}, B: [f32][m, n], x: f32[n], a: f32):
    assert k >= 0
    assert k < n
{sa}    for i in seq(0, n):
        for j in seq(0, m):
            A[i, j] = B[j, i] * a + x[i]
{body_extra}'''
        elif t == 1:
            src = f'''
@proc
def gen{k}(n: size, m: size, c: index, A: f32[n, m], y: f32[m + {c2}], out: f32[n]):
    assert c >= 0
    assert c <= {c2}
    for i in seq(0, n):
        t: f32
        t = 0.0
        for j in seq(0, m):
            t += A[i, j] * y[j + c]
        out[i] = t
    for i in seq(0, n):
        t: f32
        t = out[i]
        out[i] = t * t
'''
        elif t == 2:
            src = f'''
@proc
def sub{k}(n: size, k: index, r: [f32][n]):
    assert k >= 0
    for i in seq(0, n):
        if i < k:
            r[i] = r[i] + 1.0

@proc
def gen{k}(n: size, m: size, k: index, A: f32[n, m], z: f32[m], C: f32[m, n]):
    assert k >= 0
    for i in seq(0, n):
        sub{k}(m, k, A[i, 0:m])
    sub{k}(m, k + {c}, z[0:m])
    for i in seq(0, n):
        for j in seq(0, m):
            C[j, i] = z[j]
'''
        elif t == 3:
            src = f'''
@proc
def gen{k}(n: size, lo: index, b: bool, c: bool, T: f32[n, 2, 3], x: f32[n + 2]):
    assert lo >= 0
    assert lo <= n
    for i in seq(lo, n):
        if b:
            x[i] = T[i, 1, 2]
        else:
            x[i + 2] = T[i, 0, {c}]
    if c:
        x[0] = 0.0
'''
        elif t == 4:
            two = rng.random() < 0.4
            tail = "    v = A[0:n, 0:m]\n    v[0, 0] = 1.0\n" if two else "    u = A[0, 0:m]\n    u[0] = x[0]\n"
            src = f'''
@proc
def gen{k}(n: size, m: size, A: {A}, x: f32[n]):
    for j in seq(0, m):
        w = A[0:n, j]
        for i in seq(0, n):
            x[i] += w[i]
{tail}'''
        elif t == 5:
            sa = rng.choice(["    assert stride(A, 1) == 2\n", "    assert stride(A, 1) == 1\n",
                             "    assert stride(A, 1) == 1\n    assert stride(x, 0) == 1\n"])
            src = f'''
@proc
def gen{k}(n: size, m: size, A: [f32][n, m], x: [f32][n]):
{sa}    for i in seq(0, n):
        if i < m:
            x[i] = A[i, i]
        else:
            x[i] = A[i, m - 1] * 2.0
'''
        elif t == 6:
            src = f'''
@config
class Cfg{k}:
    k: index
    s: f32

@proc
def gen{k}(n: size, k: index, b: bool, x: f32[2 * n + 1], s: f32):
    assert k >= 0
    assert k <= n
    Cfg{k}.k = k
    if b:
        Cfg{k}.s = s
    for i in seq(0, n):
        x[2 * i + 1] = x[i + k] + Cfg{k}.s
    for i in seq(0, (n + 1) / 2):
        x[i] = x[i] * 2.0
'''
        else:
            src = f'''
@proc
def gen{k}(n: size, m: size, p: size, b: bool, A: {A}, D: f32[m, p], y: f32[n]):
    assert p <= m
    for i in seq(0, n):
        for j in seq(0, p):
            if b:
                y[i] += A[i, j] * D[j, j]
            else:
                A[i, j] = D[m - 1 - j, j]
    for q in seq(0, p):
        D[q, 0] = 0.0
'''
        out.append((f"gen{k}", src))
    return out


# ------------------------------------------------------------------------------------------------
# helpers
# ------------------------------------------------------------------------------------------------
class Model:
    def __init__(self):
        self.drv = LeanDriver(DRIVER)

    def ask(self, req):
        r = json.loads(self.drv.ask(json.dumps(req, separators=(",", ":"))))
        if "bad" in r:
            raise InfraError(f"C19 driver rejected request {req.get('op')}: {r['bad']}")
        return r

    def close(self):
        self.drv.close()


class Interp19(interp_mod.Interp):
    """the reference interpreter served by the C19 driver (same `exec` protocol as Drivers/Sem)"""

    def __init__(self, drv):
        self.drv = drv

    def close(self):
        pass


def exc_class(e):
    return type(e).__name__


def call_real(fn):
    """-> ("ok", value) | ("exc", class name, message)"""
    try:
        return ("ok", fn())
    except BaseException as e:  # a mutated tree may raise anything
        if isinstance(e, (KeyboardInterrupt, SystemExit, MemoryError)):
            raise
        return ("exc", exc_class(e), str(e)[:200])


def call2(fn):
    """-> ("ok", value) | ("exc", "Class: message")"""
    r = call_real(fn)
    return r if r[0] == "ok" else ("exc", f"{r[1]}: {r[2]}")


def same_result(ra, rb, exact_err=True):
    """None if the two run results are equal, else a description"""
    if "ok" in ra:
        if "ok" not in rb:
            return f"original runs, derived gives {json.dumps(rb)[:80]}"
        ha, hb = ra["ok"]["heap"], rb["ok"]["heap"]
        if ha != hb:
            for k, (x, y) in enumerate(zip(ha, hb)):
                if x != y:
                    for c, (u, v) in enumerate(zip(x, y)):
                        if u != v:
                            return f"buffer {k} cell {c}: original {u} derived {v}"
            return "heaps differ in shape"
        ca = sorted(map(tuple, ra["ok"]["cfg"]))
        cb = sorted(map(tuple, rb["ok"]["cfg"]))
        if ca != cb:
            return f"configuration differs: {ca} vs {cb}"
        return None
    if "err" in ra:
        if "err" not in rb:
            return f"original trips {ra['err']}, derived gives {json.dumps(rb)[:80]}"
        if exact_err and ra["err"] != rb["err"]:
            return f"original trips {ra['err']}, derived trips {rb['err']}"
        return None
    if "invalid" in ra:
        if "invalid" not in rb:
            return f"original rejects the input ({ra['invalid']}), derived gives {json.dumps(rb)[:80]}"
        return None
    return f"unexpected result {ra}"


def mentions_stride(e, symk):
    if isinstance(e, list):
        if e and e[0] == "stride" and tuple(e[1]) == symk:
            return True
        return any(mentions_stride(x, symk) for x in e)
    return False


def annot_table(ir):
    """declared and used precisions / memories of the real LoopIR, in traversal order"""
    from exo.core.LoopIR import LoopIR, T

    def base(t):
        if isinstance(t, T.Tensor):
            return str(t.type)
        if isinstance(t, T.Window):
            return f"{t.as_tensor.type}|{t.src_type.type}"
        return str(t)

    def memn(m):
        return None if m is None else m.name()

    decls, uses = [], []

    def ex(e):
        if isinstance(e, LoopIR.Read):
            if e.type.is_numeric():
                uses.append((export_ir.sym(e.name), "r", base(e.type)))
            for i in e.idx:
                ex(i)
        elif isinstance(e, LoopIR.WindowExpr):
            uses.append((export_ir.sym(e.name), "win", base(e.type)))
            for w in e.idx:
                if isinstance(w, LoopIR.Point):
                    ex(w.pt)
                else:
                    ex(w.lo)
                    ex(w.hi)
        elif isinstance(e, LoopIR.BinOp):
            ex(e.lhs)
            ex(e.rhs)
        elif isinstance(e, LoopIR.USub):
            ex(e.arg)
        elif isinstance(e, LoopIR.Extern):
            for a in e.args:
                ex(a)

    def st(ss):
        for s in ss:
            if isinstance(s, (LoopIR.Assign, LoopIR.Reduce)):
                uses.append((export_ir.sym(s.name), "w", base(s.type)))
                for i in s.idx:
                    ex(i)
                ex(s.rhs)
            elif isinstance(s, LoopIR.Alloc):
                decls.append((export_ir.sym(s.name), base(s.type), memn(s.mem), None))
            elif isinstance(s, LoopIR.If):
                ex(s.cond)
                st(s.body)
                st(s.orelse)
            elif isinstance(s, LoopIR.For):
                ex(s.lo)
                ex(s.hi)
                st(s.body)
            elif isinstance(s, LoopIR.Call):
                for a in s.args:
                    ex(a)
            elif isinstance(s, LoopIR.WindowStmt):
                ex(s.rhs)
            elif isinstance(s, LoopIR.WriteConfig):
                ex(s.rhs)

    for a in ir.args:
        if a.type.is_numeric():
            decls.append((export_ir.sym(a.name), base(a.type), memn(a.mem),
                          bool(a.type.is_window) if isinstance(a.type, T.Tensor) else None))
    st(ir.body)
    return decls, uses


# ------------------------------------------------------------------------------------------------
# one program
# ------------------------------------------------------------------------------------------------
class Prog:
    def __init__(self, name, src, p, exo):
        self.name, self.src, self.p = name, src, p
        self.pj, self.cfgs = export_ir.export(p)
        self.args = self.pj["args"]
        self.ctrl = [(i, tuple(s), ty[1]) for i, (s, ty) in enumerate(self.args) if ty[0] == "ctrl"]


class Checker:
    def __init__(self, ctx, exo):
        self.ctx = ctx
        self.exo = exo
        self.model = Model()
        self.interp = Interp19(self.model.drv)
        self.mismatches = []   # correspondence breaks without a failing input

    # -------------------------------------------------------------- verdict plumbing
    def report(self, prog, op, args, key, what, ia=None, ib=None, ra=None, rb=None, no_input=False, extra=None):
        rep = {"program": prog.name, "source": prog.src, "utility": op, "args": args,
               "input_original": ia, "input_derived": ib, "result_original": ra, "result_derived": rb}
        if extra:
            rep.update(extra)
        self.ctx.violation(key, f"{op}{json.dumps(args)[:80]} on {prog.name}: {what}", rep, no_input=no_input)

    def run_pair(self, prog, qj, ins_a, ins_b, res_a=None):
        """-> list of (ia, ib, ra, rb)"""
        if not ins_a:
            return []
        if res_a is None:
            res_a = self.interp.run(prog.pj, ins_a)
        res_b = self.interp.run(qj, ins_b)
        return list(zip(ins_a, ins_b, res_a, res_b))

    def settle(self, prog, op, args, real, mod, expect_rej, derive_input=None, inputs=None, results=None,
               exact_err=True, key=None, judge=None):
        """common tail of a case: compare real with model, run the search on the real result.
        real: call_real(...) of the utility returning a Procedure; mod: model answer dict;
        expect_rej: {model rej kind: set of acceptable real exception classes}"""
        ctx = self.ctx
        key = key or op
        ctx.count(f"{op}:cases")
        if real[0] == "exc":
            ctx.count(f"{op}:real-refuses:{real[1]}")
            if "rej" in mod and real[1] in expect_rej.get(mod["rej"], ()):
                ctx.count(f"{op}:both-refuse")
                ctx.evaluated((prog.name, op, json.dumps(args, sort_keys=True)), nontrivial=False)
                return None
            self.report(prog, op, args, f"{key}:model-mismatch",
                        f"real code raises {real[1]} ({real[2][:80]}), model answers {json.dumps(mod)[:60]}",
                        no_input=True)
            return None
        q = real[1]
        st, ex = call2(lambda: export_ir.export(q))
        if st == "exc":
            self.report(prog, op, args, f"{key}:result-not-exportable", f"{ex}", no_input=True)
            return None
        qj, _ = ex
        corr = ("ok" in mod and mod["ok"] == qj)
        if corr:
            ctx.count(f"{op}:model-agrees")
        # search: inputs related by the signature change
        found = False
        nontriv = False
        if inputs:
            ins_b = [derive_input(i) for i in inputs] if derive_input else list(inputs)
            for ia, ib, ra, rb in self.run_pair(prog, qj, inputs, ins_b, results):
                ctx.count(f"{op}:pairs-run")
                if "ok" in ra:
                    nontriv = True
                d = judge(ia, ra, rb) if judge else same_result(ra, rb, exact_err)
                if d is not None:
                    k2 = key
                    if isinstance(d, tuple):
                        k2, d = d
                    else:
                        k2 = f"{key}:result-differs"
                    self.report(prog, op, args, k2, d, ia, ib, ra, rb, extra={"derived_proc": qj})
                    found = True
                    break
        ctx.evaluated((prog.name, op, json.dumps(args, sort_keys=True)), nontrivial=nontriv or not inputs)
        if not corr and not found:
            what = "model refuses (%s), real code answers" % mod["rej"] if "rej" in mod else \
                "export of the real result differs from the model's output: " + first_diff(mod.get("ok"), qj)
            self.report(prog, op, args, f"{key}:model-mismatch", what, no_input=True,
                        extra={"real": qj, "model": mod})
        return qj

    # -------------------------------------------------------------- the utilities
    def partial_eval(self, prog, inputs, results):
        ctx, rng = self.ctx, self.ctx.rng
        names = {tuple(s)[0]: s for (s, ty) in prog.args}
        pos = {tuple(s): i for i, (s, ty) in enumerate(prog.args)}
        subsets = []
        cs = prog.ctrl
        for r in (1, 2):
            subsets += list(itertools.combinations(cs, r))
        if len(cs) >= 3 and not ctx.quick:
            subsets.append(tuple(cs[:3]))
        for S in subsets:
            tuples = []
            # values taken from valid inputs (distinct tuples)
            seen = set()
            for k, inp in enumerate(inputs):
                vt = tuple(inp["args"][i]["c"] for (i, _, _) in S)
                if vt not in seen:
                    seen.add(vt)
                    tuples.append((vt, [k]))
                else:
                    for t in tuples:
                        if t[0] == vt:
                            t[1].append(k)
                if len(tuples) >= ctx.scale(2, 4):
                    break
            # one tuple from [-2, 6] (bool: 0/1) overriding a valid input
            vt = tuple((rng.randint(0, 1) if kd == "bool" else rng.randint(-2, 6)) for (_, _, kd) in S)
            if vt not in seen and inputs:
                tuples.append((vt, None))
            for vt, which in tuples:
                kw = {}
                for (i, s, kd), v in zip(S, vt):
                    kw[s[0]] = bool(v) if kd == "bool" else int(v)
                args = {"values": {k: (int(v) if not isinstance(v, bool) else v) for k, v in kw.items()}}
                real = call_real(lambda: prog.p.partial_eval(**kw))
                mod = self.model.ask({"op": "partial_eval", "proc": prog.pj,
                                      "vals": [[list(s), int(v)] for (i, s, kd), v in zip(S, vt)]})
                drop = {i for (i, _, _) in S}
                if which is not None:
                    ins = [inputs[k] for k in which]
                    res = [results[k] for k in which]
                    override = False
                else:
                    base = inputs[rng.randrange(len(inputs))]
                    a2 = [dict(a) for a in base["args"]]
                    for (i, s, kd), v in zip(S, vt):
                        a2[i] = {"c": int(v)}
                    ins = [{"args": a2, "heap": base["heap"], "cfg": base["cfg"]}]
                    res = None
                    override = True
                    ctx.count("partial_eval:override-tuples")

                def derive(inp, drop=drop):
                    return {"args": [a for i, a in enumerate(inp["args"]) if i not in drop],
                            "heap": inp["heap"], "cfg": inp["cfg"]}

                def judge(ia, ra, rb, S=S, vt=vt, override=override):
                    if override and "invalid" in ra and ra["invalid"] == "nonPosSize" and \
                            any(kd == "size" and v <= 0 for (_, _, kd), v in zip(S, vt)):
                        ctx.count("partial_eval:vacuous-nonpositive-size")
                        return None
                    return same_result(ra, rb, True)

                self.settle(prog, "partial_eval", args, real, mod,
                            {"unknownArg": {"KeyError"}, "notControl": {"SchedulingError"}},
                            derive, ins, res, judge=judge)
        # near misses
        near = []
        for (s, ty) in prog.args:
            if ty[0] != "ctrl":
                near.append(({s[0]: 1}, [[list(s), 1]]))
                break
        near.append(({"no_such_arg": 3}, [[["no_such_arg", 0], 3]]))
        for (s, ty) in prog.args:
            if ty[0] == "ctrl" and ty[1] == "stride":
                near.append(({s[0]: 1}, [[list(s), 1]]))
        for kw, vals in near:
            real = call_real(lambda: prog.p.partial_eval(**kw))
            mod = self.model.ask({"op": "partial_eval", "proc": prog.pj, "vals": vals})
            ctx.count("partial_eval:near-miss")
            if real[0] == "ok" and "rej" in mod:
                self.report(prog, "partial_eval", {"values": kw}, "partial_eval:near-miss-accepted",
                            f"real code accepts what the model refuses ({mod['rej']})", no_input=True)
            else:
                self.settle(prog, "partial_eval", {"values": kw}, real, mod,
                            {"unknownArg": {"KeyError"}, "notControl": {"SchedulingError"}})

    def transpose(self, prog, inputs, results):
        ctx = self.ctx
        acs = call_real(lambda: list(prog.p.args()))
        if acs[0] != "ok":
            self.report(prog, "transpose", {}, "transpose:args-cursor", acs[2], no_input=True)
            return
        for i, ((s, ty), ac) in enumerate(zip(prog.args, acs[1])):
            two_d = ty[0] == "tensor" and len(ty[1]) == 2
            if not two_d and ty[0] == "ctrl" and i > 0 and ctx.quick:
                continue  # one control near-miss per program is enough in the quick tier
            args = {"arg": s[0]}
            real = call_real(lambda: prog.p.transpose(ac))
            mod = self.model.ask({"op": "transpose", "proc": prog.pj, "arg": list(s)})
            symk = tuple(s)
            stale = any(mentions_stride(e, symk) for e in prog.pj["preds"])

            def derive(inp, i=i):
                a2 = [dict(a) for a in inp["args"]]
                v = dict(a2[i]["v"])
                v["dims"] = list(reversed(v["dims"]))
                a2[i] = {"v": v}
                return {"args": a2, "heap": inp["heap"], "cfg": inp["cfg"]}

            def judge(ia, ra, rb, stale=stale):
                d = same_result(ra, rb, exact_err=False)
                if d is not None and stale and "ok" in ra and "invalid" in rb:
                    return (KEY_STALE, "the result keeps `stride(%s, d)` in an assertion with the old dimension "
                            "number: the transposed form of an admissible input is rejected (%s)" % (s[0], rb["invalid"]))
                if d is not None and stale:
                    return (KEY_STALE, d)
                return d

            if not two_d:
                ctx.count("transpose:near-miss")
            self.settle(prog, "transpose", args, real, mod,
                        {"notTensor2D": {"TypeError", "AssertionError"},
                         "passedToCall": {"SchedulingError"}, "windowIntervals": {"SchedulingError"},
                         "unknownArg": {"KeyError", "TypeError"}},
                        derive, inputs if two_d else None, results if two_d else None,
                        exact_err=False, judge=judge)

    def add_assertion(self, prog, inputs, results):
        ctx, rng = self.ctx, self.ctx.rng
        cands = []   # (text, python predicate over (env: name->int, strides: (name,d)->int))
        sizes = [s[0] for (_, s, kd) in prog.ctrl if kd == "size"]
        idxs = [s[0] for (_, s, kd) in prog.ctrl if kd in ("index", "int")]
        bools = [s[0] for (_, s, kd) in prog.ctrl if kd == "bool"]
        for n in sizes:
            c = rng.randint(1, 5)
            cands.append((f"{n} <= {c}", lambda e, st, n=n, c=c: e[n] <= c))
            cands.append((f"{n} % 2 == 0", lambda e, st, n=n: e[n] % 2 == 0))
        for k in idxs:
            c = rng.randint(-1, 3)
            cands.append((f"{k} >= {c}", lambda e, st, k=k, c=c: e[k] >= c))
            if sizes:
                n = sizes[0]
                cands.append((f"{k} + 1 < {n} or {k} == 0", lambda e, st, k=k, n=n: e[k] + 1 < e[n] or e[k] == 0))
        for b in bools:
            cands.append((f"{b} == True", lambda e, st, b=b: e[b] == 1))
        if len(sizes) >= 2:
            n, m = sizes[0], sizes[1]
            cands.append((f"{n} == {m}", lambda e, st, n=n, m=m: e[n] == e[m]))
            cands.append((f"{n} + {m} <= 6 and {n} < 2 * {m}", lambda e, st, n=n, m=m: e[n] + e[m] <= 6 and e[n] < 2 * e[m]))
        for (s, ty) in prog.args:
            if ty[0] == "tensor":
                d = len(ty[1]) - 1
                cands.append((f"stride({s[0]}, {d}) == 1", lambda e, st, a=s[0], d=d: st[(a, d)] == 1))
                break
        rng.shuffle(cands)
        for text, pred in cands[: ctx.scale(3, 6)]:
            real = call_real(lambda: prog.p.add_assertion(text))
            if real[0] == "ok":
                st, ex = call2(lambda: export_ir.export(real[1]))
                pe = ex[0]["preds"][-1] if st == "ok" and ex[0]["preds"] else ["bool", True]
            else:
                pe = ["bool", True]
            mod = self.model.ask({"op": "add_assertion", "proc": prog.pj, "pred": pe})

            def judge(ia, ra, rb, pred=pred, text=text):
                env, strides = {}, {}
                for (s, ty), a in zip(prog.args, ia["args"]):
                    if "c" in a:
                        env[s[0]] = a["c"]
                    else:
                        for d, (ext, sd) in enumerate(a["v"]["dims"]):
                            strides[(s[0], d)] = sd
                holds = bool(pred(env, strides))
                if "invalid" in ra:
                    return None
                if holds:
                    ctx.count("add_assertion:input-satisfies")
                    return same_result(ra, rb, True)
                ctx.count("add_assertion:input-excluded")
                if "invalid" in rb:
                    return None
                return f"input violates `{text}` but the derived procedure accepts it ({json.dumps(rb)[:60]})"

            self.settle(prog, "add_assertion", {"assertion": text}, real, mod, {}, None, inputs, results, judge=judge)
        # observation (not a C19 violation: the admissible set still only shrinks): add_assertion does not
        # type-check the parsed fragment, so a non-boolean or data-valued "assertion" is accepted
        for (s, ty) in prog.args:
            if ty[0] == "tensor" and len(ty[1]) == 1:
                r = call_real(lambda: prog.p.add_assertion(f"{s[0]}[0] > 0.0"))
                ctx.count("add_assertion:data-valued-predicate-" + ("accepted" if r[0] == "ok" else "refused:" + r[1]))
                break
        if idxs:
            r = call_real(lambda: prog.p.add_assertion(f"{idxs[0]} + 1"))
            ctx.count("add_assertion:non-boolean-predicate-" + ("accepted" if r[0] == "ok" else "refused:" + r[1]))
        for bad in ["no_such_name > 0", "zz_i < 3 and 1 == 1"]:
            real = call_real(lambda: prog.p.add_assertion(bad))
            ctx.count("add_assertion:near-miss")
            if real[0] == "ok":
                self.report(prog, "add_assertion", {"assertion": bad}, "add_assertion:near-miss-accepted",
                            "an assertion over unknown names is accepted", no_input=True)
            else:
                ctx.count(f"add_assertion:real-refuses:{real[1]}")
                ctx.evaluated((prog.name, "add_assertion", bad), nontrivial=False)

    def simple_ops(self, prog, inputs, results):
        """rename, make_instr, set_precision, set_memory, set_window, parallelize_loop"""
        ctx, rng = self.ctx, self.ctx.rng
        S = self.exo.stdlib.scheduling
        import exo.API_cursors as C
        import exo.libs.memories as M
        from exo import DRAM

        new = prog.pj["name"] + "_renamed"
        real = call_real(lambda: S.rename(prog.p, new))
        mod = self.model.ask({"op": "rename", "proc": prog.pj, "name": new})
        self.settle(prog, "rename", {"name": new}, real, mod, {}, None, inputs[:2], results[:2])
        real = call_real(lambda: S.rename(prog.p, "1 bad name"))
        ctx.count("rename:near-miss")
        if real[0] == "ok":
            self.report(prog, "rename", {"name": "1 bad name"}, "rename:near-miss-accepted",
                        "a non-identifier is accepted as procedure name", no_input=True)

        real = call_real(lambda: S.make_instr(prog.p, "do_it({n_data});", "#include <x.h>"))
        self.annotation_case(prog, "make_instr", {"c_instr": "do_it({n_data});"}, real, None, inputs, results)

        # declarations
        st, stmts = call2(lambda: list(stream.walk_stmts(prog.p)))
        if st != "ok":
            self.report(prog, "walk", {}, "cursor-walk", stmts, no_input=True)
            return
        decl_targets = []
        acs = list(prog.p.args())
        for (s, ty), ac in zip(prog.args, acs):
            decl_targets.append((["arg", s[0]], list(s), ty, ac))
        for path, c, _ in stmts:
            if isinstance(c, C.AllocCursor):
                decl_targets.append((["alloc", path], None, ["alloc"], c))
        precs = ["f64", "f16", "i8", "i32"]          # never the current one (all programs use f32)
        mems = [M.DRAM_STATIC, M.DRAM_STACK]           # never the current one (DRAM)
        seen_ctrl = False
        for where, sym, ty, cur in decl_targets:
            numeric = ty[0] in ("tensor", "scalar", "alloc")
            if not numeric and (not ctx.quick or not seen_ctrl):
                seen_ctrl = True
                for opn, fn in (("set_precision", lambda: S.set_precision(prog.p, cur, "f64")),
                                ("set_memory", lambda: S.set_memory(prog.p, cur, M.DRAM_STATIC)),
                                ("set_window", lambda: S.set_window(prog.p, cur, True))):
                    real = call_real(fn)
                    ctx.count(f"{opn}:near-miss")
                    if real[0] == "ok":
                        self.report(prog, opn, {"target": where}, f"{opn}:near-miss-accepted",
                                    "a control argument is accepted as target", no_input=True)
                continue
            if not numeric:
                continue
            typ = rng.choice(precs)
            real = call_real(lambda: S.set_precision(prog.p, cur, typ))
            self.annotation_case(prog, "set_precision", {"target": where, "typ": typ}, real,
                                 ("prec", cur, typ), inputs, results)
            mem = rng.choice(mems)
            real = call_real(lambda: S.set_memory(prog.p, cur, mem))
            self.annotation_case(prog, "set_memory", {"target": where, "mem": mem.name()}, real,
                                 ("mem", cur, mem.name()), inputs, results)
            if where[0] == "alloc":
                real = call_real(lambda: S.set_window(prog.p, cur, True))
                ctx.count("set_window:near-miss")
                if real[0] == "ok":
                    self.report(prog, "set_window", {"target": where}, "set_window:near-miss-accepted",
                                "an allocation is accepted as target", no_input=True)
                continue
            for w in (True, False):
                real = call_real(lambda: S.set_window(prog.p, cur, w))
                mod = self.model.ask({"op": "set_window", "proc": prog.pj, "arg": sym, "win": w})
                if ty[0] == "scalar":
                    ctx.count("set_window:near-miss")
                self.settle(prog, "set_window", {"target": where, "win": w}, real, mod,
                            {"crash": {"TypeError"}, "badPath": {"SchedulingError", "TypeError", "AssertionError"}},
                            None, inputs[:2], results[:2])

        # loops
        for path, c, _ in stmts:
            mpath = [[step[0] == "orelse", step[1]] for step in path]
            if isinstance(c, C.ForCursor):
                real = call_real(lambda: S.parallelize_loop(prog.p, c))
                mod = self.model.ask({"op": "par", "proc": prog.pj, "path": mpath})
                self.settle(prog, "parallelize_loop", {"path": path}, real, mod, {}, None, inputs[:2], results[:2])
            elif rng.random() < 0.15:
                real = call_real(lambda: S.parallelize_loop(prog.p, c))
                mod = self.model.ask({"op": "par", "proc": prog.pj, "path": mpath})
                ctx.count("parallelize_loop:near-miss")
                self.settle(prog, "parallelize_loop", {"path": path}, real, mod,
                            {"badPath": {"TypeError", "SchedulingError"}})

    def annotation_case(self, prog, op, args, real, change, inputs, results):
        """make_instr / set_precision / set_memory: the export must be unchanged, the annotation
        table may change only at the target"""
        ctx = self.ctx
        mod = self.model.ask({"op": "annot", "proc": prog.pj})
        qj = self.settle(prog, op, args, real, mod, {}, None, inputs[:2], results[:2])
        if qj is None or change is None or real[0] != "ok":
            return
        kind, cur, val = change
        st, tabs = call2(lambda: (annot_table(prog.p.INTERNAL_proc()), annot_table(real[1].INTERNAL_proc()),
                                      export_ir.sym(cur._impl._node.name)))
        if st != "ok":
            self.report(prog, op, args, f"{op}:annotation-table", f"cannot read annotations: {tabs}", no_input=True)
            return
        (d0, u0), (d1, u1), tsym = tabs
        exp_d, exp_u = [], []
        for (s, b, m, w) in d0:
            if s == tsym:
                exp_d.append((s, val if kind == "prec" else b, val if kind == "mem" else m, w))
            else:
                exp_d.append((s, b, m, w))
        for (s, k, b) in u0:
            if s == tsym and kind == "prec":
                exp_u.append((s, k, f"{val}|{val}" if k == "win" else val))
            else:
                exp_u.append((s, k, b))
        ctx.count(f"{op}:annotation-tables-compared")
        if d1 != exp_d:
            diff = [(a, b) for a, b in zip(d1, exp_d) if a != b][:2]
            self.report(prog, op, args, f"{op}:other-declaration-changed",
                        f"declared precision/memory table differs from 'only the target changes': {diff}",
                        no_input=True, extra={"declared_after": d1, "expected": exp_d})
        elif u1 != exp_u:
            diff = [(a, b) for a, b in zip(u1, exp_u) if a != b][:2]
            self.report(prog, op, args, f"{op}:use-types-inconsistent",
                        f"types at reads/writes differ from 'uses of the target get the new precision': {diff}",
                        no_input=True, extra={"uses_after": u1, "expected": exp_u})

    # -------------------------------------------------------------- driver
    def program(self, prog):
        ctx = self.ctx
        n_in = ctx.scale(4, 8)
        inputs, results = self.interp.gen_inputs(prog.pj, prog.cfgs, ctx.rng, n_in, small=True)
        if len(inputs) < n_in:
            more, mres = self.interp.gen_inputs(prog.pj, prog.cfgs, ctx.rng, n_in - len(inputs), small=False)
            inputs += more
            results += mres
        if not inputs:
            ctx.count("programs-without-valid-input")
        ctx.count("programs")
        ctx.count("inputs", len(inputs))
        self.partial_eval(prog, inputs, results)
        self.transpose(prog, inputs, results)
        self.add_assertion(prog, inputs, results)
        self.simple_ops(prog, inputs, results)


def first_diff(a, b, path="$"):
    if type(a) != type(b):
        return f"{path}: {json.dumps(a)[:50]} vs {json.dumps(b)[:50]}"
    if isinstance(a, dict):
        for k in sorted(set(a) | set(b)):
            if a.get(k) != b.get(k):
                return first_diff(a.get(k), b.get(k), f"{path}.{k}")
        return "equal"
    if isinstance(a, list):
        if len(a) != len(b):
            return f"{path}: lengths {len(a)} vs {len(b)}"
        for i, (x, y) in enumerate(zip(a, b)):
            if x != y:
                return first_diff(x, y, f"{path}[{i}]")
        return "equal"
    return f"{path}: model {a!r} vs real {b!r}" if a != b else "equal"


def build_programs(ctx, exo):
    progs = []
    srcs = [(n, s.replace("{N}", "3")) for n, s in pool_mod.POOL.items()]
    srcs += gen_programs(ctx.rng, ctx.scale(24, 96))
    for name, src in srcs:
        st, mod = call2(lambda: exo_build.build_module(src))
        if st != "ok":
            ctx.count(f"programs-not-built:{mod}")
            continue
        ps = exo_build.procs_of(mod)
        if not ps:
            continue
        p = list(ps.values())[-1]
        st, pr = call2(lambda: Prog(name, src, p, exo))
        if st != "ok":
            ctx.count(f"programs-not-exported:{pr}")
            continue
        progs.append(pr)
    return progs


def replay(ctx, exo, chk):
    obj = json.load(open(ctx.replay))["replay"]
    mod = exo_build.build_module(obj["source"])
    p = list(exo_build.procs_of(mod).values())[-1]
    prog = Prog(obj["program"], obj["source"], p, exo)
    print("replaying", obj["utility"], obj["args"], "on", obj["program"])
    ins = [obj["input_original"]] if obj.get("input_original") else []
    res = chk.interp.run(prog.pj, ins) if ins else []
    if obj["utility"] == "partial_eval":
        chk.partial_eval(prog, ins, res)
    elif obj["utility"] == "transpose":
        chk.transpose(prog, ins, res)
    elif obj["utility"] == "add_assertion":
        chk.add_assertion(prog, ins, res)
    else:
        chk.simple_ops(prog, ins, res)


def run(ctx):
    exo = import_exo()
    import exo.stdlib.scheduling  # noqa
    ctx.rule = ("program = every entry of harness/pool.py + generated procedures (8 families: control arguments in "
                "shapes/asserts/bounds/conditions/indices/call arguments/config writes, bool arguments, 2-D tensors and "
                "windows with stride asserts, callees, 1-D/3-D tensors); case = (program, utility, arguments): "
                "partial_eval for every subset of <= 2 control arguments x value tuples taken from valid inputs plus one "
                "tuple from [-2,6]; transpose for every argument; add_assertion for generated predicates; rename, "
                "make_instr; set_precision / set_memory / set_window for every argument and allocation; "
                "parallelize_loop at every loop; distinct = (program, utility, arguments); non-trivial = the original "
                "runs to completion on at least one of the related inputs")
    ctx.assumptions += [
        "sequential real-number semantics (ExoModel.Sem over exact rationals): set_precision is exact only there",
        "make_instr / set_precision / set_memory change fields the Lean mirror does not carry; their tie is 'export "
        "unchanged' + the table of declared/used precisions and memories changing only at the target",
        "transpose: theorem transpose_run_partial assumes no assertion mentions stride of the transposed argument; "
        "exo does not rewrite assertions (finding " + KEY_STALE + ")",
        "argument names of a procedure are distinct Syms (exo front end)",
    ]
    ctx.trusted += [
        "harness/export_ir.py (drops srcinfo, precisions, memories, instr)",
        "pyparser / parse_fragment (add_assertion's parse is observed through the exported predicate and checked "
        "against a Python evaluation of the assertion text on every input)",
        "Lean drivers' JSON glue (Drivers/C19.lean: reader from ExoModel.Wire, printer, input parser as in Drivers/Sem)",
    ]
    broken = ctx.lean_obligations(["ExoModel.Props.C19"])
    chk = Checker(ctx, exo)
    try:
        if ctx.replay:
            replay(ctx, exo, chk)
        else:
            progs = build_programs(ctx, exo)
            for prog in progs:
                try:
                    chk.program(prog)
                except InfraError:
                    raise
                except Exception:
                    ctx.violation(f"harness:{prog.name}", traceback.format_exc()[-600:],
                                  {"program": prog.name, "source": prog.src}, no_input=True)
            for prog in progs[:3]:
                ctx.sample({"program": prog.name, "args": [a[0][0] for a in prog.args]})
    finally:
        chk.model.close()
    for b in broken:
        ctx.violation("obligation:" + b.split(":")[0] + ":" + b.split(":")[1] if ":" in b else "obligation:" + b,
                      f"Lean obligation broken: {b}", {"obligation": b}, no_input=True)
