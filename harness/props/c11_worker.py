"""C11 worker: replays histories on the REAL exo.core.proc_eqv (fresh module state per history).

usage:  python c11_worker.py <REPO>         (PYTHONPATH must put <REPO>/src first)
stdin : one JSON history per line:  [["d",p], ["r",o,n,[k..]], ["a",p,q,[k..]], ["c",p,q,[k..]],
                                     ["s",p,q], ["g",p]]
stdout: one JSON object per line:
    {"orders": [[k..] per op or null]   iteration order of the frozenset actually passed (assert/derive),
     "answer": "OUTS # DUMP # PART"}    same text format as lean/Drivers/C11.lean
    or {"fatal": "..."} if the module cannot be driven at all.
Exceptions of the real code are data: they become `E<ClassName>` outputs (KeyError -> EkeyError).
"""
import json
import os
import sys


def main():
    repo = os.path.realpath(sys.argv[1])
    try:
        import exo.core.proc_eqv as pe
    except BaseException as e:  # a mutated tree may fail at import
        for line in sys.stdin:
            print(json.dumps({"fatal": f"import failed: {type(e).__name__}: {e}"}), flush=True)
        return
    where = os.path.realpath(pe.__file__)
    if not where.startswith(repo + os.sep):
        for line in sys.stdin:
            print(json.dumps({"infra": f"proc_eqv imported from {where}, expected under {repo}"}), flush=True)
        return

    class P:
        __slots__ = ("i", "__weakref__")

        def __init__(self, i):
            self.i = i

        def __repr__(self):
            return f"P{self.i}"

    def err(e):
        n = type(e).__name__
        return "EkeyError" if n == "KeyError" else "E" + n

    def dump_uf(uf):
        return ",".join(f"{v.i}>{p.i}" for v, p in uf.lookup.items())

    def part_uf(uf):
        look = dict(uf.lookup.items())
        root = {}
        for v in look:
            x, n = v, 0
            while look[x] is not x and n <= len(look) + 1:
                x, n = look[x], n + 1
            root[v] = x
        rep = {}
        for v, r in root.items():
            rep[r] = min(rep.get(r, v.i), v.i)
        return ",".join(f"{v.i}={rep[root[v]]}" for v in sorted(look, key=lambda v: v.i))

    for line in sys.stdin:
        line = line.strip()
        if not line:
            continue
        hist = json.loads(line)
        try:
            # fresh module state (the API functions read these globals at call time)
            pe._UF_Unv = pe._UnionFind()
            pe._UF_Strict = pe._UnionFind()
            pe._UF_Unv_key = dict()
            procs = {}

            def P_(i):
                if i not in procs:
                    procs[i] = P(i)
                return procs[i]

            outs, orders = [], []
            for op in hist:
                t = op[0]
                order = None
                try:
                    if t == "d":
                        r = pe.decl_new_proc(P_(op[1]))
                        o = "N" if r is None else "X" + repr(r)
                    elif t in ("r", "a"):
                        fs = frozenset(op[3])
                        order = list(fs)
                        f = pe.derive_proc if t == "r" else pe.assert_eqv_proc
                        r = f(P_(op[1]), P_(op[2]), fs)
                        o = "N" if r is None else "X" + repr(r)
                    elif t == "c":
                        r = pe.check_eqv_proc(P_(op[1]), P_(op[2]), frozenset(op[3]))
                        o = "T" if r is True else "F" if r is False else "X" + repr(r)
                    elif t == "s":
                        r = pe.get_strictest_eqv_proc(P_(op[1]), P_(op[2]))
                        b, ks = r
                        if b is not True and b is not False:
                            o = "X" + repr(r)
                        else:
                            o = f"S{1 if b else 0}:" + ",".join(str(k) for k in sorted(ks))
                    elif t == "g":
                        r = pe.get_repr_proc(P_(op[1]))
                        o = f"P{r.i}" if isinstance(r, P) else "X" + repr(r)
                    else:
                        raise ValueError(t)
                except Exception as e:  # noqa: exceptions of the real code are data
                    o = err(e)
                outs.append(o)
                orders.append(order)
            labelled = [("strict", pe._UF_Strict), ("unv", pe._UF_Unv)] + [
                (str(k), uf) for k, uf in pe._UF_Unv_key.items()
            ]
            ans = (
                ";".join(outs)
                + " # "
                + "|".join(f"{l}:{dump_uf(u)}" for l, u in labelled)
                + " # "
                + "|".join(f"{l}:{part_uf(u)}" for l, u in labelled)
            )
            print(json.dumps({"orders": orders, "answer": ans}), flush=True)
        except Exception as e:  # the module cannot even be reset / dumped
            print(json.dumps({"fatal": f"{type(e).__name__}: {e}"}), flush=True)


if __name__ == "__main__":
    main()
