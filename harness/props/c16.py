"""C16 — find and cursor navigation are exact.

run(ctx):
  1. proof obligations: ExoModel.Props.C16 (+ builds ExoModel.C16Json for the driver)
  2. correspondence A (find): generated procedures (real @proc, source in a scratch module) x generated
     pattern strings (parsed by the REAL pyparser.pattern, PAST exported as JSON)
        real Procedure.find / find(many=True) / find_all / find_loop / find_alloc_or_arg
        vs  the Lean model (Drivers/C16.lean)  vs  a brute-force search over all positions that uses
        only the real node-level matcher (PatternMatch.match_e / match_stmts).
     real != brute force  -> concrete violation (source, pattern, expected, got)
     real == brute force != model -> correspondence broken (no failing input)
  3. correspondence A (navigation): at EVERY cursor position of each procedure every navigation method
     (internal_cursors.py primitives and the public API_cursors.py methods) is called on the real objects
     and on the model; the inverse laws are also checked directly on the real objects.
"""
from __future__ import annotations

import importlib
import json
import re
import os
import sys
import tempfile
import textwrap
from fractions import Fraction
from pathlib import Path

from common import import_exo, LeanDriver, InfraError, LEAN, REPO, ROOT

# --------------------------------------------------------------------------------------------
# procedure generator (source text)
# --------------------------------------------------------------------------------------------

PRELUDE = '''\
from __future__ import annotations
from exo import proc, config, DRAM
from exo.libs.externs import sin, relu, select

@config
class Cfg:
    a: f32
    b: f32

@config
class Cfh:
    a: f32

@proc
def sub1(n: size, a: [f32][n]):
    for i in seq(0, n):
        a[i] = 0.0

@proc
def sub2(a: f32):
    a = 1.0

'''

DATA_CONSTS = ["0.0", "1.0", "2.0", "3.0", "-3.0", "0.5"]
BINOPS = ["+", "-", "*", "/"]
LOOPVARS = ["i", "j", "k", "ii"]


def r_expr(e):
    """render a source/pattern expression tree to text (fully parenthesised binops)"""
    k = e[0]
    if k == "raw":
        return e[1]
    if k == "const":
        return e[1]
    if k == "read":
        return e[1] + ("[" + ", ".join(r_expr(i) for i in e[2]) + "]" if e[2] else "")
    if k == "binop":
        return "(" + r_expr(e[2]) + " " + e[1] + " " + r_expr(e[3]) + ")"
    if k == "usub":
        return "(-" + r_expr(e[1]) + ")"
    if k == "extern":
        return e[1] + "(" + ", ".join(r_expr(a) for a in e[2]) + ")"
    if k == "rc":
        return e[1] + "." + e[2]
    if k == "stride":
        return f"stride({e[1]}, {e[2]})"
    if k == "win":
        return e[1] + "[" + ", ".join(r_expr(w[1]) if w[0] == "pt" else r_expr(w[1]) + ":" + r_expr(w[2]) for w in e[2]) + "]"
    raise ValueError(k)


def r_stmts(ss, ind):
    out = []
    pad = "    " * ind
    for s in ss:
        k = s[0]
        if k == "assign":
            out.append(pad + r_expr(("read", s[1], s[2])) + " = " + r_expr(s[3]))
        elif k == "reduce":
            out.append(pad + r_expr(("read", s[1], s[2])) + " += " + r_expr(s[3]))
        elif k == "wc":
            out.append(pad + f"{s[1]}.{s[2]} = " + r_expr(s[3]))
        elif k == "pass":
            out.append(pad + "pass")
        elif k == "raw":
            out.append(pad + s[1])
        elif k == "if":
            out.append(pad + "if " + r_expr(s[1]) + ":")
            out += r_stmts(s[2], ind + 1)
            if s[3]:
                out.append(pad + "else:")
                out += r_stmts(s[3], ind + 1)
        elif k == "for":
            rng = "_" if s[2] is None else f"seq({r_expr(s[2])}, {r_expr(s[3])})"
            out.append(pad + f"for {s[1]} in {rng}:")
            out += r_stmts(s[4], ind + 1)
        elif k == "alloc":
            out.append(pad + f"{s[1]}: {s[2]}")
        elif k == "call":
            out.append(pad + s[1] + "(" + ", ".join(r_expr(a) for a in s[2]) + ")")
        elif k == "ws":
            out.append(pad + f"{s[1]} = " + r_expr(s[2]))
        else:
            raise ValueError(k)
    return out


class ProcGen:
    """random, mostly well-typed Exo procedure bodies; repeated shapes on purpose so that `#n` matters"""

    def __init__(self, rng, budget):
        self.rng = rng
        self.budget = budget
        self.nalloc = 0

    def dim_txt(self, d):
        return str(d)

    def index_for(self, d, loops):
        rng = self.rng
        cands = []
        for (v, b, slack) in loops:
            if b == d:
                cands.append(("read", v, []))
                if slack:
                    cands.append(("binop", "+", ("read", v, []), ("const", "1")))
        if cands and rng.random() < 0.8:
            return rng.choice(cands)
        hi = 3 if d in ("n", "m") else max(0, min(3, int(d) - 1))
        return ("const", str(rng.randint(0, hi)))

    def data_read(self, env, loops):
        name, dims = self.rng.choice(env)
        return ("read", name, [self.index_for(d, loops) for d in dims])

    def data_expr(self, env, loops, depth=0):
        rng = self.rng
        r = rng.random()
        if depth >= 2 or r < 0.3:
            if rng.random() < 0.45:
                return ("const", rng.choice(DATA_CONSTS))
            return self.data_read(env, loops)
        if r < 0.6:
            return ("binop", rng.choice(BINOPS), self.data_expr(env, loops, depth + 1), self.data_expr(env, loops, depth + 1))
        if r < 0.7:
            return ("usub", self.data_read(env, loops))
        if r < 0.85:
            f = rng.choice(["sin", "relu", "select"])
            n = 4 if f == "select" else 1
            return ("extern", f, [self.data_expr(env, loops, depth + 1) for _ in range(n)])
        if r < 0.92:
            return ("rc", rng.choice(["Cfg", "Cfh"]), "a")
        return self.data_read(env, loops)

    def cond(self, loops, allow_eq=True):
        rng = self.rng
        while True:
            c = self.cond1(loops)
            if allow_eq or '==' not in r_expr(c):
                return c

    def cond1(self, loops):
        rng = self.rng
        if loops and rng.random() < 0.8:
            v = rng.choice(loops)[0]
            c = rng.choice([
                ("binop", "<", ("read", v, []), ("const", "3")),
                ("binop", "==", ("read", v, []), ("const", "0")),
                ("binop", "<", ("binop", "+", ("read", v, []), ("const", "1")), ("read", "n", [])),
                ("binop", "==", ("binop", "%", ("read", v, []), ("const", "2")), ("const", "0")),
                ("binop", "and", ("binop", ">", ("read", v, []), ("const", "0")), ("binop", "<", ("read", v, []), ("const", "3"))),
                ("binop", "<", ("binop", "/", ("read", v, []), ("const", "2")), ("const", "2")),
            ])
            return c
        return rng.choice([
            ("binop", ">", ("read", "n", []), ("const", "5")),
            ("binop", "==", ("stride", "y", 1), ("const", "1")),
            ("binop", "==", ("stride", "y", 0), ("const", "-3")),
            ("binop", "<", ("read", "m", []), ("read", "n", [])),
        ])

    def block(self, env, loops, depth, n_stmts, in_if=False):
        rng = self.rng
        env = list(env)
        out = []
        for _ in range(n_stmts):
            if self.budget <= 0:
                break
            self.budget -= 1
            r = rng.random()
            free_vars = [v for v in LOOPVARS if v not in [l[0] for l in loops]]
            if r < 0.22:
                tgt = self.data_read(env, loops)
                out.append(("assign", tgt[1], tgt[2], self.data_expr(env, loops)))
            elif r < 0.34:
                tgt = self.data_read(env, loops)
                out.append(("reduce", tgt[1], tgt[2], self.data_expr(env, loops)))
            elif r < 0.40:
                out.append(("pass",))
            elif r < 0.56 and depth < 3 and free_vars:
                v = rng.choice(free_vars[:2] if rng.random() < 0.7 else free_vars)
                b = rng.choice(["n", "m", "n", 4])
                slack = 0
                if b in ("n", "m") and rng.random() < 0.25:
                    hi = ("binop", "-", ("read", b, []), ("const", "1"))
                    slack = 1
                else:
                    hi = ("read", b, []) if b in ("n", "m") else ("const", str(b))
                body = self.block(env, loops + [(v, b, slack)], depth + 1, rng.randint(1, 3), in_if)
                # non-zero lower bounds on purpose: a pattern `for i in seq(0, _): _` must not match `seq(1, ..)`
                # (n, m > 4 are asserted, so 1 and 2 stay below every upper bound used here)
                lo = ("const", rng.choice(["0", "0", "0", "1", "2"]))
                out.append(("for", v, lo, hi, body or [("pass",)]))
            elif r < 0.68 and depth < 3:
                body = self.block(env, loops, depth + 1, rng.randint(1, 2), True)
                orelse = self.block(env, loops, depth + 1, rng.randint(1, 2), True) if rng.random() < 0.5 else []
                out.append(("if", self.cond(loops, allow_eq=not orelse), body or [("pass",)], orelse))
            elif r < 0.78:
                self.nalloc += 1
                name = rng.choice(["t", "t", "u", f"t{self.nalloc}"])
                if any(name == e[0] for e in env):
                    name = f"t{self.nalloc}"
                dims = rng.choice([(), ("n",), ("m",), ("n", "m"), (4,)])
                ty = "f32" + ("[" + ", ".join(str(d) for d in dims) + "]" if dims else "")
                out.append(("alloc", name, ty))
                env.append((name, dims))
            elif r < 0.86:
                if rng.random() < 0.5:
                    cands = [e for e in env if len(e[1]) == 1]
                    if cands and rng.random() < 0.6:
                        nm, dims = rng.choice(cands)
                        out.append(("call", "sub1", [("read", str(dims[0]), []) if dims[0] in ("n", "m") else ("const", str(dims[0])), ("read", nm, [])]))
                    else:
                        out.append(("call", "sub1", [("read", "m", []), ("win", "y", [("pt", self.index_for("n", loops)), ("iv", ("const", "0"), ("read", "m", []))])]))
                else:
                    scal = [e for e in env if e[1] == ()]
                    out.append(("call", "sub2", [("read", rng.choice(scal)[0], [])]))
            elif r < 0.92 and not in_if:
                rhs = rng.choice([("const", "2.0"), ("const", "1.0")] if loops else
                                 [("read", "z", []), ("const", "1.0"), ("rc", "Cfg", "b"), ("binop", "+", ("read", "z", []), ("const", "2.0"))])
                cfg = rng.choice(["Cfg", "Cfg", "Cfh"])
                out.append(("wc", cfg, "a" if cfg == "Cfh" else rng.choice(["a", "a", "b"]), rhs))
            else:
                self.nalloc += 1
                name = rng.choice(["w", "w", f"w{self.nalloc}"])
                if any(name == e[0] for e in env):
                    name = f"w{self.nalloc}"
                kind = rng.random()
                if kind < 0.4:
                    win = ("win", "y", [("pt", self.index_for("n", loops)), ("iv", ("const", "0"), ("read", "m", []))])
                    dims = ("m",)
                elif kind < 0.7:
                    win = ("win", "x", [("iv", ("const", "0"), ("read", "n", []))])
                    dims = ("n",)
                else:
                    win = ("win", "y", [("iv", ("const", "0"), ("read", "n", [])), ("iv", ("const", "0"), ("read", "m", []))])
                    dims = ("n", "m")
                out.append(("ws", name, win))
                env.append((name, dims))
        return out

    def proc(self, name):
        env = [("x", ("n",)), ("y", ("n", "m")), ("z", ()), ("v", ("m",))]
        body = self.block(env, [], 0, self.rng.randint(3, 6))
        if not body:
            body = [("pass",)]
        lines = [f"@proc", f"def {name}(n: size, m: size, x: f32[n], y: f32[n, m], z: f32, v: f32[m]):",
                 "    assert n > 4", "    assert m > 4"] + r_stmts(body, 1)
        return body, "\n".join(lines) + "\n"


# --------------------------------------------------------------------------------------------
# pattern generator
# --------------------------------------------------------------------------------------------

FIXED_STMT_PATS = [
    "_ = _", "_ += _", "x[_] = _", "x = _", "_[_] = _", "y[_, _] = _", "y[_] = _", "z = _", "x[_] += _", "t[_] = _", "t = _",
    "w = _", "w = y[_]", "w[_] = _",
    "for _ in _: _", "for i in _: _", "for j in _: _", "for i in seq(0, n): _", "for i in seq(_, _): _", "for i in seq(0, _): _",
    "for i in seq(1, _): _", "for _ in seq(0, _): _", "for _ in seq(1, _): _", "for j in seq(2, _): _", "for _ in seq(2, _): _",
    "for i in seq(_, n): _", "for _ in seq(_, m): _", "for _ in seq(1, n): _", "for i in seq(5, _): _",
    "for i in _:\n  for j in _: _", "for i in _:\n  x[_] = _", "for i in _:\n  _\n  x[_] = _", "for _ in _:\n  pass",
    "if _: _", "if _:\n  _\nelse:\n  _", "if i < 3: _", "if _ < _: _", "if _:\n  pass", "if _:\n  _\nelse:\n  pass",
    "t : _", "_ : _", "u : _", "t : f32[n]", "t : f32[_]", "t : f32[_, _]", "t : f32[m]", "t: R[4]", "_ : f32[n, m]",
    "sub1(_)", "sub1(_, _)", "sub2(_)", "_(_)", "sub1(n, _)", "sub3(_)",
    "pass", "Cfg.a = _", "Cfg.b = _", "Cfh.a = _", "_.a = _", "Cfg._ = _", "_._ = _",
    "x[_] = _\n_", "_\nx[_] = _", "x[_] = _\nx[_] = _", "_ = _\n_ = _", "_ = _\n_\n_ = _", "pass\n_", "_\npass",
    "x[_] = _\n_\npass", "_ += _\n_", "for _ in _: _\n_", "_\nfor _ in _: _", "t : _\n_", "t: _\nt[_] = _", "_ : _\n_\n_ : _",
    "for i in _: _\nfor i in _: _", "if _: _\n_", "_\nif _: _",
]
FIXED_EXPR_PATS = [
    "x[_]", "x", "y[_, _]", "y[_]", "y", "z", "v[_]", "n", "m", "i", "j", "t[_]", "t", "w[_]", "w", "_[_]", "x[i]", "x[0]", "x[i + 1]", "y[i, _]",
    "1.0", "0.0", "-3.0", "3.0", "3", "0", "1", "2", "-3", "0.5", "True",
    "_ + _", "_ - _", "_ * _", "_ / _", "_ < _", "_ == _", "_ % _", "_ and _", "_ > _", "i + 1", "_ + 1", "i < 3", "n - 1", "_ - 1", "(_ + _) + _", "_ + (_ * _)",
    "sin(_)", "relu(_)", "select(_, _, _, _)", "select(_, _)", "sin(x[_])", "relu(_ + _)", "_(_)",
    "-_", "-x[_]", "-z", "-(_ + _)",
    "Cfg.a", "Cfg.b", "Cfh.a",
    "stride(y, 0)", "stride(y, 1)", "stride(y, _)", "stride(_, _)", "stride(_, 1)", "stride(x, 0)",
    "x[_] + _", "_ * x[_]", "sin(_) + _", "x[_] == _",
]
MALFORMED_PATS = [
    "_", "_\n_", "_\n_\nx[_] = _", "x[_] = _\n_\n_", "x[_] = _\n_\n_\npass", "for i in _:\n  _\n  _", "if _:\n  _\n  _\n  pass",
    "x[_] = ", "for i in _", "x ++ 1", "x[1:2]", "x[_] = _ #", "x[_] = _ #a", "not x", "x ** 2", "lambda: 0", "'a'", "None",
]


def pat_expr(e, rng, ph):
    """abstract a source expression into a pattern expression (text tree)"""
    k = e[0]
    if rng.random() < ph:
        return ("raw", "_")
    if k in ("const", "rc"):
        return e
    if k == "stride":
        return ("stride", e[1], rng.choice([e[2], "_", e[2]]))
    if k == "read":
        nm = "_" if rng.random() < 0.15 and e[2] else e[1]
        r = rng.random()
        if r < 0.2 and e[2]:
            return ("read", nm, [("raw", "_")])
        if r < 0.3:
            return ("read", nm, [])
        return ("read", nm, [pat_expr(i, rng, ph) for i in e[2]])
    if k == "binop":
        return ("binop", e[1], pat_expr(e[2], rng, ph), pat_expr(e[3], rng, ph))
    if k == "usub":
        return ("usub", pat_expr(e[1], rng, ph))
    if k == "extern":
        args = [pat_expr(a, rng, ph) for a in e[2]]
        if rng.random() < 0.2:
            args = args[:1]
        return ("extern", e[1], args)
    if k == "win":
        return rng.choice([("read", e[1], [("raw", "_")]), ("raw", "_"), ("read", e[1], [])])
    raise ValueError(k)


def pat_stmt(s, rng, ph):
    k = s[0]
    if k in ("assign", "reduce"):
        nm = "_" if rng.random() < 0.2 else s[1]
        r = rng.random()
        if r < 0.25 and s[2]:
            idx = [("raw", "_")]
        elif r < 0.35:
            idx = []
        else:
            idx = [pat_expr(i, rng, ph) for i in s[2]]
        return (k, nm, idx, pat_expr(s[3], rng, max(ph, 0.3)))
    if k == "wc":
        return ("raw", f"{s[1]}.{s[2]} = _")
    if k == "pass":
        return s
    if k == "if":
        body = pat_block(s[2], rng, ph)
        orelse = pat_block(s[3], rng, ph) if s[3] and rng.random() < 0.5 else []
        return ("if", pat_expr(s[1], rng, max(ph, 0.5)), body, orelse)
    if k == "for":
        v = "_" if rng.random() < 0.2 else s[1]
        body = pat_block(s[4], rng, ph)
        if rng.random() < 0.5:
            return ("for", v, None, None, body)
        return ("for", v, pat_expr(s[2], rng, ph), pat_expr(s[3], rng, ph), body)
    if k == "alloc":
        nm = "_" if rng.random() < 0.2 else s[1]
        return ("alloc", nm, rng.choice(["_", s[2], s[2].replace("n", "_")]))
    if k == "call":
        return ("call", s[1], [("raw", "_")] * rng.choice([1, len(s[2])]))
    if k == "ws":
        nm = "_" if rng.random() < 0.2 else s[1]
        return ("assign", nm, [], pat_expr(s[2], rng, ph))
    raise ValueError(k)


def pat_block(ss, rng, ph):
    """pattern for a statement list: `_`, or a prefix with some statements replaced by `_` (never two
    adjacent holes)"""
    if rng.random() < 0.45 or not ss:
        return [("raw", "_")]
    n = rng.randint(1, len(ss))
    out = []
    for s in ss[:n]:
        if rng.random() < 0.25 and (not out or out[-1] != ("raw", "_")):
            out.append(("raw", "_"))
        else:
            out.append(pat_stmt(s, rng, ph))
    if rng.random() < 0.2 and out[-1] != ("raw", "_"):
        out.append(("raw", "_"))
    return out


def all_blocks(ss, acc):
    acc.append(ss)
    for s in ss:
        if s[0] == "if":
            all_blocks(s[2], acc)
            if s[3]:
                all_blocks(s[3], acc)
        elif s[0] == "for":
            all_blocks(s[4], acc)
    return acc


def all_exprs(ss, acc):
    def ex(e):
        acc.append(e)
        k = e[0]
        if k == "read":
            for i in e[2]:
                ex(i)
        elif k == "binop":
            ex(e[2]); ex(e[3])
        elif k == "usub":
            ex(e[1])
        elif k == "extern":
            for a in e[2]:
                ex(a)
    for s in ss:
        k = s[0]
        if k in ("assign", "reduce"):
            for i in s[2]:
                ex(i)
            ex(s[3])
        elif k == "wc":
            ex(s[3])
        elif k == "if":
            ex(s[1]); all_exprs(s[2], acc); all_exprs(s[3], acc)
        elif k == "for":
            ex(s[2]); ex(s[3]); all_exprs(s[4], acc)
        elif k == "call":
            for a in s[2]:
                if a[0] != "win":
                    ex(a)
    return acc


def derived_patterns(body, rng, n):
    """patterns abstracted from the procedure's own statements / expressions / statement sequences"""
    pats = []
    blocks = all_blocks(body, [])
    exprs = all_exprs(body, [])
    for _ in range(n):
        r = rng.random()
        ph = rng.choice([0.0, 0.15, 0.4])
        if r < 0.35 and exprs:
            e = rng.choice(exprs)
            t = r_expr(pat_expr(e, rng, ph))
            if t.startswith("(") and t.endswith(")"):
                t = t[1:-1] if t.count("(") == 1 else t
            pats.append(t)
        else:
            blk = rng.choice(blocks)
            a = rng.randrange(len(blk))
            b = rng.randint(a + 1, min(len(blk), a + 3))
            seq = []
            for s in blk[a:b]:
                if len(blk[a:b]) > 1 and rng.random() < 0.25 and (not seq or seq[-1] != ("raw", "_")):
                    seq.append(("raw", "_"))
                else:
                    seq.append(pat_stmt(s, rng, ph))
            if rng.random() < 0.15 and seq[0] != ("raw", "_"):
                seq.insert(0, ("raw", "_"))
            if rng.random() < 0.15 and seq[-1] != ("raw", "_"):
                seq.append(("raw", "_"))
            pats.append("\n".join(r_stmts(seq, 0)))
    return pats


# --------------------------------------------------------------------------------------------
# exporters (real objects -> JSON for the model)
# --------------------------------------------------------------------------------------------

class Unsupported(Exception):
    pass


def frac(v):
    if isinstance(v, (bool, int, float)):
        try:
            f = Fraction(v)
        except (ValueError, OverflowError):
            raise Unsupported("non-finite constant")
        return [str(f.numerator), str(f.denominator)]
    raise Unsupported(f"constant of type {type(v).__name__}")


class Exporter:
    def __init__(self, exo):
        from exo.core.LoopIR import LoopIR, PAST
        self.L = LoopIR
        self.P = PAST

    # ---- LoopIR (typed, what the matcher looks at)
    def expr(self, e):
        L = self.L
        if isinstance(e, L.Read):
            return ["read", str(e.name), [self.expr(i) for i in e.idx]]
        if isinstance(e, L.Const):
            return ["const"] + frac(e.val)
        if isinstance(e, L.USub):
            return ["usub", self.expr(e.arg)]
        if isinstance(e, L.BinOp):
            return ["binop", str(e.op), self.expr(e.lhs), self.expr(e.rhs)]
        if isinstance(e, L.Extern):
            return ["extern", e.f.name(), [self.expr(a) for a in e.args]]
        if isinstance(e, L.WindowExpr):
            return ["win", str(e.name), [self.wacc(w) for w in e.idx]]
        if isinstance(e, L.StrideExpr):
            return ["stride", str(e.name), int(e.dim)]
        if isinstance(e, L.ReadConfig):
            return ["rc", e.config.name(), e.field]
        raise Unsupported(f"expr {type(e).__name__}")

    def wacc(self, w):
        L = self.L
        if isinstance(w, L.Interval):
            return ["iv", self.expr(w.lo), self.expr(w.hi)]
        if isinstance(w, L.Point):
            return ["pt", self.expr(w.pt)]
        raise Unsupported(f"w_access {type(w).__name__}")

    def stmt(self, s):
        L = self.L
        if isinstance(s, L.Assign):
            return ["assign", str(s.name), [self.expr(i) for i in s.idx], self.expr(s.rhs)]
        if isinstance(s, L.Reduce):
            return ["reduce", str(s.name), [self.expr(i) for i in s.idx], self.expr(s.rhs)]
        if isinstance(s, L.WriteConfig):
            return ["wc", s.config.name(), s.field, self.expr(s.rhs)]
        if isinstance(s, L.Pass):
            return ["pass"]
        if isinstance(s, L.If):
            return ["if", self.expr(s.cond), [self.stmt(x) for x in s.body], [self.stmt(x) for x in s.orelse]]
        if isinstance(s, L.For):
            return ["for", str(s.iter), self.expr(s.lo), self.expr(s.hi), [self.stmt(x) for x in s.body]]
        if isinstance(s, L.Alloc):
            if isinstance(s.type, L.Tensor):
                return ["alloc", str(s.name), [self.expr(h) for h in s.type.hi]]
            return ["alloc", str(s.name), None]
        if isinstance(s, L.Call):
            return ["call", str(s.f.name), [self.expr(a) for a in s.args]]
        if isinstance(s, L.WindowStmt):
            return ["ws", str(s.name), self.expr(s.rhs)]
        raise Unsupported(f"stmt {type(s).__name__}")

    # ---- PAST
    def pexpr(self, e):
        P = self.P
        if isinstance(e, P.Read):
            return ["read", str(e.name), [self.pexpr(i) for i in e.idx]]
        if isinstance(e, P.StrideExpr):
            return ["stride", str(e.name), None if e.dim is None else int(e.dim)]
        if isinstance(e, P.E_Hole):
            return ["hole"]
        if isinstance(e, P.Const):
            return ["const"] + frac(e.val)
        if isinstance(e, P.USub):
            return ["usub", self.pexpr(e.arg)]
        if isinstance(e, P.BinOp):
            return ["binop", str(e.op), self.pexpr(e.lhs), self.pexpr(e.rhs)]
        if isinstance(e, P.Extern):
            return ["extern", str(e.f), [self.pexpr(a) for a in e.args]]
        if isinstance(e, P.ReadConfig):
            return ["rc", str(e.config), str(e.field)]
        raise Unsupported(f"pattern expr {type(e).__name__}")

    def pstmt(self, s):
        P = self.P
        if isinstance(s, P.Assign):
            return ["assign", str(s.name), [self.pexpr(i) for i in s.idx], self.pexpr(s.rhs)]
        if isinstance(s, P.Reduce):
            return ["reduce", str(s.name), [self.pexpr(i) for i in s.idx], self.pexpr(s.rhs)]
        if isinstance(s, P.Pass):
            return ["pass"]
        if isinstance(s, P.If):
            return ["if", self.pexpr(s.cond), [self.pstmt(x) for x in s.body], [self.pstmt(x) for x in s.orelse]]
        if isinstance(s, P.For):
            return ["for", str(s.iter), self.pexpr(s.lo), self.pexpr(s.hi), [self.pstmt(x) for x in s.body]]
        if isinstance(s, P.Alloc):
            return ["alloc", str(s.name), [self.pexpr(x) for x in s.sizes]]
        if isinstance(s, P.Call):
            return ["call", str(s.f), [self.pexpr(a) for a in s.args]]
        if isinstance(s, P.WriteConfig):
            return ["wc", str(s.config), str(s.field)]
        if isinstance(s, P.S_Hole):
            return ["hole"]
        raise Unsupported(f"pattern stmt {type(s).__name__}")

    def pat(self, p):
        if isinstance(p, list):
            return ["s", [self.pstmt(s) for s in p]]
        return ["e", self.pexpr(p)]

    # ---- generic navigation tree: every node-valued / list-valued attribute, in declaration order
    def ntree(self, node, top=True):
        import attrs
        L = self.L
        fields = []
        for a in attrs.fields(type(node)):
            v = getattr(node, a.name)
            if isinstance(v, list):
                fields.append([a.name, True, [self.ntree(c, False) for c in v]])
            elif attrs.has(type(v)) and not isinstance(v, L.proc):
                fields.append([a.name, False, [self.ntree(v, False)]])
        return [type(node).__name__, fields]


def ntree_paths(t, path, acc):
    """same enumeration as Exo.Nav.allPaths"""
    acc.append(path)
    for attr, is_list, kids in t[1]:
        if is_list:
            for k, c in enumerate(kids):
                ntree_paths(c, path + [(attr, k)], acc)
        elif kids:
            ntree_paths(kids[0], path + [(attr, None)], acc)
    return acc


def ntree_get(t, path):
    for attr, idx in path:
        f = [x for x in t[1] if x[0] == attr][0]
        t = f[2][idx] if idx is not None else f[2][0]
    return t


# --------------------------------------------------------------------------------------------
# canonical forms
# --------------------------------------------------------------------------------------------

STMT_TAGS = {"Assign", "Reduce", "WriteConfig", "Pass", "If", "For", "Alloc", "Call", "WindowStmt"}
EXPR_TAGS = {"Read", "Const", "USub", "BinOp", "Extern", "WindowExpr", "StrideExpr", "ReadConfig"}
LIFTABLE = STMT_TAGS | EXPR_TAGS | {"fnarg"}


def cpath(p):
    return [[a, i] for a, i in p]


def canon_impl(c, IC):
    if isinstance(c, IC.Node):
        return ["N", cpath(c._path)]
    if isinstance(c, IC.Block):
        return ["B", cpath(c._anchor._path), c._attr, c._range.start, c._range.stop]
    if isinstance(c, IC.Gap):
        return ["G", cpath(c._anchor._path), "b" if c._type == IC.GapType.Before else "a"]
    return ["?", repr(type(c))]


def exc_name(e):
    return "E:" + type(e).__name__


# --------------------------------------------------------------------------------------------
# brute-force oracle for find: own enumeration of positions + the real node-level matcher
# --------------------------------------------------------------------------------------------

class Oracle:
    def __init__(self, exo):
        from exo.core.LoopIR import LoopIR, PAST
        from exo.core import internal_cursors as IC
        from exo.frontend.pattern_match import PatternMatch, PatternMatchError
        self.L, self.P, self.IC = LoopIR, PAST, IC
        self.PM = PatternMatch
        self.PME = PatternMatchError

    # own table of expression-bearing children, in the documented `_children` order
    def kids(self, n):
        L = self.L
        if isinstance(n, L.proc):
            return [("body", True)]
        if isinstance(n, (L.Assign, L.Reduce)):
            return [("idx", True), ("rhs", False)]
        if isinstance(n, (L.WriteConfig, L.WindowStmt)):
            return [("rhs", False)]
        if isinstance(n, L.If):
            return [("cond", False), ("body", True), ("orelse", True)]
        if isinstance(n, L.For):
            return [("lo", False), ("hi", False), ("body", True)]
        if isinstance(n, L.Call):
            return [("args", True)]
        if isinstance(n, (L.Read, L.WindowExpr)):
            return [("idx", True)]
        if isinstance(n, L.Interval):
            return [("lo", False), ("hi", False)]
        if isinstance(n, L.Point):
            return [("pt", False)]
        if isinstance(n, L.USub):
            return [("arg", False)]
        if isinstance(n, L.BinOp):
            return [("lhs", False), ("rhs", False)]
        if isinstance(n, L.Extern):
            return [("args", True)]
        return []

    def preorder(self, n, path, acc):
        acc.append((path, n))
        for attr, is_list in self.kids(n):
            v = getattr(n, attr)
            if is_list:
                for k, c in enumerate(v):
                    self.preorder(c, path + [(attr, k)], acc)
            else:
                self.preorder(v, path + [(attr, None)], acc)
        return acc

    def block_positions(self, root, anchor_path, attr, stmts, lo, acc):
        """(anchor path, attr, k) for every suffix start, block before the inside of its first stmt"""
        L = self.L
        for k in range(lo, len(stmts)):
            acc.append((anchor_path, attr, k, len(stmts)))
            s = stmts[k]
            p = anchor_path + [(attr, k)]
            if isinstance(s, L.If):
                self.block_positions(root, p, "body", s.body, 0, acc)
                self.block_positions(root, p, "orelse", s.orelse, 0, acc)
            elif isinstance(s, L.For):
                self.block_positions(root, p, "body", s.body, 0, acc)
        return acc

    def find_all_in_block(self, root, past, anchor, attr, lo, hi):
        """matches inside the block anchor.attr[lo:hi] (the scope of BlockCursor.find)"""
        IC, P = self.IC, self.P
        pm = self.PM()
        pm._use_sym_id = False
        try:
            if isinstance(past, P.E_Hole) or (isinstance(past, list) and all(isinstance(q, P.S_Hole) for q in past)):
                raise self.PME("anything")
            stmts = getattr(IC.Node(root, anchor)._node, attr)
            res = []
            if isinstance(past, list):
                for (ap, a, k, n) in self.block_positions(root, anchor, attr, stmts[:hi], lo, []):
                    m = pm.match_stmts(past, IC.Block(root, IC.Node(root, ap), a, range(k, n)))
                    if m is not None and len(m) > 0:
                        res.append(canon_impl(m, IC))
            else:
                for k in range(lo, hi):
                    for (p, n) in self.preorder(stmts[k], anchor + [(attr, k)], []):
                        if pm.match_e(past, n):
                            res.append(["N", cpath(p)])
            return res
        except Exception as e:  # noqa
            return exc_name(e)

    def find_all(self, root, past, scope=None):
        """all raw matches (canonical impl cursors) or 'E:...'; scope = None (whole proc) or a stmt path"""
        IC, P = self.IC, self.P
        pm = self.PM()
        pm._use_sym_id = False
        try:
            if isinstance(past, P.E_Hole):
                raise self.PME("anything")
            if isinstance(past, list) and all(isinstance(p, P.S_Hole) for p in past):
                raise self.PME("anything")
            res = []
            if isinstance(past, list):
                if scope is None:
                    poss = self.block_positions(root, [], "body", root.body, 0, [])
                else:
                    attr, k = scope[-1]
                    parent = IC.Node(root, scope[:-1])._node
                    stmts = getattr(parent, attr)
                    poss = self.block_positions(root, scope[:-1], attr, stmts[: k + 1], k, [])
                for (ap, attr, k, n) in poss:
                    cur = IC.Block(root, IC.Node(root, ap), attr, range(k, n))
                    m = pm.match_stmts(past, cur)
                    if m is not None and len(m) > 0:
                        res.append(canon_impl(m, IC))
            else:
                start = root if scope is None else IC.Node(root, scope)._node
                for (p, n) in self.preorder(start, list(scope or []), []):
                    if pm.match_e(past, n):
                        res.append(["N", cpath(p)])
            return res
        except Exception as e:  # noqa
            return exc_name(e)


def lift_expected(raw, hash_no, many):
    """API_cursors.find post-processing applied to the oracle's all-matches list"""
    if isinstance(raw, str):
        return raw
    if hash_no is not None:
        sel = raw[hash_no:hash_no + 1]
    elif many:
        sel = raw
    else:
        sel = raw[:1]
    out = []
    for c in sel:
        if c[0] == "B" and c[4] - c[3] == 1:
            out.append(["N", c[1] + [[c[2], c[3]]]])
        else:
            out.append(c)
    if not out:
        return "E:SchedulingError"
    return out


def model_to_real_err(r):
    if r == "anything":
        return "E:PatternMatchError"
    if r == "noMatch":
        return "E:SchedulingError"
    return r


# --------------------------------------------------------------------------------------------
# the check
# --------------------------------------------------------------------------------------------

def load_module(tmpdir, name, source):
    p = Path(tmpdir) / f"{name}.py"
    p.write_text(source)
    if tmpdir not in sys.path:
        sys.path.insert(0, tmpdir)
    importlib.invalidate_caches()
    if name in sys.modules:
        del sys.modules[name]
    return importlib.import_module(name)


class Checker:
    def __init__(self, ctx, exo, drv):
        self.ctx = ctx
        self.drv = drv
        from exo.core import internal_cursors as IC
        import exo.API_cursors as PC
        import exo.frontend.pyparser as pyparser
        from exo.libs.externs import sin, relu, select
        self.IC, self.PC, self.pyparser = IC, PC, pyparser
        self.exp = Exporter(exo)
        self.oracle = Oracle(exo)
        self.scope_globals = {"sin": sin, "relu": relu, "select": select}
        # the real find() looks for Extern objects in the *caller's* globals/locals
        globals().update(self.scope_globals)

    def ask(self, obj):
        ans = self.drv.ask(json.dumps(obj, separators=(",", ":")))
        r = json.loads(ans)
        if isinstance(r, dict) and "error" in r:
            raise InfraError(f"driver rejected request: {r['error']}")
        return r

    # ---------------------------------------------------------------- find
    def real_find(self, p, kind, s):
        """call the real API; canonical result list or 'E:Class'"""
        IC = self.IC
        try:
            if kind == "find":
                r = p.find(s)
            elif kind == "find_many":
                r = p.find(s, many=True)
            elif kind == "find_all":
                r = p.find_all(s)
            elif kind == "find_loop":
                r = p.find_loop(s)
            elif kind == "find_loop_many":
                r = p.find_loop(s, many=True)
            elif kind == "find_alloc":
                r = p.find_alloc_or_arg(s)
            else:
                raise InfraError(kind)
        except InfraError:
            raise
        except Exception as e:  # noqa  (exceptions of the real code are data)
            return exc_name(e)
        try:
            rs = r if isinstance(r, list) else [r]
            return [canon_impl(c._impl, IC) for c in rs]
        except Exception as e:  # noqa
            return "E:canon:" + type(e).__name__

    def check_find(self, source, p, queries, tag):
        """queries: list of (kind, pattern string)"""
        ctx = self.ctx
        root = p.INTERNAL_proc()
        try:
            body_json = [self.exp.stmt(s) for s in root.body]
        except Unsupported as e:
            ctx.count("find:proc-unsupported:" + str(e))
            return
        argnames = [a.name.name() for a in root.args]
        # phase 1: string level (model) -------------------------------------------------------
        prepared = []
        for kind, s in queries:
            sp = self.ask({"op": "split", "s": s})
            text = s
            early = None
            if kind.startswith("find_loop"):
                text = sp["loop"]
            elif kind == "find_alloc":
                text = sp["alloc"]
                if text != s:  # the shorthand regex matched: `name` / `name #n`
                    nm = text.split(":")[0]
                    if nm in argnames:
                        early = [["N", [["args", argnames.index(nm)]]]]
            if text != s:
                sp2 = self.ask({"op": "split", "s": text})
            else:
                sp2 = sp
            pat_text, hash_no = sp2["pat"], sp2["no"]
            # spec side of `#n`: the documented form is `<pattern> #<num>`; the shorthand regexes of
            # find_loop / NameCountA and get_match_no's docstring ("not sensitive to spaces") also admit
            # blanks after `#`.  If the string has that shape the n-th match is what is asked for.
            spec_hash = hash_no
            mm = re.match(r"^([^#]+)#[ \t]+(\d+)\s*$", text)
            if hash_no is None and mm:
                spec_hash = int(mm.group(2))
            many = kind in ("find_many", "find_all", "find_loop_many")
            # the REAL parser produces the PAST (same scope as the real call's caller: our globals)
            try:
                past = self.pyparser.pattern(pat_text, srcglobals=dict(self.scope_globals), srclocals={})
                perr = None
            except Exception as e:  # noqa
                past, perr = None, exc_name(e)
            prepared.append(dict(kind=kind, s=s, text=text, pat_text=pat_text, hash=hash_no, spec_hash=spec_hash, many=many,
                                 past=past, perr=perr, early=early))
        # phase 2: model find ------------------------------------------------------------------
        qs, idxs = [], []
        for i, q in enumerate(prepared):
            if q["past"] is None or q["early"] is not None:
                continue
            try:
                pj = self.exp.pat(q["past"])
            except Unsupported as e:
                q["unsupported"] = str(e)
                continue
            qs.append({"pat": pj, "hash": q["hash"], "many": q["many"]})
            idxs.append(i)
        answers = self.ask({"op": "find", "body": body_json, "qs": qs}) if qs else []
        for i, a in zip(idxs, answers):
            prepared[i]["model"] = a
        # phase 3: real + oracle, compare --------------------------------------------------------
        for q in prepared:
            kind, s = q["kind"], q["s"]
            got = self.real_find(p, kind, s)
            ctx.count("find:" + kind)
            replay = {"source": source, "proc": tag, "kind": kind, "pattern": s}
            if q["early"] is not None:
                ctx.evaluated(("arg", s))
                ctx.count("find:arg-cursor")
                if got != q["early"]:
                    ctx.violation("find_alloc_or_arg:arg", f"find_alloc_or_arg({s!r}) should return the argument cursor",
                                  dict(replay, expected=q["early"], got=got))
                continue
            if q["past"] is None:
                ctx.count("find:parse-error:" + q["perr"])
                ctx.evaluated(("perr", s), nontrivial=False)
                if got != q["perr"]:
                    # the pattern text does not parse: the API must fail the same way
                    ctx.violation("find:parse-error-mismatch", f"pattern {s!r}: parser raises {q['perr']} but {kind} gave {str(got)[:80]}",
                                  dict(replay, expected=q["perr"], got=got))
                continue
            raw = self.oracle.find_all(root, q["past"])
            exp = lift_expected(raw, q["spec_hash"], q["many"])
            ctx.evaluated((kind, s, tag), nontrivial=not isinstance(exp, str) or exp == "E:SchedulingError")
            ctx.count("find:outcome:" + (exp if isinstance(exp, str) else ("match>1" if len(raw) > 1 else "match=1")))
            if q["spec_hash"] is not None:
                ctx.count("find:hash:" + ("in-range" if not isinstance(raw, str) and q["spec_hash"] < len(raw) else "out-of-range"))
            if got != exp:
                key = self.classify(kind, s, q, got, exp, raw)
                ctx.violation(key, f"{kind}({s!r}) on {tag}: real result differs from brute force over all positions "
                              f"(expected {str(exp)[:120]}, got {str(got)[:120]})",
                              dict(replay, expected=exp, got=got, all_matches=raw))
                continue
            if "unsupported" in q:
                ctx.count("find:model-unsupported")
                continue
            m = q.get("model")
            if m is None:
                continue
            if isinstance(raw, str) and raw == "E:AssertionError":
                ctx.count("find:adjacent-holes-assertion (outside the model)")
                continue
            m_all = model_to_real_err(m["all"])
            m_api = model_to_real_err(m["api"])
            if q["hash"] != q["spec_hash"]:
                ctx.count("find:hash-space (real and model agree, both ignore the number)")
                exp = lift_expected(raw, q["hash"], q["many"])
            if m_all != raw or m_api != exp:
                ctx.violation("find:model-mismatch:" + kind, f"model and real find disagree on {s!r} ({tag}); real agrees with brute force",
                              dict(replay, model=m, real=got, all_matches=raw), no_input=True)
            ctx.sample({"proc": tag, "kind": kind, "pattern": s, "result": exp if isinstance(exp, str) else exp[:3]})

    def classify(self, kind, s, q, got, exp, raw):
        """stable key of a find violation"""
        if q["hash"] is None and q["spec_hash"] is not None:
            return "find:hash-space"          # `#` followed by blanks: number silently ignored
        if kind == "find_all" and any(f + "(" in s for f in self.scope_globals):
            return "find_all:extern-scope"    # find_all resolves externs in API.py's scope, not the caller's
        if isinstance(got, str) and not isinstance(exp, str):
            return f"{kind}:raises-instead-of-match"
        if isinstance(exp, str) and not isinstance(got, str):
            return f"{kind}:match-instead-of-error"
        if isinstance(got, str):
            return f"{kind}:wrong-error"
        if q["hash"] is not None:
            return f"{kind}:wrong-nth"
        if len(got) < len(exp):
            return f"{kind}:missing-match"
        if len(got) > len(exp):
            return f"{kind}:extra-match"
        if sorted(map(json.dumps, got)) == sorted(map(json.dumps, exp)):
            return f"{kind}:wrong-order"
        return f"{kind}:wrong-match"

    def check_scoped_find(self, source, p, tag, pats):
        """cursor.find(pattern, many=True) on statement cursors vs brute force inside that statement"""
        ctx, IC, PC = self.ctx, self.IC, self.PC
        root = p.INTERNAL_proc()
        L = self.oracle.L
        stmts = [(path, n) for (path, n) in self.oracle.preorder(root, [], []) if isinstance(n, (L.For, L.If))]
        if not stmts:
            return
        for (path, n) in ctx.rng.sample(stmts, min(2, len(stmts))):
            c = PC.lift_cursor(IC.Node(root, list(path)), p)
            for s in pats:
                if "#" in s:
                    continue
                try:
                    past = self.pyparser.pattern(s, srcglobals=dict(self.scope_globals), srclocals={})
                except Exception:  # noqa
                    continue
                try:
                    r = c.find(s, many=True)
                    got = [canon_impl(x._impl, IC) for x in r]
                except Exception as e:  # noqa
                    got = exc_name(e)
                raw = self.oracle.find_all(root, past, scope=list(path))
                exp = lift_expected(raw, None, True)
                ctx.count("find:scoped")
                ctx.evaluated(("scoped", tag, str(path), s))
                if got != exp:
                    ctx.violation("cursor.find:scoped", f"cursor.find({s!r}, many=True) at {path} of {tag} differs from brute force",
                                  {"source": source, "proc": tag, "scope": cpath(path), "pattern": s, "expected": exp, "got": got})
            # the same through a BlockCursor (the body of that statement)
            blk = PC.BlockCursor(IC.Node(root, list(path))._child_block("body"), p)
            for s in pats[:2]:
                if "#" in s:
                    continue
                try:
                    past = self.pyparser.pattern(s, srcglobals=dict(self.scope_globals), srclocals={})
                except Exception:  # noqa
                    continue
                try:
                    got = [canon_impl(x._impl, IC) for x in blk.find(s, many=True)]
                except Exception as e:  # noqa
                    got = exc_name(e)
                exp = lift_expected(self.oracle.find_all_in_block(root, past, list(path), "body", 0, len(n.body)), None, True)
                ctx.count("find:scoped-block")
                ctx.evaluated(("scoped-block", tag, str(path), s))
                if got != exp:
                    ctx.violation("blockcursor.find", f"BlockCursor.find({s!r}, many=True) on the body of {path} of {tag}: expected {str(exp)[:80]}, got {str(got)[:80]}",
                                  {"source": source, "proc": tag, "block": [cpath(path), "body"], "pattern": s, "expected": exp, "got": got})

    # ---------------------------------------------------------------- navigation
    def nav_script(self, nt, paths, rng, full):
        """ops for every position of the tree"""
        ops = []
        idx_of = {json.dumps(cpath(p)): i for i, p in enumerate(paths)}
        stmt_tags = {"Assign", "Reduce", "WriteConfig", "Pass", "If", "For", "Alloc", "Call", "WindowStmt"}
        expr_tags = {"Read", "Const", "USub", "BinOp", "Extern", "WindowExpr", "StrideExpr", "ReadConfig"}
        for i, path in enumerate(paths):
            node = ntree_get(nt, path)
            tag = node[0]
            ops.append(["parent", i])
            for d in (1, -1, 2, 0, 7):
                ops.append(["next", i, d])
            ops.append(["prev", i, 1])
            ops.append(["asblock", i])
            ops.append(["before", i])
            ops.append(["after", i])
            if path and path[-1][1] is not None:
                ops.append(["gindex", [i, "b"]])
                ops.append(["gindex", [i, "a"]])
            ops.append(["ganchor", [i, "a"]])
            ops.append(["gparent", [i, "b"]])
            ops.append(["anc", i, rng.randrange(len(paths))])
            ops.append(["anc", rng.randrange(len(paths)), i])
            public = tag in stmt_tags or tag in expr_tags or tag == "fnarg"
            if public:
                ops.append(["pparent", ["N", i]])
            if tag in stmt_tags:
                for d in (1, -1, 2, 3):
                    ops.append(["pnext", i, d])
                    ops.append(["pprev", i, d])
                ops.append(["pparent", ["G", i, "b"]])
                ops.append(["pparent", ["G", i, "a"]])
            ops.append(["child", i, "nosuchattr", None])
            for attr, is_list, kids in node[1]:
                n = len(kids)
                if is_list:
                    for k in range(-1, n + 2):
                        ops.append(["child", i, attr, k])
                    ops.append(["child", i, attr, None])
                    ops.append(["cblock", i, attr])
                    # blocks
                    ranges = [(lo, hi) for lo in range(0, n + 1) for hi in range(lo, n + 1)]
                    if len(ranges) > (28 if full else 10):
                        ranges = rng.sample(ranges, 28 if full else 10) + [(0, n)]
                    ranges += [(0, n + 1), (n, n + 2)] if rng.random() < 0.3 else []
                    is_stmt_block = n > 0 and kids[0][0] in stmt_tags
                    for lo, hi in ranges:
                        b = [i, attr, lo, hi]
                        ln = max(0, hi - lo)
                        ops.append(["blen", b])
                        for k in range(-ln - 1, ln + 1):
                            ops.append(["bget", b, k])
                        ops.append(["biter", b])
                        ops.append(["bbefore", b])
                        ops.append(["bafter", b])
                        ops.append(["bparent", b])
                        vals = [None] + list(range(-ln - 1, ln + 2))
                        for _ in range(6 if full else 3):
                            ops.append(["bslice", b, rng.choice(vals), rng.choice(vals), rng.choice([None, None, None, 1, 2, 0, -1])])
                        ops.append(["bslice", b, None, None, None])
                        dv = [None, 0, 1, 2, 5, -1]
                        for _ in range(4 if full else 2):
                            ops.append(["bexpand", b, rng.choice(dv), rng.choice(dv)])
                        ops.append(["bexpand", b, 0, 0])
                        ops.append(["bexpand", b, None, None])
                        if hi <= n and ln > 0 and (is_stmt_block or kids[0][0] in expr_tags or kids[0][0] == "fnarg"):
                            for k in range(-ln - 1, ln + 1):
                                ops.append(["pbget", b, k])
                            for _ in range(4 if full else 2):
                                ops.append(["pbslice", b, rng.choice(vals), rng.choice(vals), rng.choice([None, None, 1, 2])])
                            if is_stmt_block:
                                for _ in range(3 if full else 2):
                                    ops.append(["pbexpand", b, rng.choice(dv), rng.choice(dv)])
                                ops.append(["pbanchor", b])
                                ops.append(["pparent", ["B", i, attr, lo, hi]])
                else:
                    ops.append(["child", i, attr, None])
                    ops.append(["child", i, attr, 0])
                    ops.append(["cblock", i, attr])
        return ops, idx_of

    def real_nav(self, p, root, paths, idx_of, op):
        IC, PC = self.IC, self.PC

        def nd(i):
            return IC.Node(root, list(paths[i]))

        def blk(b):
            return IC.Block(root, nd(b[0]), b[1], range(b[2], b[3]))

        def gap(g):
            return IC.Gap(root, nd(g[0]), IC.GapType.Before if g[1] == "b" else IC.GapType.After)

        def pidx(path):
            k = idx_of.get(json.dumps(cpath(path)))
            return str(k) if k is not None else "P" + json.dumps(cpath(path), separators=(",", ":"))

        def show(c):
            if isinstance(c, PC.InvalidCursor):
                return "INV"
            if isinstance(c, PC.Cursor):
                c = c._impl
            if isinstance(c, IC.Node):
                return "N" + pidx(c._path)
            if isinstance(c, IC.Block):
                return f"B{pidx(c._anchor._path)}:{c._attr}:{c._range.start}:{c._range.stop}"
            if isinstance(c, IC.Gap):
                return f"G{pidx(c._anchor._path)}:{'b' if c._type == IC.GapType.Before else 'a'}"
            if isinstance(c, bool):
                return "T" if c else "F"
            if isinstance(c, int):
                return f"I{c}"
            return "?" + repr(c)

        def pub(c):
            """public cursor object for an internal one (constructed like the API does)"""
            if isinstance(c, IC.Block):
                return PC.lift_cursor(c, p)
            return PC.lift_cursor(c, p)

        name = op[0]
        try:
            if name == "parent":
                return show(nd(op[1]).parent())
            if name == "child":
                return show(nd(op[1])._child_node(op[2], op[3]))
            if name == "cblock":
                return show(nd(op[1])._child_block(op[2]))
            if name == "next":
                return show(nd(op[1]).next(op[2]))
            if name == "prev":
                return show(nd(op[1]).prev(op[2]))
            if name == "asblock":
                return show(nd(op[1]).as_block())
            if name == "before":
                return show(nd(op[1]).before())
            if name == "after":
                return show(nd(op[1]).after())
            if name == "anc":
                return show(bool(nd(op[1]).is_ancestor_of(nd(op[2]))))
            if name == "pparent":
                c = op[1]
                if c[0] == "N":
                    pc = pub(nd(c[1]))
                elif c[0] == "B":
                    pc = pub(blk(c[1:]))
                else:
                    pc = pub(gap(c[1:]))
                return show(pc.parent())
            if name == "pnext":
                return show(pub(nd(op[1])).next(op[2]))
            if name == "pprev":
                return show(pub(nd(op[1])).prev(op[2]))
            if name == "blen":
                return show(len(blk(op[1])))
            if name == "bget":
                return show(blk(op[1])[op[2]])
            if name == "bslice":
                return show(blk(op[1])[slice(op[2], op[3], op[4])])
            if name == "biter":
                out = []
                try:
                    for c in blk(op[1]):
                        out.append(show(c))
                except Exception as e:  # noqa
                    out.append(exc_name(e))
                return "L[" + ",".join(out) + "]"
            if name == "bexpand":
                return show(blk(op[1]).expand(op[2], op[3]))
            if name == "bbefore":
                return show(blk(op[1]).before())
            if name == "bafter":
                return show(blk(op[1]).after())
            if name == "bparent":
                return show(blk(op[1]).parent())
            if name == "pbget":
                return show(pub(blk(op[1]))[op[2]])
            if name == "pbslice":
                return show(pub(blk(op[1]))[slice(op[2], op[3], op[4])])
            if name == "pbexpand":
                return show(pub(blk(op[1])).expand(op[2], op[3]))
            if name == "pbanchor":
                return show(pub(blk(op[1])).anchor())
            if name == "ganchor":
                return show(gap(op[1]).anchor())
            if name == "gparent":
                return show(gap(op[1]).parent())
            if name == "gindex":
                return show(gap(op[1])._insertion_index())
            raise InfraError("unknown nav op " + name)
        except InfraError:
            raise
        except Exception as e:  # noqa
            return exc_name(e)

    def check_nav(self, source, p, tag, full):
        ctx = self.ctx
        root = p.INTERNAL_proc()
        nt = self.exp.ntree(root)
        paths = ntree_paths(nt, [], [])
        # the enumeration itself must agree (field order / children)
        mp = self.ask({"op": "npaths", "tree": nt})
        if mp != [cpath(q) for q in paths]:
            raise InfraError("allPaths enumeration differs between harness and model")
        ops, idx_of = self.nav_script(nt, paths, ctx.rng, full)
        model = self.ask({"op": "nav", "tree": nt, "script": ops})
        bad = 0
        for op, m in zip(ops, model):
            r = self.real_nav(p, root, paths, idx_of, op)
            ctx.evaluated(None, n=1)
            ctx.count("nav:" + op[0])
            if op[0] == "biter" and "E:" in m:
                # a Python generator stops at the first exception
                items = m[2:-1].split(",")
                k = next(i for i, x in enumerate(items) if x.startswith("E:"))
                m = "L[" + ",".join(items[: k + 1]) + "]"
            if r.startswith("E:") or r == "INV":
                ctx.count("nav:outcome:" + r)
            if r != m:
                bad += 1
                law = self.real_law_broken(p, root, paths, idx_of, op, r)
                key = "nav:" + op[0]
                rep = {"source": source, "proc": tag, "op": op, "node_paths": {str(a): cpath(paths[a]) for a in op[1:] if isinstance(a, int) and 0 <= a < len(paths)},
                       "real": r, "model": m}
                if law:
                    ctx.violation(key, f"navigation {op[0]} on {tag}: {law}", rep)
                else:
                    ctx.violation(key + ":model-mismatch", f"navigation {op[0]} on {tag}: real {r} vs model {m}", rep, no_input=True)
                if bad > 5:
                    break
        ctx.distinct.add(("nav", tag))
        self.check_laws(source, p, tag, root, nt, paths, idx_of)

    def real_law_broken(self, p, root, paths, idx_of, op, r):
        """when real != model: does the real answer break a navigation law (spec side, model-free)?"""
        name = op[0]
        nt_path = lambda i: list(paths[i])
        if name in ("next", "prev", "pnext", "pprev"):
            i, d = op[1], op[2] if len(op) > 2 else 1
            if name in ("prev", "pprev"):
                d = -d
            path = nt_path(i)
            if not path or path[-1][1] is None:
                want = "E:InvalidCursorError" if name in ("next", "prev") else "INV"
            else:
                attr, k = path[-1]
                n = len(getattr(self.IC.Node(root, path[:-1])._node, attr))
                if 0 <= k + d < n:
                    q = path[:-1] + [(attr, k + d)]
                    want = "N" + str(idx_of[json.dumps(cpath(q))])
                else:
                    want = "E:InvalidCursorError" if name in ("next", "prev") else "INV"
            if r != want:
                return f"{name}({d if name in ('next','pnext') else -d}) at {cpath(path)} should be {want}, got {r}"
        if name == "parent":
            path = nt_path(op[1])
            want = "N" + str(idx_of[json.dumps(cpath(path[:-1]))]) if path else "E:InvalidCursorError"
            if r != want:
                return f"parent at {cpath(path)} should be {want}, got {r}"
        if name == "child":
            path = nt_path(op[1])
            node = self.IC.Node(root, path)._node
            v = getattr(node, op[2], None)
            if isinstance(v, list) and op[3] is not None:
                if 0 <= op[3] < len(v):
                    want = "N" + str(idx_of[json.dumps(cpath(path + [(op[2], op[3])]))])
                else:
                    want = "E:InvalidCursorError"
                if r != want:
                    return f"_child_node({op[2]},{op[3]}) at {cpath(path)} should be {want}, got {r}"
        if name in ("bget", "pbget"):
            i, attr, lo, hi = op[1]
            path = nt_path(i)
            n = len(getattr(self.IC.Node(root, path)._node, attr))
            ln = max(0, hi - lo)
            k = op[2]
            if hi <= n:
                if -ln <= k < ln:
                    kk = lo + (k + ln if k < 0 else k)
                    want = "N" + str(idx_of[json.dumps(cpath(path + [(attr, kk)]))])
                else:
                    want = "E:IndexError"
                if r != want:
                    return f"block[{k}] of {cpath(path)}.{attr}[{lo}:{hi}] should be {want}, got {r}"
        if name in ("bslice", "pbslice", "bexpand", "pbexpand", "asblock", "bbefore", "bafter"):
            return f"{name} result {r} differs from the Python range / documented semantics"
        return None

    def check_laws(self, source, p, tag, root, nt, paths, idx_of):
        """inverse laws checked directly on the real public objects, at every statement / block"""
        ctx, IC, PC = self.ctx, self.IC, self.PC
        L = self.oracle.L

        def canon(c):
            if isinstance(c, PC.InvalidCursor):
                return "INV"
            return json.dumps(canon_impl(c._impl, IC))

        def law(key, ok, what, extra):
            ctx.evaluated(None)
            ctx.count("law:" + key)
            if not ok:
                ctx.violation("law:" + key, f"{what} ({tag})", dict(extra, source=source, proc=tag))

        for path in paths:
            node = ntree_get(nt, path)
            try:
                n = IC.Node(root, list(path))._node
                if isinstance(n, L.stmt):
                    c = PC.lift_cursor(IC.Node(root, list(path)), p)
                    me = canon(c)
                    ex = {"at": cpath(path)}
                    nx, pv = c.next(), c.prev()
                    attr, k = path[-1]
                    sibs = len(getattr(IC.Node(root, list(path[:-1]))._node, attr))
                    law("next-prev", (not nx) or canon(nx.prev()) == me, "next().prev() is not the identity", ex)
                    law("prev-next", (not pv) or canon(pv.next()) == me, "prev().next() is not the identity", ex)
                    law("next-edge", bool(nx) == (k + 1 < sibs), "next() validity at the end of the block", ex)
                    law("prev-edge", bool(pv) == (k > 0), "prev() validity at the start of the block", ex)
                    if nx:
                        law("next-is-successor", nx._impl._path == list(path[:-1]) + [(attr, k + 1)], "next() is not the following statement", ex)
                    law("before-anchor", canon(c.before().anchor()) == me, "before().anchor() is not the statement", ex)
                    law("after-anchor", canon(c.after().anchor()) == me, "after().anchor() is not the statement", ex)
                    law("gap-parent", canon(c.before().parent()) == canon(c.parent()), "gap parent differs from statement parent", ex)
                    if pv:
                        law("gap-between", pv.after()._impl._insertion_index() == c.before()._impl._insertion_index(),
                            "after(prev) and before(self) denote different gaps", ex)
                    b = c.as_block()
                    law("as-block", len(b) == 1 and canon(b[0]) == me and canon(b[-1]) == me and canon(b.parent()) == canon(c.parent()),
                        "as_block() is not the singleton block of the statement", ex)
                    law("expand-all", canon(c.expand()) == canon(PC.BlockCursor(IC.Node(root, list(path[:-1]))._child_block(attr), p)),
                        "expand() is not the whole block", ex)
                    law("expand-00", canon(c.expand(0, 0)) == canon(b), "expand(0,0) changes the block", ex)
                    # children -> parent
                    for cattr, is_list, kids in node[1]:
                        if not kids or kids[0][0] not in LIFTABLE:
                            continue
                        for ci in (range(len(kids)) if is_list else [None]):
                            ch = c._child_node(cattr, ci)
                            law("parent-child", canon(ch.parent()) == me, f"parent(child({cattr},{ci})) is not the node", ex)
                elif isinstance(n, L.expr):
                    c = PC.lift_cursor(IC.Node(root, list(path)), p)
                    me = canon(c)
                    ex = {"at": cpath(path)}
                    for cattr, is_list, kids in node[1]:
                        if not kids or (kids[0][0] not in LIFTABLE and not isinstance(n, L.WindowExpr)) or cattr == "type":
                            continue
                        for ci in (range(len(kids)) if is_list else [None]):
                            if isinstance(n, L.WindowExpr):
                                w = IC.Node(root, list(path))._child_node(cattr, ci)
                                for wattr in ("lo", "hi", "pt"):
                                    if hasattr(w._node, wattr):
                                        ch = PC.lift_cursor(w._child_node(wattr), p)
                                        law("parent-child-window", canon(ch.parent()) == me, "parent() through a w_access is not the window expression", ex)
                            else:
                                ch = c._child_node(cattr, ci)
                                law("parent-child", canon(ch.parent()) == me, f"parent(child({cattr},{ci})) is not the node", ex)
                # statement blocks of this node
                for cattr, is_list, kids in node[1]:
                    if not is_list or not kids or cattr not in ("body", "orelse"):
                        continue
                    full = PC.BlockCursor(IC.Node(root, list(path))._child_block(cattr), p)
                    nlen = len(kids)
                    ex = {"at": cpath(path), "attr": cattr}
                    law("block-len", len(full) == nlen, "len(block) differs from the number of statements", ex)
                    law("block-iter", [canon(x) for x in full] == [canon(full[i]) for i in range(nlen)], "iteration differs from indexing", ex)
                    law("block-index", all(full[i]._impl._path == list(path) + [(cattr, i)] for i in range(nlen)), "block[i] is not the i-th statement", ex)
                    law("block-neg-index", all(canon(full[-i - 1]) == canon(full[nlen - 1 - i]) for i in range(nlen)), "negative indexing", ex)
                    try:
                        full[nlen]
                        edge = False
                    except IndexError:
                        edge = True
                    law("block-index-edge", edge, "block[len] does not raise IndexError", ex)
                    law("slice-full", canon(full[:]) == canon(full), "block[:] is not the block", ex)
                    for i in range(nlen):
                        for j in range(i + 1, nlen + 1):
                            s = full[i:j]
                            ok = len(s) == j - i and all(canon(s[k]) == canon(full[i + k]) for k in range(j - i))
                            law("slice-index", ok, f"block[{i}:{j}][k] is not block[{i}+k]", ex)
                            law("slice-expand", canon(s.expand(i, nlen - j)) == canon(full), f"block[{i}:{j}].expand({i},{nlen - j}) is not the block", ex)
                            law("slice-expand-all", canon(s.expand()) == canon(full), f"block[{i}:{j}].expand() is not the whole block", ex)
                            law("expand-clamp", canon(s.expand(nlen + 3, nlen + 3)) == canon(full), "expand beyond the edges does not clamp", ex)
                            if j - i == 1:
                                law("slice-single", canon(full[i].as_block()) == canon(s), "block[i].as_block() is not block[i:i+1]", ex)
                    law("block-before-after", canon(full.before().anchor()) == canon(full[0]) and canon(full.after().anchor()) == canon(full[-1]),
                        "block.before()/after() anchors", ex)
            except InfraError:
                raise
            except Exception as e:  # noqa
                ctx.violation("law:exception", f"navigation raised {type(e).__name__} at {cpath(path)} of {tag}: {str(e)[:80]}",
                              {"source": source, "proc": tag, "at": cpath(path), "exception": repr(e)[:200]})


def gen_queries(body, rng, n_derived, n_fixed, p):
    """(kind, pattern string) list for one procedure"""
    pats = derived_patterns(body, rng, n_derived)
    pats += rng.sample(FIXED_STMT_PATS, min(n_fixed, len(FIXED_STMT_PATS)))
    pats += rng.sample(FIXED_EXPR_PATS, min(n_fixed, len(FIXED_EXPR_PATS)))
    qs = []
    for s in pats:
        kind = rng.choice(["find", "find_many", "find_many", "find_all"])
        if kind == "find_all" and any(f + "(" in s for f in ("sin", "relu", "select")):
            kind = "find_many"          # the extern-scope stream below covers find_all + externs
        qs.append((kind, s))
    # `#n` for n up to count + 1 on a few patterns (count is discovered through the real find_all)
    counted = []
    for s in rng.sample(pats, min(14, len(pats))):
        try:
            counted.append((len(p.find(s, many=True)), s))
        except Exception:  # noqa
            counted.append((0, s))
    counted.sort(key=lambda x: -x[0])
    for cnt, s in counted[:5] + counted[-1:]:
        for n in range(0, min(cnt, 6) + 2):
            sep = rng.choice([" #", "#", "  #", " #"])
            tail = rng.choice(["", "", " ", "  "])
            qs.append((rng.choice(["find", "find_many", "find_all" if "(" not in s else "find"]), f"{s}{sep}{n}{tail}"))
    return qs, pats


def gen_shorthand_queries(rng):
    qs = []
    for v in LOOPVARS + ["zz", "_"]:
        qs.append(("find_loop", v))
        qs.append(("find_loop_many", v))
        for n in range(0, 4):
            qs.append(("find_loop", f"{v} #{n}"))
        qs.append(("find_loop", f"{v}#{rng.randint(0, 2)}"))
        qs.append(("find_loop", f"{v}  #{rng.randint(0, 2)}"))
    qs.append(("find_loop", "for i in _: _"))
    qs.append(("find_loop", "for i in _: _ #1"))
    qs.append(("find_loop", "x[_] = _"))
    for v in ["t", "u", "w", "x", "y", "z", "n", "t1", "t2", "q"]:
        qs.append(("find_alloc", v))
        for n in range(0, 3):
            qs.append(("find_alloc", f"{v} #{n}"))
    qs.append(("find_alloc", "t : _"))
    qs.append(("find_alloc", "t : _ #1"))
    return qs


def run(ctx):
    exo = import_exo()
    ctx.rule = ("one case = (generated procedure, pattern string, API entry point) or (procedure, cursor position, "
                "navigation call); procedures come from a random statement generator (loops, if/else, allocs, calls, "
                "config writes, windows, repeated shapes) through the real @proc; patterns are abstractions of the "
                "procedure's own statements/expressions/sequences with `_` holes plus a fixed list and `#n` for n up to "
                "count+1; a find case is non-trivial when the pattern parses and the search runs (match or no-match)")
    ctx.assumptions += [
        "node-level matcher (match_e / match_stmt / match_stmts with hole look-ahead) is the definition of 'structurally matches'",
        "expression positions are the `_children` traversal (Alloc shapes, proc args/preds are not positions)",
        "names compare as str(sym); constants as exact rationals (Python == on bool/int/float is exact)",
        "pyparser.pattern (Python ast -> PAST) is trusted: the model starts from the PAST the real parser returns",
        "pattern strings are ASCII (the model's regexes are ASCII versions of \\w, \\d, \\s)",
        "patterns with two adjacent statement holes raise AssertionError in match_stmt: outside the model",
    ]
    ctx.trusted += [
        "exo.frontend.pyparser.pattern (pattern text -> PAST) — used as is",
        "harness exporters (LoopIR/PAST -> JSON) and the generic attrs-based navigation-tree export",
        "ExoModel.C16Json (JSON codec of the driver; no theorem depends on it)",
    ]

    # 1. proof obligations ----------------------------------------------------------------------
    broken = ctx.lean_obligations(["ExoModel.Props.C16"], build_targets=["ExoModel.Props.C16", "ExoModel.C16Json"])
    for b in broken:
        ctx.violation("obligation:" + b.split(":")[0], f"proof obligation broken: {b}", {"obligation": b}, no_input=True)

    drv = LeanDriver(LEAN / "Drivers" / "C16.lean")
    try:
        chk = Checker(ctx, exo, drv)
        with tempfile.TemporaryDirectory(prefix="c16_") as tmpdir:
            if ctx.replay:
                rep = json.loads(Path(ctx.replay).read_text())["replay"]
                mod = load_module(tmpdir, "c16_replay", rep["source"])
                p = getattr(mod, rep["proc"])
                if "pattern" in rep and "kind" in rep:
                    chk.check_find(rep["source"], p, [(rep["kind"], rep["pattern"])], rep["proc"])
                else:
                    chk.check_nav(rep["source"], p, rep["proc"], True)
                return
            n_procs = ctx.scale(100, 400)
            n_nav = ctx.scale(40, 150)
            batch = 12
            made = 0
            bi = 0
            while made < n_procs:
                bi += 1
                gens = []
                src = PRELUDE
                for k in range(batch):
                    g = ProcGen(ctx.rng, ctx.rng.randint(6, 22))
                    name = f"p{bi}_{k}"
                    body, text = g.proc(name)
                    gens.append((name, body, text))
                # one module per procedure would be slow; try the batch, fall back to singles
                mods = {}
                try:
                    mod = load_module(tmpdir, f"c16_b{bi}", src + "\n".join(t for _, _, t in gens))
                    for name, _, _ in gens:
                        mods[name] = getattr(mod, name)
                except Exception:  # noqa  (some generated procedure was rejected by the front end)
                    for name, body, text in gens:
                        try:
                            mod = load_module(tmpdir, f"c16_s{bi}_{name}", src + text)
                            mods[name] = getattr(mod, name)
                        except Exception as e:  # noqa
                            ctx.count("gen:rejected:" + type(e).__name__)
                for name, body, text in gens:
                    if name not in mods or made >= n_procs:
                        continue
                    p = mods[name]
                    made += 1
                    ctx.count("gen:procs")
                    qs, pats = gen_queries(body, ctx.rng, ctx.scale(14, 22), ctx.scale(8, 12), p)
                    qs += ctx.rng.sample(gen_shorthand_queries(ctx.rng), ctx.scale(10, 24))
                    qs += [(ctx.rng.choice(["find", "find_many"]), s) for s in ctx.rng.sample(MALFORMED_PATS, 3)]
                    full_src = PRELUDE + text
                    chk.check_find(full_src, p, qs, name)
                    if made <= ctx.scale(10, 40):
                        chk.check_scoped_find(full_src, p, name, ctx.rng.sample(pats, min(5, len(pats))))
                    if made <= n_nav:
                        chk.check_nav(full_src, p, name, full=not ctx.quick)
                    if ctx.quick and ctx.elapsed() > 150:
                        ctx.count("budget:stopped-early")
                        made = n_procs
            # near-miss / known-defect streams on one fixed procedure -------------------------------------
            fixed_src = PRELUDE + textwrap.dedent('''\
                @proc
                def fixed(n: size, m: size, x: f32[n], y: f32[n, m], z: f32, v: f32[m]):
                    assert n > 4
                    assert m > 4
                    for i in seq(0, n):
                        x[i] = 1.0
                    for i in seq(0, n):
                        x[i] = sin(x[i]) + 2.0
                        if i < 3:
                            x[i] += relu(y[i, 0])
                        else:
                            pass
                    for i in seq(0, m):
                        t: f32[n]
                        t[0] = v[i]
                        if stride(y, 1) == 1:
                            z = 3.0
                ''')
            mod = load_module(tmpdir, "c16_fixed", fixed_src)
            p = mod.fixed
            qs = [("find_loop", "i # 1"), ("find_loop", "i #  2"), ("find", "x[_] = _ # 1"), ("find_many", "for i in _: _ # 2"),
                  ("find_alloc", "t # 0"),
                  ("find_all", "sin(_)"), ("find_all", "relu(_)"), ("find_all", "sin(_) + _"),
                  ("find_many", "sin(_)"), ("find", "relu(_) #0"), ("find_all", "x[_] = sin(_) + _"),
                  ("find_many", "stride(y, 0)"), ("find_many", "stride(y, 1)"), ("find_many", "t : f32[m]"), ("find_many", "n")]
            chk.check_find(fixed_src, p, qs, "fixed")
            chk.check_nav(fixed_src, p, "fixed", True)
    finally:
        drv.close()
    ctx.extra["quirks_mirrored"] = [
        "zip truncation of idx/sizes/args lists", "WindowStmt matched by `name = rhs` patterns without indices",
        "WindowExpr matched only by `name[_]`", "stride(x, 0) == stride(x, _)", "WriteConfig match_name argument order swapped",
        "trailing `_` needs one more statement; `_` + look-ahead matches zero or more", "body patterns match a prefix",
        "absent else-pattern matches any orelse", "Alloc shapes / proc preds are not searched", "USub(Const) pattern vs negative Const",
    ]
