"""Scripted sessions of the C18 search (executed by c18_worker.py in FRESH interpreters).

Each scripted session is Python source that is written to a scratch module and imported (so that
`@proc` / `@instr` find their source).  The module gets a function `rec(label, obj)` injected into
its namespace *before* execution through the header: every call records `str(obj)` (a Procedure,
or text) under `label`; labels of schedule steps start with the operator name (`replace_all:...`)
because the classification of a difference looks at the first label that differs.
"""
from __future__ import annotations

X86_HEADER = """from __future__ import annotations
from exo import proc, instr, DRAM, config
from exo.libs.memories import *
from exo.libs.externs import *
from exo.platforms.x86 import *
from exo.stdlib.scheduling import *
from exo.API import compile_procs_to_strings
from c18_worker import rec, compile_unit, exc_class

old_split = repeat(divide_loop)
old_unroll = repeat(unroll_loop)


def old_fission_after(proc, stmt_pattern, n_lifts=1):
    def find_stmts(p):
        return [c.after() for c in p.find_all(stmt_pattern)]

    return loop_hack(autofission, find_stmts)(proc, n_lifts)
"""

SCRIPTED = {}


def add(name, src, tags=()):
    SCRIPTED[name] = {"src": src, "tags": list(tags)}


# ------------------------------------------------------------------ F17: AVX2 sgemm through replace_all
# (tests/test_x86.py::avx2_sgemm_6x16; the test suite itself skips the golden comparison:
#  "apparently unifying the broadcast is non-deterministic")
add("x86_sgemm_6x16", '''
@proc
def sgemm_6x16(K: size, C: [f32][6, 16] @ DRAM, A: [f32][6, K] @ DRAM, B: [f32][K, 16] @ DRAM):
    for i in seq(0, 6):
        for j in seq(0, 16):
            for k in seq(0, K):
                C[i, j] += A[i, k] * B[k, j]

avx = rename(sgemm_6x16, "rank_k_reduce_6x16_scheduled")
avx = stage_mem(avx, "C[_] += _", "C[i, j]", "C_reg"); rec("stage_mem:C_reg", avx)
avx = set_memory(avx, "C_reg", AVX2)
avx = old_split(avx, "j", 8, ["jo", "ji"], perfect=True); rec("divide_loop:j", avx)
avx = reorder_loops(avx, "ji k")
avx = reorder_loops(avx, "jo k")
avx = reorder_loops(avx, "i k"); rec("reorder_loops", avx)
avx = autolift_alloc(avx, "C_reg:_", n_lifts=3, keep_dims=True)
avx = old_fission_after(avx, "C_reg = _ #0", n_lifts=3)
avx = old_fission_after(avx, "C_reg[_] += _ #0", n_lifts=3)
avx = autolift_alloc(avx, "C_reg:_", n_lifts=1)
avx = old_fission_after(avx, "for i in _:_#0", n_lifts=1)
avx = old_fission_after(avx, "for i in _:_#1", n_lifts=1)
avx = simplify(avx); rec("simplify:1", avx)
p = avx
p = bind_expr(p, "A[i, k]", "a_vec"); rec("bind_expr:a_vec", p)
p = set_memory(p, "a_vec", AVX2)
p = expand_dim(p, "a_vec:_", "8", "ji")
p = autolift_alloc(p, "a_vec:_")
p = old_fission_after(p, "a_vec[_] = _")
p = bind_expr(p, "B[k, _]", "b_vec"); rec("bind_expr:b_vec", p)
p = set_memory(p, "b_vec", AVX2)
p = expand_dim(p, "b_vec:_", "8", "ji")
p = autolift_alloc(p, "b_vec:_")
p = old_fission_after(p, "b_vec[_] = _"); rec("fission:b_vec", p)
p = replace_all(p, avx2_set0_ps); rec("replace_all:avx2_set0_ps", p)
p = replace_all(p, mm256_broadcast_ss); rec("replace_all:mm256_broadcast_ss", p)
p = replace_all(p, mm256_fmadd_ps); rec("replace_all:mm256_fmadd_ps", p)
p = replace_all(p, avx2_fmadd_memu_ps); rec("replace_all:avx2_fmadd_memu_ps", p)
p = replace(p, "for ji in _:_ #0", mm256_loadu_ps); rec("replace:mm256_loadu_ps#0", p)
p = replace(p, "for ji in _:_ #0", mm256_loadu_ps); rec("replace:mm256_loadu_ps#1", p)
p = replace(p, "for ji in _:_ #0", mm256_storeu_ps); rec("replace:mm256_storeu_ps", p)
p = old_unroll(p, "jo")
p = old_unroll(p, "i"); rec("unroll_loop", p)
p = simplify(p); rec("simplify:2", p)
compile_unit("compile", [p])
''', tags=["x86", "replace"])

# ------------------------------------------------------------------ AVX2 x = x*y*y (test_x86 simple_math_avx2_sched)
add("x86_simple_math", '''
@proc
def simple_math_avx2_sched(n: size, x: R[n] @ DRAM, y: R[n] @ DRAM):
    for i in seq(0, n):
        x[i] = x[i] * y[i] * y[i]

p = simple_math_avx2_sched
p = old_split(p, "i", 8, ["io", "ii"], tail="cut_and_guard"); rec("divide_loop:i", p)
p = stage_mem(p, "for ii in _:_", "x[8 * io: 8 * io + 8]", "xVec"); rec("stage_mem:xVec", p)
p = set_memory(p, "xVec", AVX2)
p = replace(p, "for i0 in _:_ #0", mm256_loadu_ps); rec("replace:mm256_loadu_ps", p)
p = replace(p, "for i0 in _:_ #0", mm256_storeu_ps); rec("replace:mm256_storeu_ps", p)
p = bind_expr(p, p.find("y[_]", many=True), "yVec"); rec("bind_expr:yVec", p)
p = autolift_alloc(p, "yVec: _", keep_dims=True)
p = set_memory(p, "yVec", AVX2)
p = old_fission_after(p, "yVec[_] = _")
p = replace_all(p, mm256_loadu_ps); rec("replace_all:mm256_loadu_ps", p)
p = bind_expr(p, "xVec[_] * yVec[_]", "xy"); rec("bind_expr:xy", p)
p = autolift_alloc(p, "xy: _", keep_dims=True)
p = set_memory(p, "xy", AVX2)
p = old_fission_after(p, "xy[_] = _")
p = replace_all(p, mm256_mul_ps); rec("replace_all:mm256_mul_ps", p)
p = simplify(p); rec("simplify", p)
compile_unit("compile", [p])
''', tags=["x86", "replace"])

# ------------------------------------------------------------------ unroll_buffer: set-valued `used_allocs`
add("unroll_buffer", '''
@proc
def ub(x: f32[16], y: f32[16]):
    t: f32[12]
    t[8] = x[0]
    t[0] = x[1]
    t[9] = x[2]
    t[1] = x[3]
    t[11] = x[4]
    t[3] = x[5]
    y[0] = t[8] + t[0]
    y[1] = t[9] + t[1] + t[11] + t[3]

p = unroll_buffer(ub, "t : _", 0); rec("unroll_buffer:t", p)

@proc
def ub2(x: f32[16], y: f32[4, 16]):
    for i in seq(0, 16):
        t: f32[4, 2]
        t[3, 0] = x[i]
        t[0, 1] = x[i] * 2.0
        t[2, 1] = x[i] * 3.0
        y[0, i] = t[3, 0] + t[0, 1] + t[2, 1]

q = unroll_buffer(ub2, "t : _", 0); rec("unroll_buffer:t#0", q)
q = unroll_buffer(q, "t_3 : _", 0); rec("unroll_buffer:t_3", q)
q = simplify(q); rec("simplify", q)
compile_unit("compile", [p, q])
''', tags=["sets"])

# ------------------------------------------------------------------ one unit with many of everything
add("big_unit", '''
@config
class CfgB:
    scale: f32
    n: size

@config
class CfgA:
    alpha: f32

@config(readwrite=False)
class CfgZ:
    k: index

@proc
def leaf_w(n: size, dst: [f32][n], src: [f32][n]):
    for i in seq(0, n):
        dst[i] = sin(src[i]) + relu(src[i])

@proc
def leaf_i8(n: size, a: [i8][n, n], b: i8[n] @ DRAM_STATIC):
    for i in seq(0, n):
        for j in seq(0, n):
            a[i, j] = select(b[i], a[i, j], b[j], a[j, i])

@proc
def mid(n: size, x: f32[n, n], y: f32[n, n] @ DRAM_STACK, v: f64[n]):
    assert n > 4
    for i in seq(0, n):
        leaf_w(n, y[i, :], x[i, :])
        leaf_w(4, y[0:4, i], x[i, 0:4])
        v[i] = sqrt(v[i]) + expf(v[(i + 1) / 3])
    tmp: f32[8] @ AVX2
    u: f32[8] @ DRAM_STATIC
    for k in seq(0, 8):
        u[k] = CfgB.scale

@proc
def cfg_writer(x: f32[4], k: index):
    CfgA.alpha = 2.0
    CfgB.scale = x[0]
    CfgB.n = 4
    x[1] = CfgA.alpha

@proc
def top(n: size, x: f32[n, n], y: f32[n, n] @ DRAM_STACK, v: f64[n], a: i8[n, n], b: i8[n] @ DRAM_STATIC, c: f32[16] @ DRAM):
    assert n > 4
    mid(n, x, y, v)
    leaf_i8(n, a, b)
    w: f32[16] @ AVX512
    for k in seq(0, 16):
        c[k] = c[k] + 1.0
    for i in seq(0, n):
        x[i, (i - 3) / 2 + 2] = fmaxf(x[i, 0], sigmoid(x[0, i]))

rec("print:top", top)
rec("print:mid", mid)
compile_unit("compile:top", [top])
compile_unit("compile:top+leaf+cfg", [leaf_i8, top, cfg_writer, leaf_w])
m2 = rename(simplify(divide_loop(mid, "i", 4, ["io", "ii"], tail="cut")), "mid_tiled"); rec("divide_loop+simplify:mid", m2)
compile_unit("compile:mid_tiled+top", [m2, top])
''', tags=["unit"])

# ------------------------------------------------------------------ user sub-procedure replace among plain procs
add("replace_subproc", '''
@proc
def add_vec(n: size, dst: [f32][n], a: [f32][n], b: [f32][n]):
    for i in seq(0, n):
        dst[i] = a[i] + b[i]

@proc
def scale_row(n: size, dst: [f32][n], s: f32):
    for i in seq(0, n):
        dst[i] = dst[i] * s

@proc
def user(M: size, N: size, X: f32[M, N], Y: f32[M, N], Z: f32[M, N], s: f32):
    for r in seq(0, M):
        for c in seq(0, N):
            Z[r, c] = X[r, c] + Y[r, c]
    for r in seq(0, M):
        for c in seq(0, N):
            Z[r, c] = Z[r, c] * s
    for c in seq(0, N):
        for r in seq(0, M):
            Z[r, c] = X[r, c] + Y[r, c]

p = user
p = replace_all(p, add_vec); rec("replace_all:add_vec", p)
p = replace_all(p, scale_row); rec("replace_all:scale_row", p)
p = inline(p, p.find("add_vec(_)")); rec("inline:add_vec", p)
p = simplify(p); rec("simplify", p)
compile_unit("compile", [p])
''', tags=["replace"])

# ------------------------------------------------------------------ known findings: keys that the code does not force to be distinct
add("dup_memory_names", '''
from exo.core.memory import DRAM as _D

def _mk(tag):
    class MyMem(_D):
        @classmethod
        def global_(cls):
            return "// global of MyMem variant " + tag
    return MyMem

M1 = _mk("one"); M2 = _mk("two"); M3 = _mk("three"); M4 = _mk("four")

@proc
def foo(x: f32[4] @ M1, y: f32[4] @ M2, z: f32[4] @ M3, w: f32[4] @ M4):
    for i in seq(0, 4):
        x[i] = y[i] + z[i] + w[i]

compile_unit("compile", [foo])
''', tags=["known:compile:memories-same-name-order"])

add("dup_extern_keys", '''
from exo.core.extern import Extern as _E

class _Fn(_E):
    def __init__(self, nm, tag):
        super().__init__(nm)
        self.tag = tag
    def typecheck(self, args):
        return args[0].type
    def globl(self, prim_type):
        return "// extern " + self._name + " " + self.tag + " " + prim_type
    def compile(self, args, prim_type):
        return self._name + "_" + self.tag + "(" + args[0] + ")"

g1 = _Fn("g", "x"); g2 = _Fn("g", "y"); g3 = _Fn("g", "z"); g4 = _Fn("g", "w")
fu = _Fn("fu", "a"); f = _Fn("f", "b")

@proc
def bar(x: f32[4], y: f32[4], a: i8[4], b: ui8[4]):
    for i in seq(0, 4):
        x[i] = g1(y[i]) + g2(y[i]) + g3(y[i]) + g4(y[i])
        a[i] = fu(a[i])
        b[i] = f(b[i])

compile_unit("compile", [bar])
''', tags=["known:compile:externs-same-key-order"])


# whether Z3 answers or says `unknown` depends on the Sym ids in the query (known finding)
add("z3_unknown_probe", '''
@proc
def carried(n: size, x: f32[n + 1]):
    for i in seq(0, n):
        x[i + 1] = x[i] + 1.0

p = divide_loop(carried, "i", 2, ["io", "ii"], tail="cut"); rec("divide_loop", p)
try:
    p = reorder_loops(p, "io ii"); rec("reorder_loops", p)
except Exception as e:
    rec("reorder_loops", "EXC:" + exc_class(type(e).__name__, str(e)))
''', tags=["smt"])

# two procedures of one name reached through the set of callees: compile_to_strings must raise
# (on a tree without the duplicate check the tie is broken by set order)
add("dup_proc_names", '''
@proc
def helper_a(n: size, x: f32[n]):
    for i in seq(0, n):
        x[i] = 1.0

@proc
def helper_b(n: size, x: f32[n]):
    for i in seq(0, n):
        x[i] = 2.0

@proc
def helper_c(n: size, x: f32[n]):
    for i in seq(0, n):
        x[i] = 3.0

hb = rename(helper_b, "helper_a")
hc = rename(helper_c, "helper_a")

@proc
def caller(n: size, x: f32[n], y: f32[n], z: f32[n]):
    helper_a(n, x)
    hb(n, y)
    hc(n, z)

rec("print:caller", caller)
compile_unit("compile", [caller])
''', tags=["unit"])


# pool programs (harness/pool.py) scheduled by a seeded choice among stream.attempts; `ops` lists the
# operators a session tries to use (first accepted attempt of that operator, in shuffled order)
POOL_OPS = [
    ["divide_loop", "simplify", "stage_mem", "bind_expr", "simplify"],
    ["stage_mem", "divide_loop", "unroll_loop", "simplify", "unroll_buffer"],
    ["bind_expr", "expand_dim", "lift_alloc", "fission", "simplify"],
    ["divide_loop", "reorder_loops", "stage_mem", "simplify", "extract_subproc"],
    ["cut_loop", "shift_loop", "simplify", "divide_with_recompute", "simplify"],
    ["specialize", "divide_loop", "simplify", "replace", "inline"],
    ["extract_subproc", "divide_loop", "mult_loops", "simplify", "rewrite_expr"],
    ["resize_dim", "divide_dim", "unroll_buffer", "simplify", "bind_expr"],
]
