"""C13 — range analysis bounds contain every attainable value.

Parts
  0. obligations: lake build + axiom audit of ExoModel.Props.C13
  1. correspondence A (model through lean/Drivers/C13.lean vs the REAL classes of REPO/src) on
       a1  index_range_analysis(expr, dict)                      random expressions / environments
       a2  IndexRange operators through Python's operator dispatch, get_size/get_bounds/
           get_stride_of/partial_eval_with_range/__or__          random (also hand-made) ranges
       a3  IndexRangeEnvironment scripts (enter/exit/add_loop_iter/set) + constant_bound,
           check_expr_bound(s), is_non_neg
       a4  exo.stdlib.range_analysis.infer_range / bounds_inference on procedures built by @proc
  2. search (always on): brute-force valuations in a small box against the REAL result
       + a5  compiled C index expressions evaluated with C semantics vs floor semantics
       + a6  fold-buffer acceptance vs a direct simulation of the folded program
       + fixed probes of the recorded findings
A replay file holds the wire form of the case (and, for procedures, the source text).
"""
from __future__ import annotations

import importlib.util
import itertools
import json
import operator
import re
import sys
import tempfile
from collections import ChainMap
from pathlib import Path

from common import InfraError, LEAN, lean_batch, import_exo

DRIVER = "Drivers/C13.lean"
EXC_NAMES = {"AssertionError", "TypeError", "ZeroDivisionError", "ValueError", "AttributeError", "KeyError"}


# ----------------------------------------------------------------------------- wire ASTs
# ("v", name, id) | ("c", n) | ("n", a) | (op, a, b) with op in + - * / % | ("o",)
def wire(a):
    k = a[0]
    if k == "v":
        return f"v {a[1]} {a[2]}"
    if k == "c":
        return f"c {a[1]}"
    if k == "n":
        return "n " + wire(a[1])
    if k == "o":
        return "o"
    return f"{k} {wire(a[1])} {wire(a[2])}"


def pretty(a):
    k = a[0]
    if k == "v":
        return f"{a[1]}#{a[2]}"
    if k == "c":
        return str(a[1])
    if k == "n":
        return f"-({pretty(a[1])})"
    if k == "o":
        return "<non-index>"
    return f"({pretty(a[1])} {k} {pretty(a[2])})"


def parse_wire(toks):
    t = toks.pop(0)
    if t == "v":
        nm = toks.pop(0)
        return ("v", nm, int(toks.pop(0)))
    if t == "c":
        return ("c", int(toks.pop(0)))
    if t == "n":
        return ("n", parse_wire(toks))
    if t == "o":
        return ("o",)
    a = parse_wire(toks)
    b = parse_wire(toks)
    return (t, a, b)


def ast_vars(a, acc=None):
    acc = [] if acc is None else acc
    if a[0] == "v":
        if (a[1], a[2]) not in acc:
            acc.append((a[1], a[2]))
    elif a[0] == "n":
        ast_vars(a[1], acc)
    elif a[0] in "+-*/%":
        ast_vars(a[1], acc)
        ast_vars(a[2], acc)
    return acc


def pos_div(a):
    """every divisor is a positive literal (what the front end admits)"""
    k = a[0]
    if k in ("v", "c"):
        return True
    if k == "o":
        return False
    if k == "n":
        return pos_div(a[1])
    ok = pos_div(a[1]) and pos_div(a[2])
    if k in "/%":
        ok = ok and a[2][0] == "c" and a[2][1] > 0
    return ok


def ev(a, rho):
    """reference value (floor semantics); None where exo gives no meaning (divisor <= 0)"""
    k = a[0]
    if k == "v":
        return rho[(a[1], a[2])]
    if k == "c":
        return a[1]
    if k == "o":
        return None
    if k == "n":
        x = ev(a[1], rho)
        return None if x is None else -x
    x = ev(a[1], rho)
    y = ev(a[2], rho)
    if x is None or y is None:
        return None
    if k == "+":
        return x + y
    if k == "-":
        return x - y
    if k == "*":
        return x * y
    if y <= 0:
        return None
    return x // y if k == "/" else x % y


def oi(x):
    return "N" if x is None else str(x)


# ----------------------------------------------------------------------------- the real world
class World:
    """real LoopIR / Sym objects for wire ASTs and back"""

    def __init__(self, exo):
        from exo.core.LoopIR import LoopIR, T
        from exo.core.prelude import Sym, SrcInfo
        from exo.rewrite import range_analysis as RA

        self.LoopIR, self.T, self.Sym, self.RA = LoopIR, T, Sym, RA
        self.si = SrcInfo("c13", 0)
        self.by_key = {}
        self.by_obj = {}

    def sym(self, name, k):
        key = (name, k)
        if key not in self.by_key:
            s = self.Sym(name)
            self.by_key[key] = s
            self.by_obj[id(s)] = key
        return self.by_key[key]

    def key(self, s):
        if id(s) not in self.by_obj:  # a symbol of a real procedure: use its own id
            key = (s.name(), s._id)
            self.by_obj[id(s)] = key
            self.by_key[key] = s
        return self.by_obj[id(s)]

    def build(self, a):
        L, T = self.LoopIR, self.T
        k = a[0]
        if k == "v":
            return L.Read(self.sym(a[1], a[2]), [], T.index, self.si)
        if k == "c":
            return L.Const(a[1], T.int, self.si)
        if k == "n":
            return L.USub(self.build(a[1]), T.index, self.si)
        if k == "o":
            return L.Read(self.sym("data", 999), [], T.f32, self.si)
        return L.BinOp(k, self.build(a[1]), self.build(a[2]), T.index, self.si)

    def unbuild(self, e):
        L = self.LoopIR
        if isinstance(e, L.Read) and not e.idx and e.type.is_indexable():
            nm, k = self.key(e.name)
            return ("v", nm, k)
        if isinstance(e, L.Const) and isinstance(e.val, int) and not isinstance(e.val, bool):
            return ("c", e.val)
        if isinstance(e, L.USub):
            return ("n", self.unbuild(e.arg))
        if isinstance(e, L.BinOp) and e.op in ("+", "-", "*", "/", "%"):
            return (e.op, self.unbuild(e.lhs), self.unbuild(e.rhs))
        return ("o",)

    # ---- results
    def classify(self, r):
        if isinstance(r, bool):
            return ("?", "bool")
        if isinstance(r, int):
            return ("I", r)
        if isinstance(r, self.RA.IndexRange):
            if r.base is None:
                return ("?", "base-None")
            return ("R", r.lo, r.hi, self.unbuild(r.base))
        if isinstance(r, ValueError):
            return ("V",)
        return ("?", type(r).__name__)

    def call(self, fn):
        try:
            r = fn()
        except Exception as e:  # exceptions of the real code are data
            return ("X", type(e).__name__)
        return self.classify(r)

    def real_of(self, res):
        if res[0] == "I":
            return res[1]
        if res[0] == "R":
            return self.RA.IndexRange(self.build(res[3]), res[1], res[2])
        if res[0] == "V":
            return ValueError("Cannot divide by 0.")
        raise AssertionError(res)


def res_str(res):
    if res[0] == "I":
        return f"I {res[1]}"
    if res[0] == "R":
        return f"R {oi(res[1])} {oi(res[2])} {wire(res[3])}"
    if res[0] == "V":
        return "V"
    if res[0] == "X":
        return f"X {res[1]}"
    return "? " + str(res[1])


def res_holds(res, rho, v):
    """does the reported result contain v under rho?  (None = not a bound at all)"""
    if res[0] == "I":
        return v == res[1]
    if res[0] == "R":
        b = ev(res[3], rho)
        if b is None:
            return True
        if res[1] is not None and not (b + res[1] <= v):
            return False
        if res[2] is not None and not (v <= b + res[2]):
            return False
        return True
    return True


def in_bound(b, v):
    return (b[0] is None or b[0] <= v) and (b[1] is None or v <= b[1])


# ----------------------------------------------------------------------------- generators
NAMES = ["i", "j", "n", "i", "x"]  # 'i' twice: two symbols sharing a name


def sym_pool():
    return [(nm, k + 1) for k, nm in enumerate(NAMES)]


def gen_expr(r, d, syms, wild):
    if d == 0 or r.random() < 0.22:
        if r.random() < 0.65:
            return ("v",) + r.choice(syms)
        return ("c", r.choice([-5, -3, -2, -1, 0, 0, 1, 1, 2, 3, 4, 7]))
    k = r.random()
    if k < 0.10:
        return ("n", gen_expr(r, d - 1, syms, wild))
    if wild and k < 0.115:
        return ("o",)
    op = r.choice(["+", "+", "-", "-", "*", "*", "/", "/", "%", "%"])
    if op in "+-":
        return (op, gen_expr(r, d - 1, syms, wild), gen_expr(r, d - 1, syms, wild))
    if op == "*":
        if wild and r.random() < 0.06:
            return (op, gen_expr(r, d - 1, syms, wild), gen_expr(r, d - 1, syms, wild))
        c = ("c", r.choice([-4, -3, -2, -1, 0, 1, 2, 3, 5]))
        e = gen_expr(r, d - 1, syms, wild)
        return (op, e, c) if r.random() < 0.5 else (op, c, e)
    # / and %
    if wild and r.random() < 0.12:
        dv = r.choice([("c", 0), ("c", -1), ("c", -2), ("c", -3), ("v",) + r.choice(syms),
                       ("*", ("c", 2), ("c", 3)), ("-", ("c", 1), ("c", 3))])
    else:
        dv = ("c", r.choice([1, 2, 2, 3, 4, 4, 5, 8]))
    return (op, gen_expr(r, d - 1, syms, wild), dv)


def gen_bound(r):
    lo = None if r.random() < 0.22 else r.randint(-5, 4)
    if r.random() < 0.22:
        hi = None
    else:
        hi = (lo if lo is not None else r.randint(-4, 3)) + r.randint(0, 6)
    if r.random() < 0.03 and lo is not None:
        hi = lo - 1 - r.randint(0, 2)  # empty range
    return (lo, hi)


def gen_env(r, syms):
    return {s: gen_bound(r) for s in syms if r.random() < 0.6}


def gen_range(r, syms, d=2):
    """an arbitrary IndexRange (also shapes the analysis never produces)"""
    if r.random() < 0.4:
        base = ("c", 0)
    else:
        base = gen_base(r, syms, d)
    lo = None if r.random() < 0.2 else r.randint(-6, 6)
    hi = None if r.random() < 0.2 else (lo if lo is not None else r.randint(-6, 3)) + r.randint(0, 7)
    return ("R", lo, hi, base)


def gen_base(r, syms, d):
    if d == 0 or r.random() < 0.35:
        return ("v",) + r.choice(syms)
    k = r.random()
    if k < 0.15:
        return ("n", gen_base(r, syms, d - 1))
    if k < 0.5:
        return ("+", gen_base(r, syms, d - 1), gen_base(r, syms, d - 1))
    if k < 0.75:
        return ("*", gen_base(r, syms, d - 1), ("c", r.choice([-3, -2, -1, 2, 3, 4])))
    if k < 0.85:
        return ("*", ("c", r.choice([-2, 2, 3])), gen_base(r, syms, d - 1))
    if k < 0.93:
        return ("/", gen_base(r, syms, d - 1), ("c", r.choice([2, 3, 4])))
    return ("-", gen_base(r, syms, d - 1), gen_base(r, syms, d - 1))


def gen_res(r, syms):
    k = r.random()
    if k < 0.38:
        return ("I", r.choice([-7, -4, -3, -2, -1, 0, 0, 1, 2, 3, 4, 5, 8]))
    if k < 0.96:
        return gen_range(r, syms)
    return ("V",)


def box_for(nvars):
    return {0: 1, 1: 8, 2: 6, 3: 3}.get(nvars, 2)


def candidates(key, env, B):
    lo, hi = env.get(key, (None, None))
    c = set(range(-B, B + 1))
    for e in (lo, hi):
        if e is not None:
            c.add(e)
    if lo is None:
        c.add(-B - 9)
    if hi is None:
        c.add(B + 9)
    return sorted(v for v in c if in_bound((lo, hi), v))


def valuations(keys, env, B):
    cands = [candidates(k, env, B) for k in keys]
    for vals in itertools.product(*cands):
        yield dict(zip(keys, vals))


# ----------------------------------------------------------------------------- the check
class Check:
    def __init__(self, ctx, exo):
        self.ctx = ctx
        self.W = World(exo)
        self.reqs = []  # (request line, callback(answer))
        self.mismatch = {}  # stream -> first mismatch replay

    def ask(self, line, cb):
        assert "\n" not in line
        self.reqs.append((line, cb))

    def flush(self):
        if not self.reqs:
            return
        lines = [l for l, _ in self.reqs]
        answers = lean_batch(DRIVER, lines, timeout=3000)
        for (l, cb), a in zip(self.reqs, answers):
            if a.startswith("ERR "):
                raise InfraError(f"driver rejected request {l!r}: {a}")
            cb(a)
        self.reqs = []

    def corr(self, stream, model, real, replay):
        """compare canonical outputs; remember the first difference per stream"""
        self.ctx.count(f"{stream}:compared")
        if model != real:
            self.ctx.count(f"{stream}:MISMATCH")
            if stream not in self.mismatch:
                self.mismatch[stream] = dict(replay, model=model, real=real)
            return False
        return True

    # ------------------------------------------------------------------ a1 analysis
    def env_script(self, env):
        return " ; ".join(f"S {k[0]} {k[1]} {oi(b[0])} {oi(b[1])}" for k, b in env.items())

    def run_analysis_case(self, e, env, tag="a1"):
        W, ctx = self.W, self.ctx
        real_env = {W.sym(*k): b for k, b in env.items()}
        expr = W.build(e)
        res = W.call(lambda: W.RA.index_range_analysis(expr, real_env))
        ctx.count(f"{tag}:result:{res[0]}" + (":" + res[1] if res[0] == "X" else ""))
        keys = ast_vars(e)
        if res[0] == "R":
            keys = ast_vars(res[3], list(keys))
        B = box_for(len(keys))
        replay = {"kind": "an", "expr": wire(e), "env": self.env_script(env), "pretty": pretty(e),
                  "reported": res_str(res)}
        # search against the REAL result
        bad = None
        nval = 0
        if res[0] in ("I", "R"):
            for rho in valuations(keys, env, B):
                v = ev(e, rho)
                if v is None:
                    continue
                nval += 1
                if not res_holds(res, rho, v):
                    bad = (rho, v)
                    break
        ctx.count(f"{tag}:valuations", nval)
        if bad:
            rho, v = bad
            cls = "analysis:unsound"
            ctx.violation(cls, f"index_range_analysis({pretty(e)}) reports {res_str(res)} but the value is {v} at "
                          + ",".join(f"{k[0]}#{k[1]}={x}" for k, x in rho.items()),
                          dict(replay, valuation={f"{k[0]} {k[1]}": x for k, x in rho.items()}, value=v))
        nontrivial = res[0] in ("I", "R") and len(keys) > 0
        ctx.evaluated(("an", wire(e), self.env_script(env)), nontrivial=nontrivial)
        if nontrivial:
            ctx.sample({"expr": pretty(e), "env": {f"{k[0]}#{k[1]}": b for k, b in env.items()},
                        "reported": res_str(res), "valuations_checked": nval}, limit=4)

        def cb(ans):
            model, _, srch = ans.partition("|")
            self.corr(tag, model, res_str(res), replay)
            if srch.startswith("bad") and pos_div(e):
                # the model itself is outside its theorem: cannot happen unless eval differs
                ctx.violation("model:search-contradicts-theorem", f"driver found {srch} for {pretty(e)}", replay,
                              no_input=True)

        self.ask(f"an|{self.env_script(env)}|{wire(e)}|{B}", cb)

    def stream_a1(self, n):
        r = self.ctx.rng
        syms = sym_pool()
        for k in range(n):
            wild = k % 5 == 4
            e = gen_expr(r, r.choice([1, 2, 3, 3, 4]), syms, wild)
            env = gen_env(r, syms)
            self.ctx.count("a1:wild" if wild else "a1:valid")
            self.run_analysis_case(e, env)

    # ------------------------------------------------------------------ a2 operators
    BINOPS = {"add": operator.add, "sub": operator.sub, "mul": operator.mul,
              "floordiv": operator.floordiv, "mod": operator.mod}
    SPEC = {"add": lambda a, b: a + b, "sub": lambda a, b: a - b, "mul": lambda a, b: a * b,
            "floordiv": lambda a, b: a // b if b > 0 else None, "mod": lambda a, b: a % b if b > 0 else None}

    def values_of(self, res, rho):
        """a few values admitted by an input result under rho"""
        if res[0] == "I":
            return [res[1]]
        if res[0] != "R":
            return []
        b = ev(res[3], rho)
        if b is None:
            return []
        lo, hi = res[1], res[2]
        if lo is not None and hi is not None:
            if lo > hi:
                return []
            return sorted({b + lo, b + hi, b + (lo + hi) // 2})
        if lo is not None:
            return [b + lo, b + lo + 13]
        if hi is not None:
            return [b + hi - 13, b + hi]
        return [b - 17, b, b + 17]

    def run_binop_case(self, name, a, b):
        W, ctx = self.W, self.ctx
        ra, rb = W.real_of(a), W.real_of(b)
        out = W.call(lambda: self.BINOPS[name](ra, rb))
        replay = {"kind": "op", "op": name, "a": res_str(a), "b": res_str(b), "reported": res_str(out)}
        ctx.count(f"a2:{name}:{a[0]}{b[0]}->{out[0]}" + (":" + out[1] if out[0] == "X" else ""))
        nontrivial = out[0] in ("I", "R")
        ctx.evaluated(("op", name, res_str(a), res_str(b)), nontrivial=nontrivial)
        if nontrivial:
            keys = []
            for x in (a, b, out):
                if x[0] == "R":
                    ast_vars(x[3], keys)
            for rho in valuations(keys, {}, box_for(len(keys))):
                for v in self.values_of(a, rho):
                    for w in self.values_of(b, rho):
                        s = self.SPEC[name](v, w)
                        if s is None:
                            continue
                        if not res_holds(out, rho, s):
                            key = f"op:{name}:unsound"
                            ctx.violation(key, f"{res_str(a)} {name} {res_str(b)} = {res_str(out)} misses {v} {name} {w} = {s}",
                                          dict(replay, valuation={f"{k[0]} {k[1]}": x for k, x in rho.items()},
                                               v=v, w=w))
                            break
        self.ask(f"{name}|{res_str(a)}|{res_str(b)}", lambda ans: self.corr("a2:" + name, ans, res_str(out), replay))

    def run_neg_case(self, a):
        W, ctx = self.W, self.ctx
        ra = W.real_of(a)
        out = W.call(lambda: -ra)
        replay = {"kind": "op", "op": "neg", "a": res_str(a), "reported": res_str(out)}
        ctx.evaluated(("op", "neg", res_str(a)), nontrivial=out[0] in ("I", "R"))
        ctx.count(f"a2:neg:{a[0]}->{out[0]}")
        if out[0] in ("I", "R"):
            keys = ast_vars(a[3]) if a[0] == "R" else []
            for rho in valuations(keys, {}, box_for(len(keys))):
                for v in self.values_of(a, rho):
                    if not res_holds(out, rho, -v):
                        ctx.violation("op:neg:unsound", f"-{res_str(a)} = {res_str(out)} misses {-v}", replay)
        self.ask(f"neg|{res_str(a)}", lambda ans: self.corr("a2:neg", ans, res_str(out), replay))

    def name_clash(self, a, b):
        """do the two bases match by printed name although some symbols differ?"""
        def shape(x):
            if x[0] == "v":
                return ("v", x[1])
            if x[0] in ("c", "o"):
                return x
            return (x[0],) + tuple(shape(y) for y in x[1:])
        return a != b and shape(a) == shape(b)

    def run_or_case(self, a, b):
        W, ctx = self.W, self.ctx
        ra, rb = W.real_of(a), W.real_of(b)
        out = W.call(lambda: ra | rb)
        replay = {"kind": "op", "op": "or", "a": res_str(a), "b": res_str(b), "reported": res_str(out)}
        ctx.count(f"a2:or:->{out[0]}")
        ctx.evaluated(("op", "or", res_str(a), res_str(b)), nontrivial=out[0] == "R")
        if out[0] == "R":
            keys = ast_vars(a[3])
            ast_vars(b[3], keys)
            missing = (a[1] is None) != (b[1] is None) or (a[2] is None) != (b[2] is None)
            clash = self.name_clash(a[3], b[3])
            done = False
            for rho in valuations(keys, {}, box_for(len(keys))):
                for src in (a, b):
                    for v in self.values_of(src, rho):
                        if not res_holds(out, rho, v):
                            key = "or:missing-end" if missing else "or:name-clash" if clash else "or:unsound"
                            ctx.violation(key, f"{res_str(a)} | {res_str(b)} = {res_str(out)} misses {v} at "
                                          + ",".join(f"{k[0]}#{k[1]}={x}" for k, x in rho.items()),
                                          dict(replay, valuation={f"{k[0]} {k[1]}": x for k, x in rho.items()}, v=v))
                            done = True
                            break
                    if done:
                        break
                if done:
                    break
        self.ask(f"or|{res_str(a)}|{res_str(b)}", lambda ans: self.corr("a2:or", ans, res_str(out), replay))

    def run_misc_case(self, a, var, rng):
        W, ctx = self.W, self.ctx
        ra = W.real_of(a)
        # get_size
        sz = W.call(lambda: ra.get_size())
        real_sz = "N" if sz == ("?", "NoneType") else str(sz[1]) if sz[0] == "I" else res_str(sz)
        self.ask(f"size|{res_str(a)}", lambda ans: self.corr("a2:get_size", ans, real_sz, {"kind": "op", "op": "size", "a": res_str(a)}))
        # get_bounds
        try:
            lo_s, hi_s = ra.get_bounds()

            def canon(s):
                if s in ("-inf", "inf"):
                    return s
                return "b+" + s.rsplit(" + ", 1)[1] if " + " in s else s
            real_b = canon(lo_s) + " " + canon(hi_s)
        except Exception as e:
            real_b = "X " + type(e).__name__
        self.ask(f"bounds|{res_str(a)}", lambda ans: self.corr("a2:get_bounds", ans, real_b, {"kind": "op", "op": "bounds", "a": res_str(a)}))
        # get_stride_of
        vs = W.sym(*var)
        st = W.call(lambda: ra.get_stride_of(vs))
        self.ask(f"stride|{res_str(a)}|{var[0]} {var[1]}",
                 lambda ans: self.corr("a2:get_stride_of", ans, res_str(st), {"kind": "op", "op": "stride", "a": res_str(a), "var": list(var)}))
        ctx.count(f"a2:stride:{st[0]}")
        # partial_eval_with_range
        rr = W.real_of(rng)
        out = W.call(lambda: ra.partial_eval_with_range(vs, rr))
        replay = {"kind": "op", "op": "peval", "a": res_str(a), "var": list(var), "rng": res_str(rng),
                  "reported": res_str(out)}
        ctx.count(f"a2:peval:->{out[0]}" + (":" + out[1] if out[0] == "X" else ""))
        ctx.evaluated(("op", "peval", res_str(a), var, res_str(rng)), nontrivial=out[0] in ("I", "R"))
        if out[0] in ("I", "R") and st[0] == "I":
            keys = ast_vars(a[3])
            ast_vars(rng[3], keys)
            if out[0] == "R":
                ast_vars(out[3], keys)
            if var not in keys:
                keys.append(var)
            offsets = not (a[1] == 0 and a[2] == 0)
            done = False
            for rho in valuations(keys, {}, box_for(len(keys))):
                if not res_holds(rng, rho, rho[var]):
                    continue  # var must lie in rng
                for v in self.values_of(a, rho):
                    if not res_holds(out, rho, v):
                        key = "partial_eval:offsets-dropped" if offsets else "partial_eval:unsound"
                        ctx.violation(key, f"{res_str(a)}.partial_eval_with_range({var[0]}#{var[1]}, {res_str(rng)}) = "
                                      f"{res_str(out)} misses {v} at " + ",".join(f"{k[0]}#{k[1]}={x}" for k, x in rho.items()),
                                      dict(replay, valuation={f"{k[0]} {k[1]}": x for k, x in rho.items()}, v=v))
                        done = True
                        break
                if done:
                    break
        self.ask(f"peval|{res_str(a)}|{var[0]} {var[1]}|{res_str(rng)}",
                 lambda ans: self.corr("a2:partial_eval", ans, res_str(out), replay))

    def lin_range(self, r, syms):
        """ranges as the analysis produces them (linear base, offsets often 0)"""
        base = gen_base(r, syms, 2)
        while "/" in wire(base) and r.random() < 0.8:
            base = gen_base(r, syms, 2)
        if r.random() < 0.5:
            return ("R", 0, 0, base)
        lo = r.randint(-3, 2)
        return ("R", lo, lo + r.randint(0, 3), base)

    def stream_a2(self, n):
        r = self.ctx.rng
        syms = sym_pool()
        for k in range(n):
            m = k % 8
            if m < 5:
                name = ["add", "sub", "mul", "floordiv", "mod"][m]
                a, b = gen_res(r, syms), gen_res(r, syms)
                if name in ("mul", "floordiv", "mod") and r.random() < 0.8:
                    b = ("I", r.choice([-3, -2, -1, 0, 1, 2, 3, 4, 5, 8]))
                    if r.random() < 0.8:
                        a = gen_range(r, syms)
                self.run_binop_case(name, a, b)
            elif m == 5:
                self.run_neg_case(gen_res(r, syms))
            elif m == 6:
                a = gen_range(r, syms)
                b = gen_range(r, syms)
                q = r.random()
                if q < 0.45:  # same base
                    b = ("R", b[1], b[2], a[3])
                elif q < 0.6:  # same printed base, other symbol
                    other = {("i", 1): ("i", 4), ("i", 4): ("i", 1)}
                    def swap(x):
                        if x[0] == "v":
                            return ("v",) + other.get((x[1], x[2]), (x[1], x[2]))
                        if x[0] in ("c", "o"):
                            return x
                        return (x[0],) + tuple(swap(y) for y in x[1:])
                    b = ("R", b[1], b[2], swap(a[3]))
                self.run_or_case(a, b)
            else:
                a = self.lin_range(r, syms) if r.random() < 0.8 else gen_range(r, syms)
                var = r.choice(ast_vars(a[3]) or syms) if r.random() < 0.85 else r.choice(syms)
                rng = gen_range(r, [s for s in syms if s != var] or syms, 1)
                self.run_misc_case(a, var, rng)

    # ------------------------------------------------------------------ a3 environment scripts
    CMPS = ["<", "<=", "=="]

    def ei_wire(self, x):
        return f"i {x}" if isinstance(x, int) else "e " + wire(x)

    def ei_real(self, x):
        return x if isinstance(x, int) else self.W.build(x)

    def ei_ev(self, x, rho):
        return x if isinstance(x, int) else ev(x, rho)

    def gen_ei(self, r, syms, d=2):
        if r.random() < 0.25:
            return r.randint(-3, 8)
        return gen_expr(r, d, syms, False)

    def stream_a3(self, n):
        r, W, ctx = self.ctx.rng, self.W, self.ctx
        IRE = W.RA.IndexRangeEnvironment
        pool = [(nm, 10 + k) for k, nm in enumerate(["a", "b", "c", "d", "e", "a", "n", "m"])]
        for _ in range(n):
            obj = IRE.__new__(IRE)
            obj.proc = None
            obj.env = ChainMap()
            ops, script = [], []
            scopes = [[]]  # active constraints per scope
            bound_once = {}
            fresh = list(pool)
            r.shuffle(fresh)
            failed = None
            for _ in range(r.randint(2, 7)):
                k = r.random()
                if k < 0.18:
                    op = ("E",)
                elif k < 0.30:
                    op = ("X",)
                elif k < 0.55 and fresh:
                    s = fresh.pop() if r.random() < 0.85 else r.choice(pool)
                    op = ("S", s, gen_bound(r))
                elif fresh:
                    s = fresh.pop() if r.random() < 0.9 else r.choice(pool)
                    others = [p for p in pool if p != s]
                    lo = r.choice([0, 0, 1, -2]) if r.random() < 0.5 else self.gen_ei(r, others, 1)
                    hi = r.randint(1, 8) if r.random() < 0.4 else self.gen_ei(r, others, 2)
                    op = ("L", s, lo, hi)
                else:
                    op = ("E",)
                ops.append(op)
                if op[0] == "E":
                    script.append("E")
                    obj.enter_scope()
                    scopes.append([])
                elif op[0] == "X":
                    script.append("X")
                    obj.exit_scope()
                    scopes.pop()
                    if not scopes:
                        scopes = [[]]
                elif op[0] == "S":
                    script.append(f"S {op[1][0]} {op[1][1]} {oi(op[2][0])} {oi(op[2][1])}")
                    obj.env[W.sym(*op[1])] = op[2]
                    scopes[-1].append(op)
                    bound_once[op[1]] = bound_once.get(op[1], 0) + 1
                else:
                    script.append(f"L {op[1][0]} {op[1][1]} @ {self.ei_wire(op[2])} @ {self.ei_wire(op[3])}")
                    scopes[-1].append(op)
                    bound_once[op[1]] = bound_once.get(op[1], 0) + 1
                    try:
                        obj.add_loop_iter(W.sym(*op[1]), self.ei_real(op[2]), self.ei_real(op[3]))
                    except Exception as e:
                        failed = type(e).__name__
                        break
                ctx.count("a3:op:" + op[0])
            sc = " ; ".join(script)
            replay0 = {"kind": "env", "script": sc}
            if failed:
                ctx.count("a3:script-raised:" + failed)
                self.ask(f"look|{sc}|a 10", lambda ans, f=failed, rp=replay0: self.corr("a3:script", ans, "X " + f, rp))
                ctx.evaluated(("env", sc), nontrivial=False)
                continue
            # lookups
            real_look = []
            for p in pool:
                s = W.sym(*p)
                real_look.append(oi(obj.env[s][0]) + " " + oi(obj.env[s][1]) if s in obj.env else "-")
            self.ask(f"look|{sc}|" + " ; ".join(f"{p[0]} {p[1]}" for p in pool),
                     lambda ans, rl=" ; ".join(real_look), rp=replay0: self.corr("a3:lookup", ans, rl, rp))
            final_env = {p: obj.env[W.sym(*p)] for p in pool if W.sym(*p) in obj.env}
            # admitted valuations: every active constraint holds
            active = [c for sc_ in scopes for c in sc_]
            searchable = all(v == 1 for v in bound_once.values())
            keys = list(pool)
            rhos = []
            if searchable:
                cand_env = {c[1]: c[2] for c in active if c[0] == "S"}
                some = [k for k in keys if any(c[1] == k for c in active)]
                free = [k for k in keys if k not in some][:1]
                use = some + free
                B = box_for(len(use)) if len(use) <= 4 else 1
                for rho in itertools.islice(valuations(use, cand_env, B), 4000):
                    full = {k: rho.get(k, 0) for k in keys}
                    ok = True
                    for c in active:
                        if c[0] == "L":
                            lo, hi = self.ei_ev(c[2], full), self.ei_ev(c[3], full)
                            if lo is None or hi is None or not (lo <= full[c[1]] < hi):
                                ok = False
                                break
                    if ok:
                        rhos.append(full)
                rhos = rhos[:400]
                for rho in rhos:
                    for p, b in final_env.items():
                        if not in_bound(b, rho[p]):
                            ctx.violation("env:add_loop_iter-unsound",
                                          f"after [{sc}] the environment gives {p[0]}#{p[1]} the range {b} but an "
                                          f"admitted execution has {p[0]}#{p[1]}={rho[p]}",
                                          dict(replay0, valuation={f"{k[0]} {k[1]}": x for k, x in rho.items()}))
                            break
            ctx.count("a3:admitted-valuations", len(rhos))
            ctx.evaluated(("env", sc), nontrivial=len(final_env) > 0)
            # queries
            for _ in range(3):
                e0 = self.gen_ei(r, pool)
                e1 = self.gen_ei(r, pool)
                e2 = self.gen_ei(r, pool)
                op0, op1 = r.choice(self.CMPS), r.choice(self.CMPS)
                q = r.random()
                if q < 0.3:
                    try:
                        t = W.RA.constant_bound(self.ei_real(e0), obj.env)
                        real = f"B {oi(t[0])} {oi(t[1])}"
                    except Exception as ex:
                        t = None
                        real = "X " + type(ex).__name__
                    rp = dict(replay0, query="cb", e0=self.ei_wire(e0), reported=real)
                    if t is not None and (isinstance(e0, int) or pos_div(e0)):
                        for rho in rhos:
                            v = self.ei_ev(e0, rho)
                            if v is not None and not in_bound(t, v):
                                ctx.violation("constant_bound:unsound", f"constant_bound({self.ei_wire(e0)}) = {t} misses {v}",
                                              dict(rp, valuation={f"{k[0]} {k[1]}": x for k, x in rho.items()}))
                                break
                    ctx.count("a3:cb:" + ("finite" if t and t[0] is not None and t[1] is not None else "other"))
                    self.ask(f"cb|{sc}|{self.ei_wire(e0)}", lambda ans, real=real, rp=rp: self.corr("a3:constant_bound", ans, real, rp))
                elif q < 0.65:
                    if r.random() < 0.5:
                        e0 = 0
                        op0 = "<="
                    try:
                        t = obj.check_expr_bound(self.ei_real(e0), op0, self.ei_real(e1))
                        real = "T" if t is True else "F" if t is False else "? " + repr(t)
                    except Exception as ex:
                        t = None
                        real = "X " + type(ex).__name__
                    rp = dict(replay0, query="chk", e0=self.ei_wire(e0), op=op0, e1=self.ei_wire(e1), reported=real)
                    ctx.count("a3:chk:" + real[:1])
                    if t is True:
                        self.check_cmp(rhos, [(e0, op0, e1)], "check_expr_bound:unsound", rp)
                    self.ask(f"chk|{sc}|{self.ei_wire(e0)}|{op0}|{self.ei_wire(e1)}",
                             lambda ans, real=real, rp=rp: self.corr("a3:check_expr_bound", ans, real, rp))
                else:
                    if r.random() < 0.6:  # the shape used by division_simplification
                        e0, op0, op1, e2 = 0, "<=", "<", r.choice([2, 4, 8])
                    try:
                        t = obj.check_expr_bounds(self.ei_real(e0), op0, self.ei_real(e1), op1, self.ei_real(e2))
                        real = "T" if t is True else "F" if t is False else "? " + repr(t)
                    except Exception as ex:
                        t = None
                        real = "X " + type(ex).__name__
                    rp = dict(replay0, query="chk2", e0=self.ei_wire(e0), op0=op0, e1=self.ei_wire(e1), op1=op1,
                              e2=self.ei_wire(e2), reported=real)
                    ctx.count("a3:chk2:" + real[:1])
                    if t is True:
                        self.check_cmp(rhos, [(e0, op0, e1), (e1, op1, e2)], "check_expr_bounds:unsound", rp)
                    self.ask(f"chk2|{sc}|{self.ei_wire(e0)}|{op0}|{self.ei_wire(e1)}|{op1}|{self.ei_wire(e2)}",
                             lambda ans, real=real, rp=rp: self.corr("a3:check_expr_bounds", ans, real, rp))

    def check_cmp(self, rhos, triples, key, rp):
        for rho in rhos:
            for (a, op, b) in triples:
                if not all(isinstance(x, int) or pos_div(x) for x in (a, b)):
                    continue
                va, vb = self.ei_ev(a, rho), self.ei_ev(b, rho)
                if va is None or vb is None:
                    continue
                ok = va < vb if op == "<" else va <= vb if op == "<=" else va == vb
                if not ok:
                    self.ctx.violation(key, f"check returned True but {va} {op} {vb} fails",
                                       dict(rp, valuation={f"{k[0]} {k[1]}": x for k, x in rho.items()}))
                    return

    # ------------------------------------------------------------------ procedures through @proc
    def load_procs(self, src, tmp, modname):
        p = Path(tmp) / f"{modname}.py"
        p.write_text(src)
        spec = importlib.util.spec_from_file_location(modname, p)
        mod = importlib.util.module_from_spec(spec)
        sys.modules[modname] = mod
        spec.loader.exec_module(mod)
        return mod

    HEADER = "from __future__ import annotations\nfrom exo import proc\n\n"

    def load_many(self, srcs, names, tmp, modname, tag):
        """all procedures in one module; if the front end rejects one, load them one by one"""
        try:
            mod = self.load_procs(self.HEADER + "".join(srcs), tmp, modname)
            return [(k, getattr(mod, nm)) for k, nm in enumerate(names)]
        except Exception:
            pass
        out = []
        for k, (src, nm) in enumerate(zip(srcs, names)):
            try:
                mod = self.load_procs(self.HEADER + src, tmp, f"{modname}_{k}")
                out.append((k, getattr(mod, nm)))
            except Exception as e:
                self.ctx.count(f"{tag}:frontend-rejected:{type(e).__name__}")
        if len(out) < len(srcs) // 2:
            raise InfraError(f"{tag}: the front end rejects most generated procedures ({len(out)}/{len(srcs)} load)")
        return out

    def gen_idx_src(self, r, vars_, allow_mod=True, d=2):
        """source text of an affine index expression with / and % by positive literals"""
        if d == 0 or r.random() < 0.3:
            if vars_ and r.random() < 0.75:
                return r.choice(vars_)
            return str(r.randint(0, 5))
        k = r.random()
        a = self.gen_idx_src(r, vars_, allow_mod, d - 1)
        if k < 0.35:
            return f"{a} + {self.gen_idx_src(r, vars_, allow_mod, d - 1)}"
        if k < 0.55:
            return f"{a} - {self.gen_idx_src(r, vars_, allow_mod, d - 1)}"
        if k < 0.7:
            return f"{r.choice([2, 3, 4])} * ({a})"
        if k < 0.9 or not allow_mod:
            if vars_ and not re.search(r"[a-z]", a):
                a = f"{a} + {r.choice(vars_)}"  # constant / constant is folded by another component
            return f"({a}) / {r.choice([2, 3, 4])}"
        return f"({a}) % {r.choice([2, 3, 4])}"

    def gen_div_src(self, r, d):
        """sums of quotients whose numerators are often negative somewhere in the iteration space"""
        def num(d):
            v, w = r.sample(["i", "j"], 2)
            k = r.random()
            if k < 0.2:
                return f"{v} - {r.randint(1, 6)}"
            if k < 0.35:
                return f"{v} - {w}"
            if k < 0.45:
                return f"{r.randint(0, 4)} - {v}"
            if k < 0.55:
                return f"{r.choice([2, 3])} * {v} - {r.randint(1, 7)}"
            if k < 0.75:
                return f"{v} + {r.randint(0, 3)}"
            if k < 0.85 or d == 0:
                return f"{v} + {w}"
            return f"({num(d - 1)}) / {r.choice([2, 3])} + {w} - {r.randint(0, 3)}"
        terms = [f"({num(d)}) / {r.choice([2, 3, 4, 5])}" for _ in range(r.randint(1, 2))]
        if r.random() < 0.3:
            terms.append(r.choice(["i", "j", "2 * i"]))
        return " + ".join(terms)

    def gen_std_proc(self, r, k):
        """a loop nest (names may shadow) with a few writes to x; indices are shifted so that every
        access is in bounds for n in 1..3 (the front end bounds-checks at @proc time)"""
        names = ["i", "j", "i", "q"]
        nacc = [0]

        def body(vars_, depth):
            out = []
            for _ in range(r.randint(1, 2)):
                if depth < 3 and r.random() < 0.6:
                    v = r.choice(names)
                    # a bound that mentions the loop's own name is resolved by the front end to the
                    # *new* iteration variable (`for i in seq(i, i + 3)` becomes `for i_1 in seq(i_1, …)`):
                    # not an index expression with a meaning, so never generated
                    outer = [w for w in vars_ if w != v]
                    lo = r.choice(["0", "0", "1", "2"]) if r.random() < 0.8 or not outer else r.choice(outer)
                    q = r.random()
                    if q < 0.55:
                        hi = str(r.randint(2, 5))
                    elif q < 0.75:
                        hi = "n" if lo in ("0", "1") else "n + 2"
                    elif outer:
                        hi = f"{r.choice(outer)} + {r.randint(2, 3)}"
                    else:
                        hi = str(r.randint(2, 4))
                    out.append(["for", v, lo, hi, body([w for w in vars_ if w != v] + [v], depth + 1)])
                else:
                    nacc[0] += 1
                    out.append(["acc", self.gen_idx_src(r, vars_ + ["n"] if r.random() < 0.3 else vars_), 0, nacc[0]])
            return out

        tree = body([], 0)
        if nacc[0] == 0:
            tree.append(["acc", "0", 0, 1])
        bad_loop = [False]

        def run(nodes, rho, mins):
            for nd in nodes:
                if nd[0] == "acc":
                    v = self.py_eval(nd[1], rho)
                    mins[nd[3]] = min(mins.get(nd[3], v), v)
                else:
                    lo, hi = self.py_eval(nd[2], rho), self.py_eval(nd[3], rho)
                    if hi < lo:
                        bad_loop[0] = True  # the front end insists on lo <= hi
                    old = rho.get(nd[1])
                    for t in range(lo, hi):
                        rho[nd[1]] = t
                        run(nd[4], rho, mins)
                    if old is None:
                        rho.pop(nd[1], None)
                    else:
                        rho[nd[1]] = old

        mins = {}
        for nval in (1, 2, 3):
            run(tree, {"n": nval}, mins)
        if bad_loop[0]:
            return self.gen_std_proc(r, k)

        def emit(nodes, ind):
            out = []
            for nd in nodes:
                if nd[0] == "acc":
                    off = -mins.get(nd[3], 0) if mins.get(nd[3], 0) < 0 else 0
                    idx = f"{nd[1]} + {off}" if off else nd[1]
                    out.append(" " * ind + f"x[{idx}] = {nd[3]}.0")
                else:
                    out.append(" " * ind + f"for {nd[1]} in seq({nd[2]}, {nd[3]}):")
                    out += emit(nd[4], ind + 4)
            return out

        lines = ["@proc", f"def s{k}(n: size, x: f32[400]):", "    assert n <= 3", "    for k0 in seq(0, 1):"]
        lines += emit(tree, 8)
        return "\n".join(lines) + "\n\n"

    def stream_a4(self, nprocs, tmp):
        r, W, ctx = self.ctx.rng, self.W, self.ctx
        from exo.stdlib import range_analysis as SRA
        from exo.stdlib.inspection import get_parents
        from exo.API_cursors import ForCursor

        srcs = [self.gen_std_proc(r, k) for k in range(nprocs)]
        procs = self.load_many(srcs, [f"s{k}" for k in range(nprocs)], tmp, f"c13_std_{ctx.seed}", "a4")
        for k, p in procs:
            self.std_case(p, srcs[k], SRA, get_parents, ForCursor)

    @staticmethod
    def names_clash(loops, e):
        """the theorem's hypothesis NameInj fails: two different symbols in play share a name
        (the stdlib environment is keyed by name strings)"""
        U = []
        for k, lo, hi in loops:
            if k not in U:
                U.append(k)
            ast_vars(lo, U)
            ast_vars(hi, U)
        ast_vars(e, U)
        return len({k[0] for k in U}) < len(U)

    def loops_between(self, p, c, scope, get_parents, ForCursor):
        anc = list(get_parents(p, c, up_to=scope))[:-1]
        return [a for a in anc if isinstance(a, ForCursor)]

    def executions(self, chain, W, cap=3000):
        """all executions of the loop chain (outermost first) with n in 1..3: valuations by key"""
        out = []

        def go(i, rho):
            if len(out) >= cap:
                return
            if i == len(chain):
                out.append(dict(rho))
                return
            node = chain[i]
            key = W.key(node.iter)
            try:
                lo = ev(W.unbuild(node.lo), rho)
                hi = ev(W.unbuild(node.hi), rho)
            except KeyError:  # a bound reading a variable that no enclosing loop binds
                return
            if lo is None or hi is None:
                return
            for v in range(lo, min(hi, lo + 7)):
                rho[key] = v
                go(i + 1, rho)
            rho.pop(key, None)

        return out, go

    def std_case(self, p, src, SRA, get_parents, ForCursor, probe=None):
        W, ctx, r = self.W, self.ctx, self.ctx.rng
        ir = p._loopir_proc
        nkey = W.key(ir.args[0].name)
        accs = p.find("x[_] = _", many=True)
        # choose a scope: the k0 loop or a random enclosing loop of the first access
        k0 = p.find_loop("k0")
        per_access = []
        for ai, a in enumerate(accs):
            idx_c = a.idx()[0]
            all_loops = [c for c in get_parents(p, idx_c) if isinstance(c, ForCursor)]  # innermost first
            scopes = [k0] + [c for c in all_loops[:-1] if r.random() < 0.3]
            for scope in scopes:
                inner = self.loops_between(p, idx_c, scope, get_parents, ForCursor)
                loops = [(W.key(c._impl._node.iter), W.unbuild(c._impl._node.lo), W.unbuild(c._impl._node.hi)) for c in inner]
                e = W.unbuild(idx_c._impl._node)
                res = W.call(lambda: SRA.infer_range(idx_c, scope))
                lw = " ; ".join(f"{k[0]} {k[1]} @ {wire(lo)} @ {wire(hi)}" for k, lo, hi in loops)
                replay = {"kind": "ir", "source": src, "access": ai, "scope": str(scope._impl._node.iter) + "#" + str(scope._impl._node.iter._id),
                          "loops": lw, "expr": wire(e), "reported": res_str(res)}
                ctx.count(f"a4:infer:{res[0]}")
                shadow = self.names_clash(loops, e)
                if shadow:
                    ctx.count("a4:shadowed")
                # search: run the whole enclosing nest
                chain = [c._impl._node for c in reversed(all_loops)]
                bad = None
                for nval in (1, 2, 3):
                    out, go = self.executions(chain, W)
                    go(0, {nkey: nval})
                    for rho in out:
                        v = ev(e, rho)
                        if v is not None and not res_holds(res, rho, v):
                            bad = (rho, v)
                            break
                    ctx.count("a4:executions", len(out))
                    if bad:
                        break
                if bad:
                    rho, v = bad
                    key = "infer_range:shadowed-loop-name" if shadow else "infer_range:unsound"
                    ctx.violation(key, f"infer_range reports {res_str(res)} for {pretty(e)} but an execution has the value {v}",
                                  dict(replay, valuation={f"{k[0]} {k[1]}": x for k, x in rho.items()}, value=v))
                ctx.evaluated(("ir", lw, wire(e)), nontrivial=res[0] == "R" and len(loops) > 0)
                if res[0] == "R" and loops:
                    ctx.sample({"infer_range": pretty(e), "loops(innermost first)": [(k[0], pretty(lo), pretty(hi)) for k, lo, hi in loops],
                                "reported": res_str(res)}, limit=6)
                self.ask(f"ir|{lw}|{wire(e)}", lambda ans, res=res, rp=replay: self.corr("a4:infer_range", ans, res_str(res), rp))
                if scope is k0:
                    per_access.append((e, res, [c._impl._node for c in reversed(all_loops)], loops))
        # bounds_inference over the k0 loop
        out = W.call(lambda: SRA.bounds_inference(k0, "x", 0))
        replay = {"kind": "bi", "source": src, "reported": res_str(out),
                  "accesses": [res_str(x[1]) for x in per_access]}
        ctx.count(f"a4:bounds_inference:{out[0]}")
        if all(x[1][0] == "R" for x in per_access) and per_access:
            self.ask("join|" + " ; ".join(res_str(x[1]) for x in per_access),
                     lambda ans, out=out, rp=replay: self.corr("a4:bounds_inference", ans, res_str(out), rp))
            ctx.evaluated(("bi",) + tuple(res_str(x[1]) for x in per_access), nontrivial=len(per_access) > 1)
            if out[0] == "R":
                rs = [x[1] for x in per_access]
                finite = all(x[1] is not None and x[2] is not None for x in rs)
                same = all(x[3] == rs[0][3] for x in rs)
                clash = any(self.name_clash(x[3], rs[0][3]) for x in rs)
                shadow = any(self.names_clash(x[3], x[0]) for x in per_access)
                done = False
                for (e, res, chain, loops) in per_access:
                    for nval in (1, 2, 3):
                        ex, go = self.executions(chain, W)
                        go(0, {nkey: nval})
                        for rho in ex:
                            v = ev(e, rho)
                            if v is not None and not res_holds(out, rho, v):
                                key = ("bounds_inference:shadowed-loop-name" if shadow else
                                       "bounds_inference:join-name-clash" if clash else
                                       "bounds_inference:join-missing-end-or-base-mismatch" if not (finite and same) else
                                       "bounds_inference:unsound")
                                ctx.violation(key, f"bounds_inference reports {res_str(out)} but {pretty(e)} takes the value {v}",
                                              dict(replay, valuation={f"{k[0]} {k[1]}": x for k, x in rho.items()}, value=v))
                                done = True
                                break
                        if done:
                            break
                    if done:
                        break

    # ------------------------------------------------------------------ a5 compiled C division
    def stream_a5(self, nprocs, tmp):
        r, W, ctx = self.ctx.rng, self.W, self.ctx
        srcs, metas = [], []
        for k in range(nprocs):
            l1, h1 = r.randint(0, 2), r.randint(3, 6)
            l2, h2 = r.randint(0, 2), r.randint(3, 5)
            e = self.gen_div_src(r, 2)
            vals = [self.py_eval(e, {"i": i, "j": j}) for i in range(l1, h1) for j in range(l2, h2)]
            off = -min(vals)
            size = max(vals) + off + 1
            idx = f"{e} + {off}" if off > 0 else (f"{e} - {-off}" if off < 0 else e)
            src = (f"@proc\ndef c{k}(x: f32[{size}]):\n    for i in seq({l1}, {h1}):\n        for j in seq({l2}, {h2}):\n"
                   f"            x[{idx}] = 1.0\n\n")
            srcs.append(src)
            metas.append((idx, (l1, h1, l2, h2)))
        for k, p in self.load_many(srcs, [f"c{k}" for k in range(nprocs)], tmp, f"c13_comp_{ctx.seed}", "a5"):
            self.compile_case(p, srcs[k], *metas[k])

    @staticmethod
    def py_eval(src, rho):
        return eval(src.replace("/", "//"), {"__builtins__": {}}, dict(rho))

    def compile_case(self, p, src, idx, bounds):
        ctx = self.ctx
        l1, h1, l2, h2 = bounds
        try:
            c = p.c_code_str()
        except Exception as e:
            ctx.count("a5:compile-raised:" + type(e).__name__)
            return
        m = re.search(r"x\[(.*)\] = 1\.0f?;", c)
        if not m:
            ctx.count("a5:no-index-found")
            return
        cidx = m.group(1)
        ctx.count("a5:emits-floor-div" if "exo_floor_div" in cidx else "a5:emits-c-division-only")
        ctx.count("a5:c-division-operators", len(re.findall(r" / ", cidx)))

        class CInt:  # C arithmetic on ints: / truncates
            def __init__(s, v):
                s.v = v.v if isinstance(v, CInt) else v
            def __add__(s, o): return CInt(s.v + CInt(o).v)
            __radd__ = __add__
            def __sub__(s, o): return CInt(s.v - CInt(o).v)
            def __rsub__(s, o): return CInt(CInt(o).v - s.v)
            def __mul__(s, o): return CInt(s.v * CInt(o).v)
            __rmul__ = __mul__
            def __neg__(s): return CInt(-s.v)
            def __truediv__(s, o):
                a, b = s.v, CInt(o).v
                q = abs(a) // abs(b)
                return CInt(q if (a >= 0) == (b >= 0) else -q)
            def __rtruediv__(s, o): return CInt(o).__truediv__(s)

        def floor_div(a, b):
            return CInt(CInt(a).v // CInt(b).v)

        cexpr = re.sub(r"(?<![\w.])(\d+)(?![\w.])", r"CInt(\1)", cidx)
        replay = {"kind": "compile", "source": src, "c_index": cidx}
        for i in range(l1, h1):
            for j in range(l2, h2):
                want = self.py_eval(idx, {"i": i, "j": j})
                try:
                    got = eval(cexpr, {"__builtins__": {}}, {"CInt": CInt, "exo_floor_div": floor_div, "i": CInt(i), "j": CInt(j)})
                    got = CInt(got).v
                except Exception as e:
                    ctx.count("a5:c-eval-failed:" + type(e).__name__)
                    return
                if got != want:
                    ctx.violation("compile:c-division-on-negative-numerator",
                                  f"x[{idx}] compiles to x[{cidx}] which is {got} instead of {want} at i={i}, j={j}",
                                  dict(replay, valuation={"i": i, "j": j}))
                    return
        ctx.evaluated(("compile", idx, bounds), nontrivial=True)
        ctx.sample({"exo_index": idx, "c_index": cidx, "loops": bounds}, limit=8)

    # ------------------------------------------------------------------ a6 fold buffer
    def stream_a6(self, nprocs, tmp):
        r, ctx = self.ctx.rng, self.ctx
        srcs, metas = [], []
        for k in range(nprocs):
            while True:
                N = r.randint(3, 8)
                c = r.choice([1, 1, 1, 2])
                writes = [r.randint(0, 3) for _ in range(r.randint(1, 3))]
                if r.random() < 0.4:
                    writes[0] = 0
                rd_in = r.choice(writes) if r.random() < 0.5 else None
                written = {c * i + a for i in range(N) for a in writes}
                d = r.choice(sorted(written)[-4:])
                size = r.randint(1, 4)
                break
            body = "".join(f"        x[{c} * i + {a}] = {w + 1}.0\n" for w, a in enumerate(writes))
            if rd_in is not None:
                body += f"        y[i + 1] = x[{c} * i + {rd_in}]\n"
            src = (f"@proc\ndef f{k}(y: f32[40]):\n    x: f32[40]\n    for i in seq(0, {N}):\n{body}    y[0] = x[{d}]\n\n")
            srcs.append(src)
            metas.append((N, c, writes, rd_in, d, size))
        for k, p in self.load_many(srcs, [f"f{k}" for k in range(nprocs)], tmp, f"c13_fold_{ctx.seed}", "a6"):
            self.fold_case(p, srcs[k], metas[k])

    @staticmethod
    def simulate_fold(meta, fold):
        N, c, writes, rd_in, d, size = meta
        ix = (lambda v: v % size) if fold else (lambda v: v)
        mem, reads = {}, []
        for i in range(N):
            for w, a in enumerate(writes):
                mem[ix(c * i + a)] = (i, w)
            if rd_in is not None:
                reads.append(mem.get(ix(c * i + rd_in)))
        reads.append(mem.get(ix(d)))
        return reads

    def fold_case(self, p, src, meta):
        ctx = self.ctx
        from exo.stdlib.scheduling import resize_dim
        N, c, writes, rd_in, d, size = meta
        try:
            q = resize_dim(p, "x : _", 0, size, 0, fold=True)
            accepted = True
        except Exception as e:
            accepted = False
            ctx.count("a6:rejected:" + type(e).__name__)
        same = self.simulate_fold(meta, False) == self.simulate_fold(meta, True)
        ctx.count(f"a6:accepted={accepted}:equivalent={same}")
        ctx.evaluated(("fold",) + tuple(map(str, meta)), nontrivial=True)
        if accepted and not same:
            key = "fold_buffer:loop-window-offsets-dropped" if any(a != 0 for a in writes) else "fold_buffer:unsound"
            ctx.violation(key, f"resize_dim(fold=True, size={size}) accepted although the folded program reads other values",
                          {"kind": "fold", "source": src, "size": size, "result": str(q)})

    # ------------------------------------------------------------------ fixed probes of recorded findings
    PROBES = '''
@proc
def s_shadow(n: size, x: f32[200]):
    assert n <= 3
    for k0 in seq(0, 1):
        for i in seq(0, 2):
            for i in seq(0, 5):
                x[i] = 1.0

@proc
def s_missing_end(n: size, x: f32[100]):
    assert n <= 3
    for k0 in seq(0, 1):
        for j in seq(0, n):
            x[j + 4] = 1.0
        x[2] = 2.0

@proc
def s_mismatch(n: size, x: f32[100]):
    assert n <= 3
    for i in seq(0, 3):
        for j in seq(0, 3):
            for k0 in seq(0, 1):
                x[i] = 1.0
                x[j] = 1.0
                x[3] = 2.0
'''

    def probes(self, tmp):
        from exo.stdlib import range_analysis as SRA
        from exo.stdlib.inspection import get_parents
        from exo.API_cursors import ForCursor
        try:
            mod = self.load_procs(self.HEADER + self.PROBES, tmp, f"c13_probe_{self.ctx.seed}")
        except Exception as e:
            raise InfraError(f"probe procedures do not load: {type(e).__name__}: {e}")
        for nm in ("s_shadow", "s_missing_end", "s_mismatch"):
            self.ctx.count("probe:" + nm)
            self.std_case_probe(getattr(mod, nm), nm, SRA, get_parents, ForCursor)
        # the fold-buffer instance found by reading partial_eval_with_range
        src = ("@proc\ndef f_probe(y: f32[40]):\n    x: f32[40]\n    for i in seq(0, 10):\n        x[1 * i + 0] = 1.0\n"
               "        x[1 * i + 1] = 2.0\n    y[0] = x[8]\n\n")
        mod = self.load_procs(self.HEADER + src, tmp, f"c13_probe_fold_{self.ctx.seed}")
        self.fold_case(mod.f_probe, src, (10, 1, [0, 1], None, 8, 2))
        # __or__ comparing bases by printed name, reached through divide_loop-generated names
        src2 = ("@proc\ndef s_clash(n: size, x: f32[100]):\n    assert n <= 3\n    for io in seq(0, 3):\n        for ii in seq(0, 4):\n"
                "            for i in seq(0, 8):\n                for k0 in seq(0, 1):\n"
                "                    x[4 * io + ii] = 1.0\n                    x[i] = 2.0\n\n")
        mod = self.load_procs(self.HEADER + src2, tmp, f"c13_probe_clash_{self.ctx.seed}")
        try:
            from exo.stdlib.scheduling import divide_loop
            p = divide_loop(mod.s_clash, "i", 4, ["io", "ii"], perfect=True)
            self.std_case_probe(p, "s_clash (after divide_loop(i, 4, [io, ii]))\n" + str(p), SRA, get_parents, ForCursor)
        except Exception as e:
            self.ctx.count("probe:clash-raised:" + type(e).__name__)

    def std_case_probe(self, p, src, SRA, get_parents, ForCursor):
        self.std_case(p, src if "\n" in src else self.PROBES, SRA, get_parents, ForCursor)

    # ------------------------------------------------------------------ real constructor of the environment
    def ctor_check(self, tmp):
        W, ctx = self.W, self.ctx
        src = ("@proc\ndef e0(n: size, m: size, k: index, x: f32[n]):\n    assert k >= 0\n    for i in seq(0, n):\n        x[i] = 1.0\n\n")
        mod = self.load_procs(self.HEADER + src, tmp, f"c13_ctor_{ctx.seed}")
        ir = mod.e0._loopir_proc
        obj = W.RA.IndexRangeEnvironment(ir)  # fast=True
        args = [a.name for a in ir.args if a.type.is_indexable()]
        real = " ; ".join(oi(obj.env[s][0]) + " " + oi(obj.env[s][1]) if s in obj.env else "-" for s in args)
        sizes = [a.name for a in ir.args if isinstance(a.type, W.LoopIR.Size)]
        script = " ; ".join(f"S {W.key(s)[0]} {W.key(s)[1]} 1 N" for s in sizes)  # = Env.init
        self.ask(f"look|{script}|" + " ; ".join(f"{W.key(s)[0]} {W.key(s)[1]}" for s in args),
                 lambda ans: self.corr("a3:ctor", ans, real, {"kind": "ctor", "source": src}))


def replay_case(ctx, chk, obj):
    """re-run one recorded case against the real code"""
    W = chk.W
    rp = obj.get("replay", obj)
    kind = rp.get("kind")
    if kind == "an":
        e = parse_wire(rp["expr"].split())
        env = {}
        for op in rp["env"].split(";"):
            t = op.split()
            if t:
                env[(t[1], int(t[2]))] = (None if t[3] == "N" else int(t[3]), None if t[4] == "N" else int(t[4]))
        chk.run_analysis_case(e, env, tag="replay")
    elif kind == "op" and rp["op"] in Check.BINOPS:
        chk.run_binop_case(rp["op"], parse_res(rp["a"]), parse_res(rp["b"]))
    elif kind == "op" and rp["op"] == "or":
        chk.run_or_case(parse_res(rp["a"]), parse_res(rp["b"]))
    elif kind == "op" and rp["op"] == "neg":
        chk.run_neg_case(parse_res(rp["a"]))
    elif kind == "op" and rp["op"] == "peval":
        chk.run_misc_case(parse_res(rp["a"]), tuple(rp["var"]), parse_res(rp["rng"]))
    elif kind in ("ir", "bi", "compile", "fold"):
        with tempfile.TemporaryDirectory() as tmp:
            if kind == "fold":
                mod = chk.load_procs(Check.HEADER + rp["source"], tmp, "c13_replay")
                name = re.search(r"def (\w+)\(", rp["source"]).group(1)
                print("replay: source\n" + rp["source"])
                from exo.stdlib.scheduling import resize_dim
                print(resize_dim(getattr(mod, name), "x : _", 0, rp["size"], 0, fold=True))
            else:
                print("replay: source\n" + rp["source"])
                if "\ndef " in "\n" + rp["source"]:
                    mod = chk.load_procs(Check.HEADER + rp["source"], tmp, "c13_replay")
                    from exo.stdlib import range_analysis as SRA
                    from exo.stdlib.inspection import get_parents
                    from exo.API_cursors import ForCursor
                    for name in re.findall(r"^def (\w+)\(", rp["source"], re.M):
                        if kind == "compile":
                            m = re.search(r"x\[(.*)\] = 1\.0", rp["source"])
                            print(getattr(mod, name).c_code_str())
                        else:
                            chk.std_case(getattr(mod, name), rp["source"], SRA, get_parents, ForCursor)
    else:
        print("replay: nothing to re-run for kind", kind, "- the recorded request is", json.dumps(rp)[:400])
    chk.flush()


def parse_res(s):
    t = s.split()
    if t[0] == "I":
        return ("I", int(t[1]))
    if t[0] == "V":
        return ("V",)
    if t[0] == "R":
        lo = None if t[1] == "N" else int(t[1])
        hi = None if t[2] == "N" else int(t[2])
        return ("R", lo, hi, parse_wire(t[3:]))
    raise ValueError(s)


def run(ctx):
    exo = import_exo()
    ctx.rule = ("a1: random index expressions (depth<=4 over 5 symbols two of which share the name 'i'; constants -5..7; "
                "negative/zero factors; nested / and % by positive literals, every 5th case also zero/negative/non-literal "
                "divisors, var*var, non-index leaves) x random environments (each end None with p=.22, empty ranges 3%); "
                "a2: random int|IndexRange|ValueError operands (arbitrary None ends, symbolic bases incl. / and shadowed names) "
                "through + - * // % unary- | get_size get_bounds get_stride_of partial_eval_with_range; a3: random scripts of "
                "set/enter_scope/exit_scope/add_loop_iter on the real IndexRangeEnvironment followed by constant_bound / "
                "check_expr_bound(s) queries; a4: @proc loop nests (shadowing allowed, bounds constant / size / outer variable) "
                "through infer_range and bounds_inference; a5: compiled C index expressions; a6: fold-buffer acceptance. "
                "distinct = distinct canonical request; non-trivial = the real code returned a bound and at least one "
                "variable occurs")
    ctx.assumptions += [
        "index expressions: / and % are floor division and modulo; divisors <= 0 have no meaning (the front end rejects them) "
        "and are excluded from the soundness search, not from the correspondence",
        "argument ranges found by SMT binary search (arg_range_analysis(fast=False)) are a hypothesis of the theorems",
        "types of LoopIR nodes are modelled only as indexable / not indexable",
        "the brute-force search covers a small box of valuations (plus range end points); the theorems cover all",
    ]
    ctx.trusted += [
        "lean/Drivers/C13.lean (request parser, box search) and harness/props/c13.py (generators, reference evaluator)",
        "ExoModel/Range.lean is a hand transcription of range_analysis.py; tied by correspondence A on every run",
        "CheckFoldBuffer / lift_to_cir / comp_cir are exercised end to end (a5, a6), not modelled",
    ]

    broken = ctx.lean_obligations(["ExoModel.Props.C13"])
    chk = Check(ctx, exo)

    if ctx.replay:
        replay_case(ctx, chk, json.loads(Path(ctx.replay).read_text()))
        verdicts(ctx, chk, broken)
        return

    import time
    times = {}

    def timed(name, f, *a):
        t = time.time()
        f(*a)
        times[name] = round(times.get(name, 0) + time.time() - t, 1)

    times["obligations"] = round(ctx.elapsed(), 1)
    with tempfile.TemporaryDirectory() as tmp:
        timed("a1", chk.stream_a1, ctx.scale(1500, 30000))
        timed("a2", chk.stream_a2, ctx.scale(1600, 24000))
        timed("a3", chk.stream_a3, ctx.scale(250, 4000))
        timed("lean", chk.flush)
        timed("a4", chk.ctor_check, tmp)
        timed("a4", chk.stream_a4, ctx.scale(25, 300), tmp)
        timed("probes", chk.probes, tmp)
        timed("lean", chk.flush)
        timed("a5", chk.stream_a5, ctx.scale(12, 120), tmp)
        timed("a6", chk.stream_a6, ctx.scale(25, 400), tmp)
        timed("lean", chk.flush)
    ctx.extra["stage_seconds"] = times

    verdicts(ctx, chk, broken)


def verdicts(ctx, chk, broken):
    """broken obligations / correspondence; `no_input` when the search found no failing input"""
    found_input = any(not v["no_input"] for v in ctx.violations)
    for b in broken:
        ctx.violation("obligation:" + b.split(":")[0], f"proof obligation broken: {b}", {"obligation": b}, no_input=not found_input)
    for stream, rp in chk.mismatch.items():
        ctx.violation("corr:" + stream, f"model and real code differ on stream {stream}: model={rp['model']} real={rp['real']}",
                      rp, no_input=not found_input)
    ctx.extra["mismatching_streams"] = sorted(chk.mismatch)
