"""C02 — generated C computes what the procedure means (see docs/C02.md, harness/ccpipe.py)."""
from __future__ import annotations

import ccpipe


def run(ctx):
    ccpipe.run(ctx, "C02")
