"""C10 — configuration rewrites report every field they may change (DESIGN.md section 3, C10).

1. obligations: lean/ExoModel/Props/C10.lean (delete_config / write_config / bind_config / call_eqv
   produce `Equiv K` for the reported K under explicit semantic side conditions; frame lemma;
   composition of reported sets; syntactic sufficient condition for the side conditions)
2. correspondence A: the executable models of the rewrites (ExoModel.Config: deleteWrite,
   insertWrite, bindConfig, swapCall under applyAt) applied to the exported original must give
   exactly the exported result of the real delete_config / write_config / bind_config / call_eqv
3. correspondence B + search: for every accepted operation of the configuration-focused stream
   (props/c10_worker.py over props/c10_pool.py) the reported set must contain every field whose
   final value differs between original and derived on random initial configurations, all buffers
   must be identical, and call_eqv must refuse callees of another origin / another signature.
"""
from __future__ import annotations

import json
import os

from common import InfraError, lean_batch, LEAN


QUOTA_QUICK = {"write_config": 24, "bind_config": 16, "call_eqv:derived:single": 26,
               "call_eqv:derived:multi": 6, "call_eqv:derived:neutral": 3}
QUOTA_THOROUGH = {"write_config": 110, "bind_config": 60, "call_eqv:derived:single": 120,
                  "call_eqv:derived:multi": 40, "call_eqv:derived:neutral": 4}


def _refine_key(x):
    """stable key of a mismatch: operation + kind (+ situation for ordinary rewrites)"""
    key = x.get("key", "?")
    op = x.get("att", {}).get("op", "?")
    what = x.get("what", "")
    if op == "extract_subproc" and "assertFail" in what and "== False" in x.get("after_callees", ""):
        return "extract_subproc:asserts-negated-condition-of-preceding-sibling-if"
    return key


def run(ctx):
    ctx.rule = ("config-heavy pool program (props/c10_pool.py: index/bool/real fields, direct and through callees, "
                "in loops and branches, fields read before written and never-mentioned fields) x every "
                "delete_config / write_config (each field x several right-hand sides, every gap) / bind_config "
                "(every bool or real variable read x type-compatible field) / call_eqv (callee variants derived by "
                "config-affecting and neutral rewrites, 1-2 steps, + unrelated/renamed/partial_eval/add_assertion/"
                "other callees) / ordinary rewrite next to a config access / two-step chain; an evaluation = one "
                "accepted operation executed before/after in the Lean interpreter on n_args x 8 random initial "
                "configurations; distinct = (program, op, cursor path, args); non-trivial = original runs on >= 1 input")
    ctx.assumptions += [
        "SMT side conditions of Check_DeleteConfigWrite / Check_ExtendEqv are not modelled: they appear as the "
        "semantic hypotheses CtxInsens0 / Insensitive / Overwrites / StableUnder of the theorems; that the real "
        "checks establish them is sampled by the differential search, not proved",
        "final configuration = State.cfg of the Lean reference semantics (ExoModel.Sem); C back end not involved",
        "initial configurations: every field of every config of the module gets a value (index 0..3, bool 0/1, "
        "real small rationals)",
    ]
    ctx.trusted += [
        "harness/export_ir.py + lean/ExoModel/Wire.lean (LoopIR -> Lean syntax), shared with C01",
        "new_eff.py SMT pipeline (ContextExtraction, globenv, getsets, SMTSolver): modelled as hypotheses, tested",
        "proc_eqv union-find: verified separately by C11; here only its answer get_strictest_eqv_proc is read",
    ]

    # ------------------------------------------------------------------ 1. obligations
    import time
    t0 = time.time()
    if os.environ.get("VERIF_C10_SKIP_OBLIGATIONS") == "1":
        # mutation experiments on the Python tree only (docs/C10.md): the Lean side is unaffected by
        # EXO_REPO and the shared build lock can be held for a long time by concurrent checks
        broken = []
        ctx.extra["obligations_skipped"] = True
    else:
        broken = ctx.lean_obligations(["ExoModel.Props.C10", "ExoModel.Props.C10Context"])
    timing = {"obligations_s": round(time.time() - t0, 1)}
    ctx.extra["timing"] = timing

    # ------------------------------------------------------------------ 2./3. stream
    from props import c10_pool, c10_worker

    if ctx.replay:
        return _replay(ctx, c10_worker)

    opts = {"n_args": ctx.scale(2, 3), "n_cfg": 8,
            "quota": QUOTA_QUICK if ctx.quick else QUOTA_THOROUGH,
            "ordinary": ctx.scale(12, 60), "chain_procs": ctx.scale(2, 6), "chain_attempts": ctx.scale(5, 14),
            "model_cases_per_op": ctx.scale(6, 40)}
    t1 = time.time()
    recs = run_workers(ctx, [(n, s, ctx.seed, opts) for n, s in c10_pool.POOL.items()],
                       deadline_s=ctx.scale(1500, 5400))
    timing["stream_s"] = round(time.time() - t1, 1)
    timing["per_program_s"] = {r["name"]: r.get("wall_s") for r in recs}

    modelled = []
    for r in recs:
        if r["error"]:
            if r["error"].startswith("infra"):
                raise InfraError(r["error"])
            ctx.violation(f"stream:{r['name']}:worker-error", r["error"],
                          {"program": r["name"], "src": r["src"]}, no_input=True)
            continue
        for k, v in r["counts"].items():
            ctx.count(k, v)
        for s in r.get("samples", []):
            ctx.sample({"program": r["name"], **s}, limit=8)
        modelled += r.get("model_cases", [])
        for x in r["records"]:
            if x["kind"] == "mismatch":
                ctx.violation(_refine_key(x), x["what"], x)
            elif x["kind"] == "impure":
                ctx.violation(f"{x['att']['op']}:mutates-its-input", "operation changed the original procedure in place", x)
            else:
                ctx.violation(f"observer-exception:{x.get('att', {}).get('op')}", str(x.get("exc")), x, no_input=True)

    timeouts = [(r["name"], t) for r in recs for t in r.get("timeouts", [])]
    if timeouts:
        ctx.extra["attempt_timeouts"] = [{"program": n, **t} for n, t in timeouts]
        if not ctx.violations and not ctx.known_hits:
            raise InfraError(f"the real code did not return from an attempt within its time limit: {timeouts[:2]}")

    # ------------------------------------------------------------------ correspondence A
    t2 = time.time()
    _model_correspondence(ctx, modelled)
    timing["model_correspondence_s"] = round(time.time() - t2, 1)

    # ------------------------------------------------------------------ coverage sanity
    c = ctx.counts
    for must in ("accepted:delete_config", "accepted:write_config", "accepted:bind_config",
                 "accepted:call_eqv:derived", "rejected:call_eqv:unrelated", "rejected:call_eqv:partial_eval",
                 "rejected:call_eqv:add_assertion", "reported-and-observed-differing",
                 "reported-empty-and-nothing-differs"):
        if c.get(must, 0) == 0:
            ctx.violation(f"coverage:{must}", f"the stream never produced a case of kind `{must}` — the check is "
                          f"not exercising what it claims (or the real code now behaves differently everywhere)",
                          {"counts": c}, no_input=True)
    for b in broken:
        ctx.violation(f"obligation:{b}", f"Lean obligation broken: {b}", {"obligation": b}, no_input=True)
    ctx.evaluations = c.get("pairs-executed", 0)
    ctx.distinct = set(range(c.get("pairs-nontrivial", 0)))
    ctx.extra["program_names"] = sorted(c10_pool.POOL)
    ctx.extra["programs"] = len(c10_pool.POOL)


def run_workers(ctx, jobs, deadline_s):
    """one OS process per program (`python props/c10_worker.py job out`): a worker that hangs inside
    the real code writes what it has and exits (watchdog), or is killed at the deadline; either way
    the other programs' results are kept"""
    import subprocess
    import sys
    import tempfile
    import time

    here = os.path.dirname(os.path.abspath(__file__))
    recs = []
    with tempfile.TemporaryDirectory(prefix="c10_jobs_") as td:
        procs = []
        for (name, src, seed, opts) in jobs:
            jf, of = os.path.join(td, name + ".job.json"), os.path.join(td, name + ".out.json")
            with open(jf, "w") as f:
                json.dump({"name": name, "src": src, "seed": seed, "opts": opts}, f)
            p = subprocess.Popen([sys.executable, "-B", os.path.join(here, "c10_worker.py"), jf, of],
                                 stdout=subprocess.PIPE, stderr=subprocess.PIPE, text=True)
            procs.append((name, src, p, of))
        t0 = time.time()
        for (name, src, p, of) in procs:
            left = max(1.0, deadline_s - (time.time() - t0))
            killed = False
            try:
                _, err = p.communicate(timeout=left)
            except subprocess.TimeoutExpired:
                p.kill()
                _, err = p.communicate()
                killed = True
            rec = None
            if os.path.exists(of):
                try:
                    rec = json.load(open(of))
                except Exception:
                    rec = None
            if rec is None:
                rec = {"name": name, "src": src, "records": [], "counts": {}, "samples": [],
                       "error": ("infra: worker killed at the deadline" if killed else
                                 f"infra: worker died rc={p.returncode}: {(err or '')[-600:]}")}
            recs.append(rec)
    return recs


def _model_correspondence(ctx, cases):
    """cases: [{"op", "program", "req": <driver request>}] collected by the workers"""
    if not cases:
        ctx.violation("correspondence:no-model-cases", "no accepted delete/write/bind/call_eqv case reached the "
                      "model comparison", {}, no_input=True)
        return
    lines = [json.dumps(c["req"], separators=(",", ":")) for c in cases]
    ans = lean_batch(LEAN / "Drivers" / "C10.lean", lines)
    broken_reqs = [c for c in cases if "broken" in c["req"]]
    for c in broken_reqs:
        ctx.violation(f"model:{c['op']}:result-shape", c["req"]["broken"], c, no_input=True)
    for c, a in zip(cases, ans):
        ctx.count("model-cases")
        ctx.count("model-cases:" + c["op"])
        try:
            r = json.loads(a)
        except Exception:
            raise InfraError(f"C10 driver answered {a[:200]}")
        if r.get("same") is True:
            ctx.count("model-agrees")
            continue
        if "unsupported" in r:
            ctx.count("model-unsupported:" + str(r["unsupported"]))
            continue
        ctx.violation(f"model:{c['op']}:differs", f"the Lean model of {c['op']} and the real operation produce "
                      f"different procedures ({r.get('why', r)})", c, no_input=True)


def _replay(ctx, c10_worker):
    data = json.loads(open(ctx.replay).read())
    rp = data.get("replay") or {}
    if "src" not in rp or "att" not in rp:
        print(f"replay file {ctx.replay} has no replayable instance (src/att)")
        return
    rec = c10_worker.worker((rp.get("program", "replay"), rp["src"], ctx.seed,
                             {"n_args": 1, "n_cfg": 1, "replay": rp}))
    if rec["error"]:
        raise InfraError(rec["error"])
    print("replay outcome:", json.dumps(rec.get("replay_outcome"), default=str)[:600])
    for x in rec["records"]:
        ctx.violation(data.get("key", x.get("key", "replay")), x.get("what", data.get("what", "")), x)
    ctx.evaluations = 1
