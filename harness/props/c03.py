"""C03 — accepted procedures are memory-safe and call-safe.

Proof part  : lean/ExoModel/Props/C03.lean (soundness of the verification-condition generator
              `vcgen`; `vcgenReal`-validity does not imply safety).
Tie (A')    : generated Exo sources (valid by construction + near-misses + hand-written seeds)
              through the REAL `@proc`; for accepted programs every condition of the literal model
              `vcgenReal` and of the sound generator `vcgen` is evaluated exhaustively on all small
              valuations by lean/Drivers/C03.lean; a falsified condition is replayed in the Lean
              reference interpreter.  For rejected programs some condition should be falsifiable
              (otherwise "spuriously rejected": counted, not a violation).
Search (X)  : accepted program + valid input (random sizes/strides) that trips a monitor.
Thorough    : additionally counts the goals the real front end sends to the solver and compares
              with the number of conditions of the literal model.
"""
from __future__ import annotations

import itertools
import json
import os
import sys
import time
from fractions import Fraction

from common import import_exo, LeanDriver, InfraError, LEAN, REPO, ROOT

sys.path.insert(0, os.path.dirname(__file__))

KNOWN_CLASSES = {
    "read@extern": "boundscheck:reads-in-extern-arguments-unchecked",
    "write@win": "boundscheck:write-through-window-unchecked",
    "reduce@win": "boundscheck:write-through-window-unchecked",
    "read@win": "boundscheck:read-inside-base-outside-window",
    "win-": "boundscheck:window-interval-vs-base-unchecked",
}
# conditions the real checker asks although no monitor of the semantics depends on them
# (`call-dense`: a callee may assume that its non-window tensor arguments are dense — an entry fact of
# the theorem; the reference semantics has no layout monitor, views carry their strides)
NO_MONITOR = ("arg-shape-pos", "call-argshape-pos", "call-dense")
BAD = {"oob", "assertFail", "badLoop", "nonPosSize", "shapeMismatch", "alias"}


def known_class(kind):
    for pre, key in KNOWN_CLASSES.items():
        if kind.startswith(pre):
            return key
    return None


# --------------------------------------------------------------------------- real front end
class Front:
    def __init__(self, exo):
        import exo_build
        import exo.API as API

        self.exo_build = exo_build
        self.API = API
        self.prelude_name = None
        self.header = None
        self.goal_log = None

    def setup_prelude(self, prelude_src):
        """callees are built once; generated modules import them.  If the tree under test rejects
        some of them (a mutation that makes the checker stricter), the others are kept: programs
        calling a missing one then fail with NameError and count as rejected."""
        eb = self.exo_build
        header = eb.HEADER
        names, rejected = [], []
        for chunk in prelude_src.split("@proc")[1:]:
            src = "@proc" + chunk
            try:
                mod = eb.build_module(src, header=header)
            except BaseException as e:  # noqa
                if isinstance(e, (KeyboardInterrupt, SystemExit)):
                    raise
                rejected.append((src.split("(")[0].split()[-1], type(e).__name__, str(e)[:200]))
                continue
            new = sorted(eb.procs_of(mod))
            new = [n for n in new if n not in names]
            if new:
                header += f"from {mod.__name__} import {', '.join(new)}\n"
                names += new
        self.header = header
        return names, rejected

    def build(self, body_src):
        """-> (verdict, procedure or None, message)"""
        eb = self.exo_build
        try:
            mod = eb.build_module(body_src, header=self.header)
            ps = eb.procs_of(mod)
            return "accept", ps.get("tgt"), ""
        except BaseException as e:  # noqa: a mutated tree may raise anything
            if isinstance(e, (KeyboardInterrupt, SystemExit)):
                raise
            msg = str(e)
            cls = type(e).__name__
            if cls == "TypeError" and "effect checking" in msg:
                return "reject:bounds", None, msg
            if cls == "SchedulingError" and "alias" in msg:
                return "reject:alias", None, msg
            if cls in ("TypeError", "ParseError", "SyntaxError", "BoundsCheckError"):
                return "reject:front", None, msg
            return "crash:" + cls, None, msg

    def build_unchecked(self, body_src):
        """the LoopIR of a program the checks rejected: same pipeline with CheckBounds and
        Check_Aliasing replaced by no-ops (in this process only)"""
        API = self.API
        old = (API.CheckBounds, API.Check_Aliasing)
        API.CheckBounds = lambda p: None
        API.Check_Aliasing = lambda p: None
        try:
            mod = self.exo_build.build_module(body_src, header=self.header)
            return self.exo_build.procs_of(mod).get("tgt")
        except BaseException as e:  # noqa
            if isinstance(e, (KeyboardInterrupt, SystemExit)):
                raise
            return None
        finally:
            API.CheckBounds, API.Check_Aliasing = old

    # ---- solver goal counting (thorough tier)
    def count_goals(self, body_src):
        """build with the solver wrapped: number of validity goals asked while checking `tgt`"""
        import exo.frontend.boundscheck as bc

        log = {"valid": 0, "sat": 0}
        orig = bc._get_smt_solver

        class Proxy:
            def __init__(self, s):
                object.__setattr__(self, "_s", s)

            def is_valid(self, *a, **k):
                log["valid"] += 1
                return self._s.is_valid(*a, **k)

            def is_sat(self, *a, **k):
                log["sat"] += 1
                return self._s.is_sat(*a, **k)

            def __getattr__(self, n):
                return getattr(self._s, n)

        bc._get_smt_solver = lambda: Proxy(orig())
        try:
            verdict, p, msg = self.build(body_src)
        finally:
            bc._get_smt_solver = orig
        return verdict, log["valid"]


# --------------------------------------------------------------------------- valuations and inputs
def ctrl_args(pj):
    return [(tuple(s), ty[1]) for s, ty in pj["args"] if ty[0] == "ctrl"]


def valuations(pj, S, rng, cap):
    """all assignments: sizes 1..S, index/int -3..7, bool 0/1 (sampled down to `cap`), each with a
    dense and (if there are window arguments) a scaled stride variant"""
    from interp import eval_ctrl, EvalError

    # constants of the assertions: sizes around them must be present, or every valuation would
    # violate e.g. `assert n >= 6` and all conditions would hold vacuously
    lits = set()

    def walk(e):
        if isinstance(e, list):
            if e and e[0] == "int":
                lits.add(e[1])
            for x in e:
                walk(x)

    walk(pj["preds"])
    extra = sorted({c + d for c in lits for d in (-1, 0, 1) if S < c + d <= 10})
    doms = []
    for (s, k) in ctrl_args(pj):
        if k == "size":
            doms.append(list(range(1, S + 1)) + extra)
        elif k == "bool":
            doms.append([0, 1])
        elif k == "stride":
            doms.append([1, 2])
        else:
            doms.append(list(range(-3, 8)))
    total = 1
    for d in doms:
        total *= len(d)
    names = [s for s, _ in ctrl_args(pj)]
    if total <= cap:
        combos = list(itertools.product(*doms))
    else:
        seen = set()
        combos = []
        # corners first, then random
        for pick in itertools.product(*[(d[0], d[-1]) for d in doms]):
            if pick not in seen:
                seen.add(pick)
                combos.append(pick)
        while len(combos) < cap:
            pick = tuple(rng.choice(d) for d in doms)
            if pick not in seen:
                seen.add(pick)
                combos.append(pick)
    wins = [(tuple(s), ty) for s, ty in pj["args"] if ty[0] == "tensor" and ty[2]]
    out = []

    def admissible(env):
        for p in pj["preds"]:
            try:
                if not eval_ctrl(p, env):
                    return False
            except EvalError:
                pass   # mentions a stride: left to the driver
        return True

    good = [c for c in combos if admissible(dict(zip(names, c)))]
    if total > cap and len(good) < cap // 3:
        # rejection sampling towards the asserted region
        seen = set(combos)
        for _ in range(40 * cap):
            if len(good) >= cap // 2:
                break
            pick = tuple(rng.choice(d) for d in doms)
            if pick not in seen:
                seen.add(pick)
                if admissible(dict(zip(names, pick))):
                    good.append(pick)
    for c in good:
        env = dict(zip(names, c))
        variants = [("dense", 1)]
        if wins:
            variants.append(("scaled", rng.choice([2, 3])))
        for vname, scale in variants:
            strides = []
            ok = True
            for s, ty in wins:
                try:
                    shape = [eval_ctrl(h, env) for h in ty[1]]
                except EvalError:
                    ok = False
                    break
                st, acc = [], scale
                for d in reversed(shape):
                    st.insert(0, acc)
                    acc *= max(d, 1) + (1 if scale > 1 else 0)
                strides.append([s[0], s[1], st])
            if ok:
                out.append({"env": [[n[0], n[1], v] for n, v in env.items()], "strides": strides,
                            "variant": vname})
    return out


def make_input(pj, val, rng):
    """an interpreter input realising the valuation (None if an extent is < 1)"""
    from interp import eval_ctrl, EvalError, rat

    env = {(e[0], e[1]): e[2] for e in val["env"]}
    wst = {(s[0], s[1]): s[2] for s in val["strides"]}
    args, heap = [], []
    for s, ty in pj["args"]:
        k = tuple(s)
        if ty[0] == "ctrl":
            if k not in env:
                return None
            args.append({"c": env[k]})
            continue
        if ty[0] == "scalar":
            shape = []
        else:
            try:
                shape = [eval_ctrl(h, env) for h in ty[1]]
            except EvalError:
                return None
        if any(d < 1 for d in shape):
            return None
        if ty[0] == "tensor" and ty[2] and k in wst and len(wst[k]) == len(shape):
            strides = wst[k]
            off = rng.randint(0, 2)
        else:
            strides, acc = [], 1
            for d in reversed(shape):
                strides.insert(0, acc)
                acc *= d
            off = 0
        blen = off + sum((d - 1) * st for d, st in zip(shape, strides)) + 1 + (rng.randint(0, 1) if off else 0)
        heap.append([rat(rng.randint(-3, 3)) for _ in range(blen)])
        args.append({"v": {"buf": len(heap) - 1, "off": off, "dims": [[d, st] for d, st in zip(shape, strides)]}})
    return {"args": args, "heap": heap, "cfg": []}


def val_of_input(pj, inp):
    env, strides = [], []
    for (s, ty), a in zip(pj["args"], inp["args"]):
        if "c" in a:
            env.append([s[0], s[1], a["c"]])
        elif ty[0] == "tensor" and ty[2]:
            strides.append([s[0], s[1], [d[1] for d in a["v"]["dims"]]])
    return {"env": env, "strides": strides, "variant": "random"}


class SafeInterp:
    """the reference interpreter behind a watchdog: a request that takes longer than `limit` seconds
    (exact rationals can grow) kills and restarts the driver; the request counts as unanswered.
    Start-up of the driver is not charged to a request (warm-up with a generous limit)."""

    WARM = {"name": "w", "args": [], "preds": [], "body": [["pass"]]}

    def __init__(self, ctx, limit):
        from interp import Interp

        self.ctx, self.limit, self.Interp = ctx, limit, Interp
        self.timeouts = 0
        self.start()

    def start(self):
        self.it = self.Interp()
        r = self._ask(self.it.drv, {"op": "exec", "proc": self.WARM, "inputs": []}, 900)
        if r is None:
            self.kill()
            raise InfraError("Sem driver did not start within 900 s")

    def kill(self):
        p = self.it.drv.p
        try:
            import subprocess

            subprocess.run(["pkill", "-KILL", "-P", str(p.pid)], capture_output=True)
            p.kill()
            p.wait(timeout=10)
        except Exception:  # noqa
            pass

    def close(self):
        self.kill()

    @staticmethod
    def _ask(drv, req, limit):
        import select

        line = json.dumps(req, separators=(",", ":"))
        try:
            drv.p.stdin.write(line + "\n")
            drv.p.stdin.flush()
        except BrokenPipeError:
            raise InfraError("Sem driver died")
        ready, _, _ = select.select([drv.p.stdout], [], [], limit)
        if not ready:
            return None
        out = drv.p.stdout.readline()
        if not out:
            raise InfraError("Sem driver died: " + drv.p.stderr.read()[-500:])
        return json.loads(out)

    def run(self, pj, inputs):
        if not inputs:
            return []
        r = self._ask(self.it.drv, {"op": "exec", "proc": pj, "inputs": inputs}, self.limit)
        if r is None:
            self.ctx.count("interpreter-timeout")
            self.timeouts += 1
            self.kill()
            if self.timeouts > 25:
                raise InfraError("reference interpreter timed out on more than 25 requests")
            self.start()
            return [{"timeout": True} for _ in inputs]
        if "bad" in r:
            raise InfraError(f"Sem driver rejected request: {r['bad']}")
        return r["results"]

    def gen_inputs(self, pj, cfg_types, rng, n):
        from interp import gen_one

        cand = []
        for t in range(6 * n):
            c = gen_one(pj, cfg_types, rng, dense_only=(t % 3 == 2), small=(t % 2 == 1))
            if c is not None:
                cand.append(c)
            if len(cand) >= 2 * n:
                break
        good, res = [], []
        for c in cand:
            if len(good) >= n:
                break
            r = self.run(pj, [c])[0]
            if "invalid" in r or "bad" in r or "timeout" in r:
                continue
            good.append(c)
            res.append(r)
        return good, res


# --------------------------------------------------------------------------- the check
class Checker:
    def __init__(self, ctx, front, drv, interp):
        self.ctx, self.front, self.drv, self.interp = ctx, front, drv, interp
        self.S = ctx.scale(5, 8)
        self.cap = ctx.scale(120, 400)
        self.budget = ctx.scale(4000, 20000)
        self.spurious = []
        self.stats = {}

    def ask(self, req):
        r = json.loads(self.drv.ask(json.dumps(req, separators=(",", ":"))))
        if "bad" in r:
            raise InfraError(f"C03 driver rejected request: {r['bad']}")
        return r

    def eval_vcs(self, pj, which, vals):
        if not vals:
            return []
        r = self.ask({"op": "eval", "proc": pj, "which": which, "budget": self.budget,
                      "vals": [{"env": v["env"], "strides": v["strides"]} for v in vals]})
        return r["results"]

    def run_on(self, pj, val):
        ctx = self.ctx
        inp = make_input(pj, val, ctx.rng)
        if inp is None:
            return "inadmissible", None
        res = self.interp.run(pj, [inp])[0]
        if "err" in res:
            return res["err"], inp
        if "ok" in res:
            return "ok", inp
        if "timeout" in res:
            return "inadmissible", inp
        return "invalid:" + str(res.get("invalid", res)), inp

    def handle_falsified(self, name, body, pj, val, fals, which, verdict_src):
        """a condition of an ACCEPTED program is false at `val`"""
        ctx = self.ctx
        kinds = sorted({f["kind"] for f in fals})
        outcome, inp = self.run_on(pj, val)
        replay = {"program": name, "source": body, "valuation": val, "falsified": fals[:4],
                  "interpreter": outcome, "input": inp, "found_by": verdict_src}
        ctx.count(f"falsified-on-accepted:{which}:{kinds[0]}")
        if which == "real":
            if outcome in BAD:
                ctx.violation(f"accepted-unsafe:{kinds[0].split('-')[0]}:{outcome}",
                              f"the front end accepts a procedure that trips `{outcome}` on a valid input "
                              f"(condition {kinds[0]} of its own checker's model is false there)", replay)
            elif outcome == "inadmissible" or all(k in NO_MONITOR or k == "call-alias" for k in kinds):
                ctx.violation(f"front-end-check-missing:{kinds[0]}",
                              f"the front end accepts a procedure for which the condition {kinds[0]} it is "
                              f"modelled to check is falsifiable", replay, no_input=True)
            else:
                ctx.violation(f"model:real-condition-false-but-run-{outcome}:{kinds[0]}",
                              "a condition of the literal model is false on an accepted program but the "
                              "reference interpreter trips no monitor (model stricter than the front end?)",
                              replay, no_input=True)
            return
        # only conditions of the sound generator are false: the known gaps of the real checker
        keys = sorted({known_class(k) or ("unclassified:" + k) for k in kinds if k not in NO_MONITOR})
        if not keys:
            return
        if outcome in BAD:
            for key in keys:
                if key.startswith("unclassified:"):
                    ctx.violation(f"accepted-unsafe:{key.split(':', 1)[1]}:{outcome}",
                                  f"the front end accepts a procedure that trips `{outcome}` on a valid input",
                                  replay)
                else:
                    ctx.violation(key, f"accepted procedure trips `{outcome}` ({', '.join(kinds)})", replay)
                    ctx.count("known:" + key)
        elif outcome == "inadmissible":
            ctx.count("falsified-at-inadmissible-valuation")
        else:
            ctx.violation(f"model:vcgen-stricter-than-semantics:{kinds[0]}",
                          f"condition {kinds[0]} of vcgen is false on an accepted program but the reference "
                          f"interpreter runs `{outcome}`", replay, no_input=True)

    def check_program(self, name, body, label, thorough_counts=False):
        """one source text through the real front end and the model"""
        ctx = self.ctx
        verdict, proc, msg = self.front.build(body)
        ctx.count("verdict:" + verdict.split(":")[0] + (":" + verdict.split(":")[1] if ":" in verdict and not verdict.startswith("crash") else ""))
        ctx.count(f"stream:{label}:{verdict.split(':')[0]}")
        if verdict.startswith("crash"):
            ctx.count("crash:" + verdict)
        import export_ir

        if verdict == "accept":
            if proc is None:
                return
            try:
                pj, cfgs = export_ir.export(proc)
            except Exception as e:  # noqa
                ctx.count("export-failed")
                return
            g = self.ask({"op": "gen", "proc": pj})
            ctx.evaluated((name, "accept"), nontrivial=len(g["own"]) > 2)
            for v in g["own"]:
                ctx.count("vc:" + v["kind"])
            if not g["wf"]:
                ctx.violation("model:wf-false-on-accepted:" + (g["wf_failures"][0].split(" ")[0] if g["wf_failures"] else "?"),
                              "side condition of vcgen_sound fails on an accepted procedure: " + "; ".join(g["wf_failures"][:3]),
                              {"program": name, "source": body}, no_input=True)
                return
            vals = valuations(pj, self.S, ctx.rng, self.cap)
            ctx.count("valuations", len(vals))
            rr = self.eval_vcs(pj, "real", vals)
            ro = self.eval_vcs(pj, "own", vals)
            reported = set()
            for v, a, b in zip(vals, rr, ro):
                ctx.evaluations += a["checked"] + b["checked"]
                if a["budget_hit"] or b["budget_hit"]:
                    ctx.count("budget-hit")
                if a["falsified"]:
                    k = ("real", a["falsified"][0]["kind"])
                    if k not in reported:
                        reported.add(k)
                        self.handle_falsified(name, body, pj, v, a["falsified"], "real", "exhaustive")
                elif b["falsified"]:
                    k = ("own", tuple(sorted({f["kind"] for f in b["falsified"]})))
                    if k not in reported:
                        reported.add(k)
                        self.handle_falsified(name, body, pj, v, b["falsified"], "own", "exhaustive")
            # search X: random valid inputs (larger sizes, arbitrary strided windows)
            self.random_inputs(name, body, pj, cfgs, reported)
            if thorough_counts:
                self.goal_counts(name, body, label, g)
            if len(ctx.samples) < 4 and g["own"]:
                ctx.sample({"program": name, "verdict": verdict, "source": body,
                            "conditions": [f"{v['kind']}: {' ; '.join(v['path'][:3])}{' ; …' if len(v['path']) > 3 else ''} |- {v['goal']}" for v in g["own"][:6]]})
            return

        if verdict in ("reject:bounds", "reject:alias") or verdict.startswith("crash"):
            proc = self.front.build_unchecked(body)
            if proc is None:
                ctx.count("rejected:no-loopir")
                return
            try:
                pj, cfgs = export_ir.export(proc)
            except Exception:  # noqa
                ctx.count("export-failed")
                return
            g = self.ask({"op": "gen", "proc": pj})
            ctx.evaluated((name, "reject"), nontrivial=True)
            vals = valuations(pj, self.S, ctx.rng, self.cap)
            ro = self.eval_vcs(pj, "own", vals)
            rr = self.eval_vcs(pj, "real", vals)
            f_own = any(r["falsified"] for r in ro) or not g["wf"]
            f_real = any(r["falsified"] for r in rr)
            for r in ro + rr:
                ctx.evaluations += r["checked"]
            if f_own:
                ctx.count("rejected:some-condition-falsifiable")
            else:
                ctx.count("rejected:spuriously")
                if len(self.spurious) < 12:
                    self.spurious.append({"program": name, "source": body, "message": msg[:300]})
            ctx.count("rejected:literal-model-" + ("agrees" if f_real else "all-conditions-hold-on-small-valuations"))
            return
        ctx.count("rejected:by-parser-or-typechecker")

    def random_inputs(self, name, body, pj, cfgs, reported):
        ctx = self.ctx
        n = ctx.scale(4, 10)
        try:
            inputs, results = self.interp.gen_inputs(pj, cfgs, ctx.rng, n)
        except InfraError:
            raise
        for inp, res in zip(inputs, results):
            ctx.evaluations += 1
            ctx.count("random-input-runs")
            if "err" in res and res["err"] in BAD:
                val = val_of_input(pj, inp)
                a = self.eval_vcs(pj, "real", [val])[0]
                b = self.eval_vcs(pj, "own", [val])[0]
                replay = {"program": name, "source": body, "input": inp, "interpreter": res["err"],
                          "found_by": "random-input"}
                if a["falsified"]:
                    k = ("real", a["falsified"][0]["kind"])
                    if k not in reported:
                        reported.add(k)
                        ctx.violation(f"accepted-unsafe:{a['falsified'][0]['kind'].split('-')[0]}:{res['err']}",
                                      f"the front end accepts a procedure that trips `{res['err']}` on a valid input",
                                      dict(replay, falsified=a["falsified"][:4]))
                elif b["falsified"]:
                    kinds = sorted({f["kind"] for f in b["falsified"]})
                    keys = sorted({known_class(k) or ("unclassified:" + k) for k in kinds if k not in NO_MONITOR})
                    for key in keys:
                        if key.startswith("unclassified:"):
                            ctx.violation(f"accepted-unsafe:{key.split(':', 1)[1]}:{res['err']}",
                                          f"the front end accepts a procedure that trips `{res['err']}`",
                                          dict(replay, falsified=b["falsified"][:4]))
                        else:
                            ctx.violation(key, f"accepted procedure trips `{res['err']}` ({', '.join(kinds)})",
                                          dict(replay, falsified=b["falsified"][:4]))
                else:
                    ctx.violation(f"accepted-unsafe:no-condition-false:{res['err']}",
                                  f"accepted procedure trips `{res['err']}` on a valid input although no generated "
                                  f"condition is false there", replay)

    def goal_counts(self, name, body, label, g):
        """thorough tier: goals the real checker sent to the solver vs. conditions of the literal
        model (`call-alias` is not a solver goal).  The real checker re-checks loops, allocations and
        callee-local buffers of inlined callee bodies, which the model leaves to the callee's own
        check, so: real >= model, with equality for call-free programs."""
        ctx = self.ctx
        verdict, n_real = self.front.count_goals(body)
        n_model = sum(1 for v in g["real"] if v["kind"] != "call-alias")
        has_call = any(v["kind"].startswith("call-") for v in g["real"])
        kind = "with-calls" if has_call else "call-free"
        st = self.stats.setdefault(kind, {"programs": 0, "real_goals": 0, "model_conditions": 0, "deficit": 0})
        st["programs"] += 1
        st["real_goals"] += n_real
        st["model_conditions"] += n_model
        if n_real < n_model or (not has_call and n_real != n_model):
            st["deficit"] += 1
            ctx.violation(f"goal-count:{kind}:{'fewer' if n_real < n_model else 'more'}-goals-than-model",
                          f"the real checker asked the solver {n_real} validity goals, its literal model has "
                          f"{n_model} conditions ({kind} program)",
                          {"program": name, "source": body, "real_goals": n_real, "model": [v["kind"] for v in g["real"]]},
                          no_input=True)


def run(ctx):
    exo = import_exo()
    import c03_gen
    from interp import Interp

    ctx.rule = ("Exo source texts: hand-written seeds (the F12 family, edge offsets, asserts, guards, calls) + "
                "programs generated valid-by-construction with an affine interval reasoner (loops with symbolic "
                "bounds, offsets at both edges of the extents, windows, windows of windows, calls through windows "
                "and window variables, guards, asserts, / and %) + near-miss variants corrupting one site.  A case "
                "is distinct per (program text, verdict); non-trivial = more than two conditions besides the "
                "argument extents.  Each accepted program: every condition of vcgenReal and vcgen on ALL valuations "
                "sizes<=5 (quick) / <=8 (thorough), index arguments in [-3,7], dense and scaled window strides "
                "(sampled above the cap), loop variables enumerated exactly; plus random valid inputs.")
    ctx.assumptions += [
        "validity of a condition is sampled on small valuations only (the theorem needs validity in all "
        "environments; the front end delegates that to z3, which is trusted)",
        "the exporter harness/export_ir.py maps LoopIR to ExoModel.Syntax faithfully (shared with C01/C02)",
        "configuration reads in control positions are not generated (vcgen drops such facts from the path, "
        "so it would be stricter than the front end there)",
        "non-window tensor arguments are dense (Exo's calling convention; entry fact of the theorem)",
    ]
    ctx.trusted += [
        "z3 / pysmt decide the goals CheckBounds sends (modelled as validity of vcgenReal's conditions)",
        "TypeChecker's discipline (ranks, kinds of arguments) is the side condition wf of vcgen_sound; it is "
        "checked on every accepted program, not proved about the type checker",
        "lean/Drivers/C03.lean evaluator (path walking, loop enumeration) — untrusted for proofs, used for search",
    ]

    # 1. proof obligations
    broken = ctx.lean_obligations(["ExoModel.Props.C03"])
    for b in broken:
        ctx.violation("lean:" + b.split(":")[0], f"proof obligation broken: {b}", {"obligation": b}, no_input=True)
    if any(b.startswith("build") for b in broken):
        return

    front = Front(exo)
    names, prelude_rejected = front.setup_prelude(c03_gen.PRELUDE)
    # a rejected safe callee is incompleteness of the tree under test, not a violation of C03
    ctx.extra["prelude_rejected"] = prelude_rejected
    ctx.count("prelude:accepted", len(names))
    ctx.count("prelude:rejected", len(prelude_rejected))
    drv = LeanDriver("Drivers/C03.lean")
    interp = SafeInterp(ctx, ctx.scale(45, 120))
    ck = Checker(ctx, front, drv, interp)
    thorough = not ctx.quick
    t_budget = ctx.scale(110, 800)
    t_start = ctx.elapsed()   # the budget of the stream does not include waiting for the Lean build
    try:
        # the prelude procedures themselves are accepted programs
        import exo_build
        import export_ir

        # 2a. seeds (always)
        for name, body in c03_gen.SEEDS.items():
            ck.check_program("seed:" + name, body, "seed", thorough_counts=thorough)
        # 2b. generated stream
        n_prog = ctx.scale(260, 1500)
        k = 0
        while k < n_prog and ctx.elapsed() - t_start < t_budget:
            nm = None
            r = ctx.rng.random()
            if r < 0.45:
                nm = ctx.rng.choice(c03_gen.NEAR_MISSES)
            g = c03_gen.gen_program(ctx.rng, nm)
            label = ("near-miss:" + nm) if g["nm_used"] else "valid-by-construction"
            for f in g["features"]:
                ctx.count("feature:" + f)
            ck.check_program(f"gen{k}", g["body"], label, thorough_counts=thorough and k % 3 == 0)
            k += 1
        ctx.count("generated-programs", k)
        # 2c. prelude procedures and pool programs as further accepted subjects
        from pool import POOL

        for name, src in sorted(POOL.items()):
            if "{" in src or "Cfg" in src or "config" in src or ctx.elapsed() - t_start > t_budget * 1.15:
                continue
            try:
                mod = exo_build.build_module(src)
                ps = exo_build.procs_of(mod)
            except BaseException as e:  # noqa
                if isinstance(e, (KeyboardInterrupt, SystemExit)):
                    raise
                ctx.count("pool:not-accepted")
                continue
            for pn, p in ps.items():
                try:
                    pj, cfgs = export_ir.export(p)
                except Exception:  # noqa
                    continue
                if cfgs:
                    continue
                g = ck.ask({"op": "gen", "proc": pj})
                ctx.evaluated(("pool", name, pn), nontrivial=len(g["own"]) > 2)
                ctx.count("pool:programs")
                if not g["wf"]:
                    ctx.violation("model:wf-false-on-accepted:pool",
                                  "side condition of vcgen_sound fails on an accepted pool procedure: "
                                  + "; ".join(g["wf_failures"][:3]), {"program": name, "source": src}, no_input=True)
                    continue
                vals = valuations(pj, ck.S, ctx.rng, ck.cap // 2)
                reported = set()
                for which in ("real", "own"):
                    for v, a in zip(vals, ck.eval_vcs(pj, which, vals)):
                        ctx.evaluations += a["checked"]
                        if a["falsified"]:
                            kk = (which, a["falsified"][0]["kind"])
                            if kk not in reported:
                                reported.add(kk)
                                ck.handle_falsified("pool:" + name, src, pj, v, a["falsified"], which, "exhaustive")
                ck.random_inputs("pool:" + name, src, pj, cfgs, reported)
    finally:
        drv.close()
        interp.close()
    ctx.extra["spuriously_rejected_examples"] = ck.spurious
    ctx.extra["goal_counts"] = ck.stats
    ctx.extra["bounded_domain"] = {"sizes_up_to": ck.S, "index_range": [-3, 7], "valuation_cap_per_program": ck.cap}
