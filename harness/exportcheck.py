"""Cross-check of the LoopIR export — reduces the trusted base of the semantic checks.

Every semantic check (C01–C05, C08–C10, C19 …) sees exo's LoopIR only through
`harness/export_ir.py` (JSON) read by `lean/ExoModel/Wire.lean` into `ExoModel.Syntax`.  The
printer model of C17 gives an independent view of the same object:

    real LoopIR ──export_ir──► JSON ──Wire──► Syntax ──toPProc (model of get_name)──► PProc ──ppProcS──► text
    real LoopIR ──mask blind fields──► real `_print_proc` ─────────────────────────────────────────────► text

and the two texts must be equal character by character, for the procedure and for every callee
embedded in the export (in the order the `Call` statements are printed, depth first).  A mismatch
means that the exporter, the reader, or the traversal of one of them misrepresents the LoopIR:
a swapped field, a dropped branch, a statement exported as another, a wrong symbol id, …

BLIND FIELDS (`mask`): what the export does not carry is replaced in a COPY of the real LoopIR
before the real printer prints it; the model prints the same placeholders.  This list is exactly
what the semantic checks cannot see (see lean/ExoModel/PrintOfSyntax.lean):

  1. numeric precision of allocations and scalar/tensor arguments      → `R`
  2. memory of allocations and of arguments that print one             → `DRAM`
  3. spelling of numeric literals (the VALUE is exported exactly)       → `str(Fraction(val))`
  4. the `@instr` template (its comment lines are cut from the real text), srcinfo, and the type
     annotations on expressions / Assign / Reduce (not printed at all)
  5. of externs and configs only the printed names are exported

    check_proc(exo_proc)                  -> list[str]   mismatch descriptions (empty: export is faithful / skipped)
    check_proc_full(exo_proc, exporter=…) -> dict        status covered|skipped|mismatch, why, units, mismatches
    /venv/bin/python harness/exportcheck.py [-v]          self-test: pool + sampled scheduled procedures
"""
from __future__ import annotations

import json
import random
import sys
from collections import Counter
from fractions import Fraction
from pathlib import Path

sys.path.insert(0, str(Path(__file__).resolve().parent))
import common  # noqa: E402
import export_ir  # noqa: E402

DRIVER = "Drivers/C17X.lean"


class _Skip(Exception):
    def __init__(self, why):
        super().__init__(why)
        self.why = why


# ------------------------------------------------------------------------------ blind fields
class _Mask:
    def __init__(self):
        common.import_exo()
        from exo.core.LoopIR import LoopIR, T
        from exo.core.memory import DRAM

        self.L, self.T, self.DRAM = LoopIR, T, DRAM

    def expr(self, e):
        L = self.L
        if isinstance(e, L.Read):
            return e.update(idx=[self.expr(i) for i in e.idx])
        if isinstance(e, L.Const):
            if isinstance(e.val, bool):
                return e
            if not isinstance(e.val, (int, float)):
                raise _Skip("unsupported:literal:" + type(e.val).__name__)
            try:
                return e.update(val=Fraction(e.val))                    # blind field 3
            except (ValueError, OverflowError):
                raise _Skip("unsupported:non-finite-literal")
        if isinstance(e, L.USub):
            return e.update(arg=self.expr(e.arg))
        if isinstance(e, L.BinOp):
            return e.update(lhs=self.expr(e.lhs), rhs=self.expr(e.rhs))
        if isinstance(e, L.Extern):
            return e.update(args=[self.expr(a) for a in e.args])
        if isinstance(e, L.WindowExpr):
            return e.update(idx=[self.acc(a) for a in e.idx])
        if isinstance(e, (L.StrideExpr, L.ReadConfig)):
            return e
        raise _Skip("unsupported:expr:" + type(e).__name__)

    def acc(self, a):
        L = self.L
        if isinstance(a, L.Interval):
            return a.update(lo=self.expr(a.lo), hi=self.expr(a.hi))
        return a.update(pt=self.expr(a.pt))

    def numtype(self, t):
        T = self.T
        if isinstance(t, T.Tensor):
            return T.Tensor([self.expr(h) for h in t.hi], t.is_window, T.R)   # blind field 1
        if t.is_real_scalar():
            return T.R
        return t

    def stmts(self, ss):
        return [self.stmt(s) for s in ss]

    def stmt(self, s):
        L = self.L
        if isinstance(s, (L.Assign, L.Reduce)):
            return s.update(idx=[self.expr(i) for i in s.idx], rhs=self.expr(s.rhs))
        if isinstance(s, L.WriteConfig):
            return s.update(rhs=self.expr(s.rhs))
        if isinstance(s, L.Pass):
            return s
        if isinstance(s, L.If):
            return s.update(cond=self.expr(s.cond), body=self.stmts(s.body), orelse=self.stmts(s.orelse))
        if isinstance(s, L.For):
            return s.update(lo=self.expr(s.lo), hi=self.expr(s.hi), body=self.stmts(s.body))
        if isinstance(s, L.Alloc):
            return s.update(type=self.numtype(s.type), mem=self.DRAM)         # blind fields 1, 2
        if isinstance(s, L.Free):
            return s
        if isinstance(s, L.Call):
            return s.update(args=[self.expr(a) for a in s.args])
        if isinstance(s, L.WindowStmt):
            return s.update(rhs=self.expr(s.rhs))
        raise _Skip("unsupported:stmt:" + type(s).__name__)

    def proc(self, ir):
        T = self.T
        args = []
        for a in ir.args:
            if a.type == T.size or a.type == T.index:       # printed without type details / memory
                args.append(a)
            else:
                args.append(a.update(type=self.numtype(a.type), mem=self.DRAM))
        return ir.update(args=args, preds=[self.expr(p) for p in ir.preds], body=self.stmts(ir.body))


def real_units(ir):
    """the procedure and the callees embedded in its export, in the driver's order"""
    common.import_exo()
    from exo.core.LoopIR import LoopIR as L

    def callees(ss):
        out = []
        for s in ss:
            if isinstance(s, L.Call):
                out.append(s.f)
            elif isinstance(s, L.If):
                out += callees(s.body) + callees(s.orelse)
            elif isinstance(s, L.For):
                out += callees(s.body)
        return out

    def rec(p, depth):
        if depth > 50:
            raise _Skip("unsupported:call-depth")
        out = [p]
        for f in callees(p.body):
            out += rec(f, depth + 1)
        return out

    return rec(ir, 0)


def real_lines(ir):
    """the real `_print_proc` on the masked copy, `# @instr` comment lines removed"""
    from exo.core import LoopIR_pprint as PP

    masked = _Mask().proc(ir)
    lines = PP._print_proc(masked, PP.PrintEnv(), "")
    k = len(ir.instr.c_instr.split("\n")) if ir.instr else 0
    return [lines[0]] + lines[1 + k:]


# -------------------------------------------------------------------------------------- the tie
_driver = None


def _get_driver():
    global _driver
    if _driver is None:
        _driver = common.LeanDriver(DRIVER)
    return _driver


def close():
    global _driver
    if _driver is not None:
        _driver.close()
        _driver = None


def check_proc_full(exo_proc, driver=None, exporter=None):
    """exporter: module/object with `exp_proc(ir)` (default: harness/export_ir.py)"""
    common.import_exo()
    exporter = exporter or export_ir
    res = {"status": "skipped", "why": "", "mismatches": [], "units": 0, "units_skipped": 0, "lines": 0}
    ir = getattr(exo_proc, "_loopir_proc", None)
    if ir is None:
        ir = exo_proc.INTERNAL_proc() if hasattr(exo_proc, "INTERNAL_proc") else exo_proc
    name = str(ir.name)
    try:
        pj = exporter.exp_proc(ir)
    except BaseException as e:
        if isinstance(e, (KeyboardInterrupt, SystemExit)):
            raise
        res["why"] = f"export-raises:{type(e).__name__}"
        return res
    try:
        units = real_units(ir)
    except _Skip as e:
        res["why"] = e.why
        return res
    d = driver or _get_driver()
    raw = d.ask(json.dumps({"op": "print_exported", "style": "raw", "proc": pj}))
    try:
        ans = json.loads(raw)
    except ValueError:
        raise common.InfraError(f"C17X driver answered no JSON: {raw[:300]}")
    if "bad" in ans:
        # the reader (Wire) rejects what the exporter wrote: that IS a finding about the pair
        res["status"] = "mismatch"
        res["mismatches"] = [f"{name}: ExoModel.Wire rejects the export: {ans['bad']}"]
        return res
    mm = []
    munits = ans["units"]
    if len(munits) != len(units):
        mm.append(f"{name}: the export embeds {len(munits)} procedures (itself + callees), the LoopIR has {len(units)}")
    for k in range(min(len(munits), len(units))):
        u, r = munits[k], units[k]
        uname = f"{name}" if k == 0 else f"{name}/callee#{k}:{r.name}"
        if u["name"] != str(r.name):
            mm.append(f"{uname}: exported under the name `{u['name']}`")
            continue
        if "unsupported" in u:
            res["units_skipped"] += 1
            res["why"] = "unsupported:" + u["unsupported"]
            continue
        try:
            real = real_lines(r)
        except _Skip as e:
            res["units_skipped"] += 1
            res["why"] = e.why
            continue
        except BaseException as e:
            if isinstance(e, (KeyboardInterrupt, SystemExit)):
                raise
            res["units_skipped"] += 1
            res["why"] = f"real-printer-raises:{type(e).__name__}"
            continue
        res["units"] += 1
        res["lines"] += len(real)
        model = u["lines"]
        for i in range(max(len(real), len(model))):
            a = real[i] if i < len(real) else "<missing>"
            b = model[i] if i < len(model) else "<missing>"
            if a != b:
                mm.append(f"{uname}: line {i}: real LoopIR `{a}` export `{b}`")
    res["mismatches"] = mm
    if mm:
        res["status"] = "mismatch"
    elif res["units"] > 0:
        res["status"] = "covered"
    return res


def check_proc(exo_proc):
    """the function to call from the stream: list of mismatch descriptions"""
    return check_proc_full(exo_proc)["mismatches"]


# ------------------------------------------------------------------------------------ self-test
EXTRA = {
    "xc_literals": """
@proc
def xc_literals(n: size, x: f32[n] @ DRAM, y: f64[n] @ DRAM):
    for i in seq(0, n):
        x[i] = 0.1 * x[i] + 1e-05
        y[i] += -3.14159 * y[i] - 2.5e+20
        if i < n - 1:
            x[i + 1] = -0.3333333333333333
""",
}


def _programs():
    import pool
    import printstmt

    progs = dict(pool.POOL)
    progs.update(printstmt.EXTRA)
    progs.update(EXTRA)
    try:
        from props import c17

        if isinstance(getattr(c17, "EXTRA_POOL", None), dict):
            progs.update(c17.EXTRA_POOL)
    except Exception:
        pass
    return progs


def _scheduled(mod, procs, rng, per_program):
    """a sample of procedures derived by real scheduling operations (the stream's attempts)"""
    import stream
    from exo.core.configs import Config

    names = list(procs)
    p0 = procs[names[-1]]
    env = {"callees": {k: procs[k] for k in names[:-1]},
           "configs": {k: v for k, v in vars(mod).items() if isinstance(v, Config)}}
    cfg_list = []
    for cn, cfg in env["configs"].items():
        for (fn, _t) in cfg.fields():
            cfg_list.append((cn, fn, not export_ir.is_ctrl_type(cfg.lookup_type(fn))))
    try:
        atts = stream.attempts(p0, callees=list(env["callees"]), configs=cfg_list)
    except BaseException as e:
        if isinstance(e, (KeyboardInterrupt, SystemExit)):
            raise
        return
    rng.shuffle(atts)
    got, seen, tried = 0, {str(p0)}, 0
    for att in atts:
        if got >= per_program or tried >= 6 * per_program:
            break
        tried += 1
        try:
            p2 = stream.apply_attempt(p0, att, env)
        except BaseException as e:
            if isinstance(e, (KeyboardInterrupt, SystemExit)):
                raise
            continue
        try:
            t = str(p2)
        except BaseException:
            t = None
        if t is None or t in seen:
            continue
        seen.add(t)
        got += 1
        yield att["op"], p2


def self_test(verbose=False, per_program=8, exporter=None, seed=0):
    import time
    import exo_build

    common.import_exo()
    t0 = time.time()
    counts = Counter()
    why = Counter()
    ops = Counter()
    bad = []
    nlines = nunits = 0
    rng = random.Random(f"exportcheck:{seed}")

    def one(label, p, kind):
        nonlocal nlines, nunits
        r = check_proc_full(p, exporter=exporter)
        counts[kind + ":" + r["status"]] += 1
        counts[r["status"]] += 1
        nlines += r["lines"]
        nunits += r["units"]
        if r["units_skipped"] or r["status"] == "skipped":
            why[r["why"]] += 1
        if r["status"] == "mismatch":
            bad.append((label, r["mismatches"]))
        if verbose and r["status"] == "covered":
            print(f"--- {label}: {r['units']} unit(s), {r['lines']} lines equal")

    for nm, src in _programs().items():
        try:
            mod = exo_build.build_module(src)
            procs = exo_build.procs_of(mod)
        except BaseException as e:
            if isinstance(e, (KeyboardInterrupt, SystemExit)):
                raise
            counts["front-end-rejects"] += 1
            continue
        for pn, p in procs.items():
            one(f"{nm}/{pn}", p, "pool")
        if procs and per_program > 0:
            for op, p2 in _scheduled(mod, procs, rng, per_program):
                ops[op] += 1
                one(f"{nm}/<{op}>", p2, "scheduled")
    close()
    dt = time.time() - t0
    total = counts["covered"] + counts["skipped"] + counts["mismatch"]
    print(f"exportcheck self-test: procedures={total} (pool={sum(v for k, v in counts.items() if k.startswith('pool:'))}"
          f" scheduled={sum(v for k, v in counts.items() if k.startswith('scheduled:'))}) covered={counts['covered']} "
          f"skipped={counts['skipped']} mismatching={counts['mismatch']} units(proc+callees)={nunits} "
          f"lines-compared={nlines}  ({dt:.1f}s)")
    print("  scheduling operations sampled: " + ", ".join(f"{k}={v}" for k, v in sorted(ops.items())))
    for k, v in sorted(why.items()):
        print(f"  skipped/partly skipped {v:3d}  {k}")
    for label, mm in bad[:12]:
        for m in mm[:4]:
            print(f"  MISMATCH {label}: {m}")
    if len(bad) > 12:
        print(f"  … {len(bad) - 12} more mismatching procedures")
    return 1 if bad else 0


# ------------------------------------------------------------------------------- mutation test
MUTATIONS = [
    ("loop bounds swapped", 'exp_expr(s.lo, cfgs), exp_expr(s.hi, cfgs), exp_stmts(s.body, cfgs)',
     'exp_expr(s.hi, cfgs), exp_expr(s.lo, cfgs), exp_stmts(s.body, cfgs)'),
    ("orelse dropped", 'exp_stmts(s.body, cfgs), exp_stmts(s.orelse, cfgs)]', 'exp_stmts(s.body, cfgs), []]'),
    ("Reduce exported as Assign", 'return ["reduce", sym(s.name)', 'return ["assign", sym(s.name)'),
    ("symbol id dropped (same-named symbols identified)", 'return [s.name(), s._id]', 'return [s.name(), 0]'),
    ("par exported as seq", 'isinstance(s.loop_mode, LoopIR.Par)]', 'False]'),
    ("interval bounds swapped", 'return ["iv", exp_expr(w.lo, cfgs), exp_expr(w.hi, cfgs)]',
     'return ["iv", exp_expr(w.hi, cfgs), exp_expr(w.lo, cfgs)]'),
    ("binop operands swapped", 'str(e.op), exp_expr(e.lhs, cfgs), exp_expr(e.rhs, cfgs)]',
     'str(e.op), exp_expr(e.rhs, cfgs), exp_expr(e.lhs, cfgs)]'),
    ("stride dimension + 1", 'return ["stride", sym(e.name), int(e.dim)]', 'return ["stride", sym(e.name), int(e.dim) + 1]'),
    ("window flag of a tensor argument dropped", 'bool(t.is_window)]', 'False]'),
    ("data literal rounded to 3 digits", 'fr = Fraction(e.val)', 'fr = Fraction(e.val).limit_denominator(1000)'),
    ("predicates dropped", '"preds": [exp_expr(e, cfgs) for e in p.preds],', '"preds": [],'),
    ("last statement of every block dropped", 'return [exp_stmt(s, cfgs) for s in ss]',
     'return [exp_stmt(s, cfgs) for s in ss][:max(1, len(ss) - 1)]'),
    ("callee body replaced by pass", 'return ["call", exp_proc(s.f, cfgs),',
     'return ["call", dict(exp_proc(s.f, cfgs), body=[["pass"]]),'),
    ("assign indices reversed", 'return ["assign", sym(s.name), [exp_expr(i, cfgs) for i in s.idx]',
     'return ["assign", sym(s.name), [exp_expr(i, cfgs) for i in s.idx][::-1]'),
]


def mutated_exporter(old, new):
    """a scratch COPY of harness/export_ir.py with one textual change, imported as a module"""
    import importlib.util
    import tempfile

    src = (Path(__file__).resolve().parent / "export_ir.py").read_text()
    if src.count(old) != 1:
        raise common.InfraError(f"mutation pattern occurs {src.count(old)} times: {old}")
    d = tempfile.mkdtemp(prefix="exportcheck_mut_")
    f = Path(d) / "export_ir_mut.py"
    f.write_text(src.replace(old, new))
    spec = importlib.util.spec_from_file_location("export_ir_mut", f)
    m = importlib.util.module_from_spec(spec)
    spec.loader.exec_module(m)
    return m


def mutation_test(per_program=2, only=None):
    import contextlib
    import io

    rc = 0
    for label, old, new in MUTATIONS:
        if only and only not in label:
            continue
        buf = io.StringIO()
        with contextlib.redirect_stdout(buf):
            r = self_test(exporter=mutated_exporter(old, new), per_program=per_program)
        head = buf.getvalue().split("\n")[0]
        first = [l for l in buf.getvalue().split("\n") if "MISMATCH" in l][:1]
        print(f"{'CAUGHT' if r else 'MISSED'}  {label}: {head.split(') ', 1)[-1]}")
        for l in first:
            print("       " + l.strip()[:230])
        rc |= (0 if r else 1)
    return rc


if __name__ == "__main__":
    if "--mutations" in sys.argv:
        k = sys.argv.index("--mutations")
        sys.exit(mutation_test(only=sys.argv[k + 1] if len(sys.argv) > k + 1 else None))
    sys.exit(self_test(verbose="-v" in sys.argv))
