"""Shared machinery of the /verif checks (see DESIGN.md section 2.4).

Every property module `harness/props/cNN.py` exposes `run(ctx)`; it uses `ctx` to
  * build / audit the Lean modules that carry the property's theorems   (ctx.lean_obligations)
  * record what the correspondence and the search actually covered        (ctx.count / ctx.sample)
  * report violations (concrete replay, or broken theorem / tie with none) (ctx.violation)
`finish()` prints the VIOLATION / KNOWN-FINDING lines, writes evidence/<id>.json and returns the
exit status (0 held, 1 violation, 2 infrastructure failure).
"""
from __future__ import annotations

import json
import os
import random
import re
import subprocess
import sys
import time
import traceback
from pathlib import Path

# exact rational results of the reference interpreter can have tens of thousands of digits
if hasattr(sys, "set_int_max_str_digits"):
    sys.set_int_max_str_digits(0)

ROOT = Path(__file__).resolve().parent.parent
LEAN = ROOT / "lean"
REPO = Path(os.environ.get("EXO_REPO", "/repo"))
EVID = Path(os.environ.get("VERIF_EVIDENCE_DIR", ROOT / "evidence"))
REPLAY = Path(os.environ.get("VERIF_REPLAY_DIR", ROOT / "replays"))
ALLOWED_AXIOMS = {"propext", "Classical.choice", "Quot.sound"}
FORBIDDEN = re.compile(
    r"\bsorry\b|\badmit\b|^\s*axiom\s|native_decide|bv_decide|implemented_by|\bunsafe\s|maxHeartbeats\s+0\b"
)
TRUSTED_BASE = [
    "Lean 4.33.0 kernel (lake build; thorough tier re-checks with leanchecker)",
    "axioms per theorem as listed under coverage.axioms (allowed: propext, Classical.choice, Quot.sound)",
    "harness/ (exporter, translators, correspondence harness, generators)",
]


class InfraError(Exception):
    pass


def import_exo():
    """make `import exo` resolve to REPO/src (the tree under test; /repo unless EXO_REPO is set)"""
    src = str(REPO / "src")
    if src in sys.path:
        sys.path.remove(src)
    sys.path.insert(0, src)
    os.environ["PYTHONPATH"] = src + os.pathsep + os.environ.get("PYTHONPATH", "")
    import exo  # noqa

    # A z3 query of the real effect analysis can run for hours (seen: Check_IsIdempotent under add_loop).
    # The harness bounds every query; on expiry z3 answers `unknown`, exo raises, and the attempt counts
    # as rejected by the real code (a rejection is never a violation).  /repo itself is not touched.
    try:
        import z3 as _z3
        _z3.set_param("timeout", int(os.environ.get("EXO_VERIF_Z3_TIMEOUT_MS", "20000")))
    except Exception:
        pass

    if not str(Path(exo.__file__).resolve()).startswith(str(REPO.resolve())):
        raise InfraError(f"exo imported from {exo.__file__}, expected under {REPO}")
    return exo


class HarnessTimeout(Exception):
    """a call into the real code ran longer than the harness allows (pure-Python non-termination, e.g. the alias
    chase of new_eff.get_changing_scalars on `aliases[x] = x` after extract_subproc; z3 queries have their own bound)"""


class time_limit:
    """with time_limit(s): … — raises HarnessTimeout in the main thread after s seconds of wall time.  Only wrap
    calls into the REAL code (never a conversation with a Lean driver: the exception would desynchronise it)."""

    def __init__(self, seconds):
        self.seconds = seconds

    def _fire(self, signum, frame):
        raise HarnessTimeout(f"no answer after {self.seconds} s")

    def __enter__(self):
        import signal
        self._old = signal.signal(signal.SIGALRM, self._fire)
        signal.setitimer(signal.ITIMER_REAL, self.seconds)
        return self

    def __exit__(self, *exc):
        import signal
        signal.setitimer(signal.ITIMER_REAL, 0)
        signal.signal(signal.SIGALRM, self._old)
        return False


def sh(cmd, cwd=None, timeout=3600, env=None, input=None):
    e = dict(os.environ)
    if env:
        e.update(env)
    p = subprocess.run(
        cmd, cwd=cwd, env=e, input=input, capture_output=True, text=True, timeout=timeout,
        shell=isinstance(cmd, str),
    )
    return p.returncode, p.stdout, p.stderr


def strip_lean_comments(src: str) -> str:
    # remove /- ... -/ (nested) and -- ... comments, and string literals
    out = []
    i, n, depth = 0, len(src), 0
    while i < n:
        if src.startswith("/-", i):
            depth += 1
            i += 2
        elif depth and src.startswith("-/", i):
            depth -= 1
            i += 2
        elif depth:
            if src[i] == "\n":
                out.append("\n")
            i += 1
        elif src.startswith("--", i):
            while i < n and src[i] != "\n":
                i += 1
        elif src[i] == '"':
            i += 1
            while i < n and src[i] != '"':
                i += 2 if src[i] == "\\" else 1
            i += 1
            out.append('""')
        else:
            out.append(src[i])
            i += 1
    return "".join(out)


def lean_sources(modules):
    """transitive closure of local imports of the given ExoModel modules -> list of paths"""
    seen, todo = {}, list(modules)
    while todo:
        m = todo.pop()
        if m in seen:
            continue
        p = LEAN / (m.replace(".", "/") + ".lean")
        if not p.exists():
            continue
        seen[m] = p
        for line in p.read_text().splitlines():
            mm = re.match(r"\s*import\s+(ExoModel[\w.]*)", line)
            if mm:
                todo.append(mm.group(1))
    return seen


_build_lock = None


def lake_build(targets, timeout=3000):
    """`lake build targets` under an inter-process lock (several checks may run at once)."""
    import fcntl

    lockf = open(LEAN / ".verif_build.lock", "w")
    fcntl.flock(lockf, fcntl.LOCK_EX)
    try:
        rc, out, err = sh(["lake", "build", *targets], cwd=LEAN, timeout=timeout)
    finally:
        fcntl.flock(lockf, fcntl.LOCK_UN)
        lockf.close()
    return rc == 0, out + err


def lean_run_file(path, timeout=1800, input=None):
    rc, out, err = sh(["lake", "env", "lean", str(path)], cwd=LEAN, timeout=timeout, input=input)
    return rc, out, err


def declared_theorems(path: Path):
    src = strip_lean_comments(path.read_text())
    return re.findall(r"^\s*(?:private\s+|protected\s+)?theorem\s+([^\s:({\[]+)", src, re.M)


def lean_audit(module: str):
    """returns {theorem full name: [axioms]} for theorems declared in `module`'s source file"""
    path = LEAN / (module.replace(".", "/") + ".lean")
    want = declared_theorems(path)
    tmpd = LEAN / ".audit"
    tmpd.mkdir(exist_ok=True)
    f = tmpd / (module.replace(".", "_") + f"_{os.getpid()}.lean")
    f.write_text(f"import ExoModel.AuditCmd\nimport {module}\n#audit_module {module}\n")
    try:
        rc, out, err = lean_run_file(f)
    finally:
        try:
            f.unlink()
        except OSError:
            pass
    if rc != 0:
        raise InfraError(f"audit of {module} failed:\n{out}\n{err}")
    found = {}
    for m in re.finditer(r"AXIOMS (\S+) : (.*)", out):
        full = m.group(1)
        axs = [a.strip() for a in m.group(2).split(",") if a.strip()]
        short = full.split(".")
        for w in want:
            wparts = w.split(".")
            if short[-len(wparts):] == wparts:
                found[full] = axs
    missing = [w for w in want if not any(k.split(".")[-len(w.split(".")):] == w.split(".") for k in found)]
    return found, missing


class Ctx:
    def __init__(self, prop_id, tier, seed, replay=None):
        self.prop_id = prop_id
        self.tier = tier
        self.seed = seed
        self.replay = replay
        self.rng = random.Random(f"{prop_id}:{seed}")
        self.t0 = time.time()
        self.counts = {}
        self.samples = []
        self.violations = []
        self.known_hits = []
        self.obligations = {}  # name -> bool discharged
        self.axioms = {}
        self.assumptions = []
        self.trusted = list(TRUSTED_BASE)
        self.extra = {}
        self.distinct = set()
        self.evaluations = 0
        self.rule = ""
        self.checker_cmds = []
        kf = ROOT / "known_findings.json"
        self.known = json.loads(kf.read_text()) if kf.exists() else {"findings": [], "fixed": []}

    # ------------------------------------------------------------------ bookkeeping
    @property
    def quick(self):
        return self.tier == "quick"

    def scale(self, quick, thorough):
        return quick if self.quick else thorough

    def count(self, key, n=1):
        self.counts[key] = self.counts.get(key, 0) + n

    def evaluated(self, distinct_key=None, nontrivial=True, n=1):
        self.evaluations += n
        if nontrivial and distinct_key is not None:
            self.distinct.add(distinct_key if isinstance(distinct_key, (str, int, tuple)) else json.dumps(distinct_key, sort_keys=True))

    def sample(self, obj, limit=6):
        if len(self.samples) < limit:
            self.samples.append(obj)

    def elapsed(self):
        return time.time() - self.t0

    # ------------------------------------------------------------------ Lean obligations
    def lean_obligations(self, prop_modules, build_targets=None, gen_note=None):
        """Build the modules, audit every theorem of `prop_modules`, scan sources for forbidden
        tokens.  Returns list of broken obligations (names); records obligations/discharged."""
        targets = list(build_targets or prop_modules)
        if "ExoModel.AuditCmd" not in targets:
            targets.append("ExoModel.AuditCmd")
        ok, log = lake_build(targets)
        self.checker_cmds.append("cd lean && lake build " + " ".join(targets) + " && #audit_module (axioms of every theorem)")
        broken = []
        if not ok:
            # find which modules failed
            failed = re.findall(r"^- (ExoModel[\w.]*)", log, re.M) or ["<build>"]
            self.extra["build_log_tail"] = log[-3000:]
            for m in prop_modules:
                self.obligations[m + ":<build>"] = False
            return ["build:" + ",".join(failed)]
        srcs = lean_sources(prop_modules)
        for m, p in srcs.items():
            body = strip_lean_comments(p.read_text())
            for ln, line in enumerate(body.splitlines(), 1):
                if FORBIDDEN.search(line):
                    broken.append(f"forbidden-token:{m}:{ln}:{line.strip()[:60]}")
        for m in prop_modules:
            found, missing = lean_audit(m)
            for name, axs in found.items():
                good = set(axs) <= ALLOWED_AXIOMS
                self.obligations[name] = good
                self.axioms[name] = axs
                if not good:
                    broken.append(f"axioms:{name}:{axs}")
            for w in missing:
                self.obligations[m + "." + w] = False
                broken.append(f"missing-theorem:{m}.{w}")
        if self.tier == "thorough" and os.environ.get("VERIF_NO_LEANCHECKER") != "1":
            rc, out, err = sh(["lake", "env", "leanchecker", *prop_modules], cwd=LEAN, timeout=3000)
            self.extra["leanchecker"] = {"rc": rc, "tail": (out + err)[-400:]}
            self.checker_cmds.append("cd lean && lake env leanchecker " + " ".join(prop_modules))
            if rc != 0:
                broken.append("leanchecker")
        return broken

    # ------------------------------------------------------------------ verdicts
    def _known(self, key):
        for f in self.known.get("findings", []):
            if f["property"] == self.prop_id and f["key"] == key:
                return f
        return None

    def violation(self, key, what, replay_obj=None, no_input=False):
        """key: stable identifier of the failing call site / input class (matched against
        known_findings.json); what: one line; replay_obj: json-able replay"""
        kf = self._known(key)
        if kf is not None and not no_input:
            if key not in [k for k, _ in self.known_hits]:
                self.known_hits.append((key, kf["what"]))
            return
        if any(v["key"] == key for v in self.violations):
            return
        REPLAY.mkdir(exist_ok=True)
        path = REPLAY / f"{self.prop_id}_{re.sub(r'[^A-Za-z0-9_.-]+', '_', key)[:80]}.json"
        path.write_text(json.dumps({"property": self.prop_id, "key": key, "what": what,
                                    "seed": self.seed, "tier": self.tier,
                                    "no_failing_input_found": no_input,
                                    "rerun": f"./check {self.prop_id} --replay {path}",
                                    "replay": replay_obj}, indent=1, default=str))
        self.violations.append({"key": key, "what": what, "path": str(path), "no_input": no_input})

    def finish(self):
        for key, what in self.known_hits:
            print(f"KNOWN-FINDING: property={self.prop_id} {key}: {what}")
        for v in self.violations:
            tail = " no-failing-input-found" if v["no_input"] else ""
            print(f"VIOLATION property={self.prop_id} replay={v['path']}{tail}")
            print(f"  ({v['what']})")
        nob = len(self.obligations)
        ndis = sum(1 for v in self.obligations.values() if v)
        cov = {
            "obligations": nob,
            "discharged": ndis,
            "checker_cmd": " ; ".join(self.checker_cmds) or "n/a",
            "trusted_base": self.trusted,
            "theorems": sorted(self.obligations),
            "axioms": self.axioms,
            "evaluations": self.evaluations,
            "distinct_nontrivial": len(self.distinct),
            "rule": self.rule,
            "samples": self.samples,
            "counts": self.counts,
            "known_findings_hit": [k for k, _ in self.known_hits],
        }
        cov.update(self.extra)
        # keys the evidence schema types: keep them well-typed whatever a property module stored
        for k in ("evaluations", "distinct_nontrivial", "states", "transitions", "traces_validated_against_impl",
                  "obligations", "discharged", "programs", "disagreements_checked"):
            if k in cov and not (isinstance(cov[k], int) and not isinstance(cov[k], bool)):
                cov[k + "_detail"] = cov.pop(k)
        for k in ("samples", "trusted_base"):
            if k in cov and not isinstance(cov[k], list):
                cov[k] = [cov[k]]
        for k in ("rule", "checker_cmd", "explanation"):
            if k in cov and not isinstance(cov[k], str):
                cov[k] = json.dumps(cov[k], default=str)
        if "exhaustive" in cov and not isinstance(cov["exhaustive"], bool):
            cov["exhaustive_detail"] = cov.pop("exhaustive")
        ev = {
            "property_id": self.prop_id,
            "tier": self.tier,
            "seed": self.seed,
            "level": "proof",
            "coverage": cov,
            "assumptions": self.assumptions,
            "wall_s": round(self.elapsed(), 2),
            "violations": len(self.violations),
        }
        if not self.replay:  # a replay of one case does not describe the check's coverage
            EVID.mkdir(exist_ok=True)
            (EVID / f"{self.prop_id}.json").write_text(json.dumps(ev, indent=1, default=str))
        return 1 if self.violations else 0


# ---------------------------------------------------------------------- Lean line drivers
class LeanDriver:
    """one request line in, one answer line out, served by `lake env lean --run <script>`"""

    def __init__(self, script, args=()):
        self.script = script
        self.args = tuple(args)
        self._start()

    def _start(self):
        self.p = subprocess.Popen(
            ["lake", "env", "lean", "--run", str(self.script), *self.args], cwd=LEAN,
            stdin=subprocess.PIPE, stdout=subprocess.PIPE, stderr=subprocess.PIPE, text=True, bufsize=1,
        )

    def _ask_once(self, line):
        try:
            self.p.stdin.write(line + "\n")
            self.p.stdin.flush()
            return self.p.stdout.readline()
        except (BrokenPipeError, OSError):
            return ""

    def ask(self, line: str) -> str:
        """every request line is self-contained (the drivers keep no state between lines), so a driver that
        died (killed from outside, transient build race) is restarted and the request repeated"""
        assert "\n" not in line
        out = self._ask_once(line)
        tries = 0
        while not out and tries < 2:
            tries += 1
            try:
                err = self.p.stderr.read()
            except Exception:
                err = ""
            rc = self.p.poll()
            try:
                self.p.kill()
            except Exception:
                pass
            last = f"rc={rc} stderr={err[-1500:]}"
            time.sleep(2 * tries)
            self._start()
            out = self._ask_once(line)
        if not out:
            raise InfraError(f"lean driver {self.script} died repeatedly on one request ({len(line)} bytes): {last}")
        return out.rstrip("\n")

    def close(self):
        try:
            self.p.stdin.close()
            self.p.wait(timeout=20)
        except Exception:
            self.p.kill()


def lean_batch(script, lines, timeout=3000, args=()):
    """run a driver over many request lines at once; returns answer lines"""
    inp = "\n".join(lines) + "\n"
    rc, out, err = sh(["lake", "env", "lean", "--run", str(script), *args], cwd=LEAN, timeout=timeout, input=inp)
    if rc != 0:
        raise InfraError(f"lean driver {script} failed rc={rc}: {err[-2000:]}")
    res = out.split("\n")
    if res and res[-1] == "":
        res.pop()
    if len(res) != len(lines):
        raise InfraError(f"lean driver {script}: {len(lines)} requests, {len(res)} answers; stderr={err[-500:]}")
    return res


def main(argv=None):
    import argparse
    import importlib

    ap = argparse.ArgumentParser()
    ap.add_argument("prop")
    ap.add_argument("--tier", default=os.environ.get("VERIF_TIER", "quick"), choices=["quick", "thorough"])
    ap.add_argument("--seed", type=int, default=int(os.environ.get("VERIF_SEED", "0")))
    ap.add_argument("--replay", default=None)
    a = ap.parse_args(argv)
    pid = a.prop.upper()
    ctx = Ctx(pid, a.tier, a.seed, a.replay)
    sys.path.insert(0, str(ROOT / "harness"))
    try:
        mod = importlib.import_module(f"props.{pid.lower()}")
        mod.run(ctx)
        rc = ctx.finish()
    except InfraError as e:
        print(f"INFRA-ERROR property={pid}: {e}", file=sys.stderr)
        return 2
    except subprocess.TimeoutExpired as e:
        print(f"INFRA-ERROR property={pid}: timeout {e}", file=sys.stderr)
        return 2
    except Exception:
        traceback.print_exc()
        print(f"INFRA-ERROR property={pid}: harness exception", file=sys.stderr)
        return 2
    print(f"{pid} tier={a.tier} seed={a.seed}: {'VIOLATION' if rc else 'ok'} "
          f"obligations={sum(ctx.obligations.values())}/{len(ctx.obligations)} "
          f"evaluations={ctx.evaluations} distinct={len(ctx.distinct)} wall={ctx.elapsed():.1f}s")
    return rc


if __name__ == "__main__":
    sys.exit(main())
