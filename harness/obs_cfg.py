"""Observer of property C10: differential execution of (p, p') in the Lean reference interpreter over
many initial *configurations*, compared against the set of fields the system reports.

For an accepted operation p -> p':
  * K := keys of proc_eqv.get_strictest_eqv_proc(p, p') mapped back to (config, field); the pair must
    be recorded as equivalent at all (otherwise nothing was reported: `not-recorded`)
  * both procedures are exported and run on the same inputs: `n_args` argument/buffer inputs valid for
    p, each with `n_cfg` random initial values of *every* field of every configuration of the module
    (also fields neither procedure mentions: an inserted write may be the first to touch them)
  * whenever p runs without tripping a monitor: p' must run, every caller buffer must be identical
    (poison may become defined), every configuration field whose final value differs must be in K.
    A changed value that is read later shows up as a differing buffer or field.

The class has the observer interface of sched_run (start/before/rejected/accepted/finish) so it can
also be plugged into the general schedule stream.
"""
from __future__ import annotations

import json

import export_ir
import interp


def all_fields(configs):
    """{(config name, field): 'c'|'d'} for every field of every Config object of the module"""
    out = {}
    for cn, cfg in configs.items():
        for (fn, _t) in cfg.fields():
            out[(cfg.name(), fn)] = "c" if export_ir.is_ctrl_type(cfg.lookup_type(fn)) else "d"
    return out


def field_kinds(configs):
    """{(config name, field): 'index'|'bool'|'real'|...}"""
    out = {}
    for cn, cfg in configs.items():
        for (fn, _t) in cfg.fields():
            t = cfg.lookup_type(fn)
            s = str(t)
            out[(cfg.name(), fn)] = ("bool" if s == "bool" else "real" if not export_ir.is_ctrl_type(t) else s)
    return out


def random_cfg(fields, kinds, rng):
    cfg = []
    for (c, f), t in sorted(fields.items()):
        if t == "d":
            cfg.append([c, f, "d", interp.rat(rng.randint(-3, 3))])
        elif kinds.get((c, f)) == "bool":
            cfg.append([c, f, "c", rng.randint(0, 1)])
        else:
            cfg.append([c, f, "c", rng.randint(0, 3)])
    return cfg


def reported_modulo(p, p2):
    """(recorded as equivalent?, {(config, field)}) from the real equivalence tracker"""
    from exo.core import proc_eqv
    from exo.core.configs import reverse_config_lookup

    eq, keys = proc_eqv.get_strictest_eqv_proc(p._loopir_proc, p2._loopir_proc)
    out = set()
    for k in keys:
        try:
            cfg, fld = reverse_config_lookup(k)
            out.add((cfg.name(), fld))
        except Exception:
            out.add(("?", str(k)))
    return bool(eq), out


def callees_text(p):
    """source text of the procedures called by p (callees are printed by name only in str(p))"""
    try:
        from exo.core.LoopIR import LoopIR
        from classify import walk
        seen, out = set(), []
        for s in p._loopir_proc.body:
            for n in walk(s):
                if isinstance(n, LoopIR.Call) and id(n.f) not in seen:
                    seen.add(id(n.f))
                    out.append(str(n.f))
        return "\n".join(out)
    except Exception as e:  # never let bookkeeping hide a result
        return f"<unavailable: {type(e).__name__}>"


def diff_runs(ra, rb):
    """compare one original/derived result pair.
    -> (status, detail): status in 'orig-err' | 'ok' | 'derived-fails' | 'buffer-differs' and
       detail = for 'ok': sorted list of differing fields [(cfg, fld, orig, derived)]"""
    if "ok" not in ra:
        return "orig-err", ra.get("err", str(ra)[:60])
    if "ok" not in rb:
        if rb.get("err") == "unsupported":
            # outside the reference semantics (e.g. a configuration value passed as a scalar buffer
            # argument): no verdict
            return "derived-unsupported", "unsupported"
        return "derived-fails", rb.get("err", str(rb)[:80])
    ha, hb = ra["ok"]["heap"], rb["ok"]["heap"]
    if len(ha) != len(hb):
        return "buffer-differs", "different number of caller buffers"
    for k, (ba, bb) in enumerate(zip(ha, hb)):
        if len(ba) != len(bb):
            return "buffer-differs", f"buffer {k}: length {len(ba)} vs {len(bb)}"
        for c, (x, y) in enumerate(zip(ba, bb)):
            if not interp.refines(x, y):
                return "buffer-differs", f"buffer {k} cell {c}: original {x} derived {y}"
    ca = {(c[0], c[1]): c[3] for c in ra["ok"]["cfg"]}
    cb = {(c[0], c[1]): c[3] for c in rb["ok"]["cfg"]}
    diffs = []
    for k in sorted(set(ca) | set(cb)):
        va, vb = ca.get(k, "<absent>"), cb.get(k, "<absent>")
        if va != vb:
            diffs.append((k[0], k[1], va, vb))
    return "ok", diffs


class Observer:
    def __init__(self, rec, rng, opts):
        self.rec = rec
        self.rng = rng
        self.opts = opts
        self.n_args = opts.get("n_args", 2)
        self.n_cfg = opts.get("n_cfg", 8)
        self.I = None
        self.cache = {}
        self.fields = {}
        self.kinds = {}

    # ------------------------------------------------------------------ sched_run interface
    def start(self, p0, env, src):
        self.I = interp.Interp()
        self.src = src
        self.fields = all_fields(env["configs"])
        self.kinds = field_kinds(env["configs"])

    def before(self, p, att):
        pass

    def rejected(self, p, att, r):
        pass

    def finish(self):
        if self.I:
            self.I.close()

    def cnt(self, k, n=1):
        c = self.rec["counts"]
        c[k] = c.get(k, 0) + n

    # ------------------------------------------------------------------ interpreter access
    def _retry(self, f):
        """the Lean driver is a child process: if it dies or answers garbage (e.g. its modules are
        being rebuilt by a concurrent `lake build`), restart it once; a second failure is an
        infrastructure error, never a verdict"""
        from common import InfraError
        try:
            return f()
        except (json.JSONDecodeError, InfraError, BrokenPipeError, OSError) as e:
            self.cnt("interpreter-restarted")
            try:
                self.I.close()
            except Exception:
                pass
            self.I = interp.Interp()
            try:
                return f()
            except (json.JSONDecodeError, BrokenPipeError, OSError) as e2:
                raise InfraError(f"reference interpreter unusable: {type(e2).__name__}: {e2}")

    def run(self, pj, ins):
        return self._retry(lambda: self.I.run(pj, ins))

    # ------------------------------------------------------------------ inputs
    def inputs_for(self, p):
        """n_args * n_cfg inputs valid for p (cached per procedure object)"""
        k = id(p)
        if k not in self.cache:
            pj, cfgs = export_ir.export(p)
            fields = dict(self.fields)
            for f, t in cfgs.items():
                fields.setdefault(f, t)
            base, _ = self._retry(lambda: self.I.gen_inputs(pj, fields, self.rng, self.n_args, small=True))
            ins = []
            for b in base:
                for _ in range(self.n_cfg):
                    ins.append(dict(b, cfg=random_cfg(fields, self.kinds, self.rng)))
            res = self.run(pj, ins) if ins else []
            self.cache[k] = (p, pj, fields, ins, res)
        return self.cache[k]

    # ------------------------------------------------------------------ the check
    def check_pair(self, p, p2, att, hist, label=None):
        """returns a mismatch record (dict) or None; updates counts"""
        op = label or att["op"]
        try:
            _, pj, fields, ins, res = self.inputs_for(p)
            pj2, cfgs2 = export_ir.export(p2)
        except export_ir.ExportError as e:
            self.cnt("export-error")
            return None
        eq, K = reported_modulo(p, p2)
        base = {"att": att, "hist": hist, "program": self.rec["name"], "src": self.src,
                "before": str(p), "after": str(p2), "after_callees": callees_text(p2),
                "reported_modulo": sorted(map(list, K)), "recorded_equivalent": eq}
        if not eq:
            return dict(base, kind="mismatch", key=f"{op}:derivation-not-recorded",
                        what=f"{op}: accepted, but proc_eqv does not relate the result to the original "
                             f"(no modulo-set is reported at all)")
        if not ins:
            self.cnt("no-valid-input")
            return None
        missing = [k for k in cfgs2 if k not in fields]
        if missing:  # cannot happen: all module fields are initialised
            self.cnt("field-outside-module")
        res2 = self.run(pj2, ins)
        self.cnt("pairs-executed")
        self.cnt("pairs:" + op)
        nontrivial = False
        differing = set()
        hard = soft = None
        for i, (ra, rb) in enumerate(zip(res, res2)):
            self.cnt("runs")
            st, det = diff_runs(ra, rb)
            if st == "orig-err":
                self.cnt("orig-err:" + str(det))
                continue
            if st == "derived-unsupported":
                self.cnt("derived-outside-reference-semantics")
                continue
            nontrivial = True
            if st == "ok":
                for d in det:
                    differing.add((d[0], d[1]))
                unrep = [d for d in det if (d[0], d[1]) not in K]
                if unrep and soft is None:
                    d = unrep[0]
                    soft = (i, "unreported-field",
                            f"configuration field {d[0]}.{d[1]} ends as {d[3]} instead of {d[2]} "
                            f"but is not in the reported set {sorted(K)}")
            elif hard is None:
                hard = (i, st, (f"derived procedure fails with {det} where the original runs"
                                if st == "derived-fails" else det))
        bad = hard or soft
        if nontrivial:
            self.cnt("pairs-nontrivial")
        # how tight is the report (over-reporting is allowed; recorded for the evidence)
        if K:
            self.cnt("reported-nonempty")
            if differing:
                self.cnt("reported-and-observed-differing")
            self.cnt("reported-fields", len(K))
            self.cnt("reported-fields-never-observed-differing", len(K - differing))
        elif not differing:
            self.cnt("reported-empty-and-nothing-differs")
        if len(self.rec.setdefault("samples", [])) < 2 and K:
            self.rec["samples"].append({"op": op, "args": att.get("args"), "path": att.get("path"),
                                        "reported": sorted(map(list, K)),
                                        "observed_differing": sorted(map(list, differing)),
                                        "after": str(p2)[:500]})
        if bad is None:
            return None
        i, kind, what = bad
        return dict(base, kind="mismatch", key=f"{op}:{kind}", what=f"{op}: {what}",
                    input=ins[i], orig_result=res[i], derived_result=res2[i],
                    initial_config=ins[i]["cfg"],
                    final_config_original=res[i].get("ok", {}).get("cfg"),
                    final_config_derived=res2[i].get("ok", {}).get("cfg") if "ok" in res2[i] else None)

    def accepted(self, p, att, p2, hist):
        r = self.check_pair(p, p2, att, hist)
        if r is not None:
            self.rec["records"].append(r)
