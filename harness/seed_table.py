"""regenerate the markdown table of DESIGN.md Appendix D from seeded/*/meta.json (between the SEED-TABLE markers)"""
import json
import re
from pathlib import Path
ROOT = Path(__file__).resolve().parent.parent
rows = []
for d in sorted((ROOT / "seeded").iterdir()):
    m = json.loads((d / "meta.json").read_text())
    c = m.get("confirmed", {}).get("checks", {})
    caught = ", ".join(f"{k}: {'caught' if v['caught'] else 'MISSED' if v['exit']==0 else 'exit '+str(v['exit'])}" for k, v in c.items())
    first = "; ".join((v["first_findings"][0][:110] if v["first_findings"] else "") for v in c.values())
    summ = (m.get("summary") or "")[:170].replace("|", "/").replace("\n", " ")
    needs = (m.get("what_it_needs_to_manifest") or "")
    if isinstance(needs, list):
        needs = "; ".join(map(str, needs))
    hist = " (first MISSED, see history)" if m.get("history") else ""
    rows.append(f"| {d.name} | {summ} | {str(needs)[:140].replace('|','/').replace(chr(10),' ')} | {caught}{hist} | {first.replace('|','/')} |")
table = "| seed | change | needs | checks | first finding reported |\n|---|---|---|---|---|\n" + "\n".join(rows)
p = ROOT / "DESIGN.md"
s = p.read_text()
s2 = re.sub(r"<!-- SEED-TABLE-BEGIN -->.*?<!-- SEED-TABLE-END -->", "<!-- SEED-TABLE-BEGIN -->\n" + table.replace("\\", "\\\\") + "\n<!-- SEED-TABLE-END -->", s, flags=re.S)
p.write_text(s2)
print(f"{len(rows)} seeds")
