"""print the markdown table of DESIGN.md Appendix D from seeded/*/meta.json"""
import json
from pathlib import Path
ROOT = Path(__file__).resolve().parent.parent
rows = []
for d in sorted((ROOT / "seeded").iterdir()):
    m = json.loads((d / "meta.json").read_text())
    c = m.get("confirmed", {}).get("checks", {})
    caught = ", ".join(f"{k}: {'caught' if v['caught'] else 'MISSED' if v['exit']==0 else 'exit '+str(v['exit'])}" for k, v in c.items())
    first = "; ".join((v["first_findings"][0][:110] if v["first_findings"] else "") for v in c.values())
    summ = (m.get("summary") or "")[:150].replace("|", "/")
    needs = (m.get("what_it_needs_to_manifest") or "")
    if isinstance(needs, list):
        needs = "; ".join(map(str, needs))
    rows.append(f"| {d.name} | {summ} | {str(needs)[:130].replace('|','/')} | {caught} | {first.replace('|','/')} |")
print("| seed | change | needs | checks | first finding reported |\n|---|---|---|---|---|")
print("\n".join(rows))
