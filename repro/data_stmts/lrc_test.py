from __future__ import annotations
import sys, json
from exo import proc
from exo.stdlib.scheduling import lift_reduce_constant, split_write, merge_writes
sys.path.insert(0, "/verif/harness")
import export_ir, interp

@proc
def lrc1(n: size, c: f32[1], y: f32[n], out: f32[1]):
    x: f32
    x = 5.0
    for i in seq(0, n):
        x += c[0] * y[i]
    out[0] = x

@proc
def lrc2(n: size, c: f32[1], y: f32[n], out: f32[1]):
    x: f32
    x = 0.0
    x += 5.0
    for i in seq(0, n):
        x += c[0] * y[i]
    out[0] = x

@proc
def sw1(y: f32[2], z: f32[2]):
    y[0] += z[0] + y[0]

def tryit(f, p, pat):
    try:
        q = f(p, pat)
        print("ACCEPTED", p.name()); print(q); return q
    except Exception as e:
        print("REJECTED", p.name(), type(e).__name__, str(e)[:200]); return None

I = interp.Interp()
R = interp.rat
def run(p, inp):
    pj, cfgs = export_ir.export(p)
    return I.run(pj, [inp])[0]

q1 = tryit(lift_reduce_constant, lrc1, lrc1.find("x = 5.0").expand(0, 1))
if q1 is not None:
    inp = {"args": [{"c": 2}, {"v": {"buf": 0, "off": 0, "dims": [[1, 1]]}}, {"v": {"buf": 1, "off": 0, "dims": [[2, 1]]}}, {"v": {"buf": 2, "off": 0, "dims": [[1, 1]]}}],
           "heap": [[R(3)], [R(1), R(1)], [R(0)]], "cfg": []}
    print("lrc1 before", json.dumps(run(lrc1, inp))); print("lrc1 after ", json.dumps(run(q1, inp)))
q2 = tryit(lift_reduce_constant, lrc2, lrc2.find("x += 5.0").expand(0, 1))
if q2 is not None:
    print("lrc2 before", json.dumps(run(lrc2, inp))); print("lrc2 after ", json.dumps(run(q2, inp)))
q3 = tryit(split_write, sw1, "y[0] += _")
if q3 is not None:
    inp3 = {"args": [{"v": {"buf": 0, "off": 0, "dims": [[2, 1]]}}, {"v": {"buf": 1, "off": 0, "dims": [[2, 1]]}}], "heap": [[R(1), R(0)], [R(10), R(0)]], "cfg": []}
    print("sw1 before", json.dumps(run(sw1, inp3))); print("sw1 after ", json.dumps(run(q3, inp3)))
I.close()
