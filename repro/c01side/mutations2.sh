#!/bin/bash
set -u
run() {
  name=$1; ops=$3
  rm -rf /tmp/wt_side_$name
  git -C /repo worktree add -f /tmp/wt_side_$name HEAD >/dev/null 2>&1
  /venv/bin/python - "$name" <<PY
import sys
name = sys.argv[1]
p = "/tmp/wt_side_" + name + "/src/exo/rewrite/LoopIR_scheduling.py"; s = open(p).read()
if name == "M4":
    old = "                Check_FissionLoop(ir, par_s, pre, post, no_loop_var_pre)"
    assert old in s
    s = s.replace(old, "                pass  # MUTATION M4: fission not checked")
elif name == "M5":
    old = "            Check_ReorderLoops(inner_c.get_root(), outer_s)"
    assert old in s
    s = s.replace(old, "            pass  # MUTATION M5: reorder_loops not checked")
open(p, "w").write(s)
PY
  echo "=== $name ($2) ==="
  EXO_REPO=/tmp/wt_side_$name /venv/bin/python -B /verif/repro/c01side/run_pool.py --ops $ops 2>&1 | grep -v "^def \|^    [a-zA-Z#]\|^$\|^        \|^            " | cut -c1-420 | head -30
  git -C /repo worktree remove --force /tmp/wt_side_$name
}
run M4 "fission: Check_FissionLoop not called" fission
run M5 "reorder_loops / lift_scope: Check_ReorderLoops not called" reorder_loops,lift_scope
