#!/bin/bash
# three mutations of /repo's checks in scratch worktrees; the side tie is run on the relevant primitives
set -u
run() {  # name, sed-script-file(python), ops
  name=$1; ops=$3
  rm -rf /tmp/wt_side_$name
  git -C /repo worktree add -f /tmp/wt_side_$name HEAD >/dev/null 2>&1
  /venv/bin/python - "$name" <<PY
import sys, re
name = sys.argv[1]
root = "/tmp/wt_side_" + name + "/src/exo/rewrite/"
if name == "M1":
    p = root + "LoopIR_scheduling.py"; s = open(p).read()
    old = "        Check_IsPositiveExpr(loop.get_root(), [s], trip_count)\n    except SchedulingError:"
    assert old in s
    s = s.replace(old, "        pass  # MUTATION M1: positivity of the trip count not checked\n    except SchedulingError:")
elif name == "M2":
    p = root + "LoopIR_scheduling.py"; s = open(p).read()
    old = '            Check_CompareExprs(proc, stmts, expr_mod_quot, "==", zero)'
    assert old in s
    s = s.replace(old, '            Check_CompareExprs(proc, stmts, expr_mod_quot, ">=", zero)  # MUTATION M2')
    old2 = "        failed = expr.val % quot != 0"
    assert old2 in s
    s = s.replace(old2, "        failed = False  # MUTATION M2")
elif name == "M3":
    p = root + "new_eff.py"; s = open(p).read()
    old = "def Check_IsIdempotent(proc, stmts):\n    assert len(stmts) > 0\n"
    assert old in s
    s = s.replace(old, old + "    return  # MUTATION M3: every statement passes as idempotent\n")
open(p, "w").write(s)
PY
  echo "=== $name ($2) ==="
  EXO_REPO=/tmp/wt_side_$name /venv/bin/python -B /verif/repro/c01side/run_pool.py --ops $ops 2>&1 | grep -v "^def \|^    [a-zA-Z#]\|^$\|^        \|^            " | cut -c1-420 | head -40
  git -C /repo worktree remove --force /tmp/wt_side_$name
}
run M1 "remove_loop: trip-count positivity check dropped" remove_loop
run M2 "Check_IsDivisible weakened to '% q >= 0'" divide_loop,divide_dim
run M3 "Check_IsIdempotent always succeeds" remove_loop,add_loop,divide_with_recompute
