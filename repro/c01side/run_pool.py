"""Tie B over the pool stream: every attempt of harness/stream.py on every pool program, applied
through the real API; every accepted one is checked with harness/sidecheck.py on sampled valid inputs.

usage: /venv/bin/python /verif/repro/c01side/run_pool.py [--seed N] [--ops a,b,c] [--programs p,q] [-v]
       EXO_REPO=/tmp/wt ... to run against a mutated tree
Prints per primitive: instances, visits, violations (+ static / nocond counts) and every violation.
"""
import json
import random
import sys

sys.path.insert(0, "/verif/harness")
import common  # noqa: E402

common.import_exo()
import exo_build  # noqa: E402
import export_ir  # noqa: E402
import interp  # noqa: E402
import sidecheck  # noqa: E402
import stream  # noqa: E402


def arg(flag, default=None):
    if flag in sys.argv:
        return sys.argv[sys.argv.index(flag) + 1]
    return default


SEED = int(arg("--seed", "0"))
OPS = set(arg("--ops", "").split(",")) - {""}
PROGS = set(arg("--programs", "").split(",")) - {""}
VERBOSE = "-v" in sys.argv
N_INPUTS = int(arg("--inputs", "3"))


KNOWN = {f.get("key") for f in json.load(open("/verif/known_findings.json"))["findings"] if f.get("property") == "C01"}


def main():
    import pool
    from exo.core.configs import Config
    I = interp.Interp()
    stats = {}
    viol = []
    statics = {}

    def cnt(op, k, n=1):
        stats.setdefault(op, {}).setdefault(k, 0)
        stats[op][k] += n

    for pname, src in pool.POOL.items():
        if PROGS and pname not in PROGS:
            continue
        try:
            mod = exo_build.build_module(src)
        except BaseException as e:
            print("pool program rejected:", pname, type(e).__name__)
            continue
        procs = exo_build.procs_of(mod)
        names = list(procs)
        p = procs[names[-1]]
        env = {"callees": {k: procs[k] for k in names[:-1]},
               "configs": {k: v for k, v in vars(mod).items() if isinstance(v, Config)}}
        cfg_list = [(cn, fn, not export_ir.is_ctrl_type(cfg.lookup_type(fn)))
                    for cn, cfg in env["configs"].items() for (fn, _t) in cfg.fields()]
        rng = random.Random(f"side:{pname}:{SEED}")
        try:
            pj, cfgs = export_ir.export(p)
        except export_ir.ExportError:
            continue
        ins, res = I.gen_inputs(pj, cfgs, rng, N_INPUTS)
        good = [i for i, r in zip(ins, res) if "ok" in r]
        if not good:
            print("no valid input:", pname)
            continue
        for att in stream.attempts(p, callees=list(env["callees"]), configs=cfg_list):
            op = att["op"]
            if op not in sidecheck.SIDE_OPS or (OPS and op not in OPS):
                continue
            try:
                p2 = stream.apply_attempt(p, att, env)
            except stream.Rejected:
                cnt(op, "rejected")
                continue
            pr = sidecheck.params(att, p)
            if pr is None:
                cnt(op, "variant-not-modelled")
                continue
            try:
                pj2, cfgs2 = export_ir.export(p2)
            except export_ir.ExportError:
                cnt(op, "export-error")
                continue
            extra = sorted(k for k in cfgs2 if k not in cfgs)
            gi = good
            if extra:
                r = random.Random(json.dumps(extra))
                gi = [dict(i, cfg=i["cfg"] + [[cf[0], cf[1], cfgs2[cf], (interp.rat(r.randint(-3, 3)) if cfgs2[cf] == "d" else r.randint(0, 4))]
                                              for cf in extra]) for i in good]
            name, path, k, flag = pr
            out = sidecheck.check(pj, pj2, name, path, k, flag, gi)
            st, visits, failing = sidecheck.summarize(out)
            cnt(op, "instances")
            cnt(op, st)
            cnt(op, "visits", visits)
            if st == "violation":
                cnt(op, "failing-visits", failing)
                # does the whole run differ as well?
                ra, rb = I.run(pj, gi), I.run(pj2, gi)
                beh = [interp.compare(a, b) for a, b in zip(ra, rb)]
                bad = [b for b in beh if b is not None][:1]
                fi = next((i for i, r in zip(gi, out) if r.get("visits", 0) > r.get("holds", 0)), gi[0])
                try:
                    import classify
                    key = classify.classify_mismatch(att, p, p2, bad[0] if bad else "side condition fails", pj, fi)
                except Exception as e:
                    key = f"classifier-error:{type(e).__name__}"
                known = key in KNOWN
                cnt(op, "known-finding" if known else "UNEXPLAINED")
                viol.append((pname, att, out, str(p), str(p2), bad, key, known))
            elif st in ("static", "nocond", "bad"):
                msg = out[0].get(st, "")
                statics[(op, st, msg)] = statics.get((op, st, msg), 0) + 1
                if VERBOSE:
                    print(st, pname, att, msg)
    I.close()
    sidecheck.close()
    print(f"(viol = instances with a failing visit; known = of those, attributed to a recorded finding by classify.classify_mismatch)")
    print(f"{'primitive':24s} {'inst':>5s} {'ok':>5s} {'viol':>5s} {'known':>5s} {'static':>6s} {'nocond':>6s} {'novis':>5s} {'visits':>7s} {'failing':>7s} {'rejected':>8s}")
    for op in sorted(stats):
        s = stats[op]
        print(f"{op:24s} {s.get('instances', 0):5d} {s.get('ok', 0):5d} {s.get('violation', 0):5d} {s.get('known-finding', 0):5d} {s.get('static', 0):6d} "
              f"{s.get('nocond', 0) + s.get('bad', 0):6d} {s.get('no-visit', 0):5d} {s.get('visits', 0):7d} {s.get('failing-visits', 0):7d} "
              f"{s.get('rejected', 0):8d}")
    for k in sorted(statics):
        print("   ", k, statics[k])
    for pname, att, out, a, b, beh, key, known in viol:
        print("VIOLATION" if not known else "known-finding", key, pname, json.dumps(att), json.dumps(out)[:200],
              "behaviour-differs:" if beh else "behaviour-same", beh)
        if VERBOSE or not known:
            print(a)
            print(b)


if __name__ == "__main__":
    main()
