"""Tie of the call primitives `inline` and `extract_subproc` (lean/ExoModel/RewriteCalls.lean,
RwCheckCalls.lean) against the real code.

Builds Exo procedures through the real front end, applies the real primitive, exports input and
output, asks Drivers/C01Calls.lean (op rwcheck_calls) whether the model shape matches and whether
the instance satisfies the side conditions of the soundness theorems (Props/C01Calls.lean).

usage: /venv/bin/python /verif/repro/c01calls/try_calls.py [-v] [--pool]
"""
import json
import sys

sys.path.insert(0, "/verif/harness")
import common  # noqa: E402

common.import_exo()
import exo_build  # noqa: E402
import export_ir  # noqa: E402
import stream  # noqa: E402

VERBOSE = "-v" in sys.argv
B, O = "body", "orelse"
TESTS = []


def T(tname, op, path, src, expect="match", **args):
    TESTS.append((tname, src, op, path, args, expect))


CALLEES = '''
@proc
def leaf(n: size, x: [f32][n]):
    for i in seq(0, n):
        x[i] = x[i] + 1.0

@proc
def mid(n: size, m: size, k: index, a: f32, x: [f32][n], y: f32[m]):
    assert n <= m
    assert k < n
    assert k >= 0
    t: f32[n]
    for i in seq(0, n):
        t[i] = x[i] * a
    leaf(n, t[0:n])
    w = y[0:n]
    for i in seq(0, n):
        w[i] = t[i]
    x[k] = 0.0
'''

T("inline:window+size+alloc+nested", "inline", [[B, 0]], CALLEES + '''
@proc
def p(m: size, a: f32, X: f32[m + 2], Y: f32[m]):
    mid(m, m, 0, a, X[1:m + 1], Y)
    X[0] = 1.0
''')
T("inline:in-loop-if", "inline", [[B, 0], [B, 0], [B, 0]], CALLEES + '''
@proc
def p(m: size, X: f32[4, m], flag: bool):
    for j in seq(0, 4):
        if flag:
            leaf(m, X[j, 0:m])
            X[j, 0] = 2.0
''')
T("inline:twice-same-callee", "inline", [[B, 1]], CALLEES + '''
@proc
def p(m: size, X: f32[m], Y: f32[m]):
    leaf(m, X[0:m])
    leaf(m, Y[0:m])
''')
T("inline:scalar-arg", "inline", [[B, 1]], '''
@proc
def sc(s: f32, y: f32[2]):
    y[0] = s
    s = 2.0
@proc
def p(X: f32[4], Y: f32[2]):
    s0: f32
    sc(s0, Y)
    Y[1] = s0
''')
T("inline:config", "inline", [[B, 0]], '''
@config
class Cfg:
    k: index
@proc
def cf(n: size, x: f32[n]):
    Cfg.k = n
    for i in seq(0, n):
        x[i] = 0.0
@proc
def p(m: size, X: f32[m]):
    cf(m, X)
''')

T("extract:one-stmt", "extract_subproc", [[B, 0]], '''
@proc
def p(n: size, x: f32[n], y: f32[n]):
    for i in seq(0, n):
        y[i] = x[i]
    x[0] = 1.0
''', n=1, name="sub")
T("extract:two-stmts-in-loop", "extract_subproc", [[B, 0], [B, 0]], '''
@proc
def p(n: size, x: f32[n], y: f32[n]):
    assert n > 1
    for i in seq(0, n):
        y[i] = x[i]
        x[i] = 2.0
        y[i] += 1.0
''', n=2, name="sub")
T("extract:under-if-then", "extract_subproc", [[B, 0], [B, 0]], '''
@proc
def p(n: size, k: index, x: f32[n]):
    assert k < n
    if k > 0:
        x[k] = 1.0
    else:
        x[0] = 2.0
''', n=1, name="sub")
T("extract:under-if-else", "extract_subproc", [[B, 0], [O, 0]], '''
@proc
def p(n: size, k: index, x: f32[n]):
    assert k < n
    if k > 0:
        x[k] = 1.0
    else:
        x[0] = 2.0
''', n=1, name="sub")
T("extract:after-sibling-if", "extract_subproc", [[B, 1]], '''
@proc
def p(n: size, b: bool, x: f32[n]):
    if b:
        x[0] = 1.0
    x[0] += 2.0
''', n=1, name="sub")
T("extract:block-with-alloc", "extract_subproc", [[B, 0]], '''
@proc
def p(n: size, x: f32[n]):
    t: f32
    t = 1.0
    x[0] = t
''', n=2, name="sub")
T("extract:window-var", "extract_subproc", [[B, 1]], '''
@proc
def p(n: size, x: f32[n + 1]):
    w = x[1:n + 1]
    w[0] = 1.0
''', n=1, name="sub", expect="any")


def request(op, path, args, pj, pj2):
    return {"op": "rwcheck_calls", "name": op, "path": path, "k": args.get("n", 0), "flag": True,
            "before": pj, "after": pj2}


def build(src):
    from exo.core.configs import Config
    mod = exo_build.build_module(src)
    procs = exo_build.procs_of(mod)
    names = list(procs)
    p = procs[names[-1]]
    env = {"callees": {k: procs[k] for k in names[:-1]},
           "configs": {k: v for k, v in vars(mod).items() if isinstance(v, Config)}}
    return p, env


def run_hand(drv):
    bad = 0
    for (tname, src, op, path, args, expect) in TESTS:
        p, env = build(src)
        att = {"op": op, "path": path, "args": args}
        try:
            p2 = stream.apply_attempt(p, att, env)
        except stream.Rejected as r:
            print(f"{tname:40s} rejected by the real code: {r.cls}: {r.msg[:100]}")
            continue
        try:
            pj, _ = export_ir.export(p)
            pj2, _ = export_ir.export(p2)
        except export_ir.ExportError as e:
            print(f"{tname:40s} export error {e}")
            continue
        out = json.loads(drv.ask(json.dumps(request(op, path, args, pj, pj2), separators=(",", ":"))))
        ok = out.get("match") is True
        print(f"{tname:40s} {out}")
        if VERBOSE or (not ok and expect == "match"):
            print(str(p)); print(str(p2))
            try:
                import obs_cfg
                print(obs_cfg.callees_text(p2))
            except Exception:
                pass
        if not ok and expect == "match":
            bad += 1
        # negative control: the input is not its own output
        neg = json.loads(drv.ask(json.dumps(request(op, path, args, pj, pj), separators=(",", ":"))))
        if neg.get("match") is not False:
            print("   NEG-CONTROL FAILED (input accepted as output)")
            bad += 1
    return bad


def run_pool(drv):
    import pool
    stats, mism, unproved = {}, [], {}
    pools = dict(pool.POOL)
    try:
        from props import c10_pool
        pools.update({"c10:" + k: v for k, v in c10_pool.POOL.items()})
    except Exception:
        pass
    from exo.core.configs import Config
    for pname, src in pools.items():
        try:
            p, env = build(src)
        except BaseException as e:
            print("pool program rejected:", pname, type(e).__name__)
            continue
        cfg_list = [(cn, fn, not export_ir.is_ctrl_type(cfg.lookup_type(fn)))
                    for cn, cfg in env["configs"].items() for (fn, _t) in cfg.fields()]
        procs = [("", p)] + [(":" + k, q) for k, q in env["callees"].items()]
        for suffix, q in procs:
            for att in stream.attempts(q, callees=list(env["callees"]), configs=cfg_list):
                op = att["op"]
                if op not in ("inline", "extract_subproc"):
                    continue
                try:
                    p2 = stream.apply_attempt(q, att, env)
                except stream.Rejected as r:
                    stats[(op, "rejected:" + r.cls)] = stats.get((op, "rejected:" + r.cls), 0) + 1
                    continue
                try:
                    pj, _ = export_ir.export(q)
                    pj2, _ = export_ir.export(p2)
                except export_ir.ExportError:
                    stats[(op, "export-error")] = stats.get((op, "export-error"), 0) + 1
                    continue
                out = json.loads(drv.ask(json.dumps(request(op, att["path"], att["args"], pj, pj2), separators=(",", ":"))))
                ok = out.get("match") is True
                lab = "MISMATCH"
                if ok:
                    lab = "match+proved" if out.get("proved") else "match, outside theorem: " + out.get("unproved", "?")
                elif "bad" in out:
                    lab = "BAD " + out["bad"][:60]
                else:
                    lab = "MISMATCH: " + out.get("why", "")[:90]
                stats[(op, lab)] = stats.get((op, lab), 0) + 1
                if not ok:
                    mism.append((pname + suffix, att, out, str(q), str(p2)))
    for k in sorted(stats):
        print(f"pool: {k[0]:16s} {k[1]:100s} {stats[k]}")
    shown = set()
    for pname, att, out, a, b in mism:
        key = (att["op"], out.get("why", out.get("bad", ""))[:60])
        if key in shown:
            continue
        shown.add(key)
        print("POOL MISMATCH", pname, att, out)
        print(a)
        print(b)
    return len(mism)


if __name__ == "__main__":
    drv = common.LeanDriver("Drivers/C01Calls.lean")
    try:
        bad = run_hand(drv)
        if "--pool" in sys.argv:
            bad += run_pool(drv)
    finally:
        drv.close()
    sys.exit(1 if bad else 0)
