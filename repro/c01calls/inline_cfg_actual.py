"""New defect: `inline` substitutes a configuration-reading actual by name; the callee writes the field first.
run: cd /verif/repro/c01calls && PYTHONPATH=/repo/src /venv/bin/python inline_cfg_actual.py
The original sets x[0] = 1.0 (f was True at the call); the inlined procedure never does."""
from __future__ import annotations
from exo import proc, config
from exo.stdlib.scheduling import inline

@config
class Cfg:
    flag: bool

@proc
def g(f: bool, x: f32[1]):
    Cfg.flag = False
    if f:
        x[0] = 1.0

@proc
def p(x: f32[1]):
    Cfg.flag = True
    g(Cfg.flag, x)

print(p)
q = inline(p, p.find("g(_)"))
print(q)
