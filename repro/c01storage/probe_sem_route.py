import sys, json
sys.path.insert(0, "/verif/harness")
import common
common.import_exo()
import exo_build, export_ir, stream
src = '''
@proc
def p(n: size, x: f32[n], y: f32[n]):
    for i in seq(0, n):
        t: f32[8]
        t[0] = x[i] * 2.0
        y[i] = t[0]
'''
mod = exo_build.build_module(src)
p = list(exo_build.procs_of(mod).values())[-1]
drv = common.LeanDriver("Drivers/Sem.lean")
for att, k in (({"op": "expand_dim", "path": [["body", 0], ["body", 0]], "args": {"size": "n", "idx": "i"}}, 0),
               ({"op": "lift_alloc", "path": [["body", 0], ["body", 0]], "args": {"n": 1}}, 1),
               ({"op": "divide_dim", "path": [["body", 0], ["body", 0]], "args": {"dim": 0, "q": 4}}, 0)):
    p2 = stream.apply_attempt(p, att, {"callees": {}, "configs": {}})
    pj, _ = export_ir.export(p); pj2, _ = export_ir.export(p2)
    req = {"op": "rwcheck", "name": att["op"], "path": att["path"], "k": k, "flag": False, "before": pj, "after": pj2}
    print(att["op"], drv.ask(json.dumps(req, separators=(",", ":"))))
drv.close()
