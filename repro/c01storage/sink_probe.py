from __future__ import annotations
from exo import proc
from exo.stdlib.scheduling import *

@proc
def carried(n: size, x: f32[n], y: f32[n]):
    t: f32
    for i in seq(0, n):
        if i == 0:
            t = x[0]
        y[i] = t

print(carried)
try:
    p2 = sink_alloc(carried, carried.find("t: _"))
    print(p2)
except BaseException as e:
    print("sink_alloc:", type(e).__name__, str(e)[:300])

@proc
def els(n: size, k: index, x: f32[n], y: f32[n]):
    u: f32
    if k < 2:
        u = 1.0
        y[0] = u
    else:
        u = 3.0
        y[0] = u
p2 = sink_alloc(els, els.find("u: _"))
print(p2)
from exo.core.LoopIR import LoopIR
ir = p2.INTERNAL_proc()
print("else alloc sym:", repr(ir.body[0].orelse[0].name), " else write sym:", repr(ir.body[0].orelse[1].name))
try:
    p2.c_code_str()
except BaseException as e:
    print("c_code_str:", type(e).__name__, str(e)[:200])
try:
    print(simplify(p2))
except BaseException as e:
    print("simplify:", type(e).__name__, str(e)[:200])
