import sys, json, traceback
sys.path.insert(0, "/verif/harness")
import common
common.import_exo()
import exo_build, export_ir
from exo.stdlib.scheduling import *
def build(src):
    mod = exo_build.build_module(src)
    return list(exo_build.procs_of(mod).values())[-1]
def show(label, src, f, js=False):
    print("=" * 90); print(label)
    p = build(src)
    try:
        p2 = f(p)
    except BaseException as e:
        print("  REJECTED", type(e).__name__, str(e)[:300]); traceback.print_exc(limit=-4); return
    print(p2)
    if js:
        print(json.dumps(export_ir.export(p2)[0]["body"]))
show("mixed 2d, window expr", '''
@proc
def cp(n: size, dst: [f32][n], src: [f32][n]):
    for i in seq(0, n):
        dst[i] = src[i]
@proc
def p(n: size, x: f32[4, n], y: f32[n]):
    cp(n, y[0:n], x[2, 0:n])
''', lambda p: stage_mem(p, p.body()[0], "x[2, 0:n]", "xs"), js=True)
show("reuse same block", '''
@proc
def p(n: size, x: f32[n], y: f32[n]):
    a: f32[n]
    for i in seq(0, n):
        a[i] = x[i]
    for i in seq(0, n):
        y[i] = a[i]
    b: f32[n]
    for i in seq(0, n):
        b[i] = y[i]
    for i in seq(0, n):
        x[i] = b[i]
''', lambda p: reuse_buffer(p, "a: _", "b: _"))
show("reuse same block scalar", '''
@proc
def p(n: size, x: f32[n], y: f32[n]):
    a: f32
    a = x[0]
    y[0] = a
    b: f32
    b = y[0]
    x[0] = b
''', lambda p: reuse_buffer(p, "a: _", "b: _"))
show("reuse same block const", '''
@proc
def p(n: size, x: f32[n], y: f32[n]):
    a: f32[4]
    a[0] = x[0]
    y[0] = a[0]
    b: f32[4]
    b[0] = y[0]
    x[0] = b[0]
''', lambda p: reuse_buffer(p, "a: _", "b: _"))
