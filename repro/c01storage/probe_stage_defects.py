"""stage_mem / reuse_buffer: reproducers of the recorded findings + probes, original vs derived through the
reference interpreter (harness/interp.py) on the unchanged tree.
usage: /venv/bin/python /verif/scratch/c01storage/tmp/probe_stage_defects.py > probe_stage_defects.log"""
import sys, random, json, traceback
sys.path.insert(0, "/verif/harness")
import common
common.import_exo()
import exo_build, export_ir, stream, interp
from exo.stdlib.scheduling import *

I = interp.Interp()


def build(src):
    mod = exo_build.build_module(src)
    return list(exo_build.procs_of(mod).values())[-1]


def probe(label, src, f, n=6, tb=False):
    print("=" * 100); print(label)
    p = build(src)
    try:
        p2 = f(p)
    except BaseException as e:
        print("  REJECTED", type(e).__name__, str(e)[:240])
        if tb:
            traceback.print_exc(limit=-3)
        return
    print(p)
    try:
        print(p2)
    except BaseException as e:
        print("  str(after) raises", type(e).__name__)
    for nm, q in (("before", p), ("after", p2)):
        try:
            q.c_code_str(); print(f"  c_code_str({nm}): ok")
        except BaseException as e:
            print(f"  c_code_str({nm}): {type(e).__name__}: {str(e)[:160]}")
    try:
        pj, _ = export_ir.export(p); pj2, _ = export_ir.export(p2)
    except BaseException as e:
        print("  export error", type(e).__name__, e); return
    rng = random.Random(7)
    ins, res = I.gen_inputs(pj, {}, rng, n, small=True)
    res2 = I.run(pj2, ins)
    bad = 0
    for i, (ra, rb) in enumerate(zip(res, res2)):
        d = interp.compare(ra, rb)
        if d:
            bad += 1
            if bad <= 2:
                print("  DIFFERENCE on input", json.dumps(ins[i])[:300]); print("   ", d)
                print("    before:", json.dumps(ra)[:200]); print("    after :", json.dumps(rb)[:200])
    print(f"  interpreter: {len(ins)} inputs, {bad} differ; original results kinds: {sorted(set(list(r.keys())[0] for r in res))}")


FILL = '''
@proc
def fill(n: size, dst: [f32][n]):
    for i in seq(0, n):
        dst[i] = 1.0
'''
CP = '''
@proc
def cp(n: size, dst: [f32][n], src: [f32][n]):
    for i in seq(0, n):
        dst[i] = src[i]
'''

# ---------------------------------------------------------------- the four recorded findings
probe("F1 stage_mem:block-accesses-staged-buffer-through-window-alias (write through the alias)", '''
@proc
def p(n: size, x: f32[n]):
    w = x[0:n]
    for i in seq(0, n):
        w[i] = 1.0
        x[i] += 2.0
''', lambda p: stage_mem(p, p.find_loop("i"), "x[0:n]", "xs"))
probe("F1b ... (read: the staged copy misses the write through the alias)", '''
@proc
def p(n: size, x: f32[n], y: f32[n]):
    w = x[0:n]
    for i in seq(0, n):
        w[i] = 1.0
        y[i] = x[i]
''', lambda p: stage_mem(p, p.find_loop("i"), "x[0:n]", "xs"))
probe("F2 stage_mem:staged-buffer-written-through-call-never-stored-back", FILL + '''
@proc
def p(n: size, x: f32[n]):
    fill(n, x[0:n])
''', lambda p: stage_mem(p, p.body()[0], "x[0:n]", "xs"))
probe("F2b ... through a window statement inside the block", '''
@proc
def p(n: size, x: f32[n]):
    for i in seq(0, n):
        w = x[i:i + 1]
        w[0] = 1.0
''', lambda p: stage_mem(p, p.find_loop("i"), "x[0:n]", "xs"))
probe("F2c ... accum=True: zero-filled staging buffer, callee reduces into it, nothing accumulated back", '''
@proc
def add4(n: size, dst: [f32][n], src: [f32][n]):
    for i in seq(0, n):
        dst[i] += src[i]
@proc
def p(n: size, x: f32[n], y: f32[n]):
    add4(n, x[0:n], y[0:n])
''', lambda p: stage_mem(p, p.body()[0], "x[0:n]", "xs", accum=True))
probe("F3 stage_mem:write-only-block:unwritten-window-cells-stored-back", '''
@proc
def p(n: size, x: f32[n + 1], y: f32[n]):
    for i in seq(0, n):
        x[i] = y[i]
''', lambda p: stage_mem(p, p.find_loop("i"), "x[0:n + 1]", "xs"))
probe("F3b ... conditional write, point window", '''
@proc
def p(k: index, x: f32[4], y: f32[4]):
    if k < 1:
        x[0] = y[0]
''', lambda p: stage_mem(p, p.body()[0], "x[0]", "xs"))
probe("F4 reuse_buffer:target-allocation-in-another-scope", '''
@proc
def p(k: index, x: f32[4], y: f32[4]):
    if k < 2:
        a: f32
        a = x[0]
        y[0] = a
    b: f32
    b = y[1]
    x[1] = b
''', lambda p: reuse_buffer(p, "a: _", "b: _"))
probe("F4b reuse_buffer: same block, kept buffer allocated AFTER the replaced one", '''
@proc
def p(x: f32[4], y: f32[4]):
    a: f32
    a = x[0]
    y[0] = a
    b: f32
    b = y[1]
    x[1] = b
''', lambda p: reuse_buffer(p, "b: _", "a: _"))

# ---------------------------------------------------------------- new: WShadow
probe("N1 stage_mem WShadow: point window, first redirected access is a conditional write, later read: no copy-in", '''
@proc
def p(k: index, x: f32[4], y: f32[4]):
    if k < 1:
        x[0] = y[0]
    y[1] = x[0]
''', lambda p: stage_mem(p, p.body()[0].expand(0, 1), "x[0]", "xs"))
probe("N1b ... write in a loop that may run zero times", '''
@proc
def p(n: size, m: index, x: f32[4], y: f32[4]):
    for i in seq(0, 2):
        if i < m:
            x[0] = y[i]
    y[3] = x[0]
''', lambda p: stage_mem(p, p.body()[0].expand(0, 1), "x[0]", "xs"))

# ---------------------------------------------------------------- probe (a): rewrite_win with a point dimension
probe("(a1) point dim + window expression as call argument", CP + '''
@proc
def p(n: size, x: f32[4, n], y: f32[n]):
    cp(n, y[0:n], x[2, 0:n])
''', lambda p: stage_mem(p, p.body()[0], "x[2, 0:n]", "xs"), tb=True)
probe("(a2) point dim + window statement in the block", '''
@proc
def p(n: size, x: f32[4, n], y: f32[n]):
    for i in seq(0, n):
        w = x[2, 0:n]
        y[i] = w[i]
''', lambda p: stage_mem(p, p.find_loop("i"), "x[2, 0:n]", "xs"), tb=True)
probe("(a3) all-point window + point window expression (scalar staging buffer)", '''
@proc
def sc(dst: f32, src: [f32][1]):
    dst = src[0]
@proc
def p(n: size, x: f32[4, n], y: f32[n]):
    t: f32
    sc(t, x[2, 0:1])
    y[0] = t
''', lambda p: stage_mem(p, p.body()[1], "x[2, 0:1]", "xs"), tb=True)
probe("(a4) point dim in the LAST position + window expression", CP + '''
@proc
def p(n: size, x: f32[n, 4], y: f32[n]):
    cp(n, y[0:n], x[0:n, 2])
''', lambda p: stage_mem(p, p.body()[0], "x[0:n, 2]", "xs"), tb=True)

# ---------------------------------------------------------------- probe (b): reuse_buffer liveness
SC = '''
@proc
def sc(dst: f32, src: f32):
    dst = src
'''
probe("(b1) x written again and read later while y is live  (y[0] = 1; x[0] = 2; z = y[0] + x[0])", '''
@proc
def p(x: f32[4], y: f32[4]):
    a: f32
    b: f32
    b = 1.0
    a = 2.0
    y[0] = b + a
''', lambda p: reuse_buffer(p, "a: _", "b: _"))
probe("(b2) y written only through a CALL: Check_IsDeadAfter never runs (first_assn never fires)", SC + '''
@proc
def p(x: f32[4], y: f32[4]):
    a: f32
    a = x[0]
    b: f32
    c: f32
    c = y[0]
    sc(b, c)
    x[1] = a + b
''', lambda p: reuse_buffer(p, "a: _", "b: _"))
probe("(b3) y never written (only read): no liveness check either; x live", '''
@proc
def p(x: f32[4], y: f32[4]):
    a: f32
    a = x[0]
    b: f32
    y[0] = b
    x[1] = a
''', lambda p: reuse_buffer(p, "a: _", "b: _"))
probe("(b4) x read between y's allocation and the first write to y, dead afterwards (legal)", '''
@proc
def p(x: f32[4], y: f32[4]):
    a: f32
    a = x[0]
    b: f32
    y[0] = a
    b = y[1]
    x[1] = b
''', lambda p: reuse_buffer(p, "a: _", "b: _"))
probe("(b5) first write to y under an if; x read in the other branch afterwards", '''
@proc
def p(k: index, x: f32[4], y: f32[4]):
    a: f32
    a = x[0]
    b: f32
    if k < 1:
        b = 1.0
    else:
        b = a
    y[0] = b
''', lambda p: reuse_buffer(p, "a: _", "b: _"))

# ---------------------------------------------------------------- probe (c): accum=True and the block reads the buffer
probe("(c1) accum=True, block reduces and reads directly", '''
@proc
def p(n: size, x: f32[n], y: f32[n]):
    for i in seq(0, n):
        x[i] += y[i]
        y[i] = x[i]
''', lambda p: stage_mem(p, p.find_loop("i"), "x[0:n]", "xs", accum=True))
probe("(c2) accum=True, block reads the buffer through a window passed to a call", CP + '''
@proc
def p(n: size, x: f32[n], y: f32[n]):
    cp(n, y[0:n], x[0:n])
''', lambda p: stage_mem(p, p.body()[0], "x[0:n]", "xs", accum=True))
probe("(c3) accum=True, reduce + read through a window alias defined in the block", '''
@proc
def p(n: size, x: f32[n], y: f32[n]):
    for i in seq(0, n):
        x[i] += 1.0
        w = x[i:i + 1]
        y[i] = w[0]
''', lambda p: stage_mem(p, p.find_loop("i"), "x[0:n]", "xs", accum=True))

# ---------------------------------------------------------------- probe (d): window defined in the block, used after it
probe("(d) window statement inside the staged block, alias used AFTER the block", '''
@proc
def p(n: size, x: f32[n], y: f32[n]):
    w = x[0:n]
    y[0] = w[0]
    x[0] = 5.0
    y[0] += w[0]
''', lambda p: stage_mem(p, p.body()[0].expand(0, 1), "x[0:n]", "xs"))
