from __future__ import annotations
from exo import proc
from exo.stdlib.scheduling import *

@proc
def st(s: stride, dst: f32[4]):
    assert s == 4
    dst[0] = 1.0

@proc
def p(y: f32[4]):
    for i in seq(0, 3):
        t: f32[4, 4]
        t[0, 0] = 1.0
        st(stride(t, 0), y)

print(p)
p2 = expand_dim(p, p.find("t: _"), "3", "i")
print(p2)
try:
    print([l for l in p2.c_code_str().splitlines() if "st(" in l or "EXO_ASSUME" in l][-4:])
except BaseException as e:
    print("c_code_str:", type(e).__name__, str(e)[:300])
