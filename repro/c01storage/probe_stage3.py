import sys, json, traceback
sys.path.insert(0, "/verif/harness")
import common
common.import_exo()
import exo_build, export_ir
from exo.stdlib.scheduling import *
def build(src):
    mod = exo_build.build_module(src)
    return list(exo_build.procs_of(mod).values())[-1]
p = build('''
@proc
def p(n: size, x: f32[n], y: f32[n]):
    a: f32[4]
    a[0] = x[0]
    y[0] = a[0]
    b: f32[4]
    b[0] = y[0]
    x[0] = b[0]
    c: f32[n]
    d: f32[n]
''')
ir = p.INTERNAL_proc()
ta, tb = ir.body[0].type, ir.body[3].type
print(ta, tb, ta == tb, ta.hi[0] == tb.hi[0], ta.hi[0].srcinfo, tb.hi[0].srcinfo, ta.hi[0].srcinfo == tb.hi[0].srcinfo)
print(type(ta.hi[0].srcinfo).__eq__)
tc, td = ir.body[6].type, ir.body[7].type
print(tc == td, tc.hi[0] == td.hi[0], tc.hi[0].type, td.hi[0].type, tc.hi[0].type == td.hi[0].type)
import inspect
from exo.core import LoopIR as L
print([f for f in dir(ta.hi[0]) if not f.startswith('__')])
for f in ('val','type','srcinfo'):
    print(f, getattr(ta.hi[0],f) == getattr(tb.hi[0],f))
