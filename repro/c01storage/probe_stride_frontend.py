import sys
sys.path.insert(0, "/verif/harness")
import common
common.import_exo()
import exo_build
def build(label, src):
    try:
        mod = exo_build.build_module(src)
        p = list(exo_build.procs_of(mod).values())[-1]
        print(label, ": accepted by the front end")
    except BaseException as e:
        print(label, ": REJECTED", type(e).__name__, str(e)[-200:])
build("rearranged program written by hand", '''
@proc
def fill(dst: [f32][4]):
    assert stride(dst, 0) == 1
    for i in seq(0, 4):
        dst[i] = 2.0
@proc
def p(y: f32[4]):
    t: f32[4, 2]
    w = t[0:4, 1]
    fill(w)
    for i in seq(0, 4):
        y[i] = t[i, 1]
''')
build("resized program written by hand", '''
@proc
def st(s: stride, dst: f32[4]):
    assert s == 4
    dst[0] = 1.0
@proc
def p(y: f32[4]):
    t: f32[8, 2]
    t[0, 0] = 1.0
    st(stride(t, 0), y)
''')
build("divided program written by hand", '''
@proc
def st(s: stride, dst: f32[4]):
    assert s == 1
    dst[0] = 1.0
@proc
def p(y: f32[4]):
    t: f32[2, 4, 4]
    t[0, 0, 0] = 1.0
    st(stride(t, 1), y)
''')
