import sys
sys.path.insert(0, "/verif/harness")
import common
common.import_exo()
import exo_build, export_ir, stream
from exo.stdlib.scheduling import *

def build(src):
    mod = exo_build.build_module(src)
    return list(exo_build.procs_of(mod).values())[-1]

def tryit(label, f):
    try:
        r = f()
        print("==", label); print(r)
    except BaseException as e:
        print("==", label, "RAISED", type(e).__name__, str(e)[:300])

p = build('''
@proc
def p(x: f32[16], y: f32[16]):
    t: f32[16, 4]
    for i in seq(0, 16):
        t[i, 0] = x[i]
        t[i, 1] += t[i, 0]
    y[0] = t[9, 1] + t[1, 0]
    t[10, 2] = 1.0
''')
tryit("unroll d=1", lambda: unroll_buffer(p, "t: _", 1))
p = build('''
@proc
def p(x: f32[16], y: f32[16]):
    t: f32[16]
    y[0] = x[0]
    t[9] = 1.0
    t[1] = 2.0
    y[0] = t[9] + t[1]
''')
tryit("unroll set order 9,1", lambda: unroll_buffer(p, "t: _", 0))
p = build('''
@proc
def p(x: f32[16], y: f32[16]):
    t: f32[16]
    y[0] = x[0]
''')
tryit("unroll unused", lambda: unroll_buffer(p, "t: _", 0))
p = build('''
@proc
def p(x: f32[16], y: f32[16]):
    t: f32[4]
''')
tryit("unroll unused only", lambda: unroll_buffer(p, "t: _", 0))
p = build('''
@proc
def p(n: size, x: f32[n], y: f32[n]):
    assert n % 4 == 0
    t: f32[n, 8]
    for i in seq(0, n):
        for j in seq(0, 8):
            t[i, j] = x[i]
    y[0] = t[0, 0]
''')
tryit("divide sym", lambda: divide_dim(p, "t: _", 0, 4))
tryit("divide lit", lambda: divide_dim(p, "t: _", 1, 4))
tryit("divide lit nondiv", lambda: divide_dim(p, "t: _", 1, 3))
tryit("mult 0 1", lambda: mult_dim(p, "t: _", 0, 1))
tryit("mult 1 0", lambda: mult_dim(p, "t: _", 1, 0))
tryit("rearr", lambda: rearrange_dim(p, "t: _", [1, 0]))
tryit("rearr bad", lambda: rearrange_dim(p, "t: _", [1, 1]))
tryit("resize", lambda: resize_dim(p, "t: _", 1, "9", "0"))
tryit("resize", lambda: resize_dim(p, "t: _", 0, "n", "0"))
