"""Hand tests of the storage shapes (lean/ExoModel/RewriteStorage.lean) against the real code.

Builds small Exo procedures through the real front end, applies the real primitive, exports input
and output, asks Drivers/C01Storage.lean (op rwcheck_storage) whether the model shape matches.

usage: /venv/bin/python /verif/scratch/c01storage/try_shapes.py [-v] [--pool]
"""
import json
import os
import sys

sys.path.insert(0, "/verif/harness")
import common  # noqa: E402

common.import_exo()
import exo_build  # noqa: E402
import export_ir  # noqa: E402
import stream  # noqa: E402

VERBOSE = "-v" in sys.argv

TESTS = []  # (test name, source, op, path, args)


def T(tname, op, path, src, **args):
    TESTS.append((tname, src, op, path, args))


B, O = "body", "orelse"

# ------------------------------------------------------------------ lift_alloc
T("lift:first-of-for", "lift_alloc", [[B, 0], [B, 0]], '''
@proc
def p(n: size, x: f32[n], y: f32[n]):
    for i in seq(0, n):
        t: f32
        t = x[i] * 2.0
        y[i] = t + 1.0
''', n=1)
T("lift:middle-of-for", "lift_alloc", [[B, 0], [B, 1]], '''
@proc
def p(n: size, x: f32[n], y: f32[n]):
    for i in seq(0, n):
        y[i] = 0.0
        t: f32
        t = x[i] * 2.0
        y[i] = t + 1.0
''', n=1)
T("lift:last-of-for", "lift_alloc", [[B, 0], [B, 1]], '''
@proc
def p(n: size, x: f32[n], y: f32[n]):
    for i in seq(0, n):
        y[i] = x[i]
        t: f32
''', n=1)
T("lift:only-of-for", "lift_alloc", [[B, 1], [B, 0]], '''
@proc
def p(n: size, x: f32[n], y: f32[n]):
    y[0] = x[0]
    for i in seq(0, n):
        t: f32[4]
    y[0] = x[0]
''', n=1)
T("lift:if-then", "lift_alloc", [[B, 0], [B, 0], [B, 0]], '''
@proc
def p(n: size, k: index, x: f32[n], y: f32[n]):
    for i in seq(0, n):
        if i == k:
            t: f32
            t = x[i]
            y[i] = t * t
        else:
            y[i] = 0.0
''', n=1)
T("lift:if-else", "lift_alloc", [[B, 0], [B, 0], [O, 1]], '''
@proc
def p(n: size, k: index, x: f32[n], y: f32[n]):
    for i in seq(0, n):
        if i == k:
            y[i] = 0.0
        else:
            y[i] = 1.0
            t: f32
            t = x[i]
            y[i] = t * t
''', n=1)
T("lift:if-else-only-n2", "lift_alloc", [[B, 0], [B, 0], [O, 0]], '''
@proc
def p(n: size, k: index, x: f32[n], y: f32[n]):
    for i in seq(0, n):
        if i == k:
            y[i] = 0.0
        else:
            t: f32
''', n=2)
T("lift:if-then-only", "lift_alloc", [[B, 0], [B, 0]], '''
@proc
def p(n: size, k: index, x: f32[n], y: f32[n]):
    if k < 2:
        t: f32
''', n=1)
T("lift:nested-n2", "lift_alloc", [[B, 0], [B, 1], [B, 0]], '''
@proc
def p(n: size, m: size, x: f32[n, m], y: f32[n]):
    for i in seq(0, n):
        y[i] = 0.0
        for j in seq(0, m):
            t: f32
            t = x[i, j]
            y[i] += t
        y[i] += 1.0
''', n=2)
T("lift:nested-n1", "lift_alloc", [[B, 0], [B, 1], [B, 0]], '''
@proc
def p(n: size, m: size, x: f32[n, m], y: f32[n]):
    for i in seq(0, n):
        y[i] = 0.0
        for j in seq(0, m):
            t: f32
            t = x[i, j]
            y[i] += t
        y[i] += 1.0
''', n=1)
T("lift:nested-only-n2", "lift_alloc", [[B, 0], [B, 0], [B, 0]], '''
@proc
def p(n: size, m: size, x: f32[n, m], y: f32[n]):
    for i in seq(0, n):
        for j in seq(0, m):
            t: f32[3]
''', n=2)
T("lift:n-too-big", "lift_alloc", [[B, 0], [B, 0]], '''
@proc
def p(n: size, x: f32[n], y: f32[n]):
    for i in seq(0, n):
        t: f32
        t = x[i] * 2.0
        y[i] = t + 1.0
''', n=2)
T("lift:toplevel", "lift_alloc", [[B, 0]], '''
@proc
def p(n: size, x: f32[n], y: f32[n]):
    t: f32
    t = x[0]
    y[0] = t
''', n=1)
T("lift:size-depends-on-iter", "lift_alloc", [[B, 0], [B, 0]], '''
@proc
def p(n: size, x: f32[n], y: f32[n]):
    for i in seq(0, n):
        t: f32[i + 1]
        t[0] = x[i]
        y[i] = t[0]
''', n=1)
T("lift:size-depends-on-outer-iter-n1", "lift_alloc", [[B, 0], [B, 0], [B, 0]], '''
@proc
def p(n: size, x: f32[n], y: f32[n]):
    for i in seq(0, n):
        for j in seq(0, n):
            t: f32[i + 1]
            t[0] = x[i]
            y[i] = t[0]
''', n=1)

# ------------------------------------------------------------------ sink_alloc
T("sink:for", "sink_alloc", [[B, 0]], '''
@proc
def p(n: size, x: f32[n], y: f32[n]):
    t: f32
    for i in seq(0, n):
        t = x[i]
        y[i] = t + 1.0
''')
T("sink:for-middle", "sink_alloc", [[B, 1]], '''
@proc
def p(n: size, x: f32[n], y: f32[n]):
    y[0] = x[0]
    t: f32[2]
    for i in seq(0, n):
        t[0] = x[i]
        y[i] = t[0] + 1.0
    y[0] = x[0]
''')
T("sink:if-noelse", "sink_alloc", [[B, 0]], '''
@proc
def p(n: size, k: index, x: f32[n], y: f32[n]):
    u: f32[2]
    if k < 2:
        u[0] = 1.0
        y[0] = u[0]
''')
T("sink:if-else-unused-in-else", "sink_alloc", [[B, 0]], '''
@proc
def p(n: size, k: index, x: f32[n], y: f32[n]):
    u: f32[2]
    if k < 2:
        u[0] = 1.0
        y[0] = u[0]
    else:
        y[0] = 2.0
''')
T("sink:if-else-used-in-else", "sink_alloc", [[B, 0]], '''
@proc
def p(n: size, k: index, x: f32[n], y: f32[n]):
    u: f32[2]
    if k < 2:
        u[0] = 1.0
        y[0] = u[0]
    else:
        u[1] = 3.0
        y[0] = u[1]
''')
T("sink:if-else-in-loop", "sink_alloc", [[B, 0], [B, 0]], '''
@proc
def p(n: size, k: index, x: f32[n], y: f32[n]):
    for i in seq(0, n):
        u: f32
        if i < k:
            u = x[i]
            y[i] = u
        else:
            u = 2.0
            y[i] = u + x[i]
''')
T("sink:used-after-scope", "sink_alloc", [[B, 0]], '''
@proc
def p(n: size, x: f32[n], y: f32[n]):
    t: f32
    for i in seq(0, n):
        t = x[i]
    y[0] = t
''')
T("sink:next-not-scope", "sink_alloc", [[B, 0]], '''
@proc
def p(n: size, x: f32[n], y: f32[n]):
    t: f32
    t = x[0]
    y[0] = t
''')
T("sink:alloc-last", "sink_alloc", [[B, 1]], '''
@proc
def p(n: size, x: f32[n], y: f32[n]):
    y[0] = x[0]
    t: f32
''')

# ------------------------------------------------------------------ delete_buffer
T("delbuf:only-of-for", "delete_buffer", [[B, 0], [B, 0]], '''
@proc
def p(n: size, x: f32[n], y: f32[n]):
    for i in seq(0, n):
        t: f32
    y[0] = x[0]
''')
T("delbuf:middle", "delete_buffer", [[B, 1]], '''
@proc
def p(n: size, x: f32[n], y: f32[n]):
    y[0] = x[0]
    unused: f32[n]
    y[0] += x[0]
''')
T("delbuf:end-of-proc", "delete_buffer", [[B, 1]], '''
@proc
def p(n: size, x: f32[n], y: f32[n]):
    y[0] = x[0]
    unused: f32[n]
''')
T("delbuf:only-of-proc", "delete_buffer", [[B, 0]], '''
@proc
def p(n: size, x: f32[n], y: f32[n]):
    unused: f32[n]
''')
T("delbuf:last-of-for", "delete_buffer", [[B, 0], [B, 1]], '''
@proc
def p(n: size, x: f32[n], y: f32[n]):
    for i in seq(0, n):
        y[i] = x[i]
        t: f32
''')
T("delbuf:only-of-else", "delete_buffer", [[B, 0], [O, 0]], '''
@proc
def p(n: size, k: index, x: f32[n], y: f32[n]):
    if k < 2:
        y[0] = x[0]
    else:
        t: f32
''')
T("delbuf:only-of-then", "delete_buffer", [[B, 0], [B, 0]], '''
@proc
def p(n: size, k: index, x: f32[n], y: f32[n]):
    if k < 2:
        t: f32
    else:
        y[0] = x[0]
''')
T("delbuf:used", "delete_buffer", [[B, 0]], '''
@proc
def p(n: size, x: f32[n], y: f32[n]):
    t: f32
    t = x[0]
    y[0] = t
''')
T("delbuf:written-only", "delete_buffer", [[B, 0]], '''
@proc
def p(n: size, x: f32[n], y: f32[n]):
    t: f32
    t = x[0]
    y[0] = x[0]
''')

# ------------------------------------------------------------------ delete_pass
T("delpass:only-of-for", "delete_pass", [], '''
@proc
def p(n: size, x: f32[n]):
    x[0] = 1.0
    for i in seq(0, n):
        pass
    x[0] = 2.0
''')
T("delpass:only-for-in-proc", "delete_pass", [], '''
@proc
def p(n: size, x: f32[n]):
    for i in seq(0, n):
        pass
''')
T("delpass:nested-fors", "delete_pass", [], '''
@proc
def p(n: size, x: f32[n]):
    x[0] = 1.0
    for i in seq(0, n):
        for j in seq(0, n):
            for k in seq(0, n):
                pass
''')
T("delpass:nested-fors-only", "delete_pass", [], '''
@proc
def p(n: size, x: f32[n]):
    for i in seq(0, n):
        for j in seq(0, n):
            pass
''')
T("delpass:if-noelse", "delete_pass", [], '''
@proc
def p(n: size, k: index, x: f32[n]):
    x[0] = 1.0
    if k < 2:
        pass
''')
T("delpass:if-else-both", "delete_pass", [], '''
@proc
def p(n: size, k: index, x: f32[n]):
    if k < 2:
        pass
    else:
        pass
''')
T("delpass:if-else-only-else", "delete_pass", [], '''
@proc
def p(n: size, k: index, x: f32[n]):
    if k < 2:
        x[0] = 1.0
    else:
        pass
''')
T("delpass:if-else-only-then", "delete_pass", [], '''
@proc
def p(n: size, k: index, x: f32[n]):
    if k < 2:
        pass
    else:
        x[0] = 1.0
''')
T("delpass:two-in-loop", "delete_pass", [], '''
@proc
def p(n: size, x: f32[n]):
    x[0] = 1.0
    for i in seq(0, n):
        pass
        pass
''')
T("delpass:two-in-if", "delete_pass", [], '''
@proc
def p(n: size, k: index, x: f32[n]):
    if k < 2:
        pass
        pass
''')
T("delpass:beside-stmts", "delete_pass", [], '''
@proc
def p(n: size, x: f32[n]):
    pass
    x[0] = 1.0
    for j in seq(0, n):
        pass
        x[j] = 1.0
        pass
    pass
''')
T("delpass:only-pass-proc", "delete_pass", [], '''
@proc
def p(n: size, x: f32[n]):
    pass
''')
T("delpass:two-pass-proc", "delete_pass", [], '''
@proc
def p(n: size, x: f32[n]):
    pass
    pass
''')
T("delpass:for-in-if", "delete_pass", [], '''
@proc
def p(n: size, k: index, x: f32[n]):
    if k < 2:
        for i in seq(0, n):
            pass
    else:
        for i in seq(0, n):
            for j in seq(0, n):
                pass
''')
T("delpass:if-in-for", "delete_pass", [], '''
@proc
def p(n: size, k: index, x: f32[n]):
    for i in seq(0, n):
        if i < k:
            pass
''')
T("delpass:inner-for-then-pass", "delete_pass", [], '''
@proc
def p(n: size, x: f32[n]):
    x[0] = 1.0
    for i in seq(0, n):
        for j in seq(0, n):
            pass
        pass
''')
T("delpass:pass-then-inner-for", "delete_pass", [], '''
@proc
def p(n: size, x: f32[n]):
    x[0] = 1.0
    for i in seq(0, n):
        pass
        for j in seq(0, n):
            pass
''')
T("delpass:two-inner-fors", "delete_pass", [], '''
@proc
def p(n: size, x: f32[n]):
    for i in seq(0, n):
        for j in seq(0, n):
            pass
        for k in seq(0, n):
            pass
    x[0] = 1.0
''')
T("delpass:no-pass", "delete_pass", [], '''
@proc
def p(n: size, x: f32[n]):
    for i in seq(0, n):
        x[i] = 1.0
''')


# ------------------------------------------------------------------ expand_dim
T("expand:scalar-in-loop", "expand_dim", [[B, 0], [B, 0]], '''
@proc
def p(n: size, x: f32[n], y: f32[n]):
    for i in seq(0, n):
        t: f32
        t = x[i] * 2.0
        t += 1.0
        y[i] = t + t
''', size="n", idx="i")
T("expand:tensor-nested", "expand_dim", [[B, 0], [B, 1]], '''
@proc
def p(n: size, m: size, x: f32[n, m], y: f32[n]):
    for i in seq(0, n):
        y[i] = 0.0
        t: f32[m]
        for j in seq(0, m):
            t[j] = x[i, j] * 2.0
        u: f32[m]
        if i < 2:
            for j in seq(0, m):
                y[i] += t[j]
        else:
            y[i] = t[0]
''', size="n", idx="i")
T("expand:const-idx", "expand_dim", [[B, 0]], '''
@proc
def p(n: size, x: f32[n], y: f32[n]):
    t: f32[2]
    t[0] = x[0]
    t[1] = t[0]
    y[0] = t[1]
''', size="4", idx="3")
T("expand:unused", "expand_dim", [[B, 0]], '''
@proc
def p(n: size, x: f32[n], y: f32[n]):
    t: f32[2]
    y[0] = x[0]
''', size="4", idx="3")
T("expand:window-stmt", "expand_dim", [[B, 0], [B, 0]], '''
@proc
def p(n: size, x: f32[n], y: f32[n]):
    for i in seq(0, n):
        t: f32[4, 4]
        t[1, 2] = x[i]
        w = t[1, 0:4]
        y[i] = w[2]
''', size="n", idx="i")
T("expand:window-call-arg", "expand_dim", [[B, 0], [B, 0]], '''
@proc
def cp(n: size, dst: [f32][n], src: [f32][n]):
    for i in seq(0, n):
        dst[i] = src[i]
@proc
def p(n: size, x: f32[n], y: f32[n]):
    for i in seq(0, 3):
        t: f32[n]
        cp(n, t[0:n], x[0:n])
        cp(n, y[0:n], t[0:n])
''', size="3", idx="i")
T("expand:whole-call-arg", "expand_dim", [[B, 0], [B, 0]], '''
@proc
def cp(n: size, dst: f32[n], src: f32[n]):
    for i in seq(0, n):
        dst[i] = src[i]
@proc
def p(n: size, x: f32[n], y: f32[n]):
    for i in seq(0, 3):
        t: f32[n]
        cp(n, t, x)
        cp(n, y, t)
''', size="3", idx="i")
T("expand:scalar-call-arg", "expand_dim", [[B, 0], [B, 0]], '''
@proc
def sc(dst: f32, src: f32):
    dst = src
@proc
def p(x: f32[3], y: f32[3]):
    for i in seq(0, 3):
        t: f32
        u: f32
        u = x[i]
        sc(t, u)
        sc(u, t)
        y[i] = u
''', size="3", idx="i")
T("expand:stride", "expand_dim", [[B, 0], [B, 0]], '''
@proc
def st(s: stride, dst: f32[4]):
    dst[0] = 1.0
@proc
def p(y: f32[4]):
    for i in seq(0, 3):
        t: f32[4, 4]
        t[0, 0] = 1.0
        st(stride(t, 0), y)
''', size="3", idx="i")
T("expand:idx-out-of-bounds", "expand_dim", [[B, 0], [B, 0]], '''
@proc
def p(n: size, x: f32[n], y: f32[n]):
    for i in seq(0, n):
        t: f32
        t = x[i] * 2.0
        y[i] = t
''', size="2", idx="i")
T("expand:nonpositive-size", "expand_dim", [[B, 0]], '''
@proc
def p(n: size, x: f32[n], y: f32[n]):
    t: f32
    t = x[0]
    y[0] = t
''', size="n - 1", idx="0")
T("expand:idx-uses-later-iter", "expand_dim", [[B, 0]], '''
@proc
def p(n: size, x: f32[n], y: f32[n]):
    t: f32
    for i in seq(0, n):
        t = x[i]
        y[i] = t
''', size="n", idx="i")

# ------------------------------------------------------------------ bind_expr
T("bind:binop", "bind_expr", [[B, 0], [B, 0], ["rhs"], ["lhs"]], '''
@proc
def p(n: size, x: f32[n], y: f32[n]):
    for i in seq(0, n):
        y[i] = x[i] * 2.0 + 1.0
''', name="bnd")
T("bind:read", "bind_expr", [[B, 0], [B, 0], ["rhs"], ["lhs"], ["lhs"]], '''
@proc
def p(n: size, x: f32[n], y: f32[n]):
    for i in seq(0, n):
        y[i] = x[i] * 2.0 + 1.0
''', name="bnd")
T("bind:whole-rhs-of-reduce", "bind_expr", [[B, 0], [B, 1], ["rhs"]], '''
@proc
def p(n: size, a: f32, x: f32[n], y: f32[n]):
    for i in seq(0, n):
        y[i] = 0.0
        y[i] += a * x[i]
        y[i] += 1.0
''', name="bnd")
T("bind:stmt-writes-what-expr-reads", "bind_expr", [[B, 0], [B, 0], ["rhs"], ["lhs"]], '''
@proc
def p(n: size, x: f32[n]):
    for i in seq(0, n):
        x[i] = x[i] + x[i]
''', name="bnd")
T("bind:twice-same-expr", "bind_expr", [[B, 0], [B, 0], ["rhs"], ["rhs"]], '''
@proc
def p(n: size, x: f32[n], y: f32[n]):
    for i in seq(0, n):
        y[i] = x[i] * x[i]
''', name="bnd")
T("bind:in-else-branch", "bind_expr", [[B, 0], [B, 0], [O, 1], ["rhs"], ["rhs"]], '''
@proc
def p(n: size, k: index, x: f32[n], y: f32[n]):
    for i in seq(0, n):
        if i < k:
            y[i] = 0.0
        else:
            y[i] = 1.0
            y[i] += 3.0 * (x[i] + 1.0)
''', name="bnd")
T("bind:extern-arg", "bind_expr", [[B, 0], [B, 0], ["rhs"], ["args", 0]], '''
@proc
def p(n: size, x: f32[n], y: f32[n]):
    for i in seq(0, n):
        y[i] = relu(x[i] + 1.0)
''', name="bnd")
T("bind:literal", "bind_expr", [[B, 0], [B, 0], ["rhs"], ["rhs"]], '''
@proc
def p(n: size, x: f32[n], y: f32[n]):
    for i in seq(0, n):
        y[i] = x[i] + 2.0
''', name="bnd")
T("bind:usub-arg", "bind_expr", [[B, 0], ["rhs"], ["arg"]], '''
@proc
def p(n: size, x: f32[n], y: f32[n]):
    y[0] = -(x[0] + 1.0)
''', name="bnd")
T("bind:call-arg-scalar-var", "bind_expr", [[B, 0], [B, 3], ["args", 1]], '''
@proc
def sc(dst: f32, src: f32):
    dst = src
@proc
def p(x: f32[3], y: f32[3]):
    for i in seq(0, 3):
        a: f32
        b: f32
        b = x[i]
        sc(a, b)
        y[i] = a
''', name="bnd")
T("bind:call-arg-whole-tensor", "bind_expr", [[B, 0], ["args", 2]], '''
@proc
def cp(n: size, dst: f32[n], src: f32[n]):
    for i in seq(0, n):
        dst[i] = src[i]
@proc
def p(n: size, x: f32[n], y: f32[n]):
    cp(n, y, x)
''', name="bnd")
T("bind:call-arg-window", "bind_expr", [[B, 0], ["args", 2]], '''
@proc
def cp(n: size, dst: [f32][n], src: [f32][n]):
    for i in seq(0, n):
        dst[i] = src[i]
@proc
def p(n: size, x: f32[n], y: f32[n]):
    cp(n, y[0:n], x[0:n])
''', name="bnd")
T("bind:call-arg-output-scalar", "bind_expr", [[B, 0], [B, 3], ["args", 0]], '''
@proc
def sc(dst: f32, src: f32):
    dst = src
@proc
def p(x: f32[3], y: f32[3]):
    for i in seq(0, 3):
        a: f32
        b: f32
        b = x[i]
        sc(a, b)
        y[i] = a
''', name="bnd")
T("expand:stride-assert", "expand_dim", [[B, 0], [B, 0]], '''
@proc
def st(dst: [f32][4, 4]):
    assert stride(dst, 0) == 4
    dst[0, 0] = 1.0
@proc
def p(y: f32[4]):
    for i in seq(0, 3):
        t: f32[4, 4]
        st(t[0:4, 0:4])
        y[0] = t[0, 0]
''', size="3", idx="i")
T("bind:index-expr", "bind_expr", [[B, 0], [B, 0], ["rhs"], ["idx", 0]], '''
@proc
def p(n: size, x: f32[n], y: f32[n]):
    for i in seq(0, n):
        y[i] = x[i]
''', name="bnd")



# ================================================================== dimension rewrites
# ------------------------------------------------------------------ divide_dim
T("div:lit-1d", "divide_dim", [[B, 0]], '''
@proc
def p(x: f32[16], y: f32[16]):
    t: f32[16]
    for i in seq(0, 16):
        t[i] = x[i] * 2.0
    for i in seq(0, 16):
        y[i] = t[i] + t[15 - i]
''', dim=0, q=4)
T("div:q1", "divide_dim", [[B, 0]], '''
@proc
def p(x: f32[16], y: f32[16]):
    t: f32[16]
    t[3] = x[0]
    y[0] = t[3]
''', dim=0, q=1)
T("div:sym-assert", "divide_dim", [[B, 0]], '''
@proc
def p(n: size, x: f32[n], y: f32[n]):
    assert n % 4 == 0
    t: f32[n]
    for i in seq(0, n):
        t[i] = x[i]
    for i in seq(0, n):
        y[i] = t[i]
''', dim=0, q=4)
T("div:sym-product", "divide_dim", [[B, 0]], '''
@proc
def p(n: size, x: f32[4 * n], y: f32[4 * n]):
    t: f32[4 * n]
    for i in seq(0, 4 * n):
        t[i] = x[i]
    for i in seq(0, 4 * n):
        y[i] = t[i]
''', dim=0, q=4)
T("div:sym-noassert", "divide_dim", [[B, 0]], '''
@proc
def p(n: size, x: f32[n], y: f32[n]):
    t: f32[n]
    for i in seq(0, n):
        t[i] = x[i]
''', dim=0, q=4)
T("div:lit-nondiv", "divide_dim", [[B, 0]], '''
@proc
def p(x: f32[16], y: f32[16]):
    t: f32[8]
    t[3] = x[0]
''', dim=0, q=3)
T("div:2d-dim1-nested-if-reduce", "divide_dim", [[B, 0], [B, 1]], '''
@proc
def p(n: size, k: index, x: f32[n, 8], y: f32[n]):
    for i in seq(0, n):
        y[i] = 0.0
        t: f32[n, 8]
        for j in seq(0, 8):
            t[i, j] = x[i, j]
            if j < k:
                t[i, j] += 1.0
            else:
                t[i, 7 - j] = relu(t[i, j])
        u: f32[2]
        for j in seq(0, 8):
            y[i] += t[i, j]
''', dim=1, q=2)
T("div:3d-middle", "divide_dim", [[B, 0]], '''
@proc
def p(n: size, x: f32[n], y: f32[n]):
    t: f32[2, 12, n]
    for a in seq(0, 2):
        for b in seq(0, 12):
            for c in seq(0, n):
                t[a, b, c] = x[c]
    y[0] = t[1, 11, 0]
''', dim=1, q=4)
T("div:3d-last-sym", "divide_dim", [[B, 0]], '''
@proc
def p(n: size, x: f32[n], y: f32[n]):
    assert n % 2 == 0
    t: f32[2, 12, n]
    for a in seq(0, 2):
        for b in seq(0, 12):
            for c in seq(0, n):
                t[a, b, c] = x[c]
    y[0] = t[1, 11, 0]
''', dim=2, q=2)
T("div:unused", "divide_dim", [[B, 0]], '''
@proc
def p(x: f32[16], y: f32[16]):
    t: f32[16]
    y[0] = x[0]
''', dim=0, q=4)
T("div:window-stmt", "divide_dim", [[B, 0]], '''
@proc
def p(x: f32[16], y: f32[16]):
    t: f32[16]
    t[3] = x[0]
    w = t[0:4]
    y[0] = w[3]
''', dim=0, q=4)
T("div:window-call-arg", "divide_dim", [[B, 0]], '''
@proc
def cp(n: size, dst: [f32][n], src: [f32][n]):
    for i in seq(0, n):
        dst[i] = src[i]
@proc
def p(x: f32[16], y: f32[16]):
    t: f32[16]
    cp(16, t[0:16], x[0:16])
    y[0] = t[0]
''', dim=0, q=4)
T("div:whole-call-arg", "divide_dim", [[B, 0]], '''
@proc
def cp(n: size, dst: f32[n], src: f32[n]):
    for i in seq(0, n):
        dst[i] = src[i]
@proc
def p(x: f32[16], y: f32[16]):
    t: f32[16]
    cp(16, t, x)
    y[0] = t[0]
''', dim=0, q=4)
T("div:stride-untouched", "divide_dim", [[B, 0]], '''
@proc
def st(s: stride, dst: f32[4]):
    dst[0] = 1.0
@proc
def p(y: f32[4]):
    t: f32[8, 4]
    t[0, 0] = 1.0
    st(stride(t, 1), y)
''', dim=0, q=4)
T("div:dim-out-of-range", "divide_dim", [[B, 0]], '''
@proc
def p(x: f32[16], y: f32[16]):
    t: f32[16]
    t[3] = x[0]
''', dim=1, q=4)
T("div:scalar", "divide_dim", [[B, 0]], '''
@proc
def p(x: f32[16], y: f32[16]):
    t: f32
    t = x[0]
''', dim=0, q=4)

# ------------------------------------------------------------------ mult_dim
T("mult:01-sym-lit", "mult_dim", [[B, 0]], '''
@proc
def p(n: size, x: f32[n], y: f32[n]):
    t: f32[n, 8]
    for i in seq(0, n):
        for j in seq(0, 8):
            t[i, j] = x[i]
    for i in seq(0, n):
        y[i] = t[i, 7] + t[i, 0]
''', hi=0, lo=1)
T("mult:10-nonlit-lo", "mult_dim", [[B, 0]], '''
@proc
def p(n: size, x: f32[n], y: f32[n]):
    t: f32[n, 8]
    for i in seq(0, n):
        for j in seq(0, 8):
            t[i, j] = x[i]
''', hi=1, lo=0)
T("mult:10-lit-lit", "mult_dim", [[B, 0]], '''
@proc
def p(x: f32[4], y: f32[4]):
    t: f32[4, 8]
    for i in seq(0, 4):
        for j in seq(0, 8):
            t[i, j] = x[i]
    for i in seq(0, 4):
        y[i] = t[i, 7] + t[i, 0]
''', hi=1, lo=0)
T("mult:3d-02-nonadjacent", "mult_dim", [[B, 0]], '''
@proc
def p(n: size, x: f32[n], y: f32[n]):
    t: f32[4, n, 8]
    for a in seq(0, 4):
        for b in seq(0, n):
            for c in seq(0, 8):
                t[a, b, c] = x[b]
    y[0] = t[3, 0, 7]
''', hi=0, lo=2)
T("mult:3d-20-reversed", "mult_dim", [[B, 0]], '''
@proc
def p(n: size, x: f32[n], y: f32[n]):
    t: f32[4, n, 8]
    for a in seq(0, 4):
        for b in seq(0, n):
            for c in seq(0, 8):
                t[a, b, c] = x[b]
    y[0] = t[3, 0, 7]
''', hi=2, lo=0)
T("mult:3d-12-in-loop-if-reduce", "mult_dim", [[B, 0], [B, 0]], '''
@proc
def p(n: size, k: index, x: f32[n], y: f32[n]):
    for i in seq(0, n):
        t: f32[2, n, 4]
        for c in seq(0, 4):
            t[0, i, c] = x[i]
            if c < k:
                t[1, i, c] = 0.0
                t[1, i, c] += t[0, i, c]
            else:
                t[1, i, 3 - c] = relu(t[0, i, c])
        y[i] = t[1, i, 0]
''', hi=1, lo=2)
T("mult:same-dim", "mult_dim", [[B, 0]], '''
@proc
def p(x: f32[4], y: f32[4]):
    t: f32[4, 8]
    t[0, 0] = x[0]
''', hi=1, lo=1)
T("mult:out-of-range", "mult_dim", [[B, 0]], '''
@proc
def p(x: f32[4], y: f32[4]):
    t: f32[4, 8]
    t[0, 0] = x[0]
''', hi=0, lo=2)
T("mult:1d", "mult_dim", [[B, 0]], '''
@proc
def p(x: f32[4], y: f32[4]):
    t: f32[4]
    t[0] = x[0]
''', hi=0, lo=1)
T("mult:unused", "mult_dim", [[B, 0]], '''
@proc
def p(x: f32[4], y: f32[4]):
    t: f32[4, 8]
    y[0] = x[0]
''', hi=0, lo=1)
T("mult:window-stmt", "mult_dim", [[B, 0]], '''
@proc
def p(x: f32[4], y: f32[4]):
    t: f32[4, 8]
    t[0, 0] = x[0]
    w = t[0, 0:8]
    y[0] = w[0]
''', hi=0, lo=1)
T("mult:whole-call-arg", "mult_dim", [[B, 0]], '''
@proc
def cp(dst: f32[4, 8], src: f32[4]):
    for i in seq(0, 4):
        dst[i, 0] = src[i]
@proc
def p(x: f32[4], y: f32[4]):
    t: f32[4, 8]
    cp(t, x)
    y[0] = t[0, 0]
''', hi=0, lo=1)
T("mult:stride-untouched", "mult_dim", [[B, 0]], '''
@proc
def st(s: stride, dst: f32[4]):
    dst[0] = 1.0
@proc
def p(y: f32[4]):
    t: f32[8, 4]
    t[0, 0] = 1.0
    st(stride(t, 1), y)
''', hi=0, lo=1)

# ------------------------------------------------------------------ rearrange_dim
T("rearr:2d-swap", "rearrange_dim", [[B, 0]], '''
@proc
def p(n: size, x: f32[n], y: f32[n]):
    t: f32[n, 8]
    for i in seq(0, n):
        for j in seq(0, 8):
            t[i, j] = x[i]
    for i in seq(0, n):
        y[i] = t[i, 7] + t[i, 0]
''', perm=[1, 0])
T("rearr:2d-identity", "rearrange_dim", [[B, 0]], '''
@proc
def p(n: size, x: f32[n], y: f32[n]):
    t: f32[n, 8]
    for i in seq(0, n):
        for j in seq(0, 8):
            t[i, j] = x[i]
''', perm=[0, 1])
T("rearr:2d-equal-extents", "rearrange_dim", [[B, 0]], '''
@proc
def p(x: f32[4], y: f32[4]):
    t: f32[4, 4]
    for i in seq(0, 4):
        for j in seq(0, 4):
            t[i, j] = x[i]
    y[0] = t[1, 2]
''', perm=[1, 0])
T("rearr:3d-201", "rearrange_dim", [[B, 0]], '''
@proc
def p(n: size, x: f32[n], y: f32[n]):
    t: f32[4, n, 8]
    for a in seq(0, 4):
        for b in seq(0, n):
            for c in seq(0, 8):
                t[a, b, c] = x[b]
    y[0] = t[3, 0, 7]
''', perm=[2, 0, 1])
T("rearr:3d-120-in-loop-if-reduce", "rearrange_dim", [[B, 0], [B, 0]], '''
@proc
def p(n: size, k: index, x: f32[n], y: f32[n]):
    for i in seq(0, n):
        t: f32[2, n, 4]
        for c in seq(0, 4):
            t[0, i, c] = x[i]
            if c < k:
                t[1, i, c] = 0.0
                t[1, i, c] += t[0, i, c]
            else:
                t[1, i, 3 - c] = relu(t[0, i, c])
        y[i] = t[1, i, 0]
''', perm=[1, 2, 0])
T("rearr:1d", "rearrange_dim", [[B, 0]], '''
@proc
def p(x: f32[4], y: f32[4]):
    t: f32[4]
    t[0] = x[0]
    y[0] = t[0]
''', perm=[0])
T("rearr:stride", "rearrange_dim", [[B, 0]], '''
@proc
def st(s: stride, dst: f32[4]):
    dst[0] = 1.0
@proc
def p(y: f32[4]):
    t: f32[8, 4, 2]
    t[0, 0, 0] = 1.0
    st(stride(t, 0), y)
    st(stride(t, 1), y)
    st(stride(t, 2), y)
''', perm=[2, 0, 1])
T("rearr:window-stmt-stable", "rearrange_dim", [[B, 0]], '''
@proc
def p(x: f32[4], y: f32[4]):
    t: f32[4, 8]
    t[1, 2] = x[0]
    w = t[1, 0:8]
    y[0] = w[2]
''', perm=[1, 0])
T("rearr:window-stmt-3d-stable", "rearrange_dim", [[B, 0]], '''
@proc
def p(x: f32[4], y: f32[4]):
    t: f32[4, 8, 2]
    t[1, 2, 1] = x[0]
    w = t[0:4, 2, 0:2]
    y[0] = w[1, 1]
''', perm=[1, 0, 2])
T("rearr:window-stmt-unstable", "rearrange_dim", [[B, 0]], '''
@proc
def p(x: f32[4], y: f32[4]):
    t: f32[4, 8]
    t[1, 2] = x[0]
    w = t[0:4, 0:8]
    y[0] = w[1, 2]
''', perm=[1, 0])
T("rearr:window-call-arg", "rearrange_dim", [[B, 0]], '''
@proc
def cp(n: size, dst: [f32][n], src: [f32][n]):
    for i in seq(0, n):
        dst[i] = src[i]
@proc
def p(x: f32[8], y: f32[8]):
    t: f32[4, 8]
    cp(8, t[1, 0:8], x[0:8])
    y[0] = t[1, 0]
''', perm=[1, 0])
T("rearr:not-a-perm-dup", "rearrange_dim", [[B, 0]], '''
@proc
def p(x: f32[4], y: f32[4]):
    t: f32[4, 8]
    t[1, 2] = x[0]
''', perm=[0, 0])
T("rearr:not-a-perm-short", "rearrange_dim", [[B, 0]], '''
@proc
def p(x: f32[4], y: f32[4]):
    t: f32[4, 8]
    t[1, 2] = x[0]
''', perm=[1])
T("rearr:scalar", "rearrange_dim", [[B, 0]], '''
@proc
def p(x: f32[4], y: f32[4]):
    t: f32
    t = x[0]
''', perm=[])

# ------------------------------------------------------------------ resize_dim
T("resize:1d-bigger", "resize_dim", [[B, 0]], '''
@proc
def p(x: f32[16], y: f32[16]):
    t: f32[16]
    for i in seq(0, 16):
        t[i] = x[i]
    y[0] = t[15]
''', dim=0, size="17", offset="0", fold=False)
T("resize:1d-offset", "resize_dim", [[B, 0]], '''
@proc
def p(x: f32[16], y: f32[16]):
    t: f32[16]
    for i in seq(0, 8):
        t[i + 2] = x[i]
    for i in seq(0, 8):
        y[i] = t[i + 2]
''', dim=0, size="8", offset="2", fold=False)
T("resize:sym-size-offset-in-loop", "resize_dim", [[B, 0], [B, 0]], '''
@proc
def p(n: size, x: f32[n], y: f32[n]):
    for i in seq(0, n):
        t: f32[n + 4]
        t[i] = x[i]
        t[i + 1] = x[i]
        t[i + 1] += t[i]
        y[i] = t[i + 1]
''', dim=0, size="2", offset="i", fold=False)
T("resize:2d-dim1-if", "resize_dim", [[B, 0]], '''
@proc
def p(n: size, k: index, x: f32[n], y: f32[n]):
    t: f32[n, 8]
    for i in seq(0, n):
        for j in seq(0, 4):
            if j < k:
                t[i, j + 1] = x[i]
            else:
                t[i, 4 - j] = relu(x[i])
    for i in seq(0, n):
        y[i] = t[i, 1]
''', dim=1, size="4", offset="1", fold=False)
T("resize:2d-dim0", "resize_dim", [[B, 0]], '''
@proc
def p(n: size, x: f32[n], y: f32[n]):
    t: f32[n + 1, 8]
    for i in seq(0, n):
        t[i + 1, 0] = x[i]
    for i in seq(0, n):
        y[i] = t[i + 1, 0]
''', dim=0, size="n", offset="1", fold=False)
T("resize:window-stmt", "resize_dim", [[B, 0]], '''
@proc
def p(x: f32[16], y: f32[16]):
    t: f32[16]
    for i in seq(0, 4):
        t[i + 2] = x[i]
    w = t[2:6]
    for i in seq(0, 4):
        y[i] = w[i]
''', dim=0, size="4", offset="2", fold=False)
T("resize:window-point-2d", "resize_dim", [[B, 0]], '''
@proc
def p(x: f32[16], y: f32[16]):
    t: f32[8, 4]
    for i in seq(0, 4):
        t[3, i] = x[i]
    w = t[3, 0:4]
    for i in seq(0, 4):
        y[i] = w[i]
''', dim=0, size="2", offset="2", fold=False)
T("resize:window-call-arg", "resize_dim", [[B, 0]], '''
@proc
def cp(n: size, dst: [f32][n], src: [f32][n]):
    for i in seq(0, n):
        dst[i] = src[i]
@proc
def p(x: f32[16], y: f32[16]):
    t: f32[16]
    cp(8, t[4:12], x[0:8])
    cp(8, y[0:8], t[4:12])
''', dim=0, size="8", offset="4", fold=False)
T("resize:whole-call-arg", "resize_dim", [[B, 0]], '''
@proc
def cp(n: size, dst: f32[n], src: f32[n]):
    for i in seq(0, n):
        dst[i] = src[i]
@proc
def p(x: f32[16], y: f32[16]):
    t: f32[16]
    cp(16, t, x)
    y[0] = t[0]
''', dim=0, size="17", offset="0", fold=False)
T("resize:out-of-bounds", "resize_dim", [[B, 0]], '''
@proc
def p(x: f32[16], y: f32[16]):
    t: f32[16]
    for i in seq(0, 16):
        t[i] = x[i]
''', dim=0, size="8", offset="0", fold=False)
T("resize:unused", "resize_dim", [[B, 0]], '''
@proc
def p(x: f32[16], y: f32[16]):
    t: f32[16, 4]
    y[0] = x[0]
''', dim=1, size="2", offset="7", fold=False, _noneg=True)
T("resize:stride-untouched", "resize_dim", [[B, 0]], '''
@proc
def st(s: stride, dst: f32[4]):
    dst[0] = 1.0
@proc
def p(y: f32[4]):
    t: f32[8, 4]
    t[0, 0] = 1.0
    st(stride(t, 0), y)
''', dim=1, size="2", offset="0", fold=False)
T("resize:dim-out-of-range", "resize_dim", [[B, 0]], '''
@proc
def p(x: f32[16], y: f32[16]):
    t: f32[16]
    t[0] = x[0]
''', dim=1, size="8", offset="0", fold=False)
T("resize:fold-true", "resize_dim", [[B, 0]], '''
@proc
def p(x: f32[16], y: f32[16]):
    t: f32[16]
    for i in seq(0, 16):
        t[i] = x[i]
        y[i] = t[i]
''', dim=0, size="2", offset="0", fold=True, _expect="nomodel")

# ------------------------------------------------------------------ unroll_buffer
T("unroll:1d", "unroll_buffer", [[B, 0]], '''
@proc
def p(x: f32[16], y: f32[16]):
    t: f32[3]
    t[0] = x[0]
    t[1] = x[1]
    t[2] = t[0] + t[1]
    y[0] = t[2]
''', dim=0)
T("unroll:2d-dim0-loops", "unroll_buffer", [[B, 1]], '''
@proc
def p(n: size, k: index, x: f32[n], y: f32[n]):
    y[0] = 0.0
    t: f32[2, n]
    for i in seq(0, n):
        t[0, i] = x[i]
        if i < k:
            t[1, i] = 0.0
            t[1, i] += t[0, i]
        else:
            t[1, n - 1 - i] = relu(t[0, i])
    for i in seq(0, n):
        y[i] = t[1, i]
''', dim=0)
T("unroll:2d-dim1", "unroll_buffer", [[B, 0]], '''
@proc
def p(x: f32[16], y: f32[16]):
    t: f32[16, 4]
    for i in seq(0, 16):
        t[i, 0] = x[i]
        t[i, 1] += t[i, 0]
    y[0] = t[9, 1] + t[1, 0]
    t[10, 2] = 1.0
''', dim=1)
T("unroll:set-order-9-1", "unroll_buffer", [[B, 0]], '''
@proc
def p(x: f32[16], y: f32[16]):
    t: f32[16]
    y[0] = x[0]
    t[9] = 1.0
    t[1] = 2.0
    y[0] = t[9] + t[1]
''', dim=0)
T("unroll:set-order-1-9", "unroll_buffer", [[B, 0]], '''
@proc
def p(x: f32[16], y: f32[16]):
    t: f32[16]
    t[1] = 2.0
    t[9] = 1.0
    y[0] = t[9] + t[1]
''', dim=0)
T("unroll:order-read-before-write", "unroll_buffer", [[B, 0]], '''
@proc
def p(x: f32[16], y: f32[16]):
    t: f32[16]
    t[9] = t[1]
''', dim=0)
T("unroll:order-assign-before-reduce", "unroll_buffer", [[B, 0]], '''
@proc
def p(x: f32[16], y: f32[16]):
    t: f32[16]
    for i in seq(0, 2):
        t[9] += 1.0
        t[1] = 0.0
        y[0] = t[3]
''', dim=0)
T("unroll:set-resize-40", "unroll_buffer", [[B, 0]], '''
@proc
def p(x: f32[16], y: f32[16]):
    t: f32[40]
    t[33] = 1.0
    t[1] = 1.0
    t[9] = 1.0
    t[17] = 1.0
    t[25] = 1.0
    t[2] = 1.0
    t[39] = 1.0
    t[8] = t[33] + t[0]
    y[0] = t[8]
''', dim=0)
T("unroll:unused-middle", "unroll_buffer", [[B, 1]], '''
@proc
def p(x: f32[16], y: f32[16]):
    y[0] = x[0]
    t: f32[4]
    y[1] = x[1]
''', dim=0)
T("unroll:unused-only-in-loop", "unroll_buffer", [[B, 1], [B, 0]], '''
@proc
def p(x: f32[16], y: f32[16]):
    y[0] = x[0]
    for i in seq(0, 4):
        t: f32[4]
''', dim=0)
T("unroll:unused-only-in-proc", "unroll_buffer", [[B, 0]], '''
@proc
def p(x: f32[16], y: f32[16]):
    t: f32[4]
''', dim=0)
T("unroll:window-point", "unroll_buffer", [[B, 0]], '''
@proc
def p(x: f32[16], y: f32[16]):
    t: f32[2, 8]
    t[1, 3] = x[0]
    w = t[1, 0:8]
    y[0] = w[3]
''', dim=0)
T("unroll:window-call-arg", "unroll_buffer", [[B, 0]], '''
@proc
def cp(n: size, dst: [f32][n], src: [f32][n]):
    for i in seq(0, n):
        dst[i] = src[i]
@proc
def p(x: f32[8], y: f32[8]):
    t: f32[2, 8]
    cp(8, t[1, 0:8], x[0:8])
    cp(8, y[0:8], t[1, 0:8])
''', dim=0)
T("unroll:window-interval", "unroll_buffer", [[B, 0]], '''
@proc
def p(x: f32[16], y: f32[16]):
    t: f32[2, 8]
    t[1, 3] = x[0]
    w = t[0:2, 3]
    y[0] = w[1]
''', dim=0)
T("unroll:nonliteral-access", "unroll_buffer", [[B, 0]], '''
@proc
def p(x: f32[16], y: f32[16]):
    t: f32[4]
    for i in seq(0, 4):
        t[i] = x[i]
''', dim=0)
T("unroll:symbolic-extent", "unroll_buffer", [[B, 0]], '''
@proc
def p(n: size, x: f32[n], y: f32[n]):
    t: f32[n]
    t[0] = x[0]
''', dim=0)
T("unroll:scalar", "unroll_buffer", [[B, 0]], '''
@proc
def p(x: f32[16], y: f32[16]):
    t: f32
    t = x[0]
''', dim=0)
T("unroll:whole-call-arg", "unroll_buffer", [[B, 0]], '''
@proc
def cp(n: size, dst: f32[n], src: f32[n]):
    for i in seq(0, n):
        dst[i] = src[i]
@proc
def p(x: f32[4], y: f32[4]):
    t: f32[4]
    cp(4, t, x)
    y[0] = t[0]
''', dim=0)
T("unroll:dim-out-of-range", "unroll_buffer", [[B, 0]], '''
@proc
def p(x: f32[16], y: f32[16]):
    t: f32[4]
    t[0] = x[0]
''', dim=1)
T("unroll:stride-untouched", "unroll_buffer", [[B, 0]], '''
@proc
def st(s: stride, dst: f32[4]):
    dst[0] = 1.0
@proc
def p(y: f32[4]):
    t: f32[2, 4]
    t[0, 0] = 1.0
    st(stride(t, 1), y)
''', dim=0)


DIM_OPS = ("divide_dim", "mult_dim", "rearrange_dim", "resize_dim", "unroll_buffer")


def kflag(op, args):
    """the (k, flag) convention of Rw.checkStorage (lean/ExoModel/RwCheckStorage.lean, header)"""
    if op == "lift_alloc":
        return int(args.get("n", 0)), False
    if op in ("divide_dim", "unroll_buffer"):
        return int(args["dim"]), False
    if op == "resize_dim":
        return int(args["dim"]), bool(args["fold"])
    if op == "mult_dim":
        return 16 * int(args["hi"]) + int(args["lo"]), False
    if op == "rearrange_dim":
        return sum(int(q) * 16 ** i for i, q in enumerate(args["perm"])), False
    return 0, False


def request(op, path, args, pj, pj2):
    k, flag = kflag(op, args)
    return {"op": "rwcheck_storage", "name": op, "path": path, "k": k,
            "flag": flag, "before": pj, "after": pj2}


def wrong_ks(op, args, k):
    """other values of k that must NOT be accepted for this attempt"""
    if op in ("divide_dim", "resize_dim", "unroll_buffer"):
        return [k + 1] + ([k - 1] if k > 0 else [])
    if op == "mult_dim":
        return [16 * int(args["lo"]) + int(args["hi"])]
    if op == "rearrange_dim":
        import itertools
        n = len(args["perm"])
        return [sum(q * 16 ** i for i, q in enumerate(pm)) for pm in itertools.permutations(range(n))
                if list(pm) != list(args["perm"])]
    return []


def type_checks(p2):
    """does the printed output go through the real front end again / does the real C back end accept it"""
    res = {}
    try:
        from exo.core.LoopIR import LoopIR  # noqa
        from exo.frontend.typecheck import TypeChecker  # noqa
    except Exception:
        pass
    try:
        c = p2.c_code_str()
        res["c_code_str"] = "ok"
        res["c"] = c
    except BaseException as e:
        res["c_code_str"] = f"{type(e).__name__}: {str(e)[:200]}"
    return res


NEG_FAIL = []


def run_hand(drv):
    n_match = n_mis = n_rej = 0
    only = [a.split("=", 1)[1] for a in sys.argv if a.startswith("--only=")]
    for name, src, op, path, args in TESTS:
        if only and not any(name.startswith(o) for o in only):
            continue
        args = dict(args)
        expectation = args.pop("_expect", None)
        noneg = args.pop("_noneg", False)
        try:
            mod = exo_build.build_module(src)
        except BaseException as e:
            print(f"[FRONT-END ] {name:36s} {type(e).__name__}: {str(e)[-160:]}")
            continue
        p = list(exo_build.procs_of(mod).values())[-1]
        att = {"op": op, "path": path, "args": args}
        try:
            p2 = stream.apply_attempt(p, att, {"callees": {}, "configs": {}})
        except stream.Rejected as r:
            n_rej += 1
            print(f"[REJECTED ] {name:36s} {r.cls}: {r.msg[:140]}")
            continue
        try:
            pj, _ = export_ir.export(p)
            pj2, _ = export_ir.export(p2)
        except BaseException as e:
            n_mis += 1
            print(f"[EXPORT-ERR] {name:36s} {type(e).__name__}: {str(e)[:160]}")
            continue
        out = json.loads(drv.ask(json.dumps(request(op, path, args, pj, pj2), separators=(",", ":"))))
        if expectation == "nomodel":
            good = out.get("match") is False and str(out.get("why", "")).startswith("no storage model")
            n_match += good
            n_mis += (not good)
            print(f"[{'no-model ok' if good else 'MISMATCH '}] {name:36s} {out}")
            continue
        ok = out.get("match") is True
        n_match += ok
        n_mis += (not ok)
        involution = op == "rearrange_dim" and [args["perm"][q] for q in args["perm"]] == list(range(len(args["perm"])))
        if ok and pj["body"] != pj2["body"] and not noneg:
            # negative controls: the unchanged input must NOT pass as the output; a wrong n_lifts must not pass
            neg = json.loads(drv.ask(json.dumps(request(op, path, args, pj, pj), separators=(",", ":"))))
            if neg.get("match") is not False:
                NEG_FAIL.append((name, "before-as-after accepted", neg))
            neg = json.loads(drv.ask(json.dumps(request(op, path, args, pj2, pj), separators=(",", ":"))))
            if neg.get("match") is not False and not involution:  # a self-inverse permutation undoes itself
                NEG_FAIL.append((name, "swapped accepted", neg))
            if op in DIM_OPS:
                k0, _ = kflag(op, args)
                for wk in wrong_ks(op, args, k0):
                    r2 = request(op, path, args, pj, pj2)
                    r2["k"] = wk
                    neg = json.loads(drv.ask(json.dumps(r2, separators=(",", ":"))))
                    if neg.get("match") is not False:
                        NEG_FAIL.append((name, f"k={wk} (instead of {k0}) accepted", neg))
            if op == "lift_alloc":
                for dk in (-1, 1):
                    r2 = request(op, path, args, pj, pj2)
                    r2["k"] += dk
                    neg = json.loads(drv.ask(json.dumps(r2, separators=(",", ":"))))
                    if neg.get("match") is not False:
                        NEG_FAIL.append((name, f"k{dk:+d} accepted", neg))
        print(f"[{'match    ' if ok else 'MISMATCH '}] {name:36s} {'' if ok else out}")
        if VERBOSE or not ok or name.startswith("sink:if-else"):
            print("  --- before\n" + "\n".join("    " + l for l in str(p).splitlines()))
            try:
                after_txt = str(p2)
            except BaseException as e:
                after_txt = f"<<str(output) raises {type(e).__name__}: {str(e)[:120]}>>"
            print("  --- after\n" + "\n".join("    " + l for l in after_txt.splitlines()))
        if name.startswith("sink:if-else"):
            print("    exported else branch:", json.dumps(locate_json(pj2["body"], path)[3]))
            tc = type_checks(p2)
            print("    c_code_str:", tc["c_code_str"])
            if "c" in tc:
                print("\n".join("      | " + l for l in tc["c"].splitlines() if l.strip()))
    print(f"negative controls failed: {len(NEG_FAIL)}", NEG_FAIL)
    print(f"hand tests: {n_match} match, {n_mis} mismatch, {n_rej} rejected by the real code")
    return n_mis


def locate_json(body, path):
    cur = None
    for k, i in path:
        blk = body if cur is None else (cur[4] if cur[0] == "for" else (cur[2] if k == "body" else cur[3]))
        cur = blk[i]
    return cur


def run_pool(drv):
    """the four ops over the attempts of the real stream on every pool program"""
    import pool
    from exo.core.configs import Config
    stats = {}
    mism = []
    for pname, src in pool.POOL.items():
        try:
            mod = exo_build.build_module(src)
        except BaseException as e:
            print("pool program rejected:", pname, type(e).__name__)
            continue
        procs = exo_build.procs_of(mod)
        names = list(procs)
        p = procs[names[-1]]
        env = {"callees": {k: procs[k] for k in names[:-1]},
               "configs": {k: v for k, v in vars(mod).items() if isinstance(v, Config)}}
        cfg_list = [(cn, fn, not export_ir.is_ctrl_type(cfg.lookup_type(fn)))
                    for cn, cfg in env["configs"].items() for (fn, _t) in cfg.fields()]
        for att in stream.attempts(p, callees=list(env["callees"]), configs=cfg_list):
            op = att["op"]
            if op not in ("lift_alloc", "sink_alloc", "delete_buffer", "delete_pass", "expand_dim", "bind_expr") + DIM_OPS:
                continue
            if "--dim-only" in sys.argv and op not in DIM_OPS:
                continue
            if op == "resize_dim" and att["args"].get("fold"):
                op = "resize_dim(fold)"
            try:
                p2 = stream.apply_attempt(p, att, env)
            except stream.Rejected as r:
                stats[(op, "rejected:" + r.cls)] = stats.get((op, "rejected:" + r.cls), 0) + 1
                continue
            try:
                pj, _ = export_ir.export(p)
                pj2, _ = export_ir.export(p2)
            except export_ir.ExportError:
                stats[(op, "export-error")] = stats.get((op, "export-error"), 0) + 1
                continue
            out = json.loads(drv.ask(json.dumps(request(att["op"], att["path"], att["args"], pj, pj2), separators=(",", ":"))))
            if op == "resize_dim(fold)":
                good = out.get("match") is False and str(out.get("why", "")).startswith("no storage model")
                lab = "no-model (as documented)" if good else "MISMATCH"
                stats[(op, lab)] = stats.get((op, lab), 0) + 1
                if not good:
                    mism.append((pname, att, out, str(p), str(p2)))
                continue
            ok = out.get("match") is True
            if ok and op in DIM_OPS and pj["body"] != pj2["body"]:
                neg = json.loads(drv.ask(json.dumps(request(att["op"], att["path"], att["args"], pj, pj), separators=(",", ":"))))
                if neg.get("match") is not False:
                    stats[(op, "NEG-CONTROL-FAILED")] = stats.get((op, "NEG-CONTROL-FAILED"), 0) + 1
                    print("POOL NEG-CONTROL (input accepted as output):", pname, att)
                    print(str(p))
                    print(str(p2))
            stats[(op, "match" if ok else "MISMATCH")] = stats.get((op, "match" if ok else "MISMATCH"), 0) + 1
            if not ok:
                try:
                    after_txt = str(p2)
                except BaseException as e:
                    after_txt = f"<<str(output) raises {type(e).__name__}>>"
                mism.append((pname, att, out, str(p), after_txt))
    for k in sorted(stats):
        print(f"pool: {k[0]:18s} {k[1]:40s} {stats[k]}")
    for pname, att, out, a, b in mism[:10]:
        print("POOL MISMATCH", pname, att, out)
        print(a)
        print(b)
    return len(mism)


if __name__ == "__main__":
    drv = common.LeanDriver("Drivers/C01Storage.lean")
    try:
        bad = run_hand(drv)
        if "--pool" in sys.argv:
            bad += run_pool(drv)
    finally:
        drv.close()
    sys.exit(1 if bad else 0)
