"""semantic probes of the dimension rewrites: before/after through the reference interpreter"""
import sys, random, json
sys.path.insert(0, "/verif/harness")
import common
common.import_exo()
import exo_build, export_ir, stream, interp
from exo.stdlib.scheduling import *

I = interp.Interp()

def build(src):
    mod = exo_build.build_module(src)
    return list(exo_build.procs_of(mod).values())[-1]

def probe(label, src, f, n=6):
    print("=" * 100); print(label)
    p = build(src)
    try:
        p2 = f(p)
    except BaseException as e:
        print("  REJECTED", type(e).__name__, str(e)[:200]); return
    print(p)
    try:
        print(p2)
    except BaseException as e:
        print("  str(after) raises", type(e).__name__)
    for nm, q in (("before", p), ("after", p2)):
        try:
            q.c_code_str(); print(f"  c_code_str({nm}): ok")
        except BaseException as e:
            print(f"  c_code_str({nm}): {type(e).__name__}: {str(e)[:160]}")
    try:
        pj, _ = export_ir.export(p); pj2, _ = export_ir.export(p2)
    except BaseException as e:
        print("  export error", type(e).__name__, e); return
    rng = random.Random(7)
    ins, res = I.gen_inputs(pj, {}, rng, n, small=True)
    res2 = I.run(pj2, ins)
    bad = 0
    for i, (ra, rb) in enumerate(zip(res, res2)):
        d = interp.compare(ra, rb)
        if d:
            bad += 1
            if bad <= 2:
                print("  DIFFERENCE on input", json.dumps(ins[i])[:300]); print("   ", d)
                print("    before:", json.dumps(ra)[:200]); print("    after :", json.dumps(rb)[:200])
    print(f"  interpreter: {len(ins)} inputs, {bad} differ; original results kinds: {sorted(set(list(r.keys())[0] for r in res))}")

ST1 = '''
@proc
def st(s: stride, dst: f32[4]):
    assert s == 1
    dst[0] = 1.0
'''
probe("divide_dim leaves stride(t,1) (old dim numbering)", ST1 + '''
@proc
def p(y: f32[4]):
    t: f32[8, 4]
    t[0, 0] = 1.0
    st(stride(t, 1), y)
''', lambda p: divide_dim(p, "t: _", 0, 4))
probe("mult_dim leaves stride(t,1) on a buffer that now has one dimension", ST1 + '''
@proc
def p(y: f32[4]):
    t: f32[8, 4]
    t[0, 0] = 1.0
    st(stride(t, 1), y)
''', lambda p: mult_dim(p, "t: _", 0, 1))
probe("unroll_buffer leaves stride(t,1) of the vanished buffer", ST1 + '''
@proc
def p(y: f32[4]):
    t: f32[2, 4]
    t[0, 0] = 1.0
    st(stride(t, 1), y)
''', lambda p: unroll_buffer(p, "t: _", 0))
probe("resize_dim changes the value of stride(t,0) asserted by the callee", '''
@proc
def st(s: stride, dst: f32[4]):
    assert s == 4
    dst[0] = 1.0
@proc
def p(y: f32[4]):
    t: f32[8, 4]
    t[0, 0] = 1.0
    st(stride(t, 0), y)
''', lambda p: resize_dim(p, "t: _", 1, "2", "0"))
WCALLEE = '''
@proc
def fill(dst: [f32][4]):
    assert stride(dst, 0) == 1
    for i in seq(0, 4):
        dst[i] = 2.0
'''
probe("rearrange_dim with a window ALIAS passed to a callee that asserts its stride", WCALLEE + '''
@proc
def p(y: f32[4]):
    t: f32[2, 4]
    w = t[1, 0:4]
    fill(w)
    for i in seq(0, 4):
        y[i] = t[1, i]
''', lambda p: rearrange_dim(p, "t: _", [1, 0]))
probe("resize_dim with a window passed to a callee that asserts stride(dst,0) == 8", '''
@proc
def fill2(dst: [f32][2, 4]):
    assert stride(dst, 0) == 8
    for i in seq(0, 2):
        for j in seq(0, 4):
            dst[i, j] = 2.0
@proc
def p(y: f32[4]):
    t: f32[2, 8]
    fill2(t[0:2, 0:4])
    for i in seq(0, 4):
        y[i] = t[1, i]
''', lambda p: resize_dim(p, "t: _", 1, "4", "0"))
probe("resize_dim with window statement, result accessed later", '''
@proc
def p(x: f32[16], y: f32[16]):
    t: f32[16]
    for i in seq(0, 16):
        t[i] = 0.0
    for i in seq(0, 4):
        t[i + 2] = x[i]
    w = t[2:6]
    for i in seq(0, 4):
        y[i] = w[i]
''', lambda p: resize_dim(p, "t: _", 0, "16", "0"))
probe("resize_dim shrinking with window statement", '''
@proc
def p(x: f32[16], y: f32[16]):
    t: f32[16]
    for i in seq(0, 4):
        t[i + 2] = x[i]
    w = t[2:6]
    for i in seq(0, 4):
        y[i] = w[i] + t[5 - i]
''', lambda p: resize_dim(p, "t: _", 0, "4", "2"))
probe("mult_dim hi=1 lo=0 (reversed)", '''
@proc
def p(x: f32[4, 8], y: f32[4, 8]):
    t: f32[4, 8]
    for i in seq(0, 4):
        for j in seq(0, 8):
            t[i, j] = x[i, j]
    for i in seq(0, 4):
        for j in seq(0, 8):
            y[i, j] = t[i, 7 - j]
''', lambda p: mult_dim(p, "t: _", 1, 0))
probe("mult_dim hi=2 lo=0 non adjacent reversed, 3d", '''
@proc
def p(x: f32[3, 2, 4], y: f32[3, 2, 4]):
    t: f32[3, 2, 4]
    for a in seq(0, 3):
        for b in seq(0, 2):
            for c in seq(0, 4):
                t[a, b, c] = x[a, b, c]
    for a in seq(0, 3):
        for b in seq(0, 2):
            for c in seq(0, 4):
                y[a, b, c] = t[2 - a, b, c]
''', lambda p: mult_dim(p, "t: _", 2, 0))
probe("mult_dim hi=0 lo=2 non adjacent", '''
@proc
def p(x: f32[3, 2, 4], y: f32[3, 2, 4]):
    t: f32[3, 2, 4]
    for a in seq(0, 3):
        for b in seq(0, 2):
            for c in seq(0, 4):
                t[a, b, c] = x[a, b, c]
    for a in seq(0, 3):
        for b in seq(0, 2):
            for c in seq(0, 4):
                y[a, b, c] = t[2 - a, b, c]
''', lambda p: mult_dim(p, "t: _", 0, 2))
probe("divide_dim under an assertion", '''
@proc
def p(n: size, x: f32[n], y: f32[n]):
    assert n % 2 == 0
    t: f32[n]
    for i in seq(0, n):
        t[i] = x[i]
    for i in seq(0, n):
        y[i] = t[n - 1 - i]
''', lambda p: divide_dim(p, "t: _", 0, 2))
probe("unroll_buffer, never accessed, only statement of a loop body", '''
@proc
def p(x: f32[4], y: f32[4]):
    y[0] = x[0]
    for i in seq(0, 4):
        t: f32[4]
''', lambda p: unroll_buffer(p, "t: _", 0))
probe("unroll_buffer accessed inside a loop", '''
@proc
def p(x: f32[4], y: f32[4]):
    t: f32[2, 4]
    for i in seq(0, 4):
        t[0, i] = x[i]
        t[1, i] = t[0, i] * 2.0
    for i in seq(0, 4):
        y[i] = t[1, 3 - i]
''', lambda p: unroll_buffer(p, "t: _", 0))
probe("rearrange_dim 3d with stable window alias used later", '''
@proc
def p(x: f32[4], y: f32[4]):
    t: f32[4, 3, 2]
    for a in seq(0, 4):
        for b in seq(0, 3):
            for c in seq(0, 2):
                t[a, b, c] = x[a]
    w = t[0:4, 2, 0:2]
    for a in seq(0, 4):
        y[a] = w[a, 1] + w[3 - a, 0]
''', lambda p: rearrange_dim(p, "t: _", [1, 0, 2]))
I.close()
