"""Real behaviour of `Block._delete` / `Node._replace` forwarding in the two cases that
Props/C06.lean leaves `_partial` (kernel-checked statements: lean/ExoModel/Props/C06Rest.lean).

run:  PYTHONPATH=/repo/src /venv/bin/python /verif/repro/c06rest/rest.py
proc: for i: [s2; s3; s4]
"""
from __future__ import annotations
from exo import proc
import exo.core.internal_cursors as ic
from exo.core.LoopIR import LoopIR


@proc
def p(x: f32[8]):
    for i in seq(0, 1):
        x[2] = 2.0
        x[3] = 3.0
        x[4] = 4.0


root = p._loopir_proc
loop = ic.Node(root, [("body", 0)])

print("== Block._delete of [s3; s4]")
blk = ic.Block(root, loop, "body", range(1, 3))
new_root, fwd = blk._delete()
print("new body:", [str(s).strip() for s in new_root.body[0].body])
for lo, hi in [(1, 3), (0, 1), (0, 3), (1, 2)]:
    b = ic.Block(root, loop, "body", range(lo, hi))
    try:
        r = fwd(b)
        print(f"block [{lo},{hi}) -> range [{r._range.start},{r._range.stop})  (empty: {len(r._range) == 0})")
    except Exception as e:
        print(f"block [{lo},{hi}) -> {type(e).__name__}")

print("== Node._replace of s3 (single node)")
s3 = ic.Node(root, [("body", 0), ("body", 1)])
new_stmt = root.body[0].body[1].update(rhs=LoopIR.Const(9.0, root.body[0].body[1].rhs.type, root.body[0].body[1].srcinfo))
new_root2, fwd2 = s3._replace(new_stmt)
print("new body:", [str(s).strip() for s in new_root2.body[0].body])
for j in range(3):
    n = ic.Node(root, [("body", 0), ("body", j)])
    r = fwd2(n)
    print(f"node s{j + 2} {str(n._node).strip()!r} -> path {r._path} = {str(r._node).strip()!r}")
