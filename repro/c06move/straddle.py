"""Real behaviour of `_forward_move` on block cursors that straddle the moved range / the target gap
(the kernel-checked model statements are in lean/ExoModel/Props/C06Move.lean).

run:  PYTHONPATH=/repo/src /venv/bin/python /verif/repro/c06move/straddle.py
proc: for i: [s2; s3; s4; s5; s6]   — move the block [s3; s4] after s5 (the loop body list)
"""
from __future__ import annotations
from exo import proc
import exo.core.internal_cursors as ic


@proc
def p(x: f32[8]):
    for i in seq(0, 1):
        x[2] = 2.0
        x[3] = 3.0
        x[4] = 4.0
        x[5] = 5.0
        x[6] = 6.0


root = p._loopir_proc
loop = ic.Node(root, [("body", 0)])
blk = ic.Block(root, loop, "body", range(1, 3))
gap = ic.Gap(root, ic.Node(root, [("body", 0), ("body", 3)]), ic.GapType.After)
new_root, fwd = blk._move(gap)
print("new body:", [str(s).strip() for s in new_root.body[0].body])


def show(lo, hi):
    b = ic.Block(root, loop, "body", range(lo, hi))
    old = [str(s).strip() for s in root.body[0].body[lo:hi]]
    try:
        r = fwd(b)
        new = [str(s).strip() for s in new_root.body[0].body[r._range.start:r._range.stop]]
        print(f"block [{lo},{hi}) {old}  ->  [{r._range.start},{r._range.stop}) {new}")
    except Exception as e:
        print(f"block [{lo},{hi}) {old}  ->  {type(e).__name__}: {str(e)[:80]}")


print("-- non-straddling (theorem move_block_same_list applies)")
for lo, hi in [(1, 3), (1, 2), (4, 5), (0, 1), (3, 4)]:
    show(lo, hi)
print("-- straddling")
for lo, hi in [(0, 2), (0, 4), (1, 4), (3, 5), (0, 5)]:
    show(lo, hi)
