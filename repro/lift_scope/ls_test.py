from __future__ import annotations
from exo import proc, config
from exo.stdlib.scheduling import lift_scope

@config
class CfgL:
    x: index

# (a) if-in-if, then position, inner without else, outer with else
@proc
def pa(a: bool, b: bool, y: f32[2]):
    if a:
        if b:
            y[0] = 1.0
    else:
        y[1] = 2.0

# (b) if-in-if, else position, inner without else
@proc
def pb(a: bool, b: bool, y: f32[2]):
    if a:
        y[0] = 1.0
    else:
        if b:
            y[1] = 2.0

# (c) for-in-if, bounds not ordered when the guard is false / guard reads config written by body
@proc
def pc(n: size, y: f32[8]):
    if n > 2:
        for i in seq(2, n):
            y[0] += 1.0

@proc
def pc2(n: size, y: f32[8]):
    if CfgL.x == 0:
        for i in seq(0, n):
            CfgL.x = 1
            y[0] += 1.0

# (d) if-in-for, guard reads config written by body
@proc
def pd(n: size, y: f32[8]):
    for i in seq(0, n):
        if CfgL.x == 0:
            CfgL.x = 1
            y[0] += 1.0

def tryit(p, pat):
    try:
        q = lift_scope(p, pat)
        print("ACCEPTED", p.name()); print(q)
    except Exception as e:
        print("REJECTED", p.name(), type(e).__name__, str(e)[:200])

tryit(pa, "if b: _")
tryit(pb, "if b: _")
tryit(pc, "for i in _: _")
tryit(pc2, "for i in _: _")
tryit(pd, "if CfgL.x == 0: _")

# ---- execute before/after in the Lean reference interpreter (harness) ----
import sys, json
sys.path.insert(0, "/verif/harness")
import export_ir, interp
I = interp.Interp()
def run(p, inp):
    pj, cfgs = export_ir.export(p)
    return I.run(pj, [inp])[0]
def show(tag, p, q, inp):
    print(tag, "before:", json.dumps(run(p, inp))[:200])
    print(tag, "after :", json.dumps(run(q, inp))[:200])
R = interp.rat
y2 = {"v": {"buf": 0, "off": 0, "dims": [[2, 1]]}}
y8 = {"v": {"buf": 0, "off": 0, "dims": [[8, 1]]}}
h2 = [[R(0), R(0)]]
h8 = [[R(0)] * 8]
show("(a) a=F b=F", pa, lift_scope(pa, "if b: _"), {"args": [{"c": 0}, {"c": 0}, y2], "heap": h2, "cfg": []})
show("(b) a=T b=F", pb, lift_scope(pb, "if b: _"), {"args": [{"c": 1}, {"c": 0}, y2], "heap": h2, "cfg": []})
show("(c) n=1", pc, lift_scope(pc, "for i in _: _"), {"args": [{"c": 1}, y8], "heap": h8, "cfg": []})
show("(c2) n=3 x=0", pc2, lift_scope(pc2, "for i in _: _"), {"args": [{"c": 3}, y8], "heap": h8, "cfg": [["CfgL", "x", "c", 0]]})
show("(d) n=3 x=0", pd, lift_scope(pd, "if CfgL.x == 0: _"), {"args": [{"c": 3}, y8], "heap": h8, "cfg": [["CfgL", "x", "c", 0]]})
I.close()
