from __future__ import annotations
import sys
sys.argv=['x']
import io, contextlib
buf = io.StringIO()
with contextlib.redirect_stdout(buf):
    import m5
from m5 import *
from exo.core.LoopIR import LoopIR, T

def find_in_e(e, sym, path, out):
    if isinstance(e, LoopIR.Read):
        if e.name == sym: out.append(path + " Read")
        for k, x in enumerate(e.idx): find_in_e(x, sym, path + f".idx[{k}]", out)
    elif isinstance(e, LoopIR.BinOp):
        find_in_e(e.lhs, sym, path, out); find_in_e(e.rhs, sym, path, out)
    elif isinstance(e, LoopIR.USub):
        find_in_e(e.arg, sym, path, out)
    elif isinstance(e, LoopIR.WindowExpr):
        for k, w in enumerate(e.idx): find_in_w(w, sym, path + f".widx[{k}]", out)
    elif isinstance(e, LoopIR.Extern):
        for x in e.args: find_in_e(x, sym, path, out)
    if hasattr(e, "type"): find_in_t(e.type, sym, path + f"<{type(e).__name__}.type>", out)
def find_in_w(w, sym, path, out):
    if isinstance(w, LoopIR.Interval):
        find_in_e(w.lo, sym, path+".lo", out); find_in_e(w.hi, sym, path+".hi", out)
    else: find_in_e(w.pt, sym, path+".pt", out)
def find_in_t(t, sym, path, out):
    if isinstance(t, T.Tensor):
        for k, h in enumerate(t.hi): find_in_e(h, sym, path + f".Tensor.hi[{k}]", out)
    elif isinstance(t, T.Window):
        find_in_t(t.src_type, sym, path + ".Window.src_type", out)
        find_in_t(t.as_tensor, sym, path + ".Window.as_tensor", out)
        for k, w in enumerate(t.idx): find_in_w(w, sym, path + f".Window.idx[{k}]", out)
def find_in_s(s, sym, out):
    nm = f"{type(s).__name__}@{str(s).splitlines()[0][:40]!r}"
    if isinstance(s, (LoopIR.Assign, LoopIR.Reduce)):
        for k, x in enumerate(s.idx): find_in_e(x, sym, nm + f".idx[{k}]", out)
        find_in_e(s.rhs, sym, nm + ".rhs", out); find_in_t(s.type, sym, nm + ".type", out)
    elif isinstance(s, LoopIR.WindowStmt): find_in_e(s.rhs, sym, nm + ".rhs", out)
    elif isinstance(s, LoopIR.Alloc): find_in_t(s.type, sym, nm + ".type", out)
    elif isinstance(s, LoopIR.Call):
        for k, x in enumerate(s.args): find_in_e(x, sym, nm + f".args[{k}]", out)
    elif isinstance(s, LoopIR.If):
        find_in_e(s.cond, sym, nm + ".cond", out)
        for b in s.body + s.orelse: find_in_s(b, sym, out)
    elif isinstance(s, LoopIR.For):
        find_in_e(s.lo, sym, nm + ".lo", out); find_in_e(s.hi, sym, nm + ".hi", out)
        for b in s.body: find_in_s(b, sym, out)

def report(tag, p, orig, names):
    print("##", tag)
    for n in names:
        old = [s for s in [orig._loopir_proc.body[0]] ][0]
    olds = []
    def collect(s):
        if isinstance(s, LoopIR.For):
            if s.iter.name() in names: olds.append(s.iter)
            for b in s.body: collect(b)
    for s in orig._loopir_proc.body: collect(s)
    for sym in olds:
        out = []
        for s in p._loopir_proc.body: find_in_s(s, sym, out)
        print("  stale occurrences of", repr(sym), ":", len(out))
        for o in out: print("     ", o)

report("divide_loop guard", divide_loop(big2, big2.find_loop("i"), 4, ["io","ii"], tail="guard"), big2, ["i"])
report("divide_loop cut", divide_loop(big2, big2.find_loop("i"), 4, ["io","ii"], tail="cut"), big2, ["i"])
report("mult_loops", mult_loops(nest, nest.find_loop("i"), "ij"), nest, ["i","j"])
