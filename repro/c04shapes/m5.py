from __future__ import annotations
from exo import proc, config
from exo.stdlib.scheduling import *
from exo.core.LoopIR import LoopIR, T
from util import show

@config
class CFG:
    v: index

@proc
def callee(n: size, x: [f32][n]):
    for k in seq(0, n):
        x[k] = 0.0

@proc
def big(a: f32[64], n: size):
    assert n <= 8
    for i in seq(0, 8):
        tmp: f32[i + 1]
        tmp[0] = 1.0
        w = a[i:i + 2]
        w[0] = tmp[0]
        callee(i + 1, a[i:2 * i + 1])
        for j in seq(i, i + 2):
            a[j] = 2.0
        if i < 3:
            a[i] = 3.0
        x: f32
        x = 0.0

@proc
def big2(a: f32[64], n: size):
    assert n <= 8
    for i in seq(0, n):
        tmp: f32[i + 1]
        tmp[0] = 1.0
        w = a[i:i + 2]
        w[0] = tmp[0]
        callee(i + 1, a[i:2 * i + 1])
        for j in seq(i, i + 2):
            a[j] = 2.0
        if i < 3:
            a[i] = 3.0
        x: f32
        x = 0.0

@proc
def nest(a: f32[64]):
    for i in seq(0, 4):
        for j in seq(0, 4):
            tmp: f32[i + j + 1]
            tmp[0] = 1.0
            w = a[4 * i + j:4 * i + j + 2]
            w[0] = tmp[0]
            callee(j + 1, a[i:i + j + 1])
            for k in seq(i, j + 4):
                a[k] = 2.0
            if i < j:
                a[i] = 3.0

# generic scan for leftover syms
from exo.core.LoopIR import LoopIR_Do
class Scan(LoopIR_Do):
    def __init__(self, stmts):
        self.uses=set(); self.binds=[]
        self.do_stmts(stmts)
    def do_s(self, s):
        if isinstance(s, LoopIR.For): self.binds.append(s.iter)
        if isinstance(s, (LoopIR.Alloc, LoopIR.WindowStmt)): self.binds.append(s.name)
        if isinstance(s, (LoopIR.Assign, LoopIR.Reduce)): self.uses.add(s.name)
        super().do_s(s)
    def do_e(self, e):
        if hasattr(e, "name"): self.uses.add(e.name)
        super().do_e(e)
def scan(p, old):
    if p is None: return
    sc = Scan(p._loopir_proc.body)
    args = {a.name for a in p._loopir_proc.args}
    unbound = {repr(u) for u in sc.uses if u not in sc.binds and u not in args}
    dups = {repr(b) for b in sc.binds if sc.binds.count(b) > 1}
    print("   >> uses with no binder anywhere (incl. inside types):", unbound or "none", "| Syms bound more than once:", dups or "none")

def it(p, nm): return p.find_loop(nm)

for tail in ["guard", "cut", "cut_and_guard"]:
    scan(show(f"H6 divide_loop tail={tail}", lambda: divide_loop(big2, it(big2,"i"), 4, ["io","ii"], tail=tail)), "i")
scan(show("H6 divide_loop perfect", lambda: divide_loop(big, it(big,"i"), 4, ["io","ii"], perfect=True)), "i")
scan(show("H6 shift_loop", lambda: shift_loop(big2, it(big2,"i"), 3)), "i")
scan(show("H6 mult_loops", lambda: mult_loops(nest, it(nest,"i"), "ij")), "i")
scan(show("H6 unroll_loop", lambda: unroll_loop(divide_loop(big, it(big,"i"), 4, ["io","ii"], perfect=True), "ii")), "ii")
