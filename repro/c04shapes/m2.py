from __future__ import annotations
from exo import proc
from exo.stdlib.scheduling import *
from util import show

# ---- H2
@proc
def rl_a(a: f32[8]):
    for i in seq(0, 4):
        w = a[i:i+2]
        w[0] = 1.0

@proc
def rl_b(a: f32[8]):
    for i in seq(0, 4):
        t: f32[i + 1]
        t[0] = 1.0
        a[0] = t[0]

@proc
def rl_c(a: f32[8]):
    for i in seq(0, 4):
        t: f32
        t = 1.0
        a[0] = t
    for j in seq(0, 4):
        a[j] = 2.0

show("H2a remove_loop iter only in window expr", lambda: remove_loop(rl_a, rl_a.find_loop("i")))
show("H2a remove_loop iter only in alloc extent", lambda: remove_loop(rl_b, rl_b.find_loop("i")))
show("H2b remove_loop body alloc moves to enclosing block", lambda: remove_loop(rl_c, rl_c.find_loop("i")))

# ---- H3
@proc
def edc(a: f32[8]):
    if 1 < 2:
        t: f32
        t = 1.0
        a[0] = t
    else:
        a[1] = 0.0
    a[2] = 3.0

@proc
def edc2(a: f32[8]):
    if 2 < 1:
        a[1] = 0.0
    a[2] = 3.0

show("H3 eliminate_dead_code keep then-branch", lambda: eliminate_dead_code(edc, edc.find("if _: _")))
show("H3 eliminate_dead_code false cond, no else", lambda: eliminate_dead_code(edc2, edc2.find("if _: _")))
