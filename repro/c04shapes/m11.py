from __future__ import annotations
import io, contextlib
with contextlib.redirect_stdout(io.StringIO()):
    from m10 import d1, p, cee2
from exo.stdlib.scheduling import *
from util import show
import traceback
show("control: stage_mem on window w BEFORE divide_loop", lambda: stage_mem(d1, d1.find("cee2(_) #1"), "w[0:i+1, 0:1]", "ws"))
try:
    stage_mem(p, p.find("cee2(_) #1"), "w[0:4*io+ii+1, 0:1]", "ws")
except Exception:
    traceback.print_exc(limit=-4)
