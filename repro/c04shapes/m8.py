from __future__ import annotations
import io, contextlib
with contextlib.redirect_stdout(io.StringIO()):
    from m5 import scan, callee
from exo import proc
from exo.stdlib.scheduling import *
from util import show

@proc
def sp_alloc(a: f32[8], n: size):
    x: f32
    x = 1.0
    a[0] = x

@proc
def sp_alloc_win(a: f32[8], n: size):
    x: f32[4]
    w = x[0:2]
    w[0] = 1.0

@proc
def sp_win(a: f32[8], n: size):
    w = a[0:4]
    w[0] = 1.0

@proc
def sp_in(a: f32[8], n: size):
    x: f32
    x = 1.0
    w = a[0:4]
    w[0] = x
    for i in seq(0, 4):
        a[i] = 2.0

show("H9 specialize alloc used later", lambda: specialize(sp_alloc, sp_alloc.find("x : _"), "n > 2"))
show("H9 specialize alloc used later only via window", lambda: specialize(sp_alloc_win, sp_alloc_win.find("x : _"), "n > 2"))
show("H9 specialize window used later", lambda: specialize(sp_win, sp_win.find("w = _"), "n > 2"))
scan(show("H9/H10 specialize whole block (defs inside)", lambda: specialize(sp_in, sp_in.body(), ["n > 2", "n > 1"])), None)

@proc
def jl(a: f32[16], n: size):
    assert n <= 8
    for i in seq(0, n):
        t: f32[i + 1]
        t[0] = 1.0
        w = a[i:i + 2]
        w[0] = t[0]
    for i in seq(n, 2 * n):
        t: f32[i + 1]
        t[0] = 1.0
        w = a[i:i + 2]
        w[0] = t[0]

scan(show("H9 join_loops", lambda: join_loops(jl, jl.find_loop("i #0"), jl.find_loop("i #1"))), None)

@proc
def cl(a: f32[16], n: size):
    assert n <= 8
    assert n >= 2
    for i in seq(0, n):
        t: f32[i + 1]
        t[0] = 1.0
        w = a[i:i + 2]
        w[0] = t[0]
        for k in seq(i, i + 2):
            a[k] = 3.0

scan(show("H9/H10 cut_loop", lambda: cut_loop(cl, cl.find_loop("i"), 2)), None)

# lift_scope if-in-if duplicates outer else block
@proc
def ls(a: f32[16], n: size, m: size):
    if n > 2:
        if m > 2:
            a[0] = 1.0
        else:
            a[1] = 1.0
    else:
        t: f32
        t = 2.0
        for k in seq(0, 2):
            a[k] = t

scan(show("H10 lift_scope if/if duplicates outer else", lambda: lift_scope(ls, ls.find("if m > 2: _"))), None)

@proc
def lsf(a: f32[16], n: size, m: size):
    for i in seq(0, 4):
        if m > 2:
            t: f32
            t = 1.0
            a[i] = t
        else:
            a[i] = 1.0
scan(show("H10 lift_scope for/if duplicates loop header", lambda: lift_scope(lsf, lsf.find("if m > 2: _"))), None)
