from __future__ import annotations
import io, contextlib
with contextlib.redirect_stdout(io.StringIO()):
    from m5 import scan, callee
from exo import proc
from exo.stdlib.scheduling import *
from util import show
import util

@proc
def cee2(n: size, m: size, x: [f32][n, m]):
    for k in seq(0, n):
        x[k, 0] = 0.0

@proc
def d1(a: f32[64]):
    for i in seq(0, 8):
        tmp: f32[i + 1, 2]
        cee2(i + 1, 2, tmp)
        w = tmp[0:i + 1, 0:1]
        cee2(i + 1, 1, w)
        a[i] = tmp[0, 0]

util.VERBOSE = True
p = show("H6 divide_loop: whole-buffer call arg typed by i-dependent extent", lambda: divide_loop(d1, d1.find_loop("i"), 4, ["io","ii"], perfect=True))
scan(p, None)
util.VERBOSE = False
p2 = show("   then simplify", lambda: simplify(p))
p3 = show("   then inline the call", lambda: inline(p, p.find("cee2(_) #0")))
p4 = show("   then inline_window", lambda: inline_window(p, p.find("w = _")))
p5 = show("   then stage_mem on window w", lambda: stage_mem(p, p.find("cee2(_) #1"), "w[0:4*io+ii+1, 0:1]", "ws"))
