# run: PYTHONPATH=/repo/src /venv/bin/python repro_all.py
from __future__ import annotations
from exo import proc
from exo.stdlib.scheduling import *

def show(tag, thunk):
    try:
        p = thunk()
    except Exception as e:
        print(f"## {tag}: REJECTED ({type(e).__name__})"); return
    print(f"## {tag}: ACCEPTED\n{p}")
    try:
        p.c_code_str(); print("   c_code_str: ok")
    except Exception as e:
        print(f"   c_code_str: {type(e).__name__} {str(e)[:60]}")

@proc
def f_win(a: f32[8]):
    for i in seq(0, 4):
        w = a[i:i+1]
        w[0] = 1.0
@proc
def f_if_win(a: f32[8], n: size):
    if n > 2:
        w = a[0:4]
        w[0] = 1.0
@proc
def f_if_alloc_win(a: f32[8], n: size):
    if n > 2:
        x: f32[4]
        w = x[0:2]
        w[0] = 1.0
@proc
def f_if_alloc_red(a: f32[8], n: size):
    if n > 2:
        x: f32
        x += 1.0
@proc
def al_alloc(y: f32[4]):
    x: f32
    x = 1.0
    y[0] = x
@proc
def r_win(a: f32[8]):
    w = a[0:4]
    w[0] = 1.0
@proc
def r_alloc_win(a: f32[8]):
    x: f32[4]
    w = x[0:2]
    w[0] = 1.0
@proc
def s_win(a: f32[8], n: size):
    w = a[0:4]
    w[0] = 1.0

show("fission: window defined in first part (for)", lambda: fission(f_win, f_win.find("w = _").after()))
show("fission: window defined in first part (if)", lambda: fission(f_if_win, f_if_win.find("w = _").after()))
show("autofission: window defined in first part (for)", lambda: autofission(f_win, f_win.find("w = _").after()))
show("fission: alloc used only through a window (if)", lambda: fission(f_if_alloc_win, f_if_alloc_win.find("x : _").after()))
show("fission: alloc used by a top-level reduce (if)", lambda: fission(f_if_alloc_red, f_if_alloc_red.find("x : _").after()))
show("add_loop on an allocation", lambda: add_loop(al_alloc, al_alloc.find("x : _"), "k", "4"))
show("reorder_stmts: window moved after its use", lambda: reorder_stmts(r_win, r_win.find("w = _").expand(0, 1)))
show("reorder_stmts: alloc moved after a window over it", lambda: reorder_stmts(r_alloc_win, r_alloc_win.find("x : _").expand(0, 1)))
show("specialize on a window statement", lambda: specialize(s_win, s_win.find("w = _"), "n > 2"))
