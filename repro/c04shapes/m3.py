from __future__ import annotations
from exo import proc
from exo.stdlib.scheduling import *
from util import show

@proc
def f_win(a: f32[8]):
    for i in seq(0, 4):
        w = a[i:i+1]
        w[0] = 1.0

@proc
def f_alloc(a: f32[8]):
    for i in seq(0, 4):
        x: f32
        x = 1.0
        a[i] = x

@proc
def f_alloc_win(a: f32[8]):
    for i in seq(0, 4):
        x: f32[4]
        w = x[0:2]
        w[0] = 1.0

@proc
def f_alloc_red(a: f32[8]):
    for i in seq(0, 4):
        x: f32
        x += 1.0

@proc
def f_if_win(a: f32[8], n: size):
    if n > 2:
        w = a[0:4]
        w[0] = 1.0

@proc
def f_ok(a: f32[8], b: f32[8]):
    for i in seq(0, 4):
        a[i] = 1.0
        b[i] = 2.0

for nm, fn in [("fission", fission), ("autofission", autofission)]:
    show(f"H4 {nm} after window stmt (for)", lambda: fn(f_win, f_win.find("w = _").after()))
    show(f"H4 {nm} after alloc (for), use by assign", lambda: fn(f_alloc, f_alloc.find("x : _").after()))
    show(f"H4 {nm} after alloc (for), later use only via window of x", lambda: fn(f_alloc_win, f_alloc_win.find("x : _").after()))
    show(f"H4 {nm} after alloc (for), later use is top-level reduce", lambda: fn(f_alloc_red, f_alloc_red.find("x : _").after()))
    show(f"H4 {nm} after window stmt (if)", lambda: fn(f_if_win, f_if_win.find("w = _").after()))
p = show("H4 fission ok: same iter sym in both loops?", lambda: fission(f_ok, f_ok.find("a[_] = _").after()))
if p is not None:
    l = p._loopir_proc.body
    print("iters:", repr(l[0].iter), repr(l[1].iter), "same Sym:", l[0].iter == l[1].iter)
p = show("H4 autofission ok: same iter sym in both loops?", lambda: autofission(f_ok, f_ok.find("a[_] = _").after()))
if p is not None:
    l = p._loopir_proc.body
    print("iters:", repr(l[0].iter), repr(l[1].iter), "same Sym:", l[0].iter == l[1].iter)
