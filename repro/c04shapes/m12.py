from __future__ import annotations
from exo import proc
from exo.stdlib.scheduling import *
from util import show
import exo; print("exo from", exo.__file__)

@proc
def d(a: f32[64]):
    for i in seq(0, 8):
        tmp: f32[i + 1]
        tmp[0] = 1.0
        a[i] = tmp[0]
@proc
def d2(a: f32[64]):
    for i in seq(0, 4):
        for j in seq(0, 2):
            tmp: f32[i + j + 1]
            tmp[0] = 1.0
            a[i] = tmp[0]
@proc
def d3(a: f32[64]):
    for i in seq(0, 8):
        a[i] = 0.0
    for j in seq(0, 8):
        tmp: f32[j + 1]
        tmp[0] = 1.0
        a[j] = tmp[0]
show("divide_loop", lambda: divide_loop(d, d.find_loop("i"), 4, ["io","ii"], perfect=True))
show("shift_loop", lambda: shift_loop(d, d.find_loop("i"), 2))
show("mult_loops", lambda: mult_loops(d2, d2.find_loop("i"), "ij"))
show("unroll_loop", lambda: unroll_loop(d2, d2.find_loop("j")))
show("fuse", lambda: fuse(d3, d3.find_loop("i"), d3.find_loop("j")))
