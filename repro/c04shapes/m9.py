from __future__ import annotations
from exo import proc
from exo.stdlib.scheduling import *
import traceback

@proc
def ls(a: f32[16], n: size, m: size):
    if n > 2:
        if m > 2:
            a[0] = 1.0
        else:
            a[1] = 1.0
    else:
        t: f32
        t = 2.0
        for k in seq(0, 2):
            a[k] = t

p = lift_scope(ls, ls.find("if m > 2: _"))
try:
    p.c_code_str()
except Exception:
    traceback.print_exc()
@proc
def ls2(a: f32[16], n: size, m: size):
    if n > 2:
        if m > 2:
            a[0] = 1.0
        else:
            a[1] = 1.0
    else:
        for k in seq(0, 2):
            a[k] = 2.0
p = lift_scope(ls2, ls2.find("if m > 2: _"))
try:
    p.c_code_str(); print("ls2 (only loop duplicated) compiles OK")
except Exception:
    traceback.print_exc()
