import traceback, sys
VERBOSE=False
def show(tag, thunk):
    print("=" * 70)
    print("##", tag)
    try:
        p = thunk()
    except Exception as e:
        print("REJECTED/RAISED:", type(e).__name__, str(e).strip().splitlines()[-1][:300] if str(e).strip() else "")
        return None
    print("ACCEPTED. result:")
    try:
        print(p)
    except Exception as e:
        print("str() RAISED:", type(e).__name__, str(e)[:300])
    try:
        c = p.c_code_str()
        print("-- c_code_str OK:")
        body = c[c.find("void "):]
        print(body if VERBOSE else "(omitted)")
    except Exception as e:
        print("-- c_code_str RAISED:", type(e).__name__, str(e).strip()[:400])
    return p
