from __future__ import annotations
from exo import proc
from exo.stdlib.scheduling import *
from util import show

@proc
def al_alloc(y: f32[4]):
    x: f32
    x = 1.0
    y[0] = x

@proc
def al_win(a: f32[8]):
    w = a[0:4]
    w[0] = 1.0

@proc
def al_win2(a: f32[8], y: f32[4]):
    w = a[0:4]
    y[0] = w[1]

show("H1 add_loop on alloc", lambda: add_loop(al_alloc, al_alloc.find("x : _"), "k", "4"))
show("H1 add_loop on alloc guard", lambda: add_loop(al_alloc, al_alloc.find("x : _"), "k", "4", guard=True))
show("H1 add_loop on window stmt", lambda: add_loop(al_win, al_win.find("w = _"), "k", "4"))
show("H1 add_loop on window stmt guard", lambda: add_loop(al_win, al_win.find("w = _"), "k", "4", guard=True))
show("H1 add_loop on window stmt (read use)", lambda: add_loop(al_win2, al_win2.find("w = _"), "k", "4"))
