from __future__ import annotations
import io, contextlib
with contextlib.redirect_stdout(io.StringIO()):
    from m5 import scan, callee
from exo import proc
from exo.stdlib.scheduling import *
from util import show

# ---- H5 fuse
@proc
def fu(a: f32[16], b: f32[16]):
    for i in seq(0, 8):
        t: f32
        t = 1.0
        a[i] = t
    for j in seq(0, 8):
        t: f32[j + 1]
        t[0] = 2.0
        w = b[j:j + 2]
        w[0] = t[0]
        for k in seq(j, j + 2):
            b[k] = 3.0
        if j < 3:
            b[j] = 4.0

@proc
def fuif(a: f32[16], n: size):
    if n > 2:
        t: f32
        t = 1.0
        a[0] = t
    else:
        a[1] = 0.0
    if n > 2:
        t: f32
        t = 2.0
        a[2] = t
    else:
        a[3] = 0.0

scan(show("H5 fuse loops", lambda: fuse(fu, fu.find_loop("i"), fu.find_loop("j"))), None)
scan(show("H5 fuse ifs", lambda: fuse(fuif, fuif.find("if _: _ #0"), fuif.find("if _: _ #1"))), None)

# ---- H8 reorder_stmts
@proc
def rs_win(a: f32[8]):
    w = a[0:4]
    w[0] = 1.0

@proc
def rs_win_rd(a: f32[8], y: f32[4]):
    w = a[0:4]
    y[0] = w[1]

@proc
def rs_alloc(a: f32[8]):
    x: f32
    x = 1.0
    a[0] = x

@proc
def rs_alloc_win(a: f32[8]):
    x: f32[4]
    w = x[0:2]
    w[0] = 1.0

@proc
def rs_alloc_ext(a: f32[8]):
    x: f32[4]
    for i in seq(0, 4):
        x[i] = 0.0

@proc
def rs_win_call(a: f32[8]):
    w = a[0:4]
    callee(4, w)

show("H8 reorder_stmts window def / write use", lambda: reorder_stmts(rs_win, rs_win.find("w = _").expand(0, 1)))
show("H8 reorder_stmts window def / read use", lambda: reorder_stmts(rs_win_rd, rs_win_rd.find("w = _").expand(0, 1)))
show("H8 reorder_stmts window def / call use", lambda: reorder_stmts(rs_win_call, rs_win_call.find("w = _").expand(0, 1)))
show("H8 reorder_stmts alloc def / assign use", lambda: reorder_stmts(rs_alloc, rs_alloc.find("x : _").expand(0, 1)))
show("H8 reorder_stmts alloc def / window-of-x", lambda: reorder_stmts(rs_alloc_win, rs_alloc_win.find("x : _").expand(0, 1)))
show("H8 reorder_stmts alloc def / loop writing x", lambda: reorder_stmts(rs_alloc_ext, rs_alloc_ext.find("x : _").expand(0, 1)))
