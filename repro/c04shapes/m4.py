from __future__ import annotations
from exo import proc
from exo.stdlib.scheduling import *
from util import show

@proc
def g_if_alloc_win(a: f32[8], n: size):
    if n > 2:
        x: f32[4]
        w = x[0:2]
        w[0] = 1.0

@proc
def g_if_alloc_red(a: f32[8], n: size):
    if n > 2:
        x: f32
        x += 1.0

@proc
def g_if_alloc_asg(a: f32[8], n: size):
    if n > 2:
        x: f32
        x = 1.0

@proc
def g_for_alloc_win(a: f32[8]):
    for i in seq(0, 4):
        x: f32[4]
        w = x[0:2]
        w[0] = 1.0

@proc
def g_for_alloc_red_dep(a: f32[8]):
    for i in seq(0, 4):
        x: f32[i + 1]
        x[0] += 1.0

for nm, fn in [("fission", fission), ("autofission", autofission)]:
    show(f"H4 {nm} in IF after alloc; later use only via window of x", lambda: fn(g_if_alloc_win, g_if_alloc_win.find("x : _").after()))
    show(f"H4 {nm} in IF after alloc; later use is reduce", lambda: fn(g_if_alloc_red, g_if_alloc_red.find("x : _").after()))
    show(f"H4 {nm} in IF after alloc; later use is assign", lambda: fn(g_if_alloc_asg, g_if_alloc_asg.find("x : _").after()))
    show(f"H4 {nm} FOR after alloc x:f32[i+1]; later use is reduce", lambda: fn(g_for_alloc_red_dep, g_for_alloc_red_dep.find("x : _").after()))
show("H4 fission(unsafe_disable_checks) FOR after alloc; later use via window", lambda: fission(g_for_alloc_win, g_for_alloc_win.find("x : _").after(), unsafe_disable_checks=True))
