import ExoModel.Syntax
import ExoModel.Sem
