/-
  Drivers/C17S — line driver of the statement-level printer/parser model (ExoModel.PrintStmt),
  the tie of C17's statement level (harness/printstmt.py).  One JSON request per line on stdin,
  one JSON answer per line on stdout.

  expr  ::= {"v":NAME,"idx":[expr…]} | {"c":MAG,"neg":BOOL} | {"n":expr} | {"b":OP,"l":expr,"r":expr}
          | {"cfg":NAME,"fld":NAME}                      (ReadConfig)
          | {"call":NAME,"args":[expr…]}                 (Extern; StrideExpr = call "stride" [x, d])
  acc   ::= {"pt":expr} | {"lo":expr,"hi":expr}
  arg   ::= expr | {"win":NAME,"accs":[acc…]}
  stmt  ::= {"k":"pass"} | {"k":"assign"|"reduce","x":NAME,"idx":[expr…],"rhs":expr}
          | {"k":"cfg","cfg":NAME,"fld":NAME,"rhs":expr}
          | {"k":"alloc","x":NAME,"ty":TY,"shape":[expr…],"mem":NAME|null}
          | {"k":"window","w":NAME,"x":NAME,"accs":[acc…]}
          | {"k":"for","par":BOOL,"i":NAME,"lo":expr,"hi":expr,"body":[stmt…]}
          | {"k":"if","c":expr,"body":[stmt…],"orelse":[stmt…]}
          | {"k":"call","f":NAME,"args":[arg…]}
  fnarg ::= {"name":NAME,"ty":{"k":"size"|"index"} | {"k":"bool"|"stride","mem":NAME|null}
                              | {"k":"num","ty":TY,"shape":[expr…],"win":BOOL,"mem":NAME|null}}
  proc  ::= {"name":NAME,"args":[fnarg…],"preds":[expr…],"body":[stmt…]}

  {"op":"print","style":"raw"|"fmt","ind":N,"body":[stmt…]}
      -> {"lines":[TEXT…],          the model's text of the block (`ppBlockS`)
          "lex_ok":BOOL,            lexLines(text) = ppBlock step ind body   (characters ↦ tokens)
          "wf":BOOL,                wfS body
          "rt":"ok"|"differs"|"none"   parseLines(tokens) vs normS body}
  {"op":"printproc","style":…,"proc":proc}
      -> the same for `ppProcS`/`ppProc`/`parseProc`/`wfProc`
  {"op":"parse","text":TEXT}        (lines separated by \n)
      -> {"ok":[stmt…]} | {"error":"lex"|"parse"}
  {"op":"parseproc","text":TEXT}
      -> {"ok":proc} | {"error":"lex"|"parse"}
  malformed request -> {"bad":MSG}
-/
import Lean.Data.Json
import ExoModel.PrintStmt
import ExoModel.Lemmas.PrintStmtProc
open Lean Exo Exo.Print Exo.PrintStmt

abbrev P := Except String

def fld (j : Json) (k : String) : P Json :=
  match j.getObjVal? k with
  | .ok v => pure v
  | .error _ => throw s!"missing field {k}"

def str (j : Json) : P String :=
  match j.getStr? with
  | .ok v => pure v
  | .error _ => throw s!"expected string: {j.compress}"

def boolOf (j : Json) : P Bool :=
  match j.getBool? with
  | .ok v => pure v
  | .error _ => throw s!"expected bool: {j.compress}"

def natOf (j : Json) : P Nat :=
  match j.getNat? with
  | .ok v => pure v
  | .error _ => throw s!"expected nat: {j.compress}"

def arrOf (j : Json) : P (List Json) :=
  match j.getArr? with
  | .ok v => pure v.toList
  | .error _ => throw s!"expected array: {j.compress}"

def optStr (j : Json) : P (Option String) :=
  match j with
  | .null => pure none
  | _ => do pure (some (← str j))

def has (j : Json) (k : String) : Bool := (j.getObjVal? k).toOption.isSome

def opOfStr (t : String) : Option BinOp := allOps.find? (fun o => opStr o == t)

partial def pExpr (j : Json) : P XExpr := do
  if has j "v" then
    pure (.var (← str (← fld j "v")) (← (← arrOf (← fld j "idx")).mapM pExpr))
  else if has j "c" then
    pure (.const (← boolOf (← fld j "neg")) (← str (← fld j "c")))
  else if has j "n" then
    pure (.neg (← pExpr (← fld j "n")))
  else if has j "b" then
    match opOfStr (← str (← fld j "b")) with
    | some o => pure (.bin o (← pExpr (← fld j "l")) (← pExpr (← fld j "r")))
    | none => throw "bad operator"
  else if has j "cfg" then
    pure (.cfg (← str (← fld j "cfg")) (← str (← fld j "fld")))
  else if has j "call" then
    pure (.call (← str (← fld j "call")) (← (← arrOf (← fld j "args")).mapM pExpr))
  else throw s!"bad expr {j.compress}"

def pAcc (j : Json) : P PrintStmt.WAcc := do
  if has j "pt" then pure (.pt (← pExpr (← fld j "pt")))
  else pure (.iv (← pExpr (← fld j "lo")) (← pExpr (← fld j "hi")))

def pArg (j : Json) : P PArg := do
  if has j "win" then
    pure (.win (← str (← fld j "win")) (← (← arrOf (← fld j "accs")).mapM pAcc))
  else pure (.e (← pExpr j))

def pTy (j : Json) : P Ty := do
  let s ← str j
  match Ty.ofName s with
  | some t => pure t
  | none => throw s!"bad base type {s}"

partial def pStmt (j : Json) : P PStmt := do
  let k ← str (← fld j "k")
  let exprs (key : String) : P (List XExpr) := do (← arrOf (← fld j key)).mapM pExpr
  let stmts (key : String) : P (List PStmt) := do (← arrOf (← fld j key)).mapM pStmt
  match k with
  | "pass" => pure .pass
  | "assign" => pure (.assign (← str (← fld j "x")) (← exprs "idx") (← pExpr (← fld j "rhs")))
  | "reduce" => pure (.reduce (← str (← fld j "x")) (← exprs "idx") (← pExpr (← fld j "rhs")))
  | "cfg" => pure (.writeCfg (← str (← fld j "cfg")) (← str (← fld j "fld")) (← pExpr (← fld j "rhs")))
  | "alloc" =>
    pure (.alloc (← str (← fld j "x")) (← pTy (← fld j "ty")) (← exprs "shape") (← optStr (← fld j "mem")))
  | "window" =>
    pure (.window (← str (← fld j "w")) (← str (← fld j "x")) (← (← arrOf (← fld j "accs")).mapM pAcc))
  | "for" =>
    pure (.loop (← boolOf (← fld j "par")) (← str (← fld j "i")) (← pExpr (← fld j "lo"))
      (← pExpr (← fld j "hi")) (← stmts "body"))
  | "if" => pure (.ite (← pExpr (← fld j "c")) (← stmts "body") (← stmts "orelse"))
  | "call" => pure (.call (← str (← fld j "f")) (← (← arrOf (← fld j "args")).mapM pArg))
  | _ => throw s!"bad statement kind {k}"

def pFnTy (j : Json) : P FnTy := do
  let k ← str (← fld j "k")
  match k with
  | "size" => pure .size
  | "index" => pure .index
  | "bool" => pure (.ctrl .bool (← optStr (← fld j "mem")))
  | "stride" => pure (.ctrl .stride (← optStr (← fld j "mem")))
  | "num" =>
    pure (.num (← pTy (← fld j "ty")) (← (← arrOf (← fld j "shape")).mapM pExpr)
      (← boolOf (← fld j "win")) (← optStr (← fld j "mem")))
  | _ => throw s!"bad argument type {k}"

def pProc (j : Json) : P PProc := do
  let args ← (← arrOf (← fld j "args")).mapM (fun a => do
    pure (⟨← str (← fld a "name"), ← pFnTy (← fld a "ty")⟩ : PFnArg))
  pure ⟨← str (← fld j "name"), args, ← (← arrOf (← fld j "preds")).mapM pExpr,
    ← (← arrOf (← fld j "body")).mapM pStmt⟩

/-! output -/

def jarr (l : List Json) : Json := .arr l.toArray
def optJ : Option String → Json
  | none => .null
  | some m => .str m

partial def jExpr : XExpr → Json
  | .var x idx => Json.mkObj [("v", .str x), ("idx", jarr (idx.map jExpr))]
  | .const n m => Json.mkObj [("c", .str m), ("neg", .bool n)]
  | .neg e => Json.mkObj [("n", jExpr e)]
  | .bin o l r => Json.mkObj [("b", .str (opStr o)), ("l", jExpr l), ("r", jExpr r)]
  | .cfg c f => Json.mkObj [("cfg", .str c), ("fld", .str f)]
  | .call f args => Json.mkObj [("call", .str f), ("args", jarr (args.map jExpr))]

def jAcc : PrintStmt.WAcc → Json
  | .pt e => Json.mkObj [("pt", jExpr e)]
  | .iv lo hi => Json.mkObj [("lo", jExpr lo), ("hi", jExpr hi)]

def jArg : PArg → Json
  | .e e => jExpr e
  | .win x accs => Json.mkObj [("win", .str x), ("accs", jarr (accs.map jAcc))]

partial def jStmt : PStmt → Json
  | .pass => Json.mkObj [("k", "pass")]
  | .assign x idx rhs =>
    Json.mkObj [("k", "assign"), ("x", .str x), ("idx", jarr (idx.map jExpr)), ("rhs", jExpr rhs)]
  | .reduce x idx rhs =>
    Json.mkObj [("k", "reduce"), ("x", .str x), ("idx", jarr (idx.map jExpr)), ("rhs", jExpr rhs)]
  | .writeCfg c f rhs => Json.mkObj [("k", "cfg"), ("cfg", .str c), ("fld", .str f), ("rhs", jExpr rhs)]
  | .alloc x ty shape mem =>
    Json.mkObj [("k", "alloc"), ("x", .str x), ("ty", .str ty.name), ("shape", jarr (shape.map jExpr)),
      ("mem", optJ mem)]
  | .window w x accs =>
    Json.mkObj [("k", "window"), ("w", .str w), ("x", .str x), ("accs", jarr (accs.map jAcc))]
  | .loop par i lo hi body =>
    Json.mkObj [("k", "for"), ("par", .bool par), ("i", .str i), ("lo", jExpr lo), ("hi", jExpr hi),
      ("body", jarr (body.map jStmt))]
  | .ite c body orelse =>
    Json.mkObj [("k", "if"), ("c", jExpr c), ("body", jarr (body.map jStmt)),
      ("orelse", jarr (orelse.map jStmt))]
  | .call f args => Json.mkObj [("k", "call"), ("f", .str f), ("args", jarr (args.map jArg))]

def jFnTy : FnTy → Json
  | .size => Json.mkObj [("k", "size")]
  | .index => Json.mkObj [("k", "index")]
  | .ctrl k mem => Json.mkObj [("k", .str k.name), ("mem", optJ mem)]
  | .num ty shape isWin mem =>
    Json.mkObj [("k", "num"), ("ty", .str ty.name), ("shape", jarr (shape.map jExpr)),
      ("win", .bool isWin), ("mem", optJ mem)]

def jProc (p : PProc) : Json :=
  Json.mkObj [("name", .str p.name),
    ("args", jarr (p.args.map fun a => Json.mkObj [("name", .str a.name), ("ty", jFnTy a.ty)])),
    ("preds", jarr (p.preds.map jExpr)),
    ("body", jarr (p.body.map jStmt))]

def styleOf (s : String) : P Style :=
  match s with
  | "raw" => pure .raw
  | "fmt" => pure .fmt
  | _ => throw s!"bad style {s}"

/-- structural comparison through the canonical JSON text (no `DecidableEq` on the nested types) -/
def sameStmts (a b : List PStmt) : Bool := (jarr (a.map jStmt)).compress == (jarr (b.map jStmt)).compress

def rtWord {α} (r : Option α) (same : α → Bool) : String :=
  match r with
  | none => "none"
  | some x => if same x then "ok" else "differs"

def handle (line : String) : Json :=
  match Json.parse line with
  | .error e => Json.mkObj [("bad", .str e)]
  | .ok j =>
    let r : P Json := do
      let op ← str (← fld j "op")
      match op with
      | "print" => do
        let sty ← styleOf (← str (← fld j "style"))
        let ind ← natOf (← fld j "ind")
        let body ← (← arrOf (← fld j "body")).mapM pStmt
        let text := ppBlockS sty ind body
        let toks := ppBlock sty.step ind body
        pure (Json.mkObj [("lines", jarr (text.map Json.str)),
          ("lex_ok", .bool (lexLines text == some toks)),
          ("wf", .bool (wfS body)),
          ("rt", .str (rtWord (parseLines toks) (fun r => sameStmts r (normS body))))])
      | "printproc" => do
        let sty ← styleOf (← str (← fld j "style"))
        let p ← pProc (← fld j "proc")
        let text := ppProcS sty 0 p
        let toks := ppProc sty.step 0 p
        pure (Json.mkObj [("lines", jarr (text.map Json.str)),
          ("lex_ok", .bool (lexLines text == some toks)),
          ("wf", .bool (wfProc p)),
          ("rt", .str (rtWord (parseProc toks)
            (fun r => (jProc r).compress == (jProc (normProc p)).compress)))])
      | "parse" => do
        let text ← str (← fld j "text")
        match lexLines (text.splitOn "\n") with
        | none => pure (Json.mkObj [("error", "lex")])
        | some ls =>
          match parseLines ls with
          | none => pure (Json.mkObj [("error", "parse")])
          | some ss => pure (Json.mkObj [("ok", jarr (ss.map jStmt))])
      | "parseproc" => do
        let text ← str (← fld j "text")
        match lexLines (text.splitOn "\n") with
        | none => pure (Json.mkObj [("error", "lex")])
        | some ls =>
          match parseProc ls with
          | none => pure (Json.mkObj [("error", "parse")])
          | some p => pure (Json.mkObj [("ok", jProc p)])
      | _ => throw s!"unknown op {op}"
    match r with
    | .ok a => a
    | .error e => Json.mkObj [("bad", .str e)]

partial def loop (hin hout : IO.FS.Stream) : IO Unit := do
  let line ← hin.getLine
  if line.isEmpty then return
  let l := (line.dropEndWhile (· == '\n')).toString
  hout.putStrLn (handle l).compress
  hout.flush
  loop hin hout

def main : IO Unit := do
  loop (← IO.getStdin) (← IO.getStdout)
