/-
  Line driver of C02 / C08 (correspondence A of ExoModel.CIndex): one request per line on stdin,
  one answer per line on stdout.  Fields are separated by `|`, list items inside a field by `;`,
  tokens by blanks.

    sym    ::= NAME ID
    cir    ::= r sym FLAG | c INT | b OP FLAG cir cir | u FLAG cir | s sym DIM        FLAG ::= T | F
    iexpr  ::= v sym | c INT | n iexpr | OP iexpr iexpr | o                            OP ::= + - * / %
    env    ::= sym CNAME ; sym CNAME ; …
    table  ::= iexpr = FLAG ; …                 (oracle for check_expr_bound(0, leq, ·))
    bufty  ::= t|cir ; cir ; …    or    w|N K V K V …       (two fields)
    mstmt  ::= L n sym*n | W sym sym | A sym | F sym | I n sym*n [ mstmt* ] [ mstmt* ] | O [ mstmt* ]
    kstmt  ::= w sym | W sym sym | o | B [ kstmt* ] | C n (- | sym)*n { formals: m sym*m } [ kstmt* ]

    lift|iexpr|table                      -> cir | none
    simp|cir                              -> ok cir | err NAME
    comp|env|PREC|cir                     -> text
    compe|env|PREC|iexpr|table            -> text
    tstr|cir ; …                          -> cir ; …
    idx|sym|bufty(2 fields)|cir ; …       -> ok cir | none
    acc|env|sym|bufty|cir ; …             -> ok text | err NAME | none
    wsf|env|sym|bufty|cir ; …|FLAG …      -> ok dataptr @@ strides | err NAME | none
    ev|cir|sym=INT ; …|sym DIM=INT ; …    -> refvalue cvalue           (CIR.eval, cEval ∘ compAst)
    name|k=v,… / k=v,… |NAME              -> ok CNAME|k=v,…(new innermost layer, sorted) | err NAME
    mem|mstmt*                            -> mstmt*
    nc|kstmt*                             -> sym ; sym ; …             (writes, in order)
    fdiv|N Q                              -> exoFloorDiv N Q
-/
import ExoModel.CIndex
open Exo Exo.CIndex Exo.Range

abbrev P := StateT (List String) (Except String)

def tok : P String := do
  match (← get) with
  | [] => throw "unexpected end of tokens"
  | t :: r => set r; pure t

def peek : P (Option String) := do
  match (← get) with
  | [] => pure none
  | t :: _ => pure (some t)

def pInt : P Int := do
  let t ← tok
  match t.toInt? with
  | some n => pure n
  | none => throw s!"bad int {t}"

def pNat : P Nat := do
  let n ← pInt
  if n < 0 then throw "nat expected" else pure n.toNat

def pSym : P Sym := do
  let nm ← tok
  let id ← pNat
  pure ⟨nm, id⟩

def pFlag : P Bool := do
  let t ← tok
  match t with
  | "T" => pure true
  | "F" => pure false
  | _ => throw s!"bad flag {t}"

def pOp : P Op := do
  let t ← tok
  match t with
  | "+" => pure .add | "-" => pure .sub | "*" => pure .mul | "/" => pure .div | "%" => pure .mod
  | _ => throw s!"bad op {t}"

partial def pCir : P CIR := do
  let t ← tok
  match t with
  | "r" => do let x ← pSym; let f ← pFlag; pure (.read x f)
  | "c" => do let n ← pInt; pure (.const n)
  | "b" => do let op ← pOp; let f ← pFlag; let a ← pCir; let b ← pCir; pure (.bin op a b f)
  | "u" => do let f ← pFlag; let a ← pCir; pure (.usub a f)
  | "s" => do let x ← pSym; let d ← pNat; pure (.stride x d)
  | _ => throw s!"bad cir token {t}"

partial def pIExpr : P IExpr := do
  let t ← tok
  match t with
  | "v" => do let s ← pSym; pure (.var s)
  | "c" => do let n ← pInt; pure (.const n)
  | "n" => do let a ← pIExpr; pure (.neg a)
  | "o" => pure .other
  | "+" => do let a ← pIExpr; let b ← pIExpr; pure (.bin .add a b)
  | "-" => do let a ← pIExpr; let b ← pIExpr; pure (.bin .sub a b)
  | "*" => do let a ← pIExpr; let b ← pIExpr; pure (.bin .mul a b)
  | "/" => do let a ← pIExpr; let b ← pIExpr; pure (.bin .div a b)
  | "%" => do let a ← pIExpr; let b ← pIExpr; pure (.bin .mod a b)
  | _ => throw s!"bad iexpr token {t}"

def toks (s : String) : List String := (s.splitOn " ").filter (· ≠ "")

def runP {α} (p : P α) (field : String) : Except String α := do
  let (a, rest) ← p.run (toks field)
  if rest.isEmpty then pure a else throw s!"trailing tokens {rest}"

def items (field : String) : List String :=
  (field.splitOn ";").filter (fun s => !(toks s).isEmpty)

def pList {α} (p : P α) (field : String) : Except String (List α) := (items field).mapM (runP p)

def symStr (x : Sym) : String := x.name ++ " " ++ toString x.id
def flagStr (b : Bool) : String := if b then "T" else "F"

def cirStr : CIR → String
  | .read x f => "r " ++ symStr x ++ " " ++ flagStr f
  | .const n => "c " ++ toString n
  | .bin op a b f => "b " ++ op.str ++ " " ++ flagStr f ++ " " ++ cirStr a ++ " " ++ cirStr b
  | .usub a f => "u " ++ flagStr f ++ " " ++ cirStr a
  | .stride x d => "s " ++ symStr x ++ " " ++ toString d

def parseEnv (field : String) : Except String (Sym → String) := do
  let es ← pList (do let x ← pSym; let c ← tok; pure (x, c)) field
  pure (fun x => match es.find? (fun p => p.1 == x) with
    | some p => p.2
    | none => "?" ++ x.name)

def parseTable (field : String) : Except String (IExpr → Bool) := do
  let es ← (items field).mapM (fun it =>
    match it.splitOn "=" with
    | [e, f] => do let e ← runP pIExpr e; let f ← runP pFlag f; pure (e, f)
    | _ => throw s!"bad table entry {it}")
  pure (fun e => match es.find? (fun p => p.1 == e) with
    | some p => p.2
    | none => false)

def parseBufTy (kind body : String) : Except String BufTy := do
  match (toks kind) with
  | ["t"] => do let sh ← pList pCir body; pure (.tensor sh)
  | ["w"] => do
      let (n, kv) ← runP (do
        let n ← pNat
        let mut kv : List (Nat × Int) := []
        while (← peek).isSome do
          let k ← pNat
          let v ← pInt
          kv := kv ++ [(k, v)]
        pure (n, kv)) body
      pure (.window n kv)
  | _ => throw s!"bad bufty {kind}"

def parseVal (field : String) : Except String Val := do
  let es ← (items field).mapM (fun it =>
    match it.splitOn "=" with
    | [s, v] => do let s ← runP pSym s; let v ← runP pInt v; pure (s, v)
    | _ => throw s!"bad valuation entry {it}")
  pure (fun x => match es.find? (fun p => p.1 == x) with
    | some p => p.2
    | none => 0)

def parseStrideVal (field : String) : Except String (Sym → Nat → Int) := do
  let es ← (items field).mapM (fun it =>
    match it.splitOn "=" with
    | [s, v] => do
        let (x, d) ← runP (do let x ← pSym; let d ← pNat; pure (x, d)) s
        let v ← runP pInt v
        pure (x, d, v)
    | _ => throw s!"bad stride entry {it}")
  pure (fun x d => match es.find? (fun p => p.1 == x && p.2.1 == d) with
    | some p => p.2.2
    | none => 1)

/-! statements of §5 -/

def pSyms : P (List Sym) := do
  let n ← pNat
  let mut out : List Sym := []
  for _ in [0:n] do
    out := out ++ [← pSym]
  pure out

def expectTok (s : String) : P Unit := do
  let t ← tok
  if t == s then pure () else throw s!"expected {s}, got {t}"

mutual
partial def pMStmt : P MStmt := do
  let t ← tok
  match t with
  | "L" => do let us ← pSyms; pure (.leaf us)
  | "W" => do let w ← pSym; let s ← pSym; pure (.window w s)
  | "A" => do let x ← pSym; pure (.alloc x)
  | "F" => do let x ← pSym; pure (.free x)
  | "I" => do
      let c ← pSyms
      let t ← pMBlock
      let e ← pMBlock
      pure (.ite c t e)
  | "O" => do let b ← pMBlock; pure (.loop b)
  | _ => throw s!"bad mstmt token {t}"
partial def pMBlock : P (List MStmt) := do
  expectTok "["
  let mut out : List MStmt := []
  while (← peek) != some "]" do
    out := out ++ [← pMStmt]
  expectTok "]"
  pure out
end

partial def pMStmts : P (List MStmt) := do
  let mut out : List MStmt := []
  while (← peek).isSome do
    out := out ++ [← pMStmt]
  pure out

def symsStr (l : List Sym) : String :=
  toString l.length ++ String.join (l.map (fun x => " " ++ symStr x))

mutual
partial def mStr : MStmt → String
  | .leaf us => "L " ++ symsStr us
  | .window w s => "W " ++ symStr w ++ " " ++ symStr s
  | .alloc x => "A " ++ symStr x
  | .free x => "F " ++ symStr x
  | .ite c t e => "I " ++ symsStr c ++ " " ++ mBlockStr t ++ " " ++ mBlockStr e
  | .loop b => "O " ++ mBlockStr b
partial def mBlockStr (l : List MStmt) : String :=
  "[ " ++ String.join (l.map (fun s => mStr s ++ " ")) ++ "]"
end

/-! statements of §6: calls carry the callee (formals, body); the written flags are computed
    with the model itself -/
mutual
partial def pKStmt : P KStmt := do
  let t ← tok
  match t with
  | "w" => do let x ← pSym; pure (.write x)
  | "W" => do let w ← pSym; let s ← pSym; pure (.window w s)
  | "o" => pure .other
  | "B" => do let b ← pKBlock; pure (.block b)
  | "C" => do
      let n ← pNat
      let mut args : List (Option Sym) := []
      for _ in [0:n] do
        if (← peek) == some "-" then
          let _ ← tok
          args := args ++ [none]
        else
          args := args ++ [some (← pSym)]
      expectTok "{"
      let formals ← pSyms
      expectTok "}"
      let body ← pKBlock
      let nc := nonConst body
      pure (.call (formals.map (fun f => nc.contains f)) args)
  | _ => throw s!"bad kstmt token {t}"
partial def pKBlock : P (List KStmt) := do
  expectTok "["
  let mut out : List KStmt := []
  while (← peek) != some "]" do
    out := out ++ [← pKStmt]
  expectTok "]"
  pure out
end

partial def pKStmts : P (List KStmt) := do
  let mut out : List KStmt := []
  while (← peek).isSome do
    out := out ++ [← pKStmt]
  pure out

/-! names -/
def parseLayer (field : String) : Except String Layer := do
  let es ← ((field.splitOn ",").filter (fun s => !(toks s).isEmpty)).mapM (fun it =>
    match it.splitOn "=" with
    | [k, v] => pure (k.trimAscii.toString, v.trimAscii.toString)
    | _ => throw s!"bad names entry {it}")
  pure { names := es, env := [] }

def dedupKeys (l : List (String × String)) : List (String × String) :=
  l.foldl (fun acc p => if acc.any (fun q => q.1 == p.1) then acc else acc ++ [p]) []

def insertSorted (p : String × String) : List (String × String) → List (String × String)
  | [] => [p]
  | q :: r => if p.1 < q.1 then p :: q :: r else q :: insertSorted p r

def sortKV (l : List (String × String)) : List (String × String) := l.foldl (fun acc p => insertSorted p acc) []

def exStr {α} (f : α → String) : Option (Except SErr α) → String
  | none => "none"
  | some (.error e) => "err " ++ e.str
  | some (.ok a) => "ok " ++ f a

def handle (line : String) : Except String String := do
  let fs := line.splitOn "|"
  match fs with
  | ["lift", e, tb] => do
      let e ← runP pIExpr e
      let nn ← parseTable tb
      pure (match lift nn e with | some c => cirStr c | none => "none")
  | ["simp", c] => do
      let c ← runP pCir c
      pure (match simplify c with | .ok c' => "ok " ++ cirStr c' | .error e => "err " ++ e.str)
  | ["comp", env, prec, c] => do
      let env ← parseEnv env
      let prec ← runP pNat prec
      let c ← runP pCir c
      pure (comp env c prec)
  | ["compe", env, prec, e, tb] => do
      let env ← parseEnv env
      let prec ← runP pNat prec
      let e ← runP pIExpr e
      let nn ← parseTable tb
      pure (compE nn env e prec)
  | ["tstr", sh] => do
      let sh ← pList pCir sh
      pure (" ; ".intercalate ((tensorStridesC sh).map cirStr))
  | ["idx", x, k, b, idx] => do
      let x ← runP pSym x
      let ty ← parseBufTy k b
      let idx ← pList pCir idx
      pure (match getIdxOffset x ty idx with | some c => "ok " ++ cirStr c | none => "none")
  | ["acc", env, x, k, b, idx] => do
      let env ← parseEnv env
      let x ← runP pSym x
      let ty ← parseBufTy k b
      let idx ← pList pCir idx
      pure (exStr id (accessStr env x ty idx))
  | ["wsf", env, x, k, b, los, ivs] => do
      let env ← parseEnv env
      let x ← runP pSym x
      let ty ← parseBufTy k b
      let los ← pList pCir los
      let ivs ← (toks ivs).mapM (fun t => runP pFlag t)
      pure (exStr (fun p => p.1 ++ " @@ " ++ p.2) (windowStructFields env x ty los ivs))
  | ["ev", c, va, sv] => do
      let c ← runP pCir c
      let ρ ← parseVal va
      let σ ← parseStrideVal sv
      pure (toString (c.eval ρ σ) ++ " " ++ toString (cEval ρ σ (compAst c)))
  | ["name", layers, nm] => do
      let ls ← (layers.splitOn "/").mapM parseLayer
      let nm := nm.trimAscii.toString
      match newVarname ls ⟨nm, 0⟩ with
      | .error .value => pure "err ValueError"
      | .error .fuel => pure "err fuel"
      | .ok (c, sc') =>
          let top := match sc' with | l :: _ => l.names | [] => []
          pure ("ok " ++ c ++ "|" ++ ",".intercalate ((sortKV (dedupKeys top)).map (fun p => p.1 ++ "=" ++ p.2)))
  | ["mem", ss] => do
      let ss ← runP pMStmts ss
      pure (String.join ((memL ss).map (fun s => mStr s ++ " "))).trimAscii.toString
  | ["nc", ss] => do
      let ss ← runP pKStmts ss
      pure (" ; ".intercalate ((nonConst ss).map symStr))
  | ["fdiv", a] => do
      let (n, q) ← runP (do let n ← pInt; let q ← pInt; pure (n, q)) a
      pure (toString (exoFloorDiv n q))
  | _ => throw s!"unknown request {(fs.head?).getD ""} with {fs.length} fields"

partial def loop (h : IO.FS.Stream) (out : IO.FS.Stream) : IO Unit := do
  let line ← h.getLine
  if line.isEmpty then return ()
  let l := (line.dropEndWhile (fun c => c == '\n' || c == '\r')).toString
  match handle l with
  | .ok s => out.putStrLn s
  | .error e => out.putStrLn ("BAD " ++ e)
  out.flush
  loop h out

def main : IO Unit := do loop (← IO.getStdin) (← IO.getStdout)
