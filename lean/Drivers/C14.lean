/-
  Drivers/C14 — line driver for the x86 models over exact rationals.
  request : {"op":"intr","name":"mm256_add_ps","args":[<cval>..],"heap":[[rat|null..]..]}
              -> {"val":<cval>} | {"heap":[[..]..]} (store intrinsics) | {"err":e}
            {"op":"instr","name":"mm256_fmadd_ps","cv":{"N":3},"pl":{"dst":[buf,off,stride],..},
             "heap":[[..]..]}
              -> {"adm":bool,"why":s,"body":{"ok":heap}|{"err":e},"c":{"ok":heap}|{"err":e}}
            {"op":"list"} -> {"instrs":[{"name":..,"nOpaque":..,"lane":bool,"args":[[name,kind]..]}..]}
  cval    : {"vec":[rat|null..]} | {"ivec":[w,[int..]]} | {"int":n} | {"flt":rat|null}
            | {"ptr":[buf,off,bits]} | {"cst":s}
-/
import ExoModel.Wire
import ExoModel.Gen.X86Instrs
open Lean Exo Exo.Wire Exo.X86

def intrOfName : String → Intr
  | "mm256_setzero_ps" => .mm256_setzero_ps | "mm256_setzero_pd" => .mm256_setzero_pd
  | "mm512_setzero_ps" => .mm512_setzero_ps
  | "mm256_loadu_ps" => .mm256_loadu_ps | "mm256_loadu_pd" => .mm256_loadu_pd
  | "mm512_loadu_ps" => .mm512_loadu_ps | "mm256_loadu_si256" => .mm256_loadu_si256
  | "mm256_storeu_ps" => .mm256_storeu_ps | "mm256_storeu_pd" => .mm256_storeu_pd
  | "mm512_storeu_ps" => .mm512_storeu_ps | "mm256_storeu_si256" => .mm256_storeu_si256
  | "mm256_fmadd_ps" => .mm256_fmadd_ps | "mm256_fmadd_pd" => .mm256_fmadd_pd
  | "mm512_fmadd_ps" => .mm512_fmadd_ps
  | "mm256_broadcast_ss" => .mm256_broadcast_ss | "mm256_broadcast_sd" => .mm256_broadcast_sd
  | "mm256_set1_ps" => .mm256_set1_ps | "mm256_set1_pd" => .mm256_set1_pd | "mm512_set1_ps" => .mm512_set1_ps
  | "mm256_mul_ps" => .mm256_mul_ps | "mm256_mul_pd" => .mm256_mul_pd
  | "mm256_div_ps" => .mm256_div_ps | "mm256_div_pd" => .mm256_div_pd
  | "mm256_add_ps" => .mm256_add_ps | "mm256_add_pd" => .mm256_add_pd
  | "mm256_sub_ps" => .mm256_sub_ps | "mm256_sub_pd" => .mm256_sub_pd
  | "mm512_add_ps" => .mm512_add_ps | "mm512_mask_add_ps" => .mm512_mask_add_ps
  | "mm512_maskz_loadu_ps" => .mm512_maskz_loadu_ps | "mm512_mask_storeu_ps" => .mm512_mask_storeu_ps
  | "mm512_mask_fmadd_ps" => .mm512_mask_fmadd_ps | "mm512_max_ps" => .mm512_max_ps
  | "mm256_xor_ps_self" => .mm256_xor_ps_self
  | "mm256_blendv_ps" => .mm256_blendv_ps | "mm256_blendv_pd" => .mm256_blendv_pd
  | "mm256_cmp_ps" => .mm256_cmp_ps | "mm256_cmp_pd" => .mm256_cmp_pd
  | "mm256_hadd_ps" => .mm256_hadd_ps | "mm256_hadd_pd" => .mm256_hadd_pd
  | "mm256_extractf128_ps" => .mm256_extractf128_ps | "mm256_extractf128_pd" => .mm256_extractf128_pd
  | "mm256_castps128_ps256" => .mm256_castps128_ps256 | "mm256_castpd128_pd256" => .mm256_castpd128_pd256
  | "mm256_cvtss_f32" => .mm256_cvtss_f32 | "mm256_cvtsd_f64" => .mm256_cvtsd_f64
  | "mm256_cvtps_pd" => .mm256_cvtps_pd
  | "mm256_set_epi32" => .mm256_set_epi32 | "mm256_set1_epi32" => .mm256_set1_epi32
  | "mm256_cmpgt_epi32" => .mm256_cmpgt_epi32 | "mm256_castsi256_ps" => .mm256_castsi256_ps
  | "mm256_maskload_ps" => .mm256_maskload_ps | "mm256_maskstore_ps" => .mm256_maskstore_ps
  | "mm256_set1_epi8" => .mm256_set1_epi8 | "mm256_adds_epu16" => .mm256_adds_epu16
  | "mm_prefetch" => .mm_prefetch
  | n => .unknown n

def isStore : Intr → Bool
  | .mm256_storeu_ps | .mm256_storeu_pd | .mm512_storeu_ps | .mm256_storeu_si256
  | .mm256_maskstore_ps | .mm512_mask_storeu_ps | .mm_prefetch => true
  | _ => false

def cvalOfJson (j : Json) : P (CVal Rat) := do
  match j.getObjVal? "vec" with
  | .ok v => return .vec (← (← arr v).toList.mapM ratOfJson)
  | .error _ => pure ()
  match j.getObjVal? "ivec" with
  | .ok v => do
      let a ← arr v
      return .ivec (← nat a[0]!) (← (← arr a[1]!).toList.mapM int)
  | .error _ => pure ()
  match j.getObjVal? "int" with
  | .ok v => return .int (← int v)
  | .error _ => pure ()
  match j.getObjVal? "flt" with
  | .ok v => return .flt (← ratOfJson v)
  | .error _ => pure ()
  match j.getObjVal? "ptr" with
  | .ok v => do
      let a ← arr v
      return .ptr (← nat a[0]!) (← int a[1]!) (← nat a[2]!)
  | .error _ => pure ()
  match j.getObjVal? "cst" with
  | .ok v => return .cst (← str v)
  | .error _ => throw s!"bad cval {j.compress.take 80}"

def cvalToJson : CVal Rat → Json
  | .vec l => Json.mkObj [("vec", .arr (l.map ratToJson).toArray)]
  | .ivec w l => Json.mkObj [("ivec", .arr #[toJson w, .arr (l.map (fun (x : Int) => toJson x)).toArray])]
  | .int n => Json.mkObj [("int", toJson n)]
  | .flt v => Json.mkObj [("flt", ratToJson v)]
  | .ptr b o w => Json.mkObj [("ptr", .arr #[toJson b, toJson o, toJson w])]
  | .cst c => Json.mkObj [("cst", .str c)]

def heapOfJson (j : Json) : P (Heap Rat) := do
  (← arr j).toList.mapM (fun b => do (← arr b).toList.mapM ratOfJson)

def heapToJson (h : Heap Rat) : Json :=
  .arr (h.map (fun b => Json.arr (b.map ratToJson).toArray)).toArray

def resJson (r : Except Err (State Rat)) : Json :=
  match r with
  | .ok s => Json.mkObj [("ok", heapToJson s.heap)]
  | .error e => Json.mkObj [("err", .str (toString e))]

/-- computable admissibility (the hypotheses of `InstrCorrect`), for views of rank ≤ 1 -/
def viewInB (heap : Heap Rat) (v : View) : Bool :=
  match v.dims with
  | [] => decide (0 ≤ v.off ∧ v.off < bufLen heap v.buf)
  | [(m, s)] => (List.range m.toNat).all fun i =>
      decide (0 ≤ v.off + i * s ∧ v.off + i * s < bufLen heap v.buf)
  | _ => false

def sizesPos (env : List (Sym × Int)) : List FnArg → Bool
  | [] => true
  | ⟨x, .ctrl .size⟩ :: r => (match lookupSym x env with | some n => decide (0 < n) | none => false) && sizesPos env r
  | _ :: r => sizesPos env r

def admissible (p : Proc) (σ : State Rat) : Option String :=
  if !sizesPos σ.env p.args then some "size" else
  match checkShapes σ p.args with
  | .error e => some s!"shapes:{e}"
  | .ok _ =>
  match checkPreds σ p.preds with
  | .error e => some s!"preds:{e}"
  | .ok _ =>
  if !noAlias σ.views then some "alias" else
  if !(σ.views.all fun xv => viewInB σ.heap xv.2) then some "oob" else none

def symByName (p : Proc) (n : String) : Option Sym :=
  (p.args.find? (fun a => a.name.name == n)).map (·.name)

def kindStr : ArgKind → String
  | .vreg n => s!"vreg{n}" | .mem b => s!"mem{b}" | .scalar => "scalar" | .ctrl => "ctrl"

def handle (line : String) : Json :=
  match Json.parse line with
  | .error e => Json.mkObj [("bad", .str e)]
  | .ok j =>
    match (do
      let op ← str (← fld j "op")
      match op with
      | "intr" => do
          let f := intrOfName (← str (← fld j "name"))
          let args ← (← arr (← fld j "args")).toList.mapM cvalOfJson
          let heap ← heapOfJson (← fld j "heap")
          if isStore f then
            match storeIntrinsic heap f args with
            | .ok h => pure (Json.mkObj [("heap", heapToJson h)])
            | .error e => pure (Json.mkObj [("err", .str (toString e))])
          else
            match intrinsic heap f args with
            | .ok v => pure (Json.mkObj [("val", cvalToJson v)])
            | .error e => pure (Json.mkObj [("err", .str (toString e))])
      | "instr" => do
          let name ← str (← fld j "name")
          match X86Instrs.all.find? (fun I => I.name == name) with
          | none => throw s!"unknown instruction {name}"
          | some I => do
            let cvj ← fld j "cv"
            let plj ← fld j "pl"
            let heap ← heapOfJson (← fld j "heap")
            let mut cvs : List (Sym × Int) := []
            let mut pls : List (Sym × Place) := []
            for a in I.proc.args do
              match cvj.getObjVal? a.name.name with
              | .ok v => cvs := (a.name, ← int v) :: cvs
              | .error _ => pure ()
              match plj.getObjVal? a.name.name with
              | .ok v => do
                  let t ← arr v
                  pls := (a.name, ⟨← nat t[0]!, ← int t[1]!, ← int t[2]!⟩) :: pls
              | .error _ => pure ()
            let cv : Sym → Int := fun s => (lookupSym s cvs).getD 1
            let pl : Sym → Place := fun s => (lookupSym s pls).getD ⟨0, 0, 1⟩
            let σ : State Rat := stateOf I.proc cv pl heap []
            let adm := admissible I.proc σ
            pure (Json.mkObj [
              ("adm", .bool adm.isNone), ("why", .str (adm.getD "")),
              ("body", resJson (execB extRat I.proc.body σ)),
              ("c", resJson (execCInstr I σ))])
      | "list" =>
          pure (Json.mkObj [("instrs", .arr (X86Instrs.all.map (fun I => Json.mkObj [
            ("name", .str I.name), ("nOpaque", toJson I.nOpaque),
            ("lane", .bool ((X86Instrs.lanes.find? (fun p => p.1 == I.name)).map (·.2.isSome) == some true)),
            ("args", .arr (I.kinds.map (fun k => Json.arr #[.str k.1.name, .str (kindStr k.2)])).toArray)])).toArray)])
      | _ => throw s!"unknown op {op}" : P Json) with
    | .ok r => r
    | .error e => Json.mkObj [("bad", .str e)]

partial def loop (h : IO.FS.Stream) (out : IO.FS.Stream) : IO Unit := do
  let line ← h.getLine
  if line.isEmpty then return ()
  let l := line.trimAscii.toString
  if l.isEmpty then loop h out else
  out.putStrLn (handle l).compress
  out.flush
  loop h out

def main : IO Unit := do loop (← IO.getStdin) (← IO.getStdout)
