/-
  Drivers/C12.lean — line driver for the simplifier model.

  request (one JSON object per line)                      answer (one JSON object per line)
    {"op":"simplify","sizes":[[name,id]…],                 {"ok":true,"body":[stmt…],"preds":[expr…]}
       "preds":[expr…],"body":[stmt…]}       {"ok":false,"err":"model-none"}
    {"op":"expr","sizes":…,"scope":[[name,id,lo,hi]…],     {"ok":true,"e":expr,"str":text}
       "facts":[cond…],"e":expr}
    {"op":"trace","body":[stmt…],"syms":[[name,id,v]…],    {"ok":true,"trace":[[int…]…],"cfg":[[c,f,v]…]}
       "cfg":[[c,f,v]…]}
    {"op":"box","a":expr,"b":expr,"vars":[[name,id,lo,hi]…]} {"ok":true,"diff":null | [[name,id,v]…]}
    {"op":"str","e":expr}                                   {"ok":true,"str":text}
    {"op":"bound","env":[[name,id,lo|null,hi|null]…],"e":expr,"cmp":"lt"|"ge","c":int}  {"ok":true,"ans":bool}

  expr  = ["v",name,id] | ["c",int] | ["b",bool] | ["u",expr] | ["o",op,expr,expr] | ["g",cfg,field]
  stmt  = ["obs",[expr…]] | ["w",cfg,field,expr] | ["if",expr,[stmt…],[stmt…]]
        | ["for",name,id,expr,expr,[stmt…]] | ["pass"]
-/
import ExoModel.SimplifyWire

def main : IO Unit := do
  let hin ← IO.getStdin
  let hout ← IO.getStdout
  Exo.Simplify.Wire.loop hin hout
