/-
  Drivers/C10 — correspondence A for property C10: apply the executable model of a configuration
  rewrite (ExoModel.Config) to the exported original procedure and compare, structurally, with the
  exported result of the real operation.
  request : {"op":"delete"|"write"|"bind"|"call", "proc":<proc>, "derived":<proc>,
             "steps":[["body",i]|["orelse",i]...], "idx":i, ...}
     write: "cfg","fld","rhs":<expr>,"isData":bool        (gap index = idx)
     bind : "cfg","fld","isData":bool,"slot":["rhs"]|["idx",k]|["cond"]|["lo"]|["hi"]|["arg",k],"epath":[n..]
     call : "callee":<proc>
  answer  : {"same":true} | {"same":false,"why":..} | {"unsupported":..} | {"bad":..}
-/
import ExoModel.Wire
import ExoModel.Config
open Lean Exo Exo.Wire Exo.Config

mutual
partial def eqE : Expr → Expr → Bool
  | .read x i, .read y j => x == y && eqEs i j
  | .lit a, .lit b => a == b
  | .usub a, .usub b => eqE a b
  | .binop o a b, .binop o' a' b' => o == o' && eqE a a' && eqE b b'
  | .extern f a, .extern g b => f == g && eqEs a b
  | .win x a, .win y b => x == y && eqWs a b
  | .stride x d, .stride y e => x == y && d == e
  | .readcfg c f, .readcfg c' f' => c == c' && f == f'
  | _, _ => false
partial def eqEs : List Expr → List Expr → Bool
  | [], [] => true
  | a :: as, b :: bs => eqE a b && eqEs as bs
  | _, _ => false
partial def eqW : WAcc → WAcc → Bool
  | .interval a b, .interval a' b' => eqE a a' && eqE b b'
  | .point a, .point b => eqE a b
  | _, _ => false
partial def eqWs : List WAcc → List WAcc → Bool
  | [], [] => true
  | a :: as, b :: bs => eqW a b && eqWs as bs
  | _, _ => false
end

def eqTy : ArgTy → ArgTy → Bool
  | .ctrl a, .ctrl b => a == b
  | .scalar, .scalar => true
  | .tensor s w, .tensor s' w' => eqEs s s' && w == w'
  | _, _ => false

def eqArgs : List FnArg → List FnArg → Bool
  | [], [] => true
  | a :: as, b :: bs => a.name == b.name && eqTy a.ty b.ty && eqArgs as bs
  | _, _ => false

mutual
partial def eqS : Stmt → Stmt → Bool
  | .assign x i r, .assign y j s => x == y && eqEs i j && eqE r s
  | .reduce x i r, .reduce y j s => x == y && eqEs i j && eqE r s
  | .writecfg c f r d, .writecfg c' f' r' d' => c == c' && f == f' && eqE r r' && d == d'
  | .pass, .pass => true
  | .ite c t e, .ite c' t' e' => eqE c c' && eqSs t t' && eqSs e e'
  | .loop i lo hi b p, .loop i' lo' hi' b' p' => i == i' && eqE lo lo' && eqE hi hi' && eqSs b b' && p == p'
  | .alloc x s, .alloc y t => x == y && eqEs s t
  | .free x, .free y => x == y
  | .call f a, .call g b => eqP f g && eqEs a b
  | .window x r, .window y s => x == y && eqE r s
  | _, _ => false
partial def eqSs : List Stmt → List Stmt → Bool
  | [], [] => true
  | a :: as, b :: bs => eqS a b && eqSs as bs
  | _, _ => false
partial def eqP : Proc → Proc → Bool
  | .mk n a p b, .mk n' a' p' b' => n == n' && eqArgs a a' && eqEs p p' && eqSs b b'
end

def parseSteps (j : Json) : P (List Step) := do
  (← arr j).toList.mapM (fun s => do
    let a ← arr s
    match ← str a[0]! with
    | "body" => pure (Step.body (← nat a[1]!))
    | "orelse" => pure (Step.orelse (← nat a[1]!))
    | t => throw s!"bad step {t}")

def parseSlot (j : Json) : P Slot := do
  let a ← arr j
  match ← str a[0]! with
  | "rhs" => pure .rhs
  | "idx" => pure (.idx (← nat a[1]!))
  | "cond" => pure .cond
  | "lo" => pure .lo
  | "hi" => pure .hi
  | "arg" => pure (.arg (← nat a[1]!))
  | t => throw s!"bad slot {t}"

def handle (line : String) : Json :=
  match Json.parse line with
  | .error e => Json.mkObj [("bad", .str e)]
  | .ok j =>
    match (do
      let op ← str (← fld j "op")
      let p ← proc (← fld j "proc")
      let q ← proc (← fld j "derived")
      let steps ← parseSteps (← fld j "steps")
      let i ← nat (← fld j "idx")
      let rw : List Stmt → Option (List Stmt) ← (match op with
        | "delete" => pure (fun B => (deleteWrite B i).map (·.2))
        | "write" => do
            let c ← str (← fld j "cfg")
            let f ← str (← fld j "fld")
            let rhs ← expr (← fld j "rhs")
            let d ← bool (← fld j "isData")
            pure (fun B => if i ≤ B.length then some (insertWrite B i c f rhs d) else none)
        | "bind" => do
            let c ← str (← fld j "cfg")
            let f ← str (← fld j "fld")
            let d ← bool (← fld j "isData")
            let slot ← parseSlot (← fld j "slot")
            let ep ← (← arr (← fld j "epath")).toList.mapM nat
            pure (fun B => bindConfig B i slot ep c f d)
        | "call" => do
            let g ← proc (← fld j "callee")
            pure (fun B => swapCall g B i)
        | t => throw s!"unknown op {t}" : P (List Stmt → Option (List Stmt)))
      match applyAt rw steps p.body with
      | none => pure (Json.mkObj [("unsupported", .str "model does not apply here")])
      | some B' =>
        if eqSs B' q.body && eqArgs p.args q.args && eqEs p.preds q.preds then
          pure (Json.mkObj [("same", .bool true)])
        else
          pure (Json.mkObj [("same", .bool false), ("why", .str "bodies differ")]) : P Json) with
    | .ok r => r
    | .error e => Json.mkObj [("bad", .str e)]

partial def loop (h : IO.FS.Stream) (out : IO.FS.Stream) : IO Unit := do
  let line ← h.getLine
  if line.isEmpty then return ()
  let l := line.trimAscii.toString
  if l.isEmpty then loop h out else
  out.putStrLn (handle l).compress
  out.flush
  loop h out

def main : IO Unit := do loop (← IO.getStdin) (← IO.getStdout)
