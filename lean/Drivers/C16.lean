/-
  Drivers/C16.lean — line protocol driver for the find / navigation models.

  One JSON request per line, one JSON answer per line.

  {"op":"find","body":[STMT..],"qs":[{"pat":PAT,"hash":N|null,"many":BOOL},..]}
      -> [{"all":RES,"api":RES},..]     RES = [CURSOR..] | "anything" | "noMatch"
         all = PatternMatch.find(root, pat, match_no=None);  api = API_cursors.find(...)
  {"op":"split","s":STRING}  -> {"pat":STRING,"no":N|null,"loop":STRING,"alloc":STRING}
         (match_pattern's #n regex; find_loop / find_alloc_or_arg shorthand expansion)
  {"op":"nav","tree":NTREE,"script":[OP..]} -> [ANS..]
      NTREE = [tag,[[attr,isList,[NTREE..]],..]]; nodes are referred to by their index in the
      pre-order enumeration `allPaths` (field order as given).
      OP  = ["parent",n] ["child",n,attr,i|null] ["cblock",n,attr] ["next",n,d] ["prev",n,d]
            ["asblock",n] ["before",n] ["after",n] ["anc",n,m]
            ["pparent",CUR] ["pnext",n,d] ["pprev",n,d]
            ["blen",BLK] ["bget",BLK,i] ["bslice",BLK,a|null,b|null,step|null] ["biter",BLK]
            ["bexpand",BLK,dlo|null,dhi|null] ["bbefore",BLK] ["bafter",BLK] ["bparent",BLK]
            ["pbget",BLK,i] ["pbslice",BLK,a,b,step] ["pbexpand",BLK,dlo,dhi] ["pbanchor",BLK]
            ["ganchor",GAP] ["gparent",GAP] ["gindex",GAP]
      BLK = [n,attr,lo,hi]   GAP = [n,"b"|"a"]   CUR = ["N",n] | ["B",n,attr,lo,hi] | ["G",n,"b"|"a"]
      ANS = "N<k>" | "B<k>:attr:lo:hi" | "G<k>:b|a" | "INV" | "E:<err>" | "I<int>" | "T"/"F" | "P<path>" (path not in the tree)
            | "L[..]" for lists
  STMT/EXPR/PAT encodings: see harness/props/c16.py (export_*).
-/
import ExoModel.C16Json

def main : IO Unit := do
  Exo.C16Json.loop (← IO.getStdin) (← IO.getStdout)
