/-
  Drivers/C04Tie — line driver for the tie of the well-formedness preservation theorems
  (Props/C04Shapes.lean) to the real scheduling primitives (model: ExoModel/WfTie.lean).

  request : {"op":"wfok","name":<shape name as for rwcheck>,"path":[["body"|"orelse",k]..],
             "k":n,"flag":bool,"before":<proc>,"after":<proc>}
            the static environment Γ is that of the formals of `before` (as `Wf.wfP` builds it)
  answer  : {"ok":bool,"match":bool,"scope":bool,"wf_before":bool,"wf_after":bool}
              ok        the site condition `…Ok` of the shape's `…_wf_anywhere` theorem holds at the site
              match     `after.body` is the model rewrite of `before.body` up to renaming (`alphaEqBlocks'`)
              scope     no binder of `after.body` shadows a name in scope (`scopeL`)
              wf_*      `(wfL Γ body).isSome`
            or, when no theorem / shape applies: {"ok":null,"why":msg,"scope":..,"wf_before":..,"wf_after":..}
  theorem `Exo.C04.wf_tie_sound`: ok ∧ match ∧ scope ∧ wf_before ⇒ wf_after.
-/
import ExoModel.Wire
import ExoModel.WfTie
open Lean Exo Exo.Wire

def handle (line : String) : Json :=
  match Json.parse line with
  | .error e => Json.mkObj [("bad", .str e)]
  | .ok j =>
    match (do
      let op ← str (← fld j "op")
      match op with
      | "wfok" => do
          let before ← proc (← fld j "before")
          let after ← proc (← fld j "after")
          let name ← str (← fld j "name")
          let path ← (← arr (← fld j "path")).toList.mapM (fun st => do
            let a ← arr st
            let k ← nat a[1]!
            match ← str a[0]! with
            | "body" => pure (Exo.Rw.Step.body k)
            | "orelse" => pure (Exo.Rw.Step.orelse k)
            | t => throw s!"bad path step {t}")
          let k ← nat (← fld j "k")
          let flag ← Wire.bool (← fld j "flag")
          let Γ := Exo.Wf.formalsEnv before.args
          let common : List (String × Json) := [
            ("scope", .bool (Exo.Rw.wfScope Γ after.body)),
            ("wf_before", .bool (Exo.Wf.wfL Γ before.body).isSome),
            ("wf_after", .bool (Exo.Wf.wfL Γ after.body).isSome)]
          match Exo.Rw.wfOk name path k flag before.body after.body Γ,
                Exo.Rw.wfMatch name path k flag before.body after.body with
          | .ok b, .ok m => pure (Json.mkObj ([("ok", .bool b), ("match", .bool m)] ++ common))
          | .error e, _ => pure (Json.mkObj ([("ok", .null), ("why", .str e)] ++ common))
          | _, .error e => pure (Json.mkObj ([("ok", .null), ("why", .str e)] ++ common))
      | _ => throw s!"unknown op {op}" : P Json) with
    | .ok r => r
    | .error e => Json.mkObj [("bad", .str e)]

partial def loop (h : IO.FS.Stream) (out : IO.FS.Stream) : IO Unit := do
  let line ← h.getLine
  if line.isEmpty then return ()
  let l := line.trimAscii.toString
  if l.isEmpty then loop h out else
  out.putStrLn (handle l).compress
  out.flush
  loop h out

def main : IO Unit := do loop (← IO.getStdin) (← IO.getStdout)
