/-
  Line driver of C07: one request per line on stdin, one answer per line on stdout.
  Fields are separated by `|`, tokens inside a field by blanks (names contain no blanks).

    check|GROUP        -> `ok=<bool of Group.ok (bit-mask analysis, the obligation)>|FAIL ; FAIL ; ...`
                          FAIL ::= func line what var origin      (Report.failures: the same analysis
                          with the five origins kept apart; empty iff ok)
      GROUP ::= name file NW weak*NW NF FUNC*NF
      FUNC  ::= name line NS strong*NS NI ITEM*NI
      ITEM  ::= T STMT | S K STMT*K
      STMT  ::= b line VAR RHS | m line KIND VAR
      VAR   ::= s N | w N
      RHS   ::= f | n | p | g | u | a VAR
      KIND  ::= setitem | delitem | append | extend | insert | pop | remove | sort | reverse | iadd
              | clear | setattr

    ops|cells|OP ; OP ; ...   -> after each OP the cells of the object, or `R` if it raises
      OP ::= setitem i v | delitem i | append v | extend v* | insert i v | pop i | remove v | sort
           | reverse | iadd v* | clear | setattr i v
-/
import ExoModel.PyHeap
open Exo.PyHeap

abbrev P := StateT (List String) (Except String)

def tok : P String := do
  match (← get) with
  | [] => throw "unexpected end of tokens"
  | t :: r => set r; pure t

def pNat : P Nat := do
  let t ← tok
  match t.toNat? with
  | some n => pure n
  | none => throw s!"bad nat {t}"

def pInt : P Int := do
  let t ← tok
  match t.toInt? with
  | some n => pure n
  | none => throw s!"bad int {t}"

def pMany {α} (p : P α) : Nat → P (List α)
  | 0 => pure []
  | k + 1 => do let a ← p; let r ← pMany p k; pure (a :: r)

def pVar : P Var := do
  let t ← tok
  let n ← pNat
  match t with
  | "s" => pure (.s n)
  | "w" => pure (.w n)
  | _ => throw s!"bad var {t}"

def pRhs : P Rhs := do
  let t ← tok
  match t with
  | "f" => pure .fresh
  | "n" => pure .nodeField
  | "p" => pure .param
  | "g" => pure .global
  | "u" => pure .unknown
  | "a" => do let v ← pVar; pure (.alias v)
  | _ => throw s!"bad rhs {t}"

def pKind : P MutKind := do
  let t ← tok
  match t with
  | "setitem" => pure .setitem | "delitem" => pure .delitem | "append" => pure .append
  | "extend" => pure .extend | "insert" => pure .insert | "pop" => pure .pop
  | "remove" => pure .remove | "sort" => pure .sort | "reverse" => pure .reverse
  | "iadd" => pure .iadd | "clear" => pure .clear | "setattr" => pure .setattr
  | _ => throw s!"bad kind {t}"

def pStmt : P Stmt := do
  let t ← tok
  match t with
  | "b" => do let ln ← pNat; let v ← pVar; let r ← pRhs; pure (.bind ln v r)
  | "m" => do let ln ← pNat; let k ← pKind; let v ← pVar; pure (.mutate ln k v)
  | _ => throw s!"bad stmt {t}"

def pItem : P Item := do
  let t ← tok
  match t with
  | "T" => do let s ← pStmt; pure (.top s)
  | "S" => do let k ← pNat; let ss ← pMany pStmt k; pure (.soup ss)
  | _ => throw s!"bad item {t}"

def pFunc : P Func := do
  let name ← tok
  let line ← pNat
  let ns ← pNat
  let strong ← pMany tok ns
  let ni ← pNat
  let items ← pMany pItem ni
  pure ⟨name, line, strong, items⟩

def pGroup : P Group := do
  let name ← tok
  let file ← tok
  let nw ← pNat
  let weak ← pMany tok nw
  let nf ← pNat
  let funcs ← pMany pFunc nf
  pure ⟨name, file, weak, funcs⟩

def originStr : Origin → String
  | .fresh => "fresh" | .nodeField => "nodeField" | .param => "param" | .global => "global"
  | .unknown => "unknown"

def nospace (s : String) : String := s.map (fun c => if c == ' ' then '_' else c)

def failStr (f : Report.Failure) : String :=
  s!"{nospace f.func} {f.line} {nospace f.what} {nospace f.var} {originStr f.origin}"

def pOp : P Op := do
  let t ← tok
  match t with
  | "setitem" => do let i ← pInt; let v ← pInt; pure (.setitem i v)
  | "delitem" => do let i ← pInt; pure (.delitem i)
  | "append" => do let v ← pInt; pure (.append v)
  | "extend" => do let vs ← (do let r ← get; set ([] : List String); pure r); pure (.extend (vs.filterMap String.toInt?))
  | "insert" => do let i ← pInt; let v ← pInt; pure (.insert i v)
  | "pop" => do let i ← pInt; pure (.pop i)
  | "remove" => do let v ← pInt; pure (.remove v)
  | "sort" => pure .sort
  | "reverse" => pure .reverse
  | "iadd" => do let vs ← (do let r ← get; set ([] : List String); pure r); pure (.iadd (vs.filterMap String.toInt?))
  | "clear" => pure .clear
  | "setattr" => do let i ← pNat; let v ← pInt; pure (.setattr i v)
  | _ => throw s!"bad op {t}"

def toks (s : String) : List String := (s.splitOn " ").filter (· ≠ "")

def cellsStr (xs : List Val) : String := " ".intercalate (xs.map toString)

def runOps (cells : List Val) (ops : List String) : Except String (List String) := do
  let mut cur := cells
  let mut out : List String := []
  for o in ops do
    let (op, _) ← (pOp.run (toks o))
    match op.apply cur with
    | some c => cur := c; out := out ++ [cellsStr c]
    | none => out := out ++ ["R"]
  pure out

def answer (line : String) : String :=
  match line.splitOn "|" with
  | ["check", g] =>
    match pGroup.run (toks g) with
    | .ok (grp, _) =>
      let fs := Report.failures grp
      s!"ok={grp.ok}|" ++ " ; ".intercalate (fs.map failStr)
    | .error e => s!"error {e}"
  | ["ops", cells, ops] =>
    match runOps ((toks cells).filterMap String.toInt?) (ops.splitOn ";") with
    | .ok out => " ; ".intercalate out
    | .error e => s!"error {e}"
  | _ => "error bad request"

partial def loop (hin hout : IO.FS.Stream) : IO Unit := do
  let line ← hin.getLine
  if line.isEmpty then return
  hout.putStrLn (answer (String.ofList (line.toList.filter (fun c => c != '\n' && c != '\r'))))
  hout.flush
  loop hin hout

def main : IO Unit := do
  loop (← IO.getStdin) (← IO.getStdout)
