/-
  Drivers/C05 — line driver of the `replace` validator (ExoModel.ReplaceCheck).
  request : {"blk":[stmt..], "callee":proc, "args":[expr..], "decl":[[sym,[expr..]]..]}
            (JSON of harness/export_ir.py; `decl` = declared shapes of the caller's buffers)
  answer  : {"check":bool,                 checkReplace blk callee args
             "diff":string|null,           first pair of statements that do not match (diagnosis)
             "obligations":[expr..],       predsObligationsD decl callee args (export_ir format)
             "size","bounds","shape","preds"   the same obligations by kind (0 < size argument; window
                                           inside the caller's buffer; extent of the actual ==
                                           declared extent; instantiated assertions)
             "inline":[stmt..]|null,       the statements the model of DoInline produces
             "inlineWf":bool}              well-formedness hypothesis of `inline_correct_partial`
-/
import ExoModel.Wire
import ExoModel.ReplaceCheck
open Lean Exo Exo.Wire Exo.Inline

def symJ (s : Sym) : Json := .arr #[.str s.name, toJson s.id]

def opStr : BinOp → String
  | .add => "+" | .sub => "-" | .mul => "*" | .div => "/" | .mod => "%"
  | .lt => "<" | .gt => ">" | .le => "<=" | .ge => ">=" | .eq => "=="
  | .and => "and" | .or => "or"

mutual
partial def exprJ : Expr → Json
  | .read x idx => .arr #[.str "read", symJ x, .arr (idx.map exprJ).toArray]
  | .lit (.int n) => .arr #[.str "int", toJson n]
  | .lit (.bool b) => .arr #[.str "bool", .bool b]
  | .lit (.data n d) => .arr #[.str "data", toJson n, toJson d]
  | .usub e => .arr #[.str "usub", exprJ e]
  | .binop op a b => .arr #[.str "binop", .str (opStr op), exprJ a, exprJ b]
  | .extern f args => .arr #[.str "extern", .str f, .arr (args.map exprJ).toArray]
  | .win x acc => .arr #[.str "win", symJ x, .arr (acc.map waccJ).toArray]
  | .stride x d => .arr #[.str "stride", symJ x, toJson d]
  | .readcfg c f => .arr #[.str "readcfg", .str c, .str f]
partial def waccJ : WAcc → Json
  | .interval lo hi => .arr #[.str "iv", exprJ lo, exprJ hi]
  | .point e => .arr #[.str "pt", exprJ e]
end

def argTyJ : ArgTy → Json
  | .ctrl .size => .arr #[.str "ctrl", .str "size"]
  | .ctrl .index => .arr #[.str "ctrl", .str "index"]
  | .ctrl .int => .arr #[.str "ctrl", .str "int"]
  | .ctrl .bool => .arr #[.str "ctrl", .str "bool"]
  | .ctrl .stride => .arr #[.str "ctrl", .str "stride"]
  | .scalar => .arr #[.str "scalar"]
  | .tensor sh w => .arr #[.str "tensor", .arr (sh.map exprJ).toArray, .bool w]

mutual
partial def stmtJ : Stmt → Json
  | .assign x idx rhs => .arr #[.str "assign", symJ x, .arr (idx.map exprJ).toArray, exprJ rhs]
  | .reduce x idx rhs => .arr #[.str "reduce", symJ x, .arr (idx.map exprJ).toArray, exprJ rhs]
  | .writecfg c f rhs d => .arr #[.str "writecfg", .str c, .str f, exprJ rhs, .bool d]
  | .pass => .arr #[.str "pass"]
  | .ite c t e => .arr #[.str "if", exprJ c, .arr (t.map stmtJ).toArray, .arr (e.map stmtJ).toArray]
  | .loop i lo hi b par => .arr #[.str "for", symJ i, exprJ lo, exprJ hi, .arr (b.map stmtJ).toArray, .bool par]
  | .alloc x sh => .arr #[.str "alloc", symJ x, .arr (sh.map exprJ).toArray]
  | .free x => .arr #[.str "free", symJ x]
  | .call f args => .arr #[.str "call", procJ f, .arr (args.map exprJ).toArray]
  | .window x rhs => .arr #[.str "window", symJ x, exprJ rhs]
partial def procJ : Proc → Json
  | .mk nm args preds body => Json.mkObj [("name", .str nm),
      ("args", .arr (args.map (fun a => Json.arr #[symJ a.name, argTyJ a.ty])).toArray),
      ("preds", .arr (preds.map exprJ).toArray), ("body", .arr (body.map stmtJ).toArray)]
end

def handle (line : String) : Json :=
  match Json.parse line with
  | .error e => Json.mkObj [("bad", .str e)]
  | .ok j =>
    match (do
      let blk ← stmts (← fld j "blk")
      let f ← proc (← fld j "callee")
      let args ← exprs (← fld j "args")
      let decl ← match j.getObjVal? "decl" with
        | .ok d => (← arr d).toList.mapM (fun p => do
            let a ← arr p
            pure ((← sym a[0]!), (← exprs a[1]!)))
        | .error _ => pure []
      let ok := checkReplace blk f args
      let diff := if ok then Json.null else match firstDiff blk f args with
        | some d => Json.str d
        | none => Json.str "no differing statement found"
      let obls := predsObligationsD decl f args
      let (oSize, oShape, oPred) := match mkSubst f.args args [] with
        | some θ => (sizeObl f.args args, shapeObl θ decl f.args args, predObl θ f.preds)
        | none => ([], [], [])
      let oBounds := boundsObl decl args
      let inl := inline f args
      let js := fun (l : List Expr) => Json.arr (l.map exprJ).toArray
      pure (Json.mkObj [("check", .bool ok), ("diff", diff),
        ("obligations", js obls), ("size", js oSize), ("bounds", js oBounds),
        ("shape", js oShape), ("preds", js oPred),
        ("inline", match inl with | some b => .arr (b.map stmtJ).toArray | none => Json.null),
        ("inlineWf", .bool (inlineWf f args))]) : P Json) with
    | .ok r => r
    | .error e => Json.mkObj [("bad", .str e)]

partial def loop (h : IO.FS.Stream) (out : IO.FS.Stream) : IO Unit := do
  let line ← h.getLine
  if line.isEmpty then return ()
  let l := line.trimAscii.toString
  if l.isEmpty then loop h out else
  out.putStrLn (handle l).compress
  out.flush
  loop h out

def main : IO Unit := do loop (← IO.getStdin) (← IO.getStdout)
