/-
  Drivers/C01Calls — line driver for correspondence A of the call primitives `inline` and
  `extract_subproc` (ExoModel.RwCheckCalls over ExoModel.RewriteCalls).
  request : {"op":"rwcheck_calls","before":<proc>,"after":<proc>,"name":"inline"|"extract_subproc",
             "path":[["body"|"orelse",k]..],"k":<nat>,"flag":<bool>}
  answer  : {"match":true,"proved":<bool>[,"unproved":<string>]}
          | {"match":false,"why":<string>} | {"bad":<string>}
  `proved` = the instance satisfies the decidable side conditions of the soundness theorems of
  ExoModel.Props.C01Calls (`Rw.inlineOk` / `Rw.extractOk`).
-/
import ExoModel.Wire
import ExoModel.RwCheckCalls
open Lean Exo Exo.Wire

def handle (line : String) : Json :=
  match Json.parse line with
  | .error e => Json.mkObj [("bad", .str e)]
  | .ok j =>
    match (do
      let op ← str (← fld j "op")
      match op with
      | "rwcheck_calls" => do
          let before ← proc (← fld j "before")
          let after ← proc (← fld j "after")
          let name ← str (← fld j "name")
          let steps ← (← arr (← fld j "path")).toList.mapM (fun st => do
            let a ← arr st
            match ← str a[0]! with
            | "body" => pure (Exo.Rw.Step.body (← nat a[1]!))
            | "orelse" => pure (Exo.Rw.Step.orelse (← nat a[1]!))
            | t => throw s!"bad path step {t}")
          let k ← nat (← fld j "k")
          let flag ← Wire.bool (← fld j "flag")
          match Exo.Rw.checkCalls name steps k flag before.body after.body with
          | .ok _ =>
            let pr := Exo.Rw.provedCalls name steps k before.body after.body
            if pr then pure (Json.mkObj [("match", .bool true), ("proved", .bool true)])
            else pure (Json.mkObj [("match", .bool true), ("proved", .bool false),
              ("unproved", .str (Exo.Rw.unprovedWhy name steps k before.body after.body))])
          | .error e => pure (Json.mkObj [("match", .bool false), ("why", .str e)])
      | _ => throw s!"unknown op {op}" : P Json) with
    | .ok r => r
    | .error e => Json.mkObj [("bad", .str e)]

partial def loop (h : IO.FS.Stream) (out : IO.FS.Stream) : IO Unit := do
  let line ← h.getLine
  if line.isEmpty then return ()
  let l := line.trimAscii.toString
  if l.isEmpty then loop h out else
  out.putStrLn (handle l).compress
  out.flush
  loop h out

def main : IO Unit := do loop (← IO.getStdin) (← IO.getStdout)
