/-
  Drivers/C01Storage — line driver for correspondence A of the storage-related rewrites
  (ExoModel.RwCheckStorage over ExoModel.RewriteStorage).
  request : {"op":"rwcheck_storage","before":<proc>,"after":<proc>,"name":<string>,
             "path":[["body"|"orelse",k]..],"k":<nat>,"flag":<bool>}
  answer  : {"match":true} | {"match":false,"why":<string>} | {"bad":<string>}
-/
import ExoModel.Wire
import ExoModel.RwCheckStorage
import ExoModel.FootprintAt
open Lean Exo Exo.Wire

/-!
  second op (tie B for `Check_ReorderStmts`):
  request : {"op":"commute","proc":<proc>,"path":[["body"|"orelse",k]..],"inputs":[<input>..]}
            (`path` addresses the FIRST of the two adjacent statements; inputs as for op `exec`
             of Drivers/Sem.lean)
  answer  : {"results":[{"visits":n,"commuting":m,"nodefs":bool} | {"invalid":e} | {"bad":e}]}
            n = number of dynamic visits of the pair, m = number of those visits in which
            `Fp.commuteAt` holds for the two statements
-/

instance : DataAlg Rat where
  ofRat n d := (n : Rat) / (d : Rat)
  add := (· + ·)
  sub := (· - ·)
  mul := (· * ·)
  div := (· / ·)
  neg := (- ·)

def extRat (f : String) (xs : List Rat) : Rat :=
  match f, xs with
  | "relu", [x] => if x > 0 then x else 0
  | "select", [a, b, c, d] => if a < b then c else d
  | "fmaxf", [a, b] => if a < b then b else a
  | "sin", [x] => x * x - 3 * x + 1 / 7
  | "expf", [x] => 2 * x * x + x + 1
  | "sigmoid", [x] => x * x * x + 1 / 2
  | "sqrt", [x] => x * x + 5 * x
  | _, xs => xs.foldl (· + ·) 1

def parseView (j : Json) : P View := do
  let dims ← (← arr (← fld j "dims")).toList.mapM (fun d => do
    let a ← arr d
    pure ((← int a[0]!), (← int a[1]!)))
  pure { buf := ← nat (← fld j "buf"), off := ← int (← fld j "off"), dims := dims }

def parseInput (p : Proc) (j : Json) : P (State Rat) := do
  let args ← arr (← fld j "args")
  let heap ← (← arr (← fld j "heap")).toList.mapM (fun b => do (← arr b).toList.mapM ratOfJson)
  let cfg ← (← arr (← fld j "cfg")).toList.mapM (fun c => do
    let a ← arr c
    let k := (← str a[0]!, ← str a[1]!)
    match ← str a[2]! with
    | "c" => pure (k, CfgVal.ctrl (← int a[3]!))
    | _ => pure (k, CfgVal.data (← ratOfJson a[3]!)))
  let mut env : List (Sym × Int) := []
  let mut views : List (Sym × View) := []
  let fargs := p.args
  if fargs.length ≠ args.size then throw "arity"
  for (fa, a) in fargs.zip args.toList do
    match a.getObjVal? "c" with
    | .ok c => env := (fa.name, ← int c) :: env
    | .error _ => views := (fa.name, ← parseView (← fld a "v")) :: views
  pure { env := env, views := views, heap := heap, cfg := cfg }

def commuteOne (p : Proc) (path : Exo.Rw.Path) (j : Json) : Json :=
  match parseInput p j with
  | .error e => Json.mkObj [("bad", .str e)]
  | .ok σ =>
    let valid : Except Err Unit := do
      checkShapes σ p.args
      checkPreds σ p.preds
      if !noAlias σ.views then throw .alias
    match valid with
    | .error e => Json.mkObj [("invalid", .str (toString e))]
    | .ok _ =>
      match Exo.Fp.commuteAtPath extRat path p.body σ with
      | none => Json.mkObj [("bad", .str "path does not address two adjacent statements")]
      | some (n, m, nd) =>
        Json.mkObj [("visits", toJson n), ("commuting", toJson m), ("nodefs", .bool nd)]

def handle (line : String) : Json :=
  match Json.parse line with
  | .error e => Json.mkObj [("bad", .str e)]
  | .ok j =>
    match (do
      let op ← str (← fld j "op")
      match op with
      | "rwcheck_storage" => do
          let before ← proc (← fld j "before")
          let after ← proc (← fld j "after")
          let name ← str (← fld j "name")
          -- expression steps (`rhs`, `lhs`, `arg`, `idx k`, `args k`: the tail of a bind_expr
          -- path of the stream) are dropped: only the statement address is used
          let steps ← (← arr (← fld j "path")).toList.mapM (fun st => do
            let a ← arr st
            match ← str a[0]! with
            | "body" => pure (some (Exo.Rw.Step.body (← nat a[1]!)))
            | "orelse" => pure (some (Exo.Rw.Step.orelse (← nat a[1]!)))
            | "rhs" | "lhs" | "arg" | "idx" | "args" => pure none
            | t => throw s!"bad path step {t}")
          let path := (steps.takeWhile Option.isSome).filterMap id
          let k ← nat (← fld j "k")
          let flag ← Wire.bool (← fld j "flag")
          match Exo.Rw.checkStorage name path k flag before.body after.body with
          | .ok _ => pure (Json.mkObj [("match", .bool true)])
          | .error e => pure (Json.mkObj [("match", .bool false), ("why", .str e)])
      | "commute" => do
          let p ← proc (← fld j "proc")
          let path ← (← arr (← fld j "path")).toList.mapM (fun st => do
            let a ← arr st
            match ← str a[0]! with
            | "body" => pure (Exo.Rw.Step.body (← nat a[1]!))
            | "orelse" => pure (Exo.Rw.Step.orelse (← nat a[1]!))
            | t => throw s!"bad path step {t}")
          let ins ← arr (← fld j "inputs")
          pure (Json.mkObj [("results", .arr (ins.map (commuteOne p path)))])
      | _ => throw s!"unknown op {op}" : P Json) with
    | .ok r => r
    | .error e => Json.mkObj [("bad", .str e)]

partial def loop (h : IO.FS.Stream) (out : IO.FS.Stream) : IO Unit := do
  let line ← h.getLine
  if line.isEmpty then return ()
  let l := line.trimAscii.toString
  if l.isEmpty then loop h out else
  out.putStrLn (handle l).compress
  out.flush
  loop h out

def main : IO Unit := do loop (← IO.getStdin) (← IO.getStdout)
