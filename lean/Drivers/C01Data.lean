/-
  Drivers/C01Data — line driver for correspondence A of the data-statement rewrites
  (ExoModel.RwCheckData over ExoModel.RewriteData).
  request : {"op":"rwcheck_data","before":<proc>,"after":<proc>,"name":<string>,
             "path":[["body"|"orelse",k]..],"k":<nat>,"flag":<bool>}
  answer  : {"match":true} | {"match":false,"why":<string>} | {"bad":<string>}
-/
import ExoModel.Wire
import ExoModel.RwCheckData
open Lean Exo Exo.Wire

def handle (line : String) : Json :=
  match (do
    let j ← match Json.parse line with | .ok j => pure j | .error e => throw e
    let before ← proc (← fld j "before")
    let after ← proc (← fld j "after")
    let name ← str (← fld j "name")
    let path ← (← arr (← fld j "path")).toList.mapM (fun st => do
      let a ← arr st
      let k ← nat a[1]!
      match ← str a[0]! with
      | "body" => pure (Exo.Rw.Step.body k)
      | "orelse" => pure (Exo.Rw.Step.orelse k)
      | t => throw s!"bad path step {t}")
    let k ← nat (← fld j "k")
    let flag ← Wire.bool (← fld j "flag")
    match Exo.Rw.checkData name path k flag before.body after.body with
    | .ok _ => pure (Json.mkObj [("match", .bool true)])
    | .error e => pure (Json.mkObj [("match", .bool false), ("why", .str e)]) : P Json) with
  | .ok r => r
  | .error e => Json.mkObj [("bad", .str e)]

partial def loop (h : IO.FS.Stream) (out : IO.FS.Stream) : IO Unit := do
  let line ← h.getLine
  if line.isEmpty then return ()
  let l := line.trimAscii.toString
  if l.isEmpty then loop h out else
  out.putStrLn (handle l).compress
  out.flush
  loop h out

def main : IO Unit := do
  loop (← IO.getStdin) (← IO.getStdout)
