/-
  Drivers/Sem — line driver for the reference semantics (ExoModel.Sem) over exact rationals.
  request : {"op":"exec","proc":<proc>,"inputs":[<input>...]}
  input   : {"args":[{"c":n} | {"v":{"buf":k,"off":o,"dims":[[ext,stride]..]}} ...],
             "heap":[[rat|null..]..], "cfg":[[cfg,field,"c"|"d",value]..]}
  answer  : {"results":[{"ok":{"heap":..,"cfg":..}} | {"err":e} | {"invalid":e}]}
-/
import ExoModel.Wire
import ExoModel.RwCheck
import ExoModel.AlphaEq
import ExoModel.RwCheckStorage
import ExoModel.RwCheckData
import ExoModel.RwCheckCalls
import ExoModel.Wf
open Lean Exo Exo.Wire

instance : DataAlg Rat where
  ofRat n d := (n : Rat) / (d : Rat)
  add := (· + ·)
  sub := (· - ·)
  mul := (· * ·)
  div := (· / ·)
  neg := (- ·)

/-- fixed interpretation of extern functions (any fixed one will do: theorems quantify over it) -/
def extRat (f : String) (xs : List Rat) : Rat :=
  match f, xs with
  | "relu", [x] => if x > 0 then x else 0
  | "select", [a, b, c, d] => if a < b then c else d
  | "fmaxf", [a, b] => if a < b then b else a
  | "sin", [x] => x * x - 3 * x + 1 / 7
  | "expf", [x] => 2 * x * x + x + 1
  | "sigmoid", [x] => x * x * x + 1 / 2
  | "sqrt", [x] => x * x + 5 * x
  | _, xs => xs.foldl (· + ·) 1

def parseView (j : Json) : P View := do
  let dims ← (← arr (← fld j "dims")).toList.mapM (fun d => do
    let a ← arr d
    pure ((← int a[0]!), (← int a[1]!)))
  pure { buf := ← nat (← fld j "buf"), off := ← int (← fld j "off"), dims := dims }

def parseInput (p : Proc) (j : Json) : P (State Rat) := do
  let args ← arr (← fld j "args")
  let heap ← (← arr (← fld j "heap")).toList.mapM (fun b => do (← arr b).toList.mapM ratOfJson)
  let cfg ← (← arr (← fld j "cfg")).toList.mapM (fun c => do
    let a ← arr c
    let k := (← str a[0]!, ← str a[1]!)
    match ← str a[2]! with
    | "c" => pure (k, CfgVal.ctrl (← int a[3]!))
    | _ => pure (k, CfgVal.data (← ratOfJson a[3]!)))
  let mut env : List (Sym × Int) := []
  let mut views : List (Sym × View) := []
  let fargs := p.args
  if fargs.length ≠ args.size then throw "arity"
  for (fa, a) in fargs.zip args.toList do
    match a.getObjVal? "c" with
    | .ok c => env := (fa.name, ← int c) :: env
    | .error _ => views := (fa.name, ← parseView (← fld a "v")) :: views
  pure { env := env, views := views, heap := heap, cfg := cfg }

def checkCtrlArgs (σ : State Rat) : List FnArg → Except Err Unit
  | [] => pure ()
  | ⟨x, .ctrl .size⟩ :: r => match lookupSym x σ.env with
      | some v => if v ≤ 0 then throw .nonPosSize else checkCtrlArgs σ r
      | none => throw .scope
  | _ :: r => checkCtrlArgs σ r

def cfgToJson (c : List ((String × String) × CfgVal Rat)) : Json :=
  .arr (c.map (fun (k, v) => match v with
    | .ctrl n => Json.arr #[.str k.1, .str k.2, .str "c", toJson n]
    | .data d => Json.arr #[.str k.1, .str k.2, .str "d", ratToJson d])).toArray

def runOne (p : Proc) (j : Json) : Json :=
  match parseInput p j with
  | .error e => Json.mkObj [("bad", .str e)]
  | .ok σ =>
    let valid : Except Err Unit := do
      checkCtrlArgs σ p.args
      checkShapes σ p.args
      checkPreds σ p.preds
      if !noAlias σ.views then throw .alias
    match valid with
    | .error e => Json.mkObj [("invalid", .str (toString e))]
    | .ok _ =>
      match execB extRat p.body σ with
      | .error e => Json.mkObj [("err", .str (toString e))]
      | .ok σ' => Json.mkObj [("ok", Json.mkObj [
          ("heap", .arr (σ'.heap.map (fun b => Json.arr (b.map ratToJson).toArray)).toArray),
          ("cfg", cfgToJson σ'.cfg)])]

def handle (line : String) : Json :=
  match Json.parse line with
  | .error e => Json.mkObj [("bad", .str e)]
  | .ok j =>
    match (do
      let op ← str (← fld j "op")
      match op with
      | "exec" => do
          let p ← proc (← fld j "proc")
          let ins ← arr (← fld j "inputs")
          pure (Json.mkObj [("results", .arr (ins.map (runOne p)))])
      | "wf" => do
          let p ← proc (← fld j "proc")
          pure (Json.mkObj [("wf", .bool (Exo.Wf.wfP p))])
      | "rwcheck" => do
          let before ← proc (← fld j "before")
          let after ← proc (← fld j "after")
          let name ← str (← fld j "name")
          let path ← (← arr (← fld j "path")).toList.mapM (fun st => do
            let a ← arr st
            let k ← nat a[1]!
            match ← str a[0]! with
            | "body" => pure (Exo.Rw.Step.body k)
            | "orelse" => pure (Exo.Rw.Step.orelse k)
            | t => throw s!"bad path step {t}")
          let k ← nat (← fld j "k")
          let flag ← Wire.bool (← fld j "flag")
          let storage := ["lift_alloc", "sink_alloc", "delete_buffer", "delete_pass", "expand_dim", "bind_expr",
                          "divide_dim", "mult_dim", "rearrange_dim", "resize_dim", "unroll_buffer",
                          "stage_mem", "reuse_buffer"]
          let dataOps := ["split_write", "merge_writes", "fold_into_reduce", "lift_reduce_constant", "inline_assign", "rewrite_expr",
                          "commute_expr", "left_reassociate_expr", "divide_with_recompute"]
          match (if ["inline", "extract_subproc"].contains name then Exo.Rw.checkCalls name path k flag before.body after.body
                 else if dataOps.contains name then Exo.Rw.checkData name path k flag before.body after.body
                 else if storage.contains name then Exo.Rw.checkStorage name path k flag before.body after.body
                 else Exo.Rw.check' name path k flag before.body after.body) with
          | .ok _ => pure (Json.mkObj [("match", .bool true)])
          | .error e => pure (Json.mkObj [("match", .bool false), ("why", .str e)])
      | _ => throw s!"unknown op {op}" : P Json) with
    | .ok r => r
    | .error e => Json.mkObj [("bad", .str e)]

partial def loop (h : IO.FS.Stream) (out : IO.FS.Stream) : IO Unit := do
  let line ← h.getLine
  if line.isEmpty then return ()
  let l := line.trimAscii.toString
  if l.isEmpty then loop h out else
  out.putStrLn (handle l).compress
  out.flush
  loop h out

def main : IO Unit := do loop (← IO.getStdin) (← IO.getStdout)
