/-
  Drivers/C06.lean — line protocol driver for the cursor-forwarding model (ExoModel.Cursor).

  request (one JSON object per line):
    {"tree": T, "edit": E, "cursors": [C, ...]}
      T  = [label, kind, [T...body], [T...orelse]]
      P  = [[attr, idx], ...]            attr: 0 = body, 1 = orelse
      C  = ["n", P] | ["b", P, attr, lo, hi] | ["g", P, ty]       ty: 0 = before, 1 = after
      E  = {"k":"insert",  "anchor":P, "ty":ty, "stmts":[T...]}
         | {"k":"replace", "bp":P, "a":attr, "lo":n, "hi":n, "nodes":[T...], "empty":[T...]}
         | {"k":"delete",  "bp":P, "a":attr, "lo":n, "hi":n, "pass":T}
         | {"k":"wrap",    "bp":P, "a":attr, "lo":n, "hi":n, "wa":attr,
                           "ctor":{"label":n,"kind":n,"other":[T...],"inner":null | [label,kind]}}
              ctor nodes = mk label kind with children wa := nodes (or := [mk l k nodes []] when
              "inner" = [l,k], the guard=True shape) and the other block := "other"
         | {"k":"move",    "bp":P, "a":attr, "lo":n, "hi":n, "ganchor":P, "gty":ty, "pass":T}
         | {"k":"nodeReplace", "p":P, "ast":T}
         | {"k":"touch", "p":P}
  answer (one JSON object per line):
    {"tree": T', "fwd": [C' | "invalid" | "crash", ...]}
  malformed request -> {"error": msg}
-/
import Lean.Data.Json
import ExoModel.Cursor
open Lean Exo.Cursor

def attrOfNat (n : Nat) : Attr := if n = 0 then .body else .orelse
def natOfAttr : Attr → Nat | .body => 0 | .orelse => 1
def tyOfNat (n : Nat) : GapType := if n = 0 then .before else .after
def natOfTy : GapType → Nat | .before => 0 | .after => 1

partial def treeOfJson (j : Json) : Except String Tree := do
  let a ← j.getArr?
  if a.size ≠ 4 then throw "tree: expected 4 elements"
  let l ← a[0]!.getNat?
  let k ← a[1]!.getNat?
  let b ← (← a[2]!.getArr?).toList.mapM treeOfJson
  let o ← (← a[3]!.getArr?).toList.mapM treeOfJson
  pure (.mk l k b o)

partial def jsonOfTree : Tree → Json
  | .mk l k b o => Json.arr #[toJson l, toJson k, Json.arr (b.map jsonOfTree).toArray,
      Json.arr (o.map jsonOfTree).toArray]

def treesOfJson (j : Json) : Except String (List Tree) := do
  (← j.getArr?).toList.mapM treeOfJson

def pathOfJson (j : Json) : Except String Path := do
  (← j.getArr?).toList.mapM fun s => do
    let a ← s.getArr?
    if a.size ≠ 2 then throw "step: expected 2 elements"
    pure (attrOfNat (← a[0]!.getNat?), ← a[1]!.getNat?)

def jsonOfPath (p : Path) : Json :=
  Json.arr (p.map fun (a, i) => Json.arr #[toJson (natOfAttr a), toJson i]).toArray

def cursorOfJson (j : Json) : Except String Cursor := do
  let a ← j.getArr?
  if a.size < 2 then throw "cursor: too short"
  match ← a[0]!.getStr? with
  | "n" => pure (.node (← pathOfJson a[1]!))
  | "b" =>
    if a.size ≠ 5 then throw "block cursor: expected 5 elements"
    pure (.block (← pathOfJson a[1]!) (attrOfNat (← a[2]!.getNat?)) (← a[3]!.getNat?) (← a[4]!.getNat?))
  | "g" =>
    if a.size ≠ 3 then throw "gap cursor: expected 3 elements"
    pure (.gap (← pathOfJson a[1]!) (tyOfNat (← a[2]!.getNat?)))
  | s => throw s!"cursor kind {s}"

def jsonOfCursor : Cursor → Json
  | .node p => Json.arr #["n", jsonOfPath p]
  | .block p a lo hi => Json.arr #["b", jsonOfPath p, toJson (natOfAttr a), toJson lo, toJson hi]
  | .gap p ty => Json.arr #["g", jsonOfPath p, toJson (natOfTy ty)]

def jsonOfRes : Except Err Cursor → Json
  | .ok c => jsonOfCursor c
  | .error .invalid => "invalid"
  | .error .crash => "crash"

def mkCtor (label kind : Nat) (other : List Tree) (inner : Option (Nat × Nat)) (wa : Attr) :
    List Tree → Tree := fun nodes =>
  let inside := match inner with
    | none => nodes
    | some (l, k) => [Tree.mk l k nodes []]
  (Tree.mk label kind other other).setChildren wa inside

def getNatF (j : Json) (k : String) : Except String Nat := do (← j.getObjVal? k).getNat?

def runEdit (t : Tree) (e : Json) : Except String (Tree × Fwd) := do
  let k ← (← e.getObjVal? "k").getStr?
  match k with
  | "insert" =>
    pure (insert t (← pathOfJson (← e.getObjVal? "anchor")) (tyOfNat (← getNatF e "ty"))
      (← treesOfJson (← e.getObjVal? "stmts")))
  | "replace" =>
    pure (replaceBlock t (← pathOfJson (← e.getObjVal? "bp")) (attrOfNat (← getNatF e "a"))
      (← getNatF e "lo") (← getNatF e "hi") (← treesOfJson (← e.getObjVal? "nodes"))
      (← treesOfJson (← e.getObjVal? "empty")))
  | "delete" =>
    pure (deleteBlock t (← pathOfJson (← e.getObjVal? "bp")) (attrOfNat (← getNatF e "a"))
      (← getNatF e "lo") (← getNatF e "hi") (← treeOfJson (← e.getObjVal? "pass")))
  | "wrap" =>
    let c ← e.getObjVal? "ctor"
    let inner ← match c.getObjVal? "inner" with
      | .ok (Json.arr a) =>
        if a.size ≠ 2 then throw "inner: expected 2 elements"
        pure (some (← a[0]!.getNat?, ← a[1]!.getNat?))
      | _ => pure none
    let wa := attrOfNat (← getNatF e "wa")
    pure (wrap t (← pathOfJson (← e.getObjVal? "bp")) (attrOfNat (← getNatF e "a"))
      (← getNatF e "lo") (← getNatF e "hi")
      (mkCtor (← getNatF c "label") (← getNatF c "kind") (← treesOfJson (← c.getObjVal? "other")) inner wa)
      wa)
  | "move" =>
    pure (move t (← pathOfJson (← e.getObjVal? "bp")) (attrOfNat (← getNatF e "a"))
      (← getNatF e "lo") (← getNatF e "hi") (← pathOfJson (← e.getObjVal? "ganchor"))
      (tyOfNat (← getNatF e "gty")) (← treeOfJson (← e.getObjVal? "pass")))
  | "nodeReplace" =>
    pure (nodeReplace t (← pathOfJson (← e.getObjVal? "p")) (← treeOfJson (← e.getObjVal? "ast")))
  | "touch" => pure (touch t (← pathOfJson (← e.getObjVal? "p")))
  | s => throw s!"edit kind {s}"

def answer (line : String) : Except String Json := do
  let j ← Json.parse line
  let t ← treeOfJson (← j.getObjVal? "tree")
  let (t', fwd) ← runEdit t (← j.getObjVal? "edit")
  let cs ← (← (← j.getObjVal? "cursors").getArr?).toList.mapM cursorOfJson
  pure (Json.mkObj [("tree", jsonOfTree t'), ("fwd", Json.arr (cs.map fun c => jsonOfRes (fwd c)).toArray)])

partial def loop (hin hout : IO.FS.Stream) : IO Unit := do
  let line ← hin.getLine
  if line.isEmpty then return
  let l := line.trimAscii.toString
  if l.isEmpty then
    hout.putStrLn "{\"error\":\"empty\"}"
  else
    match answer l with
    | .ok j => hout.putStrLn j.compress
    | .error e => hout.putStrLn (Json.mkObj [("error", Json.str e)]).compress
  hout.flush
  loop hin hout

def main : IO Unit := do
  loop (← IO.getStdin) (← IO.getStdout)
