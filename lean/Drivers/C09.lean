/-
  Drivers/C09 — line driver for ExoModel.Par.

  {"op":"trav","procs":[PROC..],"rejected":[[name,path]..]}
       PROC = {"name":STR,"instr":BOOL,"body":[STMT..]}
       STMT = ["leaf"] | ["loop",PAR:BOOL,[STMT..]] | ["if",[STMT..],[STMT..]] | ["call",PROC]
    -> {"procs":[names of procList], "checked":[[name,path]..], "par":[[name,path]..], "fixed":[[name,path]..]}
       checked = loops the literal model of ParallelAnalysis hands to Check_ParallelizeLoop while
       compiling `procs` if every procedure is analysed; par = all Par loops of the compiled
       procedures; fixed = repaired traversal; "checked_run" / "fixed_run" = the same as the
       compilation actually runs (procedures in name order, abort after the first procedure in
       which a handed loop is in `rejected`)
  {"op":"disjoint","loops":[[[RD,WR,RED]..]..]}       one entry per loop instance; per iteration
       the cells (naturals) read / written / reduced
    -> {"conflicts":[null | [i,j,c] ..]}     first (i,j,c): iteration i writes/reduces cell c
       that iteration j ≠ i touches (`Exo.Par.conflict`, decides `RaceFree`: Props.C09.footprint_check_correct)
-/
import Lean.Data.Json
import ExoModel.Par
open Lean Exo.Par

abbrev R := Except String

def jarr (j : Json) : R (Array Json) :=
  match j with
  | .arr a => pure a
  | _ => throw s!"expected array, got {j.compress.take 60}"

def jstr (j : Json) : R String :=
  match j with
  | .str s => pure s
  | _ => throw s!"expected string, got {j.compress.take 60}"

def jbool (j : Json) : R Bool :=
  match j with
  | .bool b => pure b
  | _ => throw s!"expected bool, got {j.compress.take 60}"

def jnat (j : Json) : R Nat :=
  match j.getNat? with
  | .ok n => pure n
  | .error _ => throw s!"expected nat, got {j.compress.take 60}"

def jfld (j : Json) (k : String) : R Json :=
  match j.getObjVal? k with
  | .ok v => pure v
  | .error _ => throw s!"missing field {k}"

mutual
partial def pStmt (j : Json) : R S := do
  let a ← jarr j
  match ← jstr a[0]! with
  | "leaf" => pure .leaf
  | "loop" => pure (.loop (← jbool a[1]!) (← pStmts a[2]!))
  | "if" => pure (.ite (← pStmts a[1]!) (← pStmts a[2]!))
  | "call" => pure (.call (← pProc a[1]!))
  | t => throw s!"bad stmt tag {t}"
partial def pStmts (j : Json) : R (List S) := do
  (← jarr j).toList.mapM pStmt
partial def pProc (j : Json) : R P := do
  pure (.mk (← jstr (← jfld j "name")) (← jbool (← jfld j "instr")) (← pStmts (← jfld j "body")))
end

def pairsToJson (l : List (String × Path)) : Json :=
  .arr (l.map (fun (n, p) => Json.arr #[.str n, .arr (p.map (fun k => toJson k)).toArray])).toArray

def pNats (j : Json) : R (List Nat) := do (← jarr j).toList.mapM jnat

def pFP (j : Json) : R FP := do
  let a ← jarr j
  if a.size ≠ 3 then throw "footprint: expected [rd,wr,red]"
  pure ⟨← pNats a[0]!, ← pNats a[1]!, ← pNats a[2]!⟩

def handle (line : String) : Json :=
  match Json.parse line with
  | .error e => Json.mkObj [("bad", .str e)]
  | .ok j =>
    match (do
      match ← jstr (← jfld j "op") with
      | "trav" => do
          let roots ← (← jarr (← jfld j "procs")).toList.mapM pProc
          let rejl ← (← jarr (← jfld j "rejected")).toList.mapM (fun x => do
            let a ← jarr x
            pure ((← jstr a[0]!), (← pNats a[1]!)))
          let rej : String × Path → Bool := fun x => rejl.contains x
          pure (Json.mkObj [
            ("checked_run", pairsToJson (checkedRun rej roots)),
            ("fixed_run", pairsToJson (checkedRunFix rej roots)),
            ("procs", .arr ((procList roots).map (fun p => Json.str p.name)).toArray),
            ("checked", pairsToJson (checkedProg roots)),
            ("par", pairsToJson (parLoopsProg roots)),
            ("fixed", pairsToJson (checkedProgFix roots))])
      | "disjoint" => do
          let loops ← (← jarr (← jfld j "loops")).toList.mapM (fun l => do
            (← jarr l).toList.mapM pFP)
          pure (Json.mkObj [("conflicts", .arr (loops.map (fun fps =>
            match conflict fps with
            | none => Json.null
            | some (i, k, c) => Json.arr #[toJson i, toJson k, toJson c])).toArray)])
      | op => throw s!"unknown op {op}" : R Json) with
    | .ok r => r
    | .error e => Json.mkObj [("bad", .str e)]

partial def loop (h : IO.FS.Stream) (out : IO.FS.Stream) : IO Unit := do
  let line ← h.getLine
  if line.isEmpty then return ()
  let l := line.trimAscii.toString
  if l.isEmpty then loop h out else
  out.putStrLn (handle l).compress
  out.flush
  loop h out

def main : IO Unit := do loop (← IO.getStdin) (← IO.getStdout)
