/-
  Drivers/C19 — line driver for the models of the signature/annotation utilities (ExoModel.SigOps).

  request (one JSON object per line; <proc>, <expr> in the format of harness/export_ir.py)
    {"op":"partial_eval","proc":<proc>,"vals":[[[name,id],int]…]}
    {"op":"transpose","proc":<proc>,"arg":[name,id]}
    {"op":"add_assertion","proc":<proc>,"pred":<expr>}
    {"op":"rename","proc":<proc>,"name":str}
    {"op":"par","proc":<proc>,"path":[[orelse?,idx]…]}
    {"op":"set_window","proc":<proc>,"arg":[name,id],"win":bool}
    {"op":"annot","proc":<proc>}                       (make_instr / set_precision / set_memory)
    {"op":"exec","proc":<proc>,"inputs":[<input>…]}    run in the reference semantics; same protocol
                                                       and same code as Drivers/Sem.lean (`runOne`),
                                                       kept here so that this check needs one driver
  answer
    {"ok":<proc>}  — the model's output procedure, printed in the export format
    {"rej":kind}   — the model refuses (kind = constructor of SigOps.Rej)
    {"bad":msg}    — malformed request
-/
import ExoModel.Wire
import ExoModel.SigOps
open Lean Exo Exo.Wire Exo.SigOps

def symJ (s : Sym) : Json := .arr #[.str s.name, toJson s.id]

def binopS : BinOp → String
  | .add => "+" | .sub => "-" | .mul => "*" | .div => "/" | .mod => "%"
  | .lt => "<" | .gt => ">" | .le => "<=" | .ge => ">=" | .eq => "=="
  | .and => "and" | .or => "or"

mutual
partial def exprJ : Expr → Json
  | .read x idx => .arr #[.str "read", symJ x, .arr (idx.map exprJ).toArray]
  | .lit (.int n) => .arr #[.str "int", toJson n]
  | .lit (.bool b) => .arr #[.str "bool", .bool b]
  | .lit (.data n d) => .arr #[.str "data", toJson n, toJson d]
  | .usub e => .arr #[.str "usub", exprJ e]
  | .binop op a b => .arr #[.str "binop", .str (binopS op), exprJ a, exprJ b]
  | .extern f args => .arr #[.str "extern", .str f, .arr (args.map exprJ).toArray]
  | .win x acc => .arr #[.str "win", symJ x, .arr (acc.map waccJ).toArray]
  | .stride x d => .arr #[.str "stride", symJ x, toJson d]
  | .readcfg c f => .arr #[.str "readcfg", .str c, .str f]
partial def waccJ : WAcc → Json
  | .point e => .arr #[.str "pt", exprJ e]
  | .interval lo hi => .arr #[.str "iv", exprJ lo, exprJ hi]
end

def exprsJ (es : List Expr) : Json := .arr (es.map exprJ).toArray

def kindS : CtrlKind → String
  | .size => "size" | .index => "index" | .int => "int" | .bool => "bool" | .stride => "stride"

def argTyJ : ArgTy → Json
  | .ctrl k => .arr #[.str "ctrl", .str (kindS k)]
  | .scalar => .arr #[.str "scalar"]
  | .tensor sh w => .arr #[.str "tensor", exprsJ sh, .bool w]

mutual
partial def stmtJ : Stmt → Json
  | .assign x idx rhs => .arr #[.str "assign", symJ x, exprsJ idx, exprJ rhs]
  | .reduce x idx rhs => .arr #[.str "reduce", symJ x, exprsJ idx, exprJ rhs]
  | .writecfg c f rhs d => .arr #[.str "writecfg", .str c, .str f, exprJ rhs, .bool d]
  | .pass => .arr #[.str "pass"]
  | .ite c t e => .arr #[.str "if", exprJ c, stmtsJ t, stmtsJ e]
  | .loop i lo hi b p => .arr #[.str "for", symJ i, exprJ lo, exprJ hi, stmtsJ b, .bool p]
  | .alloc x sh => .arr #[.str "alloc", symJ x, exprsJ sh]
  | .free x => .arr #[.str "free", symJ x]
  | .call f args => .arr #[.str "call", procJ f, exprsJ args]
  | .window x rhs => .arr #[.str "window", symJ x, exprJ rhs]
partial def stmtsJ (ss : List Stmt) : Json := .arr (ss.map stmtJ).toArray
partial def procJ : Proc → Json
  | .mk nm args preds body => Json.mkObj [
      ("name", .str nm),
      ("args", .arr (args.map (fun a => Json.arr #[symJ a.name, argTyJ a.ty])).toArray),
      ("preds", exprsJ preds),
      ("body", stmtsJ body)]
end

/-! ### reference interpreter over exact rationals (as in Drivers/Sem.lean) -/

instance : DataAlg Rat where
  ofRat n d := (n : Rat) / (d : Rat)
  add := (· + ·)
  sub := (· - ·)
  mul := (· * ·)
  div := (· / ·)
  neg := (- ·)

def extRat (f : String) (xs : List Rat) : Rat :=
  match f, xs with
  | "relu", [x] => if x > 0 then x else 0
  | "select", [a, b, c, d] => if a < b then c else d
  | "fmaxf", [a, b] => if a < b then b else a
  | "sin", [x] => x * x - 3 * x + 1 / 7
  | "expf", [x] => 2 * x * x + x + 1
  | "sigmoid", [x] => x * x * x + 1 / 2
  | "sqrt", [x] => x * x + 5 * x
  | _, xs => xs.foldl (· + ·) 1

def parseView (j : Json) : P View := do
  let dims ← (← arr (← fld j "dims")).toList.mapM (fun d => do
    let a ← arr d
    pure ((← int a[0]!), (← int a[1]!)))
  pure { buf := ← nat (← fld j "buf"), off := ← int (← fld j "off"), dims := dims }

def parseInput (p : Proc) (j : Json) : P (State Rat) := do
  let args ← arr (← fld j "args")
  let heap ← (← arr (← fld j "heap")).toList.mapM (fun b => do (← arr b).toList.mapM ratOfJson)
  let cfg ← (← arr (← fld j "cfg")).toList.mapM (fun c => do
    let a ← arr c
    let k := (← str a[0]!, ← str a[1]!)
    match ← str a[2]! with
    | "c" => pure (k, CfgVal.ctrl (← int a[3]!))
    | _ => pure (k, CfgVal.data (← ratOfJson a[3]!)))
  let mut env : List (Sym × Int) := []
  let mut views : List (Sym × View) := []
  let fargs := p.args
  if fargs.length ≠ args.size then throw "arity"
  for (fa, a) in fargs.zip args.toList do
    match a.getObjVal? "c" with
    | .ok c => env := (fa.name, ← int c) :: env
    | .error _ => views := (fa.name, ← parseView (← fld a "v")) :: views
  pure { env := env, views := views, heap := heap, cfg := cfg }

def checkCtrlArgs (σ : State Rat) : List FnArg → Except Err Unit
  | [] => pure ()
  | ⟨x, .ctrl .size⟩ :: r => match lookupSym x σ.env with
      | some v => if v ≤ 0 then throw .nonPosSize else checkCtrlArgs σ r
      | none => throw .scope
  | _ :: r => checkCtrlArgs σ r

def cfgToJson (c : List ((String × String) × CfgVal Rat)) : Json :=
  .arr (c.map (fun (k, v) => match v with
    | .ctrl n => Json.arr #[.str k.1, .str k.2, .str "c", toJson n]
    | .data d => Json.arr #[.str k.1, .str k.2, .str "d", ratToJson d])).toArray

def runOne (p : Proc) (j : Json) : Json :=
  match parseInput p j with
  | .error e => Json.mkObj [("bad", .str e)]
  | .ok σ =>
    let valid : Except Err Unit := do
      checkCtrlArgs σ p.args
      checkShapes σ p.args
      checkPreds σ p.preds
      if !noAlias σ.views then throw .alias
    match valid with
    | .error e => Json.mkObj [("invalid", .str (toString e))]
    | .ok _ =>
      match execB extRat p.body σ with
      | .error e => Json.mkObj [("err", .str (toString e))]
      | .ok σ' => Json.mkObj [("ok", Json.mkObj [
          ("heap", .arr (σ'.heap.map (fun b => Json.arr (b.map ratToJson).toArray)).toArray),
          ("cfg", cfgToJson σ'.cfg)])]

def answer (r : Except Rej Proc) : Json :=
  match r with
  | .ok p => Json.mkObj [("ok", procJ p)]
  | .error e => Json.mkObj [("rej", .str (toString e))]

def handle (line : String) : Json :=
  match Json.parse line with
  | .error e => Json.mkObj [("bad", .str e)]
  | .ok j =>
    match (do
      let op ← str (← fld j "op")
      let p ← proc (← fld j "proc")
      match op with
      | "partial_eval" => do
          let vals ← (← arr (← fld j "vals")).toList.mapM (fun v => do
            let a ← arr v
            pure ((← sym a[0]!), (← int a[1]!)))
          pure (answer (partialEval p vals))
      | "transpose" => do
          pure (answer (transposeArg p (← sym (← fld j "arg"))))
      | "add_assertion" => do
          pure (answer (.ok (addAssertion p (← expr (← fld j "pred")))))
      | "rename" => do
          pure (answer (.ok (rename p (← str (← fld j "name")))))
      | "par" => do
          let path ← (← arr (← fld j "path")).toList.mapM (fun s => do
            let a ← arr s
            pure ((← bool a[0]!), (← nat a[1]!)))
          pure (answer (setLoopPar p path))
      | "set_window" => do
          pure (answer (setWindow p (← sym (← fld j "arg")) (← bool (← fld j "win"))))
      | "annot" => pure (answer (.ok (annotId p)))
      | "exec" => do
          let ins ← arr (← fld j "inputs")
          pure (Json.mkObj [("results", .arr (ins.map (runOne p)))])
      | _ => throw s!"unknown op {op}" : P Json) with
    | .ok r => r
    | .error e => Json.mkObj [("bad", .str e)]

partial def loop (h : IO.FS.Stream) (out : IO.FS.Stream) : IO Unit := do
  let line ← h.getLine
  if line.isEmpty then return ()
  let l := line.trimAscii.toString
  if l.isEmpty then loop h out else
  out.putStrLn (handle l).compress
  out.flush
  loop h out

def main : IO Unit := do loop (← IO.getStdin) (← IO.getStdout)
