/-
  Line driver of C13: one request per line on stdin, one answer per line on stdout.
  Fields are separated by `|`, tokens inside a field by blanks.

    expr   ::= v NAME ID | c INT | n expr | (+|-|*|/|%) expr expr | o
    oint   ::= N | INT
    res    ::= I INT | R oint oint expr | V | X EXC
    ei     ::= i INT | e expr
    script ::= op (; op)*          op ::= S NAME ID oint oint | E | X | L NAME ID @ ei @ ei | (empty)

    an|script|expr|B          -> res|ok K   or   res|bad NAME#ID=V,...   (search over the box [-B,B])
    wrap|expr                 -> res                       (index_range_analysis_wrapper)
    neg|res    add|res|res  sub|..  mul|..  floordiv|..  mod|..   -> res   (Python dispatch)
    or|rng|rng                -> res
    size|rng                  -> oint        bounds|rng -> `lo hi`, each -inf | inf | INT | b+INT
    stride|rng|NAME ID        -> I n | X EXC
    peval|rng|NAME ID|rng     -> res
    cb|script|ei              -> B oint oint | X EXC
    chk|script|ei|OP|ei       -> T | F | X EXC          OP ::= < | <= | ==
    chk2|script|ei|OP|ei|OP|ei
    nonneg|script|expr        -> T | F | X EXC
    look|script|NAME ID ; ... -> per symbol `oint oint` or `-`, separated by ` ; `
    ir|loops|expr             -> res          loops ::= NAME ID @ expr @ expr (; …)*  innermost first
    join|res ; res ; …        -> none | res
-/
import ExoModel.Range
open Exo Exo.Range

abbrev P := StateT (List String) (Except String)

def tok : P String := do
  match (← get) with
  | [] => throw "unexpected end of tokens"
  | t :: r => set r; pure t

def pInt : P Int := do
  let t ← tok
  match t.toInt? with
  | some n => pure n
  | none => throw s!"bad int {t}"

def pOInt : P (Option Int) := do
  let t ← tok
  if t == "N" then pure none else
  match t.toInt? with
  | some n => pure (some n)
  | none => throw s!"bad oint {t}"

def pSym : P Sym := do
  let nm ← tok
  let id ← pInt
  pure ⟨nm, id.toNat⟩

partial def pExpr : P IExpr := do
  let t ← tok
  match t with
  | "v" => do let s ← pSym; pure (.var s)
  | "c" => do let n ← pInt; pure (.const n)
  | "n" => do let a ← pExpr; pure (.neg a)
  | "o" => pure .other
  | "+" => do let a ← pExpr; let b ← pExpr; pure (.bin .add a b)
  | "-" => do let a ← pExpr; let b ← pExpr; pure (.bin .sub a b)
  | "*" => do let a ← pExpr; let b ← pExpr; pure (.bin .mul a b)
  | "/" => do let a ← pExpr; let b ← pExpr; pure (.bin .div a b)
  | "%" => do let a ← pExpr; let b ← pExpr; pure (.bin .mod a b)
  | _ => throw s!"bad expr token {t}"

def pExc : P Exc := do
  let t ← tok
  match t with
  | "AssertionError" => pure .assertion
  | "TypeError" => pure .type
  | "ZeroDivisionError" => pure .zeroDiv
  | "ValueError" => pure .value
  | "AttributeError" => pure .attribute
  | "KeyError" => pure .key
  | _ => throw s!"bad exc {t}"

def pRes : P Res := do
  let t ← tok
  match t with
  | "I" => do let n ← pInt; pure (.int n)
  | "R" => do let lo ← pOInt; let hi ← pOInt; let b ← pExpr; pure (.rng ⟨b, lo, hi⟩)
  | "V" => pure .verr
  | "X" => do let e ← pExc; pure (.exc e)
  | _ => throw s!"bad res token {t}"

def pRng : P IndexRange := do
  match (← pRes) with
  | .rng r => pure r
  | _ => throw "range expected"

def pEI : P EI := do
  let t ← tok
  match t with
  | "i" => do let n ← pInt; pure (.i n)
  | "e" => do let x ← pExpr; pure (.e x)
  | _ => throw s!"bad ei token {t}"

def pCmp : P Cmp := do
  let t ← tok
  match t with
  | "<" => pure .lt
  | "<=" => pure .leq
  | "==" => pure .eq
  | _ => throw s!"bad cmp {t}"

def expectTok (s : String) : P Unit := do
  let t ← tok
  if t == s then pure () else throw s!"expected {s}, got {t}"

def toks (s : String) : List String := (s.splitOn " ").filter (· ≠ "")

def runP {α} (p : P α) (field : String) : Except String α := do
  let (a, rest) ← p.run (toks field)
  if rest.isEmpty then pure a else throw s!"trailing tokens {rest}"

/-- run an environment script; `Except.error (Sum.inl msg)` = malformed, `Sum.inr exc` = the
    modelled code raised -/
def runScript (field : String) : Except String (Except Exc Env) := do
  let mut env : Env := [[]]
  for opS in field.splitOn ";" do
    let ts := toks opS
    match ts with
    | [] => pure ()
    | "E" :: _ => env := env.enterScope
    | "X" :: _ => env := env.exitScope
    | "S" :: _ =>
      let (x, lo, hi) ← runP (do expectTok "S"; let x ← pSym; let lo ← pOInt; let hi ← pOInt; pure (x, lo, hi)) opS
      env := env.set x (lo, hi)
    | "L" :: _ =>
      let (x, lo, hi) ← runP (do
        expectTok "L"; let x ← pSym; expectTok "@"; let lo ← pEI; expectTok "@"; let hi ← pEI
        pure (x, lo, hi)) opS
      match env.addLoopIter x lo hi with
      | .ok e' => env := e'
      | .error ex => return (.error ex)
    | t :: _ => throw s!"bad script op {t}"
  return (.ok env)

def boundStr (b : Bound) : String := optStr "N" b.1 ++ " " ++ optStr "N" b.2

def exBool : Except Exc Bool → String
  | .ok true => "T"
  | .ok false => "F"
  | .error e => "X " ++ e.str

def dedup (l : List Sym) : List Sym := l.foldl (fun acc x => if acc.contains x then acc else acc ++ [x]) []

/-- all valuations of `vars` over [-B, B] that respect the environment -/
def valuations (env : Look) (B : Int) : List Sym → List (List (Sym × Int))
  | [] => [[]]
  | x :: rest =>
    let cand := (List.range (2 * B.toNat + 1)).map (fun (k : Nat) => Int.ofNat k - B)
    let ok := cand.filter (fun v =>
      match env x with
      | none => true
      | some (lo, hi) =>
        (match lo with | some l => decide (l ≤ v) | none => true) &&
        (match hi with | some h => decide (v ≤ h) | none => true))
    (valuations env B rest).flatMap (fun ρ => ok.map (fun v => (x, v) :: ρ))

def valOf (ρ : List (Sym × Int)) : Val := fun x =>
  match ρ.find? (fun p => p.1 == x) with
  | some p => p.2
  | none => 0

def resHolds (r : Res) (ρ : Val) (v : Int) : Bool :=
  match r with
  | .int n => v == n
  | .rng r =>
    let b := eval r.base ρ
    (match r.lo with | some l => decide (b + l ≤ v) | none => true) &&
    (match r.hi with | some h => decide (v ≤ b + h) | none => true)
  | _ => true

def searchBox (env : Look) (e : IExpr) (r : Res) (B : Int) : String :=
  let baseVars := match r with | .rng rr => rr.base.vars | _ => []
  let vs := dedup (e.vars ++ baseVars)
  let all := valuations env B vs
  match all.find? (fun ρ => !resHolds r (valOf ρ) (eval e (valOf ρ))) with
  | none => "ok " ++ toString all.length
  | some ρ => "bad " ++ ",".intercalate (ρ.map (fun p => p.1.name ++ "#" ++ toString p.1.id ++ "=" ++ toString p.2))

def handle (line : String) : Except String String := do
  let fs := line.splitOn "|"
  match fs with
  | ["an", sc, ex, b] =>
    let e ← runP pExpr ex
    let B ← runP pInt b
    match (← runScript sc) with
    | .error exn => pure ("X " ++ exn.str ++ "|ok 0")
    | .ok env =>
      let r := analyze env.lookup e
      pure (r.str ++ "|" ++ searchBox env.lookup e r B)
  | ["wrap", ex] => do let e ← runP pExpr ex; pure (analysisWrapper e).str
  | ["neg", a] => do let a ← runP pRes a; pure (pyNeg a).str
  | ["add", a, b] => do let a ← runP pRes a; let b ← runP pRes b; pure (pyAdd a b).str
  | ["sub", a, b] => do let a ← runP pRes a; let b ← runP pRes b; pure (pySub a b).str
  | ["mul", a, b] => do let a ← runP pRes a; let b ← runP pRes b; pure (pyMul a b).str
  | ["floordiv", a, b] => do let a ← runP pRes a; let b ← runP pRes b; pure (pyFloordiv a b).str
  | ["mod", a, b] => do let a ← runP pRes a; let b ← runP pRes b; pure (pyMod a b).str
  | ["or", a, b] => do let a ← runP pRng a; let b ← runP pRng b; pure (Res.rng (a.or b)).str
  | ["size", a] => do let a ← runP pRng a; pure (optStr "N" a.getSize)
  | ["bounds", a] => do
    let a ← runP pRng a
    let ((bl, l), (bh, h)) := a.getBounds
    let f := fun (b : Bool) (inf : String) (o : Option Int) =>
      match o with | none => inf | some n => (if b then "b+" else "") ++ toString n
    pure (f bl "-inf" l ++ " " ++ f bh "inf" h)
  | ["stride", a, x] => do
    let a ← runP pRng a; let x ← runP pSym x
    match a.getStrideOf x with
    | .ok n => pure s!"I {n}"
    | .error e => pure ("X " ++ e.str)
  | ["peval", a, x, r] => do
    let a ← runP pRng a; let x ← runP pSym x; let r ← runP pRng r
    pure (a.partialEvalWithRange x r).str
  | ["cb", sc, a] => do
    let a ← runP pEI a
    match (← runScript sc) with
    | .error exn => pure ("X " ++ exn.str)
    | .ok env =>
      match constantBound env.lookup a with
      | .ok b => pure ("B " ++ boundStr b)
      | .error e => pure ("X " ++ e.str)
  | ["chk", sc, a, op, b] => do
    let a ← runP pEI a; let op ← runP pCmp op; let b ← runP pEI b
    match (← runScript sc) with
    | .error exn => pure ("X " ++ exn.str)
    | .ok env => pure (exBool (checkExprBound env.lookup a op b))
  | ["chk2", sc, a, op0, b, op1, c] => do
    let a ← runP pEI a; let op0 ← runP pCmp op0; let b ← runP pEI b
    let op1 ← runP pCmp op1; let c ← runP pEI c
    match (← runScript sc) with
    | .error exn => pure ("X " ++ exn.str)
    | .ok env => pure (exBool (checkExprBounds env.lookup a op0 b op1 c))
  | ["nonneg", sc, ex] => do
    let e ← runP pExpr ex
    match (← runScript sc) with
    | .error exn => pure ("X " ++ exn.str)
    | .ok env => pure (exBool (isNonNeg env.lookup e))
  | ["look", sc, qs] => do
    match (← runScript sc) with
    | .error exn => pure ("X " ++ exn.str)
    | .ok env =>
      let mut out : List String := []
      for q in qs.splitOn ";" do
        if (toks q).isEmpty then continue
        let x ← runP pSym q
        out := out ++ [match env.lookup x with | some b => boundStr b | none => "-"]
      pure (" ; ".intercalate out)
  | ["ir", ls, ex] => do
    let e ← runP pExpr ex
    let mut loops : List (Sym × IExpr × IExpr) := []
    for l in ls.splitOn ";" do
      if (toks l).isEmpty then continue
      let t ← runP (do
        let x ← pSym; expectTok "@"; let lo ← pExpr; expectTok "@"; let hi ← pExpr
        pure (x, lo, hi)) l
      loops := loops ++ [t]
    pure (inferRange loops e).str
  | ["join", rs] => do
    let mut l : List IndexRange := []
    for r in rs.splitOn ";" do
      if (toks r).isEmpty then continue
      l := l ++ [← runP pRng r]
    match boundsJoin l with
    | none => pure "none"
    | some r => pure (Res.rng r).str
  | _ => throw "unknown request"

partial def loop (h : IO.FS.Stream) (out : IO.FS.Stream) : IO Unit := do
  let line ← h.getLine
  if line.isEmpty then return
  let l := String.ofList (line.toList.filter (fun c => c != '\n' && c != '\r'))
  match handle l with
  | .ok s => out.putStrLn s
  | .error m => out.putStrLn ("ERR " ++ m)
  out.flush
  loop h out

def main : IO Unit := do
  loop (← IO.getStdin) (← IO.getStdout)
