/-
  Drivers/C11.lean — line protocol driver for the proc_eqv model.

  request (one history per line):   op ; op ; ...      with op one of
      d P            decl_new_proc(P)
      r O N K        derive_proc(O, N, K)
      a P Q K        assert_eqv_proc(P, Q, K)
      c P Q K        check_eqv_proc(P, Q, K)
      s P Q          get_strictest_eqv_proc(P, Q)
      g P            get_repr_proc(P)
    P,Q,O,N naturals; K = `-` (empty) or comma separated naturals (Python's iteration order of the
    frozenset).
  answer (one line):   OUTS # DUMP # PART
      OUTS  `;`-joined outputs:  N (None) | T | F | S1:k,k (strictest, keys sorted) | S0: | Pn | EkeyError | Efuel
      DUMP  `|`-joined union-finds `label:v>p,v>p,...` in dict order; labels strict, unv, then the
            fields in `_UF_Unv_key` order   (the ghost `links` is not printed)
      PART  same labels, `v=r` with r the least member of v's class, sorted by v  (canonical partition)
  malformed request -> `ERR <msg>`.
-/
import ExoModel.ProcEqv
open Exo.ProcEqv

def parseK (s : String) : Option (List Nat) :=
  if s == "-" then some [] else (s.splitOn ",").mapM String.toNat?

def parseOp (s : String) : Option Op :=
  match (s.trimAscii.toString.splitOn " ").filter (· ≠ "") with
  | ["d", p] => do pure (.decl (← p.toNat?))
  | ["r", o, n, k] => do pure (.derive (← o.toNat?) (← n.toNat?) (← parseK k))
  | ["a", p, q, k] => do pure (.assertEqv (← p.toNat?) (← q.toNat?) (← parseK k))
  | ["c", p, q, k] => do pure (.check (← p.toNat?) (← q.toNat?) (← parseK k))
  | ["s", p, q] => do pure (.strictest (← p.toNat?) (← q.toNat?))
  | ["g", p] => do pure (.repr (← p.toNat?))
  | _ => none

def parseHistory (line : String) : Option (List Op) :=
  if line.trimAscii.toString.isEmpty then some []
  else (line.splitOn ";").mapM parseOp

def sortNat (l : List Nat) : List Nat := (l.toArray.qsort (· < ·)).toList

def showErr : Err → String
  | .keyError => "EkeyError"
  | .fuel => "Efuel"

def showOut : Out → String
  | .unit => "N"
  | .bool true => "T"
  | .bool false => "F"
  | .strictest b ks => s!"S{if b then 1 else 0}:" ++ ",".intercalate ((sortNat ks).map toString)
  | .proc p => s!"P{p}"
  | .error e => showErr e

def showDict (m : Dict) : String := ",".intercalate (m.map fun (v, p) => s!"{v}>{p}")

/-- root of `v` by plain pointer chasing (no mutation); independent of `findLoop` -/
def rootOf (m : Dict) : Nat → Nat → Nat
  | 0, v => v
  | n + 1, v => match dget m v with
    | some p => if p = v then v else rootOf m n p
    | none => v

def showPart (m : Dict) : String :=
  let nodes := m.map (·.1)
  let roots := nodes.map fun v => (v, rootOf m (m.length + 1) v)
  let rep (r : Nat) : Nat := (roots.filter (·.2 = r)).foldl (fun acc x => min acc x.1) r
  let items := (sortNat nodes).map fun v => s!"{v}={rep (rootOf m (m.length + 1) v)}"
  ",".intercalate items

def labelled (s : State) : List (String × Dict) :=
  [("strict", s.strict.lookup), ("unv", s.unv.lookup)] ++ s.keys.map fun (k, u) => (toString k, u.lookup)

def answer (h : List Op) : String :=
  let os := outs State.init h
  let s := run h
  let ls := labelled s
  ";".intercalate (os.map showOut) ++ " # "
    ++ "|".intercalate (ls.map fun (l, m) => l ++ ":" ++ showDict m) ++ " # "
    ++ "|".intercalate (ls.map fun (l, m) => l ++ ":" ++ showPart m)

partial def loop (stdin stdout : IO.FS.Stream) : IO Unit := do
  let line ← stdin.getLine
  if line.isEmpty then return
  let line := line.trimAsciiEnd.toString
  match parseHistory line with
  | some h => stdout.putStrLn (answer h)
  | none => stdout.putStrLn "ERR cannot parse"
  stdout.flush
  loop stdin stdout

def main : IO Unit := do
  loop (← IO.getStdin) (← IO.getStdout)
