/-
  Drivers/C17X — cross-check of the LoopIR export (harness/export_ir.py → ExoModel.Wire →
  ExoModel.Syntax) against the printer model: one JSON request per line, one JSON answer per line.

  {"op":"print_exported","proc":<proc as exported by export_ir.exp_proc>,"style":"raw"|"fmt"}
     -> {"units":[{"name":NAME,"lines":[TEXT…]} | {"name":NAME,"unsupported":WHY}, …]}
        unit 0 is the procedure itself; then, depth first and in the order in which the `Call`
        statements are printed, every callee embedded in the export (the callee of a callee
        directly after it).  `lines` = `ppProcS style 0 (toPProc p)`: names resolved by the model
        of `PrintEnv.get_name`, blind fields printed as placeholders (see ExoModel/PrintOfSyntax).
  malformed request / export the reader rejects -> {"bad":MSG}
-/
import Lean.Data.Json
import ExoModel.Wire
import ExoModel.PrintOfSyntax
open Lean Exo Exo.PrintStmt

partial def unitsOf (sty : Style) (p : Proc) : List Json :=
  let me : Json :=
    match toPProc p with
    | .ok q => Json.mkObj [("name", .str p.name), ("lines", .arr ((ppProcS sty 0 q).map Json.str).toArray)]
    | .error why => Json.mkObj [("name", .str p.name), ("unsupported", .str why)]
  me :: (calleesL p.body).flatMap (unitsOf sty)

def handle (line : String) : Json :=
  match Json.parse line with
  | .error e => Json.mkObj [("bad", .str e)]
  | .ok j =>
    let r : Except String Json := do
      let op ← Wire.str (← Wire.fld j "op")
      match op with
      | "print_exported" => do
        let sty ← (do
          let s ← Wire.str (← Wire.fld j "style")
          match s with
          | "raw" => pure Style.raw
          | "fmt" => pure Style.fmt
          | _ => throw s!"bad style {s}" : Except String Style)
        let p ← Wire.proc (← Wire.fld j "proc")
        pure (Json.mkObj [("units", .arr (unitsOf sty p).toArray)])
      | _ => throw s!"unknown op {op}"
    match r with
    | .ok a => a
    | .error e => Json.mkObj [("bad", .str e)]

partial def loop (hin hout : IO.FS.Stream) : IO Unit := do
  let line ← hin.getLine
  if line.isEmpty then return
  let l := (line.dropEndWhile (· == '\n')).toString
  hout.putStrLn (handle l).compress
  hout.flush
  loop hin hout

def main : IO Unit := do
  loop (← IO.getStdin) (← IO.getStdout)
