/-
  Line driver of C17: one request per line on stdin, one answer per line on stdout.
  Fields are separated by `|`, tokens inside a field by blanks.

    ops   ::= op (; op)*        op ::= g NAME ID | u | o          (get_name / push / pop)
    expr  ::= v NAME N expr^N | c (0|1) MAG | n expr | b OP expr expr       (prefix form)
    OP    ::= + - * / % < > <= >= == and or

    env|ops        -> names returned by the get operations, blank separated, then `|` and
                      `T`/`F`: were the live symbols shown injectively after every operation
    envfix|ops     -> the same for the repaired get_name
    pr|P|expr      -> text printed in a context of precedence P
    rt|expr        -> text | T/F lex(text) = tokens | parse of the tokens (prefix form or `none`)
                      | T/F parse = some (norm expr)
    parse|text     -> lex + parse of arbitrary text: prefix form, `none` (parser) or `lexerr`
    prec           -> the precedence table `op:prec ...`
-/
import ExoModel.Print
open Exo Exo.Print

abbrev P := StateT (List String) (Except String)

def tok : P String := do
  match (← get) with
  | [] => throw "unexpected end of tokens"
  | t :: r => set r; pure t

def pNat : P Nat := do
  let t ← tok
  match t.toNat? with
  | some n => pure n
  | none => throw s!"bad nat {t}"

def opOfStr (t : String) : Option BinOp := allOps.find? (fun o => opStr o == t)

partial def pExpr : P PExpr := do
  let t ← tok
  match t with
  | "v" => do
    let x ← tok
    let n ← pNat
    let mut idx : List PExpr := []
    for _ in [0:n] do
      idx := idx ++ [← pExpr]
    pure (.var x idx)
  | "c" => do
    let s ← tok
    let m ← tok
    pure (.const (s == "1") m)
  | "n" => do pure (.neg (← pExpr))
  | "b" => do
    let o ← tok
    match opOfStr o with
    | none => throw s!"bad op {o}"
    | some op => do
      let l ← pExpr
      let r ← pExpr
      pure (.bin op l r)
  | _ => throw s!"bad expr token {t}"

partial def showExpr : PExpr → String
  | .var x idx => s!"v {x} {idx.length}" ++ String.join (idx.map fun e => " " ++ showExpr e)
  | .const n m => s!"c {if n then 1 else 0} {m}"
  | .neg e => "n " ++ showExpr e
  | .bin o l r => s!"b {opStr o} {showExpr l} {showExpr r}"

partial def eqExpr : PExpr → PExpr → Bool
  | .var x i, .var y j => x == y && i.length == j.length && (i.zip j).all (fun (a, b) => eqExpr a b)
  | .const n m, .const n' m' => n == n' && m == m'
  | .neg a, .neg b => eqExpr a b
  | .bin o l r, .bin o' l' r' => o == o' && eqExpr l l' && eqExpr r r'
  | _, _ => false

def words (s : String) : List String := (s.splitOn " ").filter (· ≠ "")

def runP {α} (p : P α) (s : String) : Except String α := do
  let (a, rest) ← p.run (words s)
  if rest ≠ [] then throw s!"trailing tokens {rest}"
  pure a

def pOp (s : String) : Except String (Option Op) :=
  match words s with
  | [] => pure none
  | ["u"] => pure (some .push)
  | ["o"] => pure (some .pop)
  | ["g", nm, id] =>
    match id.toNat? with
    | some n => pure (some (.get ⟨nm, n⟩))
    | none => throw s!"bad id {id}"
  | w => throw s!"bad op {w}"

def pOps (s : String) : Except String (List Op) := do
  let mut out := []
  for part in s.splitOn ";" do
    match ← pOp part with
    | some o => out := out ++ [o]
    | none => pure ()
  pure out

def tf (b : Bool) : String := if b then "T" else "F"

def envAnswer (gn : PEnv → Sym → String × PEnv) (ops : List Op) : String :=
  let (_, out) := runWith gn PEnv.init ops
  let ok := (statesWith gn PEnv.init ops).all injB
  " ".intercalate out ++ "|" ++ tf ok

def answer (line : String) : Except String String := do
  match line.splitOn "|" with
  | ["env", ops] => pure (envAnswer getName (← pOps ops))
  | ["envfix", ops] => pure (envAnswer getNameFixed (← pOps ops))
  | ["pr", p, e] =>
    match p.trimAscii.toString.toNat? with
    | some n => pure (ppS n (← runP pExpr e))
    | none => throw "bad prec"
  | ["rt", e] => do
    let e ← runP pExpr e
    let txt := ppS 0 e
    let toks := ppT 0 e
    let lexOk := lex txt == some toks
    let r := parse toks
    let rs := match r with | some x => showExpr x | none => "none"
    let good := match r with | some x => eqExpr x (norm e) | none => false
    pure s!"{txt}|{tf lexOk}|{rs}|{tf good}"
  | "parse" :: rest =>
    let txt := "|".intercalate rest
    match lex txt with
    | none => pure "lexerr"
    | some ts => pure (match parse ts with | some x => showExpr x | none => "none")
  | ["prec"] => pure (" ".intercalate (precTable.map fun (o, p) => s!"{o}:{p}"))
  | _ => throw "bad request"

partial def loop (hin hout : IO.FS.Stream) : IO Unit := do
  let line ← hin.getLine
  if line.isEmpty then return
  let l := (line.dropEndWhile (· == '\n')).toString
  match answer l with
  | .ok s => hout.putStrLn s
  | .error e => hout.putStrLn s!"bad:{e}"
  hout.flush
  loop hin hout

def main : IO Unit := do
  loop (← IO.getStdin) (← IO.getStdout)
