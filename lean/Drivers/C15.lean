/-
  Drivers/C15.lean — line driver for the models of the backend analyses (ExoModel/Analyses.lean).

  request (one JSON object per line)
    {"procs":[proc…], "order":[i…]}
        procs  : in dependency order (a callee before its callers); calls name the callee by index
        order  : indices in the order of `find_all_subprocs` (what `compile_to_strings` then sorts by name)
    proc   = {"name":s,"instr":bool,"params":[param…],"body":[stmt…]}
    param  = [name,"ctrl"] | [name,"data",prec,mem,shape]
    shape  = "s" | ["d",n] | ["w",n]
    expr   = ["ctrl"] | ["const",prec] | ["read",x,shape] | ["window",x,shape] | ["usub",e]
           | ["binop",l,r] | ["extern",[e…]]
    stmt   = ["pass"] | ["assign",x,e] | ["reduce",x,e] | ["call",i,[e…]] | ["for",[stmt…]]
           | ["if",[stmt…],[stmt…]] | ["alloc",x,prec,mem,shape,allocshape] | ["win",x,e]
  answer
    {"ok":true,"verdict":["ok"] | ["err",proc,class,n],
     "per":[{"name":s,"prec":[perr…],"stages":[precV,winV,memV,gateV]}…],     (in `procs` order)
     "writes":[[name…]…]}                                                      (`get_writes_of_stmts`)
    a stage verdict is "ok" | "skip" (an earlier stage failed) | class name; perr = "binop" | "extern" | "call" | "crash"
-/
import Lean.Data.Json
import ExoModel.Analyses

open Lean (Json)
open Exo.Analyses Exo.Gen.Tables15

def gS (j : Json) : Except String String := j.getStr?
def gA (j : Json) : Except String (Array Json) := j.getArr?
def at! (a : Array Json) (i : Nat) : Json := a[i]?.getD Json.null

def decNat (j : Json) : Except String Nat := do
  let v ← j.getInt?
  if v < 0 then throw "negative" else pure v.toNat

def decShape (j : Json) : Except String Shape :=
  match j with
  | .str "s" => pure .scalar
  | _ => do
    let a ← gA j
    let t ← gS (at! a 0)
    let n ← decNat (at! a 1)
    match t with
    | "d" => pure (.dense n)
    | "w" => pure (.win n)
    | _ => throw s!"bad shape {t}"

def decPrec (j : Json) : Except String Prec := do
  let s ← gS j
  match Prec.ofStr? s with
  | some p => pure p
  | none => throw s!"unknown precision {s}"

def decMem (j : Json) : Except String Mem := do
  let s ← gS j
  match Mem.ofStr? s with
  | some p => pure p
  | none => throw s!"unknown memory {s}"

def decAllocShape (j : Json) : Except String AllocShape := do
  let s ← gS j
  match AllocShape.ofStr? s with
  | some p => pure p
  | none => throw s!"unknown alloc shape {s}"

def decParam (j : Json) : Except String Param := do
  let a ← gA j
  let x ← gS (at! a 0)
  let k ← gS (at! a 1)
  match k with
  | "ctrl" => pure ⟨x, .ctrl⟩
  | "data" => pure ⟨x, .data ⟨← decPrec (at! a 2), ← decMem (at! a 3), ← decShape (at! a 4)⟩⟩
  | _ => throw s!"bad param kind {k}"

mutual
partial def decE (j : Json) : Except String Expr := do
  let a ← gA j
  let t ← gS (at! a 0)
  match t with
  | "ctrl" => pure .ctrl
  | "const" => pure (.const (← decPrec (at! a 1)))
  | "read" => pure (.read (← gS (at! a 1)) (← decShape (at! a 2)))
  | "window" => pure (.window (← gS (at! a 1)) (← decShape (at! a 2)))
  | "usub" => pure (.usub (← decE (at! a 1)))
  | "binop" => pure (.binop (← decE (at! a 1)) (← decE (at! a 2)))
  | "extern" => pure (.extern (← decArgs (at! a 1)))
  | _ => throw s!"bad expr tag {t}"
partial def decArgs (j : Json) : Except String Args := do
  let a ← gA j
  let es ← a.toList.mapM decE
  pure (es.foldr Args.cons .nil)
end

mutual
partial def decS (cs : Array Callee) (j : Json) : Except String Stmt := do
  let a ← gA j
  let t ← gS (at! a 0)
  match t with
  | "pass" => pure .pass
  | "assign" => pure (.assign (← gS (at! a 1)) (← decE (at! a 2)))
  | "reduce" => pure (.reduce (← gS (at! a 1)) (← decE (at! a 2)))
  | "call" =>
    let i ← decNat (at! a 1)
    match cs[i]? with
    | some c => pure (.call c (← decArgs (at! a 2)))
    | none => throw s!"callee index {i} not yet defined"
  | "for" => pure (.for_ (← decB cs (at! a 1)))
  | "if" => pure (.if_ (← decB cs (at! a 1)) (← decB cs (at! a 2)))
  | "alloc" =>
    pure (.alloc (← gS (at! a 1)) ⟨← decPrec (at! a 2), ← decMem (at! a 3), ← decShape (at! a 4)⟩
            (← decAllocShape (at! a 5)))
  | "win" => pure (.windowStmt (← gS (at! a 1)) (← decE (at! a 2)))
  | _ => throw s!"bad stmt tag {t}"
partial def decB (cs : Array Callee) (j : Json) : Except String Block := do
  let a ← gA j
  let ss ← a.toList.mapM (decS cs)
  pure (ss.foldr Block.cons .nil)
end

def decProc (cs : Array Callee) (j : Json) : Except String Proc := do
  let name ← gS (← j.getObjVal? "name")
  let instr ← (← j.getObjVal? "instr").getBool?
  let ps ← (← gA (← j.getObjVal? "params")).toList.mapM decParam
  let body ← decB cs (← j.getObjVal? "body")
  pure ⟨name, ps, body, instr⟩

def errStr : Err → String × Nat
  | .precision n => ("precision", n)
  | .window => ("window", 0)
  | .memory => ("memory", 0)
  | .read => ("read", 0)
  | .write => ("write", 0)
  | .reduce => ("reduce", 0)
  | .alloc => ("alloc", 0)
  | .staticMem => ("staticMem", 0)
  | .dupName => ("dupName", 0)
  | .crash => ("crash", 0)

def perrStr : PErr → String
  | .binop => "binop"
  | .extern => "extern"
  | .call => "call"
  | .crash => "crash"

def stageStr {α} (r : Except Err α) : String :=
  match r with
  | .ok _ => "ok"
  | .error e => (errStr e).1

def perProc (p : Proc) : Json :=
  let pe := precProc p
  let s1 := precStage p
  let s2 := winStage p
  let stages : List String :=
    match s1 with
    | .error _ => [stageStr s1, "skip", "skip", "skip"]
    | .ok _ =>
      match s2 with
      | .error _ => ["ok", stageStr s2, "skip", "skip"]
      | .ok b =>
        let s3 := memStage p b
        match s3 with
        | .error _ => ["ok", "ok", stageStr s3, "skip"]
        | .ok _ => ["ok", "ok", "ok", stageStr (gateStage p b)]
  Json.mkObj [("name", p.name), ("prec", Json.arr (pe.map (fun e => Json.str (perrStr e))).toArray),
    ("stages", Json.arr (stages.map Json.str).toArray)]

def handle (j : Json) : Except String Json := do
  let pj ← gA (← j.getObjVal? "procs")
  let mut cs : Array Callee := #[]
  let mut ps : Array Proc := #[]
  for x in pj do
    let p ← decProc cs x
    ps := ps.push p
    cs := cs.push ⟨p.name, p.params, procWrites p, p.instr⟩
  let order ← (← gA (← j.getObjVal? "order")).toList.mapM decNat
  let lst ← order.mapM fun i =>
    match ps[i]? with
    | some p => pure p
    | none => throw s!"bad order index {i}"
  let v : Json :=
    match analyses lst with
    | .ok => Json.arr #["ok"]
    | .err n e => Json.arr #["err", Json.str n, Json.str (errStr e).1, Json.num (errStr e).2]
  pure (Json.mkObj [("ok", true), ("verdict", v),
    ("per", Json.arr (ps.map fun p => if p.instr then Json.mkObj [("name", p.name), ("instr", true)] else perProc p)),
    ("writes", Json.arr (ps.map fun p => Json.arr ((procWrites p).map Json.str).toArray))])

partial def loop (hin hout : IO.FS.Stream) : IO Unit := do
  let line ← hin.getLine
  if line.isEmpty then return
  let l := line.trimAscii.toString
  if l.isEmpty then
    loop hin hout
  else
    let ans :=
      match Json.parse l with
      | .error e => Json.mkObj [("ok", false), ("err", s!"parse: {e}")]
      | .ok j =>
        match handle j with
        | .ok r => r
        | .error e => Json.mkObj [("ok", false), ("err", s!"request: {e}")]
    hout.putStrLn ans.compress
    hout.flush
    loop hin hout

def main : IO Unit := do
  let hin ← IO.getStdin
  let hout ← IO.getStdout
  loop hin hout
