/-
  Drivers/C01Side — line driver for "tie B": the semantic side condition of a primitive's
  `…_in_context` theorem evaluated at every dynamic visit of the rewritten position
  (ExoModel.SideCheck).
  request : {"op":"side","before":<proc>,"after":<proc>,"name":<string>,
             "path":[["body"|"orelse",k]..],"k":<nat>,"flag":<bool>,"inputs":[<input>..]}
            (`name`/`path`/`k`/`flag` exactly as for op `rwcheck`; inputs as for op `exec`;
             trailing expression steps of a path are dropped)
  answer  : {"results":[{"visits":n,"holds":m} | {"invalid":e} | {"bad":e}]}
          | {"static":<string>}   a syntactic hypothesis of the theorem fails
          | {"nocond":<string>}   unexpected shape / no side condition for this primitive
          | {"bad":<string>}
-/
import ExoModel.Wire
import ExoModel.SideCheck
open Lean Exo Exo.Wire

instance : DataAlg Rat where
  ofRat n d := (n : Rat) / (d : Rat)
  add := (· + ·)
  sub := (· - ·)
  mul := (· * ·)
  div := (· / ·)
  neg := (- ·)

def extRat (f : String) (xs : List Rat) : Rat :=
  match f, xs with
  | "relu", [x] => if x > 0 then x else 0
  | "select", [a, b, c, d] => if a < b then c else d
  | "fmaxf", [a, b] => if a < b then b else a
  | "sin", [x] => x * x - 3 * x + 1 / 7
  | "expf", [x] => 2 * x * x + x + 1
  | "sigmoid", [x] => x * x * x + 1 / 2
  | "sqrt", [x] => x * x + 5 * x
  | _, xs => xs.foldl (· + ·) 1

def parseView (j : Json) : P View := do
  let dims ← (← arr (← fld j "dims")).toList.mapM (fun d => do
    let a ← arr d
    pure ((← int a[0]!), (← int a[1]!)))
  pure { buf := ← nat (← fld j "buf"), off := ← int (← fld j "off"), dims := dims }

def parseInput (p : Proc) (j : Json) : P (State Rat) := do
  let args ← arr (← fld j "args")
  let heap ← (← arr (← fld j "heap")).toList.mapM (fun b => do (← arr b).toList.mapM ratOfJson)
  let cfg ← (← arr (← fld j "cfg")).toList.mapM (fun c => do
    let a ← arr c
    let k := (← str a[0]!, ← str a[1]!)
    match ← str a[2]! with
    | "c" => pure (k, CfgVal.ctrl (← int a[3]!))
    | _ => pure (k, CfgVal.data (← ratOfJson a[3]!)))
  let mut env : List (Sym × Int) := []
  let mut views : List (Sym × View) := []
  let fargs := p.args
  if fargs.length ≠ args.size then throw "arity"
  for (fa, a) in fargs.zip args.toList do
    match a.getObjVal? "c" with
    | .ok c => env := (fa.name, ← int c) :: env
    | .error _ => views := (fa.name, ← parseView (← fld a "v")) :: views
  pure { env := env, views := views, heap := heap, cfg := cfg }

def checkCtrlArgs (σ : State Rat) : List FnArg → Except Err Unit
  | [] => pure ()
  | ⟨x, .ctrl .size⟩ :: r => match lookupSym x σ.env with
      | some v => if v ≤ 0 then throw .nonPosSize else checkCtrlArgs σ r
      | none => throw .scope
  | _ :: r => checkCtrlArgs σ r

def sideOne (p : Proc) (f : State Rat → Except String (Nat × Nat)) (j : Json) : Json :=
  match parseInput p j with
  | .error e => Json.mkObj [("bad", .str e)]
  | .ok σ =>
    let valid : Except Err Unit := do
      checkCtrlArgs σ p.args
      checkShapes σ p.args
      checkPreds σ p.preds
      if !noAlias σ.views then throw .alias
    match valid with
    | .error e => Json.mkObj [("invalid", .str (toString e))]
    | .ok _ =>
      match f σ with
      | .ok (n, m) => Json.mkObj [("visits", toJson n), ("holds", toJson m)]
      | .error e => Json.mkObj [("bad", .str e)]

def handle (line : String) : Json :=
  match Json.parse line with
  | .error e => Json.mkObj [("bad", .str e)]
  | .ok j =>
    match (do
      let op ← str (← fld j "op")
      match op with
      | "side" => do
          let before ← proc (← fld j "before")
          let after ← proc (← fld j "after")
          let name ← str (← fld j "name")
          let steps ← (← arr (← fld j "path")).toList.mapM (fun st => do
            let a ← arr st
            match ← str a[0]! with
            | "body" => pure (some (Exo.Rw.Step.body (← nat a[1]!)))
            | "orelse" => pure (some (Exo.Rw.Step.orelse (← nat a[1]!)))
            | "rhs" | "lhs" | "arg" | "idx" | "args" | "cond" | "lo" | "hi" => pure none
            | t => throw s!"bad path step {t}")
          let path := (steps.takeWhile Option.isSome).filterMap id
          let k ← nat (← fld j "k")
          let flag ← Wire.bool (← fld j "flag")
          let ins ← arr (← fld j "inputs")
          match Exo.SideTie.condFor (V := Rat) extRat name path k flag before.body after.body with
          | .error e =>
            if e.startsWith "static: " then pure (Json.mkObj [("static", .str (e.drop 8).toString)])
            else pure (Json.mkObj [("nocond", .str e)])
          | .ok _ =>
            pure (Json.mkObj [("results", .arr (ins.map (sideOne before
              (Exo.SideTie.check extRat name path k flag before.body after.body))))])
      | _ => throw s!"unknown op {op}" : P Json) with
    | .ok r => r
    | .error e => Json.mkObj [("bad", .str e)]

partial def loop (h : IO.FS.Stream) (out : IO.FS.Stream) : IO Unit := do
  let line ← h.getLine
  if line.isEmpty then return ()
  let l := line.trimAscii.toString
  if l.isEmpty then loop h out else
  out.putStrLn (handle l).compress
  out.flush
  loop h out

def main : IO Unit := do loop (← IO.getStdin) (← IO.getStdout)
