/-
  Drivers/C03 — line driver for the verification-condition generator (ExoModel.VCGen).

  request : {"op":"gen","proc":<proc>}
  answer  : {"wf":bool,"wf_failures":[str..],
             "full":[{"kind":k,"path":[text..],"goal":text}..],     -- vcgen of the procedure
             "own":[..], "real":[..]}                               -- own = callee bodies cut off

  request : {"op":"eval","proc":<proc>,"which":"own"|"real"|"full","budget":n,
             "vals":[{"env":[[name,id,value]..],"strides":[[name,id,[s0,s1,..]]..]}..]}
  answer  : {"results":[{"falsified":[{"i":index,"kind":k,"at":[[name,id,value]..]}..],
                         "checked":n,"budget_hit":bool}..]}

  A condition is evaluated on a valuation by walking its path oldest fact first:
    `lo <= i` followed by `i < hi` with `i` unbound  → `i` ranges over [lo,hi)  (loop variable)
    `stride(x,k) == e` with that stride unbound       → defines the stride      (layout fact)
    anything else must be true (otherwise the condition holds vacuously here)
  and is falsified if the goal is then not true.
-/
import ExoModel.Wire
import ExoModel.VCGen
open Lean Exo Exo.Wire Exo.VCGen

def showOp : BinOp → String
  | .add => "+" | .sub => "-" | .mul => "*" | .div => "/" | .mod => "%"
  | .lt => "<" | .gt => ">" | .le => "<=" | .ge => ">=" | .eq => "==" | .and => "and" | .or => "or"

mutual
partial def showE : Expr → String
  | .read x [] => toString x
  | .read x idx => toString x ++ "[" ++ ", ".intercalate (idx.map showE) ++ "]"
  | .lit (.int n) => toString n
  | .lit (.bool b) => if b then "True" else "False"
  | .lit (.data n d) => s!"{n}/{d}"
  | .usub e => "-(" ++ showE e ++ ")"
  | .binop op a b => "(" ++ showE a ++ " " ++ showOp op ++ " " ++ showE b ++ ")"
  | .extern f args => f ++ "(" ++ ", ".intercalate (args.map showE) ++ ")"
  | .win x acc => toString x ++ "[" ++ ", ".intercalate (acc.map showW) ++ "]"
  | .stride x d => s!"stride({x},{d})"
  | .readcfg c f => c ++ "." ++ f
partial def showW : WAcc → String
  | .interval lo hi => showE lo ++ ":" ++ showE hi
  | .point p => showE p
end

def vcJson (v : VC) : Json :=
  Json.mkObj [("kind", .str v.kind), ("path", .arr (v.path.map (fun e => Json.str (showE e))).toArray),
              ("goal", .str (showE v.goal))]

/-- cut callee bodies off (each callee is checked as a procedure of its own) -/
partial def stripS : Stmt → Stmt
  | .ite c t e => .ite c (t.map stripS) (e.map stripS)
  | .loop i lo hi b p => .loop i lo hi (b.map stripS) p
  | .call (.mk n a p _) args => .call (.mk n a p []) args
  | s => s

def stripP : Proc → Proc
  | .mk n a p b => .mk n a p (b.map stripS)

/-- kinds that belong to a (stripped) callee rather than to the procedure itself never appear
    after stripping except the callee's `arg-shape-pos`; those are recognised by their path
    (they do not extend the caller's path) and dropped by evaluation being vacuous. -/
def ownVCs (p : Proc) : List VC := vcgen (stripP p)

/-! ### evaluation -/

/-- marks a stride that no fact has defined yet -/
def unset : Int := -999999937

def setNth (l : List Int) (k : Nat) (v : Int) : List Int :=
  let l' := if l.length ≤ k then l ++ List.replicate (k + 1 - l.length) unset else l
  l'.set k v

def setStride (ss : List (Sym × List Int)) (x : Sym) (k : Nat) (v : Int) : List (Sym × List Int) :=
  match lookupSym x ss with
  | some l => (x, setNth l k v) :: ss
  | none => (x, setNth [] k v) :: ss

def strideBound (E : CEnv) (x : Sym) (k : Nat) : Bool :=
  match lookupSym x E.strides with
  | some l => match l[k]? with
      | some v => v ≠ unset
      | none => false
  | none => false

structure Search where
  budget : Nat
  found : Option (List (Sym × Int))
  steps : Nat

/-- walk the path (oldest first); `loops` = loop variables bound so far (for the report) -/
partial def walk (goal : Expr) (E : CEnv) (loops : List (Sym × Int)) :
    List Expr → StateM Search Unit
  | [] => do
      let s ← get
      set { s with steps := s.steps + 1 }
      if s.found.isNone && !(holdsB E goal) then
        modify (fun s => { s with found := some loops.reverse })
  | f :: rest => do
      let s ← get
      if s.found.isSome || s.steps ≥ s.budget then return ()
      match f, rest with
      | .binop .le lo (.read i []), .binop .lt (.read i' []) hi :: rest' =>
          if i = i' && (lookupSym i E.env).isNone then
            match evalCE E lo, evalCE E hi with
            | .ok l, .ok h =>
                let n := (h - l).toNat
                for k in List.range n do
                  let s ← get
                  if s.found.isSome || s.steps ≥ s.budget then break
                  let v := l + (k : Int)
                  walk goal { E with env := (i, v) :: E.env } ((i, v) :: loops) rest'
            | _, _ => return ()
          else if holdsB E f then walk goal E loops rest else do
            modify (fun s => { s with steps := s.steps + 1 })
      | .binop .eq (.stride x k) e, _ =>
          if !(strideBound E x k) then
            match evalCE E e with
            | .ok v => walk goal { E with strides := setStride E.strides x k v } loops rest
            | .error _ => return ()
          else if holdsB E f then walk goal E loops rest else do
            modify (fun s => { s with steps := s.steps + 1 })
      | _, _ =>
          if holdsB E f then walk goal E loops rest else do
            modify (fun s => { s with steps := s.steps + 1 })

def evalVC (budget : Nat) (E : CEnv) (v : VC) : Search :=
  ((walk v.goal E [] v.path.reverse).run { budget := budget, found := none, steps := 0 }).2

def parseVal (j : Json) : P CEnv := do
  let env ← (← arr (← fld j "env")).toList.mapM (fun e => do
    let a ← arr e
    pure ((⟨← str a[0]!, ← nat a[1]!⟩ : Sym), ← int a[2]!))
  let strides ← (← arr (← fld j "strides")).toList.mapM (fun e => do
    let a ← arr e
    let ss ← (← arr a[2]!).toList.mapM int
    pure ((⟨← str a[0]!, ← nat a[1]!⟩ : Sym), ss))
  pure { env := env, strides := strides, cfg := [] }

def evalAll (budget : Nat) (vcs : List VC) (E : CEnv) : Json := Id.run do
  let mut fals : Array Json := #[]
  let mut checked := 0
  let mut hit := false
  let mut idx := 0
  for v in vcs do
    let r := evalVC budget E v
    checked := checked + r.steps
    if r.steps ≥ budget then hit := true
    match r.found with
    | some at_ =>
        fals := fals.push (Json.mkObj [("i", toJson idx), ("kind", .str v.kind),
          ("at", .arr (at_.map (fun (x, n) => Json.arr #[.str x.name, toJson x.id, toJson n])).toArray)])
    | none => pure ()
    idx := idx + 1
  return Json.mkObj [("falsified", .arr fals), ("checked", toJson checked), ("budget_hit", .bool hit)]

def handle (line : String) : Json :=
  match Json.parse line with
  | .error e => Json.mkObj [("bad", .str e)]
  | .ok j =>
    match (do
      let op ← str (← fld j "op")
      let p ← proc (← fld j "proc")
      match op with
      | "gen" =>
          let obs := genP p
          pure (Json.mkObj [
            ("wf", .bool (obsWf obs)),
            ("wf_failures", .arr ((wfFailures obs).map Json.str).toArray),
            ("full", .arr ((obsVCs obs).map vcJson).toArray),
            ("own", .arr ((ownVCs p).map vcJson).toArray),
            ("real", .arr ((vcgenReal p).map vcJson).toArray)])
      | "eval" =>
          let which ← str (← fld j "which")
          let budget ← nat (← fld j "budget")
          let vcs := match which with
            | "real" => vcgenReal p
            | "full" => vcgen p
            | _ => ownVCs p
          let vals ← (← arr (← fld j "vals")).toList.mapM parseVal
          pure (Json.mkObj [("results", .arr (vals.map (evalAll budget vcs)).toArray)])
      | _ => throw s!"unknown op {op}" : P Json) with
    | .ok r => r
    | .error e => Json.mkObj [("bad", .str e)]

partial def loop (h : IO.FS.Stream) (out : IO.FS.Stream) : IO Unit := do
  let line ← h.getLine
  if line.isEmpty then return ()
  let l := line.trimAscii.toString
  if l.isEmpty then loop h out else
  out.putStrLn (handle l).compress
  out.flush
  loop h out

def main : IO Unit := do loop (← IO.getStdin) (← IO.getStdout)
