/-
  Drivers/C02S — line driver of the statement-level compiler model (ExoModel.CompileS), the tie of
  "C02 wave 2" (harness/ccstmt.py).

  request : {"op":"comp","proc":<proc as exported by harness/export_ir.py, AFTER MemoryAnalysis>,
             "bounds":[[[name,id],lo|null,hi|null],...],   -- range_env of the size arguments
             "cb":[[calleeName,[[[name,id],lo|null,hi|null],...]],...],   -- range_env of every callee (optional)
             "ctype":"float","short":"f32"}
  answer  : {"ok":[line,...],"modOK":bool,"freeOK":bool}   the body lines `compL` + printer produce, the ghost
                                                 F6 flag, and whether the emitted body satisfies the static
                                                 `free` discipline `CompileS.freeOK` (false = F7 situation);
                                                 "wtC":bool = the emitted tree (incl. callees) is well-typed
                                                 mini-C (`ExoModel.CTyping.wtFun`, property C15(a))
          | {"unsupported":why}                  outside the covered fragment
          | {"raise":why}                        the model says the real compiler raises
          | {"bad":msg}                          malformed request
-/
import ExoModel.Wire
import ExoModel.CompileS
import ExoModel.CTyping
open Lean Exo Exo.Wire Exo.CompileS

def optInt (j : Json) : P (Option Int) :=
  match j with
  | .null => pure none
  | _ => do pure (some (← int j))

def parseBounds (j : Json) : P (List (Sym × Exo.Range.Bound)) := do
  (← arr j).toList.mapM (fun b => do
    let a ← arr b
    pure (← sym a[0]!, (← optInt a[1]!, ← optInt a[2]!)))

def handle (line : String) : Json :=
  match Json.parse line with
  | .error e => Json.mkObj [("bad", .str e)]
  | .ok j =>
    match (do
      let op ← str (← fld j "op")
      match op with
      | "comp" => do
          let p ← proc (← fld j "proc")
          let bounds ← parseBounds (← fld j "bounds")
          let pr : CompileS.Prec := ⟨← str (← fld j "ctype"), ← str (← fld j "short")⟩
          let cb ← match j.getObjVal? "cb" with
            | .ok cbj => (← arr cbj).toList.mapM (fun e => do
                let a ← arr e
                pure (← str a[0]!, ← parseBounds a[1]!))
            | .error _ => pure []
          let wt : Bool := match compP p bounds cb with
            | .ok (cs, _) => Exo.CTyping.wtFun (paramsOf p.args) cs
            | .error _ => false
          match printP pr p bounds cb with
          | .ok (ls, k, fo) => pure (Json.mkObj [("ok", .arr (ls.map Json.str).toArray), ("modOK", .bool k),
              ("freeOK", .bool fo), ("wtC", .bool wt)])
          | .error e =>
              if e.startsWith "unsupported:" then pure (Json.mkObj [("unsupported", .str e)])
              else pure (Json.mkObj [("raise", .str e)])
      | _ => throw s!"unknown op {op}" : P Json) with
    | .ok r => r
    | .error e => Json.mkObj [("bad", .str e)]

partial def loop (h : IO.FS.Stream) (out : IO.FS.Stream) : IO Unit := do
  let line ← h.getLine
  if line.isEmpty then return ()
  let l := line.trimAscii.toString
  if l.isEmpty then loop h out else
  out.putStrLn (handle l).compress
  out.flush
  loop h out

def main : IO Unit := do loop (← IO.getStdin) (← IO.getStdout)
