/-
  Line driver of C18: one JSON request per line on stdin, one JSON answer per line on stdout.

    {"op":"sort","keys":[str,…]}                       -> {"order":[index,…]}      pySorted strOrder (stable)
    {"op":"symsort","syms":[[name,id],…]}             -> {"syms":[[name,id],…]}   mergeSort symLe
    {"op":"termsort","terms":[[coeff,name,id],…]}     -> {"terms":[[coeff,name,id],…]}
    {"op":"cname"|"pname","fuel":n,"evs":[ev,…]}      -> {"out":[str|null,…]}     ev = ["b",name,id] | ["u",name,id] | ["+"] | ["-"]
    {"op":"unit","prelude":s,"lib":s,"procs":[[name,isInstr,isPublic,decl,body,instrGlobal|null],…],
       "mems":[[name,global],…],"exts":[[name,ctype,globl],…],"cfgs":[[name,[line,…]],…],
       "structs":[[name,definition],…],"helpers":[str,…]}
                                                       -> {"ok":[header,body]} | {"err":message}
-/
import Lean.Data.Json
import ExoModel.Order
open Lean Exo Exo.Order

def strs (j : Json) : Except String (List String) := do
  (← j.getArr?).toList.mapM (·.getStr?)

def symOf (a : Array Json) (i : Nat) : Except String Sym := do
  pure ⟨← a[i]!.getStr?, ← a[i + 1]!.getNat?⟩

def evOf (j : Json) : Except String Ev := do
  let a ← j.getArr?
  match ← a[0]!.getStr? with
  | "b" => pure (.bind (← symOf a 1))
  | "u" => pure (.use (← symOf a 1))
  | "+" => pure .push
  | "-" => pure .pop
  | t => throw s!"bad event {t}"

def optStr : Option String → Json
  | some s => Json.str s
  | none => Json.null

def handle (j : Json) : Except String Json := do
  match ← (← j.getObjVal? "op").getStr? with
  | "sort" =>
    let keys ← strs (← j.getObjVal? "keys")
    let r := pySorted strOrder (fun p : String × Nat => p.1) keys.zipIdx
    pure (Json.mkObj [("order", Json.arr (r.map (fun p => toJson p.2)).toArray)])
  | "symsort" =>
    let l ← (← (← j.getObjVal? "syms").getArr?).toList.mapM (fun x => do symOf (← x.getArr?) 0)
    let r := l.mergeSort symLe
    pure (Json.mkObj [("syms", Json.arr (r.map (fun s => Json.arr #[Json.str s.name, toJson s.id])).toArray)])
  | "termsort" =>
    let l ← (← (← j.getObjVal? "terms").getArr?).toList.mapM (fun x => do
      let a ← x.getArr?
      pure ((← a[0]!.getInt?), (← symOf a 1)))
    let r := l.mergeSort termLe
    pure (Json.mkObj [("terms", Json.arr (r.map (fun t : Int × Sym =>
      Json.arr #[toJson t.1, Json.str t.2.name, toJson t.2.id])).toArray)])
  | "cname" =>
    let fuel ← (← j.getObjVal? "fuel").getNat?
    let evs ← (← (← j.getObjVal? "evs").getArr?).toList.mapM evOf
    pure (Json.mkObj [("out", Json.arr ((run (cNamer fuel) ([[]], [[]]) evs).map optStr).toArray)])
  | "pname" =>
    let fuel ← (← j.getObjVal? "fuel").getNat?
    let evs ← (← (← j.getObjVal? "evs").getArr?).toList.mapM evOf
    pure (Json.mkObj [("out", Json.arr ((run (printNamer fuel) ([[]], [[]]) evs).map optStr).toArray)])
  | "unit" =>
    let arr (k : String) : Except String (List (Array Json)) := do
      (← (← j.getObjVal? k).getArr?).toList.mapM (·.getArr?)
    let procs ← (← arr "procs").mapM (fun a => do
      let g ← (match a[5]! with | Json.null => pure none | x => do pure (some (← x.getStr?)) : Except String (Option String))
      pure (Proc.mk (← a[0]!.getStr?) (← a[1]!.getBool?) (← a[2]!.getBool?) (← a[3]!.getStr?) (← a[4]!.getStr?) g))
    let mems ← (← arr "mems").mapM (fun a => do pure (Mem.mk (← a[0]!.getStr?) (← a[1]!.getStr?)))
    let exts ← (← arr "exts").mapM (fun a => do pure (Ext.mk (← a[0]!.getStr?) (← a[1]!.getStr?) (← a[2]!.getStr?)))
    let cfgs ← (← arr "cfgs").mapM (fun a => do pure (Cfg.mk (← a[0]!.getStr?) (← strs a[1]!)))
    let structs ← (← arr "structs").mapM (fun a => do pure (WStruct.mk (← a[0]!.getStr?) (← a[1]!.getStr?)))
    let helpers ← strs (← j.getObjVal? "helpers")
    let prelude ← (← j.getObjVal? "prelude").getStr?
    let lib ← (← j.getObjVal? "lib").getStr?
    match compileUnit prelude lib ⟨procs, mems, exts, cfgs, structs, helpers⟩ with
    | .ok (h, b) => pure (Json.mkObj [("ok", Json.arr #[Json.str h, Json.str b])])
    | .error e => pure (Json.mkObj [("err", Json.str e)])
  | op => throw s!"unknown op {op}"

partial def loop (hin hout : IO.FS.Stream) : IO Unit := do
  let line ← hin.getLine
  if line.isEmpty then return
  let ans := match Json.parse line.trimAscii.toString >>= handle with
    | .ok j => j.compress
    | .error e => (Json.mkObj [("error", Json.str e)]).compress
  hout.putStrLn ans
  hout.flush
  loop hin hout

def main : IO Unit := do
  loop (← IO.getStdin) (← IO.getStdout)
