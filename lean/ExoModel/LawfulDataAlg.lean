/-
  ExoModel.LawfulDataAlg — the data algebra the C14 theorems quantify over: the operations of
  `DataAlg` (ExoModel.Sem) obey the commutative-ring laws, the literals 0, 1, -1 denote what they
  should, and there is a strict comparison `lt` (no laws are needed about it: it only has to be
  the SAME comparison in the meaning of the externs `relu` / `select` and in the meaning of the
  `max` / `cmp` intrinsics).  Nothing is assumed about `div`.
-/
import ExoModel.Sem

namespace Exo

class LawfulDataAlg (V : Type) extends DataAlg V where
  lt : V → V → Bool
  add_comm : ∀ a b : V, add a b = add b a
  add_assoc : ∀ a b c : V, add (add a b) c = add a (add b c)
  mul_comm : ∀ a b : V, mul a b = mul b a
  mul_assoc : ∀ a b c : V, mul (mul a b) c = mul a (mul b c)
  mul_add : ∀ a b c : V, mul a (add b c) = add (mul a b) (mul a c)
  zero_add : ∀ a : V, add (ofRat 0 1) a = a
  one_mul : ∀ a : V, mul (ofRat 1 1) a = a
  sub_eq_add_neg : ∀ a b : V, sub a b = add a (neg b)
  neg_add_cancel : ∀ a : V, add (neg a) a = ofRat 0 1
  neg_one : (ofRat (-1) 1 : V) = neg (ofRat 1 1)
  mul_neg : ∀ a b : V, mul a (neg b) = neg (mul a b)

namespace LawfulDataAlg
variable {V : Type} [LawfulDataAlg V]

def zero : V := DataAlg.ofRat 0 1
def one : V := DataAlg.ofRat 1 1

theorem mul_one (a : V) : DataAlg.mul a (DataAlg.ofRat 1 1) = a := by
  rw [mul_comm, one_mul]

theorem add_zero (a : V) : DataAlg.add a (DataAlg.ofRat 0 1) = a := by
  rw [add_comm, zero_add]

theorem mul_neg_one (a : V) : DataAlg.mul a (DataAlg.ofRat (-1) 1) = DataAlg.neg a := by
  rw [neg_one, mul_neg, mul_one]

theorem add_left_comm (a b c : V) :
    DataAlg.add a (DataAlg.add b c) = DataAlg.add b (DataAlg.add a c) := by
  rw [← add_assoc, add_comm a b, add_assoc]

end LawfulDataAlg

/-- the fixed meaning of the two externs the x86 library uses (src/exo/libs/externs.py:
    `relu(x) = x if x > 0 else 0`, `select(x, v, y, z) = y if x < v else z`) -/
structure LawfulExt {V : Type} [LawfulDataAlg V] (ext : String → List V → V) : Prop where
  relu : ∀ x : V, ext "relu" [x] = if LawfulDataAlg.lt (DataAlg.ofRat 0 1) x then x else DataAlg.ofRat 0 1
  select : ∀ x v y z : V, ext "select" [x, v, y, z] = if LawfulDataAlg.lt x v then y else z

private theorem rat_inv_one : (1 : Rat)⁻¹ = 1 := by
  have := Rat.mul_inv_cancel 1 (by decide)
  rwa [Rat.one_mul] at this

private theorem rat_div_natOne (a : Rat) : a / ((1 : Nat) : Rat) = a := by
  have h : ((1 : Nat) : Rat) = 1 := by rfl
  rw [h, Rat.div_def, rat_inv_one, Rat.mul_one]

/-- exact rationals: the instance the drivers run and the non-vacuity examples use -/
instance instLawfulRat : LawfulDataAlg Rat where
  ofRat n d := (n : Rat) / (d : Rat)
  add := (· + ·)
  sub := (· - ·)
  mul := (· * ·)
  div := (· / ·)
  neg := (- ·)
  lt a b := decide (a < b)
  add_comm := Rat.add_comm
  add_assoc := Rat.add_assoc
  mul_comm := Rat.mul_comm
  mul_assoc := Rat.mul_assoc
  mul_add := Rat.mul_add
  zero_add a := by
    show ((0 : Int) : Rat) / ((1 : Nat) : Rat) + a = a
    rw [rat_div_natOne]; exact Rat.zero_add a
  one_mul a := by
    show ((1 : Int) : Rat) / ((1 : Nat) : Rat) * a = a
    rw [rat_div_natOne]; exact Rat.one_mul a
  sub_eq_add_neg := Rat.sub_eq_add_neg
  neg_add_cancel a := by
    show -a + a = ((0 : Int) : Rat) / ((1 : Nat) : Rat)
    rw [rat_div_natOne]; exact Rat.neg_add_cancel a
  neg_one := by
    show ((-1 : Int) : Rat) / ((1 : Nat) : Rat) = -(((1 : Int) : Rat) / ((1 : Nat) : Rat))
    rw [rat_div_natOne, rat_div_natOne]; rfl
  mul_neg := Rat.mul_neg

/-- integers (`ofRat n d = n / d`): the instance the in-Lean counterexamples and non-vacuity
    examples are evaluated in (the kernel computes with `Int`; it does not with `Rat`) -/
instance instLawfulInt : LawfulDataAlg Int where
  ofRat n d := n / (d : Int)
  add := (· + ·)
  sub := (· - ·)
  mul := (· * ·)
  div := (· / ·)
  neg := (- ·)
  lt a b := decide (a < b)
  add_comm := Int.add_comm
  add_assoc := Int.add_assoc
  mul_comm := Int.mul_comm
  mul_assoc := Int.mul_assoc
  mul_add := Int.mul_add
  zero_add a := by show (0 : Int) / ((1 : Nat) : Int) + a = a; simp
  one_mul a := by show (1 : Int) / ((1 : Nat) : Int) * a = a; simp
  sub_eq_add_neg _ _ := Int.sub_eq_add_neg
  neg_add_cancel a := by show -a + a = (0 : Int) / ((1 : Nat) : Int); simp [Int.add_left_neg]
  neg_one := by decide
  mul_neg := Int.mul_neg

def extInt (f : String) (xs : List Int) : Int :=
  match f, xs with
  | "relu", [x] => if decide ((0 : Int) / ((1 : Nat) : Int) < x) then x else (0 : Int) / ((1 : Nat) : Int)
  | "select", [a, b, c, d] => if decide (a < b) then c else d
  | _, _ => 0

theorem extInt_lawful : LawfulExt extInt where
  relu _ := rfl
  select _ _ _ _ := rfl

/-- the interpretation of externs used by the drivers (agrees with Drivers/Sem.lean on relu/select) -/
def extRat (f : String) (xs : List Rat) : Rat :=
  match f, xs with
  | "relu", [x] => if decide ((0 : Int) / ((1 : Nat) : Rat) < x) then x else (0 : Int) / ((1 : Nat) : Rat)
  | "select", [a, b, c, d] => if decide (a < b) then c else d
  | _, xs => xs.foldl (· + ·) 1

theorem extRat_lawful : LawfulExt extRat where
  relu _ := rfl
  select _ _ _ _ := rfl

end Exo
