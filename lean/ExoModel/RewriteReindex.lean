/-
  ExoModel.RewriteReindex — the common core of the dimension rewrites of a buffer
  (`DoDivideDim`, `DoMultiplyDim`, `DoRearrangeDim`, `DoResizeDim`): every access to `x` in the
  rest of the block gets its index tuple re-written (`_replace_reads` / `_replace_writes` with a
  `mk_read` / `mk_write` that only changes `idx`), window expressions get their coordinates
  re-written, `stride(x, d)` may get its dimension renumbered (only `DoRearrangeDim` does).
  The per-primitive maps and `Local`s are in ExoModel/RewriteStorage.lean.
-/
import ExoModel.Rewrite

namespace Exo.Rw
open Exo

/-- what a dimension rewrite does to the three kinds of access -/
structure Reidx where
  /-- index tuple of a read `x[idx]` and of an `assign` / `reduce` target -/
  idx : List Expr → List Expr
  /-- coordinates of a window expression `x[acc]` -/
  win : List WAcc → List WAcc
  /-- dimension number in `stride(x, d)` -/
  sdim : Nat → Nat

mutual
def reidxE (x : Sym) (ρ : Reidx) : Expr → Expr
  | .read y idx => .read y (if y == x then ρ.idx (reidxEs x ρ idx) else reidxEs x ρ idx)
  | .lit c => .lit c
  | .usub a => .usub (reidxE x ρ a)
  | .binop o a b => .binop o (reidxE x ρ a) (reidxE x ρ b)
  | .extern f args => .extern f (reidxEs x ρ args)
  | .win y acc => .win y (if y == x then ρ.win (reidxWs x ρ acc) else reidxWs x ρ acc)
  | .stride y d => .stride y (if y == x then ρ.sdim d else d)
  | .readcfg c f => .readcfg c f
def reidxEs (x : Sym) (ρ : Reidx) : List Expr → List Expr
  | [] => []
  | a :: r => reidxE x ρ a :: reidxEs x ρ r
def reidxW (x : Sym) (ρ : Reidx) : WAcc → WAcc
  | .interval a b => .interval (reidxE x ρ a) (reidxE x ρ b)
  | .point a => .point (reidxE x ρ a)
def reidxWs (x : Sym) (ρ : Reidx) : List WAcc → List WAcc
  | [] => []
  | w :: r => reidxW x ρ w :: reidxWs x ρ r
end

mutual
def reidxS (x : Sym) (ρ : Reidx) : Stmt → Stmt
  | .assign y idx rhs =>
    .assign y (if y == x then ρ.idx (reidxEs x ρ idx) else reidxEs x ρ idx) (reidxE x ρ rhs)
  | .reduce y idx rhs =>
    .reduce y (if y == x then ρ.idx (reidxEs x ρ idx) else reidxEs x ρ idx) (reidxE x ρ rhs)
  | .writecfg c f rhs d => .writecfg c f (reidxE x ρ rhs) d
  | .pass => .pass
  | .ite c t el => .ite (reidxE x ρ c) (reidxL x ρ t) (reidxL x ρ el)
  | .loop i lo hi b par => .loop i (reidxE x ρ lo) (reidxE x ρ hi) (reidxL x ρ b) par
  | .alloc y sh => .alloc y sh
  | .free y => .free y
  | .call f args => .call f (reidxEs x ρ args)
  | .window y rhs => .window y (reidxE x ρ rhs)
def reidxL (x : Sym) (ρ : Reidx) : List Stmt → List Stmt
  | [] => []
  | s :: r => reidxS x ρ s :: reidxL x ρ r
end

/-- the general shape: the allocation gets the new extents `sh'`, the rest of the block is
    re-indexed -/
def reindexDim (sh' : List Expr) (ρ : Reidx) : Local
  | .alloc x _ :: r => some (.alloc x sh' :: reidxL x ρ r)
  | _ => none

/-! ### the index maps of the four primitives (syntactic `…Idx`, on integers `…IdxI`) -/

def litI (n : Int) : Expr := .lit (.int n)

/-- `DoDivideDim.remap_idx`: `idx[:d] + [idx[d] / q, idx[d] % q] + idx[d+1:]` -/
def divideIdx (d : Nat) (q : Int) (idx : List Expr) : List Expr :=
  match idx[d]? with
  | some e => idx.take d ++ [.binop .div e (litI q), .binop .mod e (litI q)] ++ idx.drop (d + 1)
  | none => idx
def divideIdxI (d : Nat) (q : Int) (is : List Int) : List Int :=
  match is[d]? with
  | some i => is.take d ++ [i / q, i % q] ++ is.drop (d + 1)
  | none => is
/-- `divide_expr`: a literal extent divisible by `q` is folded -/
def divideExtent (e : Expr) (q : Int) : Expr :=
  match e with
  | .lit (.int n) => if n % q = 0 then litI (n / q) else .binop .div e (litI q)
  | _ => .binop .div e (litI q)
def divideShape (d : Nat) (q : Int) (sh : List Expr) : List Expr :=
  match sh[d]? with
  | some e => sh.take d ++ [divideExtent e q, litI q] ++ sh.drop (d + 1)
  | none => sh

/-- `DoMultiplyDim.remap_idx`: `idx[hi] := c * idx[hi] + idx[lo]; del idx[lo]` -/
def multIdx (hi lo : Nat) (c : Int) (idx : List Expr) : List Expr :=
  match idx[hi]?, idx[lo]? with
  | some h, some l => (idx.set hi (.binop .add (.binop .mul (litI c) h) l)).eraseIdx lo
  | _, _ => idx
def multIdxI (hi lo : Nat) (c : Int) (is : List Int) : List Int :=
  match is[hi]?, is[lo]? with
  | some h, some l => (is.set hi (c * h + l)).eraseIdx lo
  | _, _ => is
/-- `shp[hi] := lo_dim * hi_dim; del shp[lo]` -/
def multShape (hi lo : Nat) (sh : List Expr) : List Expr :=
  match sh[hi]?, sh[lo]? with
  | some h, some l => (sh.set hi (.binop .mul l h)).eraseIdx lo
  | _, _ => sh

/-- `DoRearrangeDim.permute`: `[es[i] for i in permutation]` -/
def permList {α : Type} (perm : List Nat) (es : List α) : List α := perm.filterMap (fun i => es[i]?)
/-- `all_permute[name].index(e.dim)` -/
def permDim (perm : List Nat) (d : Nat) : Nat := perm.idxOf d

/-- `DoResizeDim.mk_read` / `mk_write`: `idx[d] := idx[d] - offset` -/
def resizeIdx (d : Nat) (off : Expr) (idx : List Expr) : List Expr :=
  match idx[d]? with
  | some e => idx.set d (.binop .sub e off)
  | none => idx
def resizeIdxI (d : Nat) (off : Int) (is : List Int) : List Int :=
  match is[d]? with
  | some i => is.set d (i - off)
  | none => is
def resizeWin (d : Nat) (off : Expr) (acc : List WAcc) : List WAcc :=
  match acc[d]? with
  | some (.point e) => acc.set d (.point (.binop .sub e off))
  | some (.interval a b) => acc.set d (.interval (.binop .sub a off) (.binop .sub b off))
  | none => acc
def resizeShape (d : Nat) (size : Expr) (sh : List Expr) : List Expr := sh.set d size

end Exo.Rw
