/-
  ExoModel.Rewrite — executable models of the *shape* of the loop-structural scheduling rewrites
  (what `Do<Name>` in src/exo/rewrite/LoopIR_scheduling.py builds once its checks have passed),
  a path-addressed applicator, and alpha-comparison of statement blocks.

  Correspondence A (harness/props/c01.py): for every accepted real rewrite of these primitives the
  driver applies the model rewrite to the exported input procedure and compares the result with
  the exported real output up to renaming of bound symbols.  The property theorems of
  Props/C01.lean are statements about exactly these shapes.
-/
import ExoModel.Syntax
import ExoModel.Subst

namespace Exo.Rw
open Exo

/-- one step of a statement address: which child block of the enclosing statement, which index -/
inductive Step
  | body (k : Nat)
  | orelse (k : Nat)
deriving Repr, DecidableEq

def Step.idx : Step → Nat
  | .body k => k
  | .orelse k => k

abbrev Path := List Step

/-- a local rewrite sees the block suffix that starts at the addressed statement -/
abbrev Local := List Stmt → Option (List Stmt)

/-- apply `f` at `path` (first step indexes `ss`; every later step says which child block of the
    statement selected by the previous step is entered) -/
def rewriteAt (f : Local) : Path → List Stmt → Option (List Stmt)
  | [], _ => none
  | [st], ss => (f (ss.drop st.idx)).map (fun r => ss.take st.idx ++ r)
  | st :: nxt :: rest, ss =>
    match ss[st.idx]? with
    | some (.loop i lo hi b par) =>
      match nxt with
      | .body _ => (rewriteAt f (nxt :: rest) b).map
          (fun b' => ss.take st.idx ++ .loop i lo hi b' par :: ss.drop (st.idx + 1))
      | .orelse _ => none
    | some (.ite c t e) =>
      match nxt with
      | .body _ => (rewriteAt f (nxt :: rest) t).map
          (fun t' => ss.take st.idx ++ .ite c t' e :: ss.drop (st.idx + 1))
      | .orelse _ => (rewriteAt f (nxt :: rest) e).map
          (fun e' => ss.take st.idx ++ .ite c t e' :: ss.drop (st.idx + 1))
    | _ => none

/-! ### local rewrites -/

def insertPassBefore : Local
  | s :: r => some (.pass :: s :: r)
  | [] => none

def insertPassAfter : Local
  | s :: r => some (s :: .pass :: r)
  | [] => none

def cutLoop (i2 : Sym) (mid : Expr) (body2 : List Stmt) : Local
  | .loop i lo hi b par :: r => some (.loop i lo mid b par :: .loop i2 mid hi body2 par :: r)
  | _ => none

def joinLoops : Local
  | .loop i lo _ b par :: .loop _ _ hi2 _ _ :: r => some (.loop i lo hi2 b par :: r)
  | _ => none

def specialize (c : Expr) (copy : List Stmt) : Local
  | s :: r => some (.ite c [s] copy :: r)
  | [] => none

/-- eliminate_dead_code: keep the `then` block, the `else` block, or nothing (dead loop) -/
def deadCode (keepThen : Bool) : Local
  | .ite _ t e :: r => some ((if keepThen then t else e) ++ r)
  | .loop _ _ _ _ _ :: r => some r
  | _ => none

def removeLoop (guarded : Bool) : Local
  | .loop _ lo hi b _ :: r =>
    some (if guarded then .ite (.binop .gt hi lo) b [] :: r else b ++ r)
  | _ => none

def addLoop (i : Sym) (hi : Expr) (guard : Bool) : Local
  | s :: r =>
    let inner := if guard then [.ite (.binop .eq (.read i []) (.lit (.int 0))) [s] []] else [s]
    some (.loop i (.lit (.int 0)) hi inner false :: r)
  | [] => none

/-- fission of the enclosing loop after its k-th statement (one lift) -/
def fissionLoop (k : Nat) (i2 : Sym) (second : List Stmt) : Local
  | .loop i lo hi b par :: r =>
    if k = 0 ∨ k ≥ b.length then none
    else some (.loop i lo hi (b.take k) par :: .loop i2 lo hi second par :: r)
  | _ => none

def fuseLoops (body2 : List Stmt) : Local
  | .loop i lo hi b par :: .loop _ _ _ _ _ :: r => some (.loop i lo hi (b ++ body2) par :: r)
  | _ => none

def fuseIfs : Local
  | .ite c t e :: .ite _ t2 e2 :: r => some (.ite c (t ++ t2) (e ++ e2) :: r)
  | _ => none

/-- the shape `DoShiftLoop` builds -/
def shiftLoop (nlo : Expr) : Local
  | .loop i lo hi b par :: r =>
    some (.loop i nlo (.binop .add nlo (.binop .sub hi lo))
      (substL i (.binop .add (.read i []) (.binop .sub lo nlo)) b) par :: r)
  | _ => none

/-- the index expression `q * io + ii` that `DoDivideLoop` substitutes for the old iterator -/
def dividedIdx (q : Nat) (io ii : Sym) : Expr :=
  .binop .add (.binop .mul (.lit (.int q)) (.read io [])) (.read ii [])

/-- the main nest of a divided loop; `guard` wraps the body in `if q*io+ii < hi` -/
def dividedMain (q : Nat) (io ii : Sym) (ohi : Expr) (guard : Bool) : Stmt → Option Stmt
  | .loop i _ hi b par =>
    let body := substL i (dividedIdx q io ii) b
    let inner := if guard then [.ite (.binop .lt (dividedIdx q io ii) hi) body []] else body
    some (.loop io (.lit (.int 0)) ohi [.loop ii (.lit (.int 0)) (.lit (.int q)) inner par] par)
  | _ => none

/-- tail = 0 perfect (outer bound `ohi` chosen by the primitive), 1 guard, 2 cut, 3 cut_and_guard;
    `copy`/`i3` = the renamed copy of the body and its iterator used by the tail loop -/
def divideLoop (q : Nat) (tail : Nat) (io ii i3 : Sym) (ohi : Expr) (copy : List Stmt) : Local
  | .loop i lo hi b par :: r =>
    let floorHi : Expr := .binop .div hi (.lit (.int q))
    let ceilHi : Expr := .binop .div (.binop .add hi (.lit (.int ((q : Int) - 1)))) (.lit (.int q))
    let tailLoop : Stmt := .loop i3 (.lit (.int 0)) (.binop .mod hi (.lit (.int q)))
        (substL i (.binop .add (.read i3 []) (.binop .mul floorHi (.lit (.int q)))) copy) par
    match tail with
    | 0 => (dividedMain q io ii ohi false (.loop i lo hi b par)).map (· :: r)
    | 1 => (dividedMain q io ii ceilHi true (.loop i lo hi b par)).map (· :: r)
    | 2 => (dividedMain q io ii floorHi false (.loop i lo hi b par)).map (· :: tailLoop :: r)
    | 3 => (dividedMain q io ii floorHi false (.loop i lo hi b par)).map
        (· :: .ite (.binop .gt (.binop .mod hi (.lit (.int q))) (.lit (.int 0))) [tailLoop] [] :: r)
    | _ => none
  | _ => none

def unrolledCopies (i : Sym) (b : List Stmt) : Nat → Int → List Stmt
  | 0, _ => []
  | n + 1, lo => substL i (.lit (.int lo)) b ++ unrolledCopies i b n (lo + 1)

def unrollLoop : Local
  | .loop i (.lit (.int lo)) (.lit (.int hi)) b _ :: r =>
    some (unrolledCopies i b (hi - lo).toNat lo ++ r)
  | _ => none

/-- `reorder_loops` / `lift_scope` of a loop directly nested in a loop -/
def reorderLoops : Local
  | .loop i lo1 hi1 [.loop j lo2 hi2 b par2] par1 :: r =>
    some (.loop j lo2 hi2 [.loop i lo1 hi1 b par1] par2 :: r)
  | _ => none

def reorderStmts : Local
  | a :: b :: r => some (b :: a :: r)
  | _ => none

/-! ### alpha comparison -/

abbrev Ren := List (Sym × Sym)

def symEq (ρ : Ren) (a b : Sym) : Bool :=
  match ρ.find? (fun p => p.1 == a || p.2 == b) with
  | some p => p.1 == a && p.2 == b
  | none => a == b

mutual
def exprEq (ρ : Ren) : Expr → Expr → Bool
  | .read x i, .read y j => symEq ρ x y && exprsEq ρ i j
  | .lit a, .lit b => a == b
  | .usub a, .usub b => exprEq ρ a b
  | .binop o a b, .binop o' a' b' => o == o' && exprEq ρ a a' && exprEq ρ b b'
  | .extern f a, .extern g b => f == g && exprsEq ρ a b
  | .win x a, .win y b => symEq ρ x y && waccsEq ρ a b
  | .stride x d, .stride y d' => symEq ρ x y && d == d'
  | .readcfg c f, .readcfg c' f' => c == c' && f == f'
  | _, _ => false
def exprsEq (ρ : Ren) : List Expr → List Expr → Bool
  | [], [] => true
  | a :: r, b :: r' => exprEq ρ a b && exprsEq ρ r r'
  | _, _ => false
def waccEq (ρ : Ren) : WAcc → WAcc → Bool
  | .point a, .point b => exprEq ρ a b
  | .interval a b, .interval a' b' => exprEq ρ a a' && exprEq ρ b b'
  | _, _ => false
def waccsEq (ρ : Ren) : List WAcc → List WAcc → Bool
  | [], [] => true
  | a :: r, b :: r' => waccEq ρ a b && waccsEq ρ r r'
  | _, _ => false
end

def argTyEq (ρ : Ren) : ArgTy → ArgTy → Bool
  | .ctrl k, .ctrl k' => k == k'
  | .scalar, .scalar => true
  | .tensor s w, .tensor s' w' => exprsEq ρ s s' && w == w'
  | _, _ => false

/-- callee procedures are compared by name and arity only (they are shared objects in LoopIR;
    the exporter embeds a copy at every call) -/
def procEq (p q : Proc) : Bool := p.name == q.name && p.args.length == q.args.length

mutual
/-- compare one statement pair; returns the renaming extended by the names the pair defines -/
def stmtEq (ρ : Ren) : Stmt → Stmt → Option Ren
  | .assign x i e, .assign y j e' =>
    if symEq ρ x y && exprsEq ρ i j && exprEq ρ e e' then some ρ else none
  | .reduce x i e, .reduce y j e' =>
    if symEq ρ x y && exprsEq ρ i j && exprEq ρ e e' then some ρ else none
  | .writecfg c f e d, .writecfg c' f' e' d' =>
    if c == c' && f == f' && d == d' && exprEq ρ e e' then some ρ else none
  | .pass, .pass => some ρ
  | .ite c t e, .ite c' t' e' =>
    if exprEq ρ c c' && blockEq ρ t t' && blockEq ρ e e' then some ρ else none
  | .loop i lo hi b par, .loop i' lo' hi' b' par' =>
    if exprEq ρ lo lo' && exprEq ρ hi hi' && par == par' && blockEq ((i, i') :: ρ) b b' then some ρ
    else none
  | .alloc x s, .alloc y s' => if exprsEq ρ s s' then some ((x, y) :: ρ) else none
  | .free x, .free y => if symEq ρ x y then some ρ else none
  | .call f a, .call g b => if procEq f g && exprsEq ρ a b then some ρ else none
  | .window x e, .window y e' => if exprEq ρ e e' then some ((x, y) :: ρ) else none
  | _, _ => none
def blockEq (ρ : Ren) : List Stmt → List Stmt → Bool
  | [], [] => true
  | a :: r, b :: r' =>
    match stmtEq ρ a b with
    | some ρ' => blockEq ρ' r r'
    | none => false
  | _, _ => false
end

/-- first position (preorder statement count) where two blocks differ, for diagnosis -/
def alphaEqBlocks (a b : List Stmt) : Bool := blockEq [] a b

end Exo.Rw
