/-
  `#audit_module M` prints, for every theorem declared in module `M`, one line
      AXIOMS <full name> : <comma separated axioms>
  The harness parses these lines (harness/common.py: lean_audit) and accepts a theorem only if
  its axioms ⊆ {propext, Classical.choice, Quot.sound}.
-/
import Lean
open Lean Elab Command

elab "#audit_module " id:ident : command => do
  let env ← getEnv
  let modName := id.getId
  let some idx := env.getModuleIdx? modName
    | throwError "module {modName} not imported"
  let mut names : Array Name := #[]
  for (n, ci) in env.constants.map₁.toList do
    if env.getModuleIdxFor? n == some idx then
      match ci with
      | .thmInfo _ => if !n.isInternal then names := names.push n
      | _ => pure ()
  let sorted := names.qsort (fun a b => a.toString < b.toString)
  for n in sorted do
    let axs ← Lean.collectAxioms n
    let axs := axs.qsort (fun a b => a.toString < b.toString)
    logInfo m!"AXIOMS {n} : {", ".intercalate (axs.toList.map (·.toString))}"
