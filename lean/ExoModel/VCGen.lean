/-
  ExoModel.VCGen — verification-condition generator for memory- and call-safety (property C03).

  `vcgen p` is what the front end's bounds checker (src/exo/frontend/boundscheck.py `CheckBounds`,
  plus `Check_Aliasing` of src/exo/rewrite/new_eff.py) is *supposed* to ask the solver: one
  closed formula `path ⟹ goal` over control expressions for

    * every index of every buffer access (reads inside expressions, left-hand sides of
      assignments and reductions), against the extents of the view the access goes through
      (a window variable has its own extents `hi - lo`)
    * every window creation (`w = x[lo:hi, p]`, window expressions in call arguments): the
      intervals and points against the extents of the base
    * every allocation extent (≥ 1), every loop (`lo ≤ hi`)
    * every call: size arguments ≥ 1, argument extents = declared extents under the argument
      substitution, callee assertions under the substitution, distinct buffers in numeric
      argument positions; and the callee itself is checked as a procedure in its own right

  `vcgenReal p` is the literal model of what `CheckBounds` *does* generate (effects of
  assignments through window variables are never translated, so never checked; window
  creations are never checked; callee effects reaching a window variable passed by name are
  never checked; reads through a window variable are checked against the root buffer only).

  Everything is executable; the driver (Drivers/C03.lean) prints and evaluates the conditions.
  Soundness of `vcgen` is proved in ExoModel/Props/C03.lean.
-/
import ExoModel.Sem

namespace Exo.VCGen

/-! ### control environments and validity -/

/-- what a control expression can observe: index/size/bool variables, strides of the views in
    scope, control-typed configuration fields (`none` = the field holds a data value) -/
structure CEnv where
  env : List (Sym × Int)
  strides : List (Sym × List Int)
  cfg : List ((String × String) × Option Int)
deriving Inhabited

/-- evaluation of a control expression in a control environment (same clauses as `Exo.evalC`;
    `toCEnv`/`evalC_eq_evalCE` in Lemmas/VCGenEval.lean tie the two) -/
def evalCE (E : CEnv) : Expr → Except Err Int
  | .read x [] => match lookupSym x E.env with
      | some v => pure v
      | none => throw .scope
  | .read _ (_ :: _) => throw .unsupported
  | .lit (.int n) => pure n
  | .lit (.bool b) => pure (b2i b)
  | .lit (.data _ _) => throw .unsupported
  | .usub e => do let v ← evalCE E e; pure (-v)
  | .binop op a b => do
      let x ← evalCE E a
      let y ← evalCE E b
      ctrlOp op x y
  | .stride x d => match lookupSym x E.strides with
      | some ss => match ss[d]? with
          | some s => pure s
          | none => throw .unsupported
      | none => throw .scope
  | .readcfg c f => match lookupCfg (c, f) E.cfg with
      | some (some n) => pure n
      | some none => throw .unsupported
      | none => throw .scope
  | .extern _ _ => throw .unsupported
  | .win _ _ => throw .unsupported

/-- the fact `e` is true in `E`: it evaluates (no unbound name, no division by a non-positive
    number) to a non-zero value -/
def holdsE (E : CEnv) (e : Expr) : Prop := ∃ v, evalCE E e = .ok v ∧ v ≠ 0

def holdsB (E : CEnv) (e : Expr) : Bool :=
  match evalCE E e with
  | .ok v => v ≠ 0
  | .error _ => false

/-- a verification condition: under the facts of `path` (newest first) the control expression
    `goal` is true.  `kind` names the check (for reports and for the classification of known
    gaps of the real checker), `scope` the procedure whose body the condition belongs to. -/
structure VC where
  kind : String
  path : List Expr
  goal : Expr

/-- valid = true in every control environment that satisfies the path condition -/
def VC.Valid (vc : VC) : Prop := ∀ E : CEnv, (∀ f ∈ vc.path, holdsE E f) → holdsE E vc.goal

/-- one thing the generator asks for: a verification condition or a syntactic side condition
    (distinct binders, closed shapes, matching ranks — what the type checker and the `Sym`
    discipline of the front end guarantee) -/
inductive Ob where
  | vc (v : VC)
  | wf (what : String) (ok : Bool)

def Ob.Ok : Ob → Prop
  | .vc v => v.Valid
  | .wf _ b => b = true

/-! ### expression helpers -/

def eInt (n : Int) : Expr := .lit (.int n)
def eVar (x : Sym) : Expr := .read x []
def eLe (a b : Expr) : Expr := .binop .le a b
def eLt (a b : Expr) : Expr := .binop .lt a b
def eEq (a b : Expr) : Expr := .binop .eq a b
def eSub (a b : Expr) : Expr := .binop .sub a b
def eNot (c : Expr) : Expr := .binop .eq c (.lit (.bool false))
def eBool (b : Bool) : Expr := .lit (.bool b)

/-- product of a list of extents -/
def prodE : List Expr → Expr
  | [] => eInt 1
  | e :: r => .binop .mul e (prodE r)

/-- may the value of the control expression `e` depend on the variable / the view named `x`?
    (conservative: `true` for forms that have no control value anyway) -/
def mentions (x : Sym) : Expr → Bool
  | .read y [] => y = x
  | .read _ (_ :: _) => true
  | .lit _ => false
  | .usub e => mentions x e
  | .binop _ a b => mentions x a || mentions x b
  | .stride y _ => y = x
  | .readcfg _ _ => false
  | .extern _ _ => true
  | .win _ _ => true

/-- control expressions that do not read configuration state -/
def cfgFree : Expr → Bool
  | .readcfg _ _ => false
  | .usub e => cfgFree e
  | .binop _ a b => cfgFree a && cfgFree b
  | _ => true

/- data reads of a right-hand side (flag: inside the argument of an extern call) -/
mutual
def readsE (inExt : Bool) : Expr → List (Bool × Sym × List Expr)
  | .read x idx => [(inExt, x, idx)]
  | .usub e => readsE inExt e
  | .binop _ a b => readsE inExt a ++ readsE inExt b
  | .extern _ args => readsEs true args
  | _ => []
def readsEs (inExt : Bool) : List Expr → List (Bool × Sym × List Expr)
  | [] => []
  | e :: r => readsE inExt e ++ readsEs inExt r
end

/-! ### symbolic typing context -/

/-- what the generator knows about a buffer name in scope: symbolic extents, the allocation /
    argument it is (a window of), whether it is a window *variable* introduced by a window
    statement (only used in `kind` tags; window-typed formals `[f32][n]` are not tagged) -/
structure BufTy where
  shape : List Expr
  root : Sym
  isWin : Bool

abbrev TyEnv := List (Sym × BufTy)

/-- facts enter the path condition only if they do not read configuration state (the
    configuration may change between the point where the fact was established and its use) -/
def addFacts (P : List Expr) (fs : List Expr) : List Expr := fs.filter cfgFree ++ P

def envMentions (x : Sym) (Γ : TyEnv) : Bool :=
  Γ.any (fun e => e.2.shape.any (mentions x))

def isRoot (x : Sym) (Γ : TyEnv) : Bool := Γ.any (fun e => e.2.root = x)

/-- `x` is fresh for the context: no fact and no extent depends on it -/
def fresh (x : Sym) (Γ : TyEnv) (P : List Expr) : Bool :=
  !(P.any (mentions x)) && !(envMentions x Γ)

def shapeCfgFree (sh : List Expr) : Bool := sh.all cfgFree

/-- `stride(x,k) = extent(k+1) * … * extent(n-1)` for a densely laid out tensor -/
def denseFactsFrom (x : Sym) (k : Nat) : List Expr → List Expr
  | [] => []
  | _ :: r => eEq (.stride x k) (prodE r) :: denseFactsFrom x (k + 1) r

def denseFacts (x : Sym) (shape : List Expr) : List Expr := denseFactsFrom x 0 shape

/-! ### accesses -/

def mkVC (kind : String) (P : List Expr) (g : Expr) : Ob := .vc ⟨kind, P, g⟩

/-- `0 ≤ idx_k < extent_k` for each dimension -/
def boundObs (kind : String) (P : List Expr) : List Expr → List Expr → List Ob
  | [], [] => []
  | i :: is, e :: es =>
      mkVC (kind ++ "-lb") P (eLe (eInt 0) i) :: mkVC (kind ++ "-ub") P (eLt i e) ::
        boundObs kind P is es
  | _, _ => [.wf (kind ++ ": rank mismatch") false]

def accessObs (Γ : TyEnv) (P : List Expr) (kind : String) (x : Sym) (idx : List Expr) : List Ob :=
  match lookupSym x Γ with
  | none => [.wf (kind ++ ": unknown buffer " ++ toString x) false]
  | some t => boundObs (if t.isWin then kind ++ "@win" else kind) P idx t.shape

def readObs (Γ : TyEnv) (P : List Expr) : List (Bool × Sym × List Expr) → List Ob
  | [] => []
  | (inExt, x, idx) :: r =>
      accessObs Γ P (if inExt then "read@extern" else "read") x idx ++ readObs Γ P r

/-! ### windows -/

/-- extents of the window -/
def winShape : List WAcc → List Expr
  | [] => []
  | .interval lo hi :: r => eSub hi lo :: winShape r
  | .point _ :: r => winShape r

/-- dimensions of the base that survive in the window (`k` = current base dimension) -/
def winDims (k : Nat) : List WAcc → List Nat
  | [] => []
  | .interval _ _ :: r => k :: winDims (k + 1) r
  | .point _ :: r => winDims (k + 1) r

/-- window creation: intervals and points lie inside the base extents -/
def winObs (P : List Expr) : List WAcc → List Expr → List Ob
  | [], [] => []
  | .interval lo hi :: r, e :: es =>
      mkVC "win-lo" P (eLe (eInt 0) lo) :: mkVC "win-order" P (eLe lo hi) ::
        mkVC "win-hi" P (eLe hi e) :: winObs P r es
  | .point p :: r, e :: es =>
      mkVC "win-pt-lb" P (eLe (eInt 0) p) :: mkVC "win-pt-ub" P (eLt p e) :: winObs P r es
  | _, _ => [.wf "window: rank mismatch" false]

/-- `stride(w,k') = stride(x,k)` for the surviving dimensions -/
def winStrideFacts (w x : Sym) (k' : Nat) : List Nat → List Expr
  | [] => []
  | k :: r => eEq (.stride w k') (.stride x k) :: winStrideFacts w x (k' + 1) r

/-! ### calls -/

/-- what an actual numeric argument denotes: a view of the caller's buffer `base`, with symbolic
    extents `ty.shape`; dimension `d` of the argument is dimension `dimMap[d]` of `base` -/
structure ArgInfo where
  base : Sym
  ty : BufTy
  dimMap : List Nat
  obs : List Ob

def argInfo (Γ : TyEnv) (P : List Expr) : Expr → Option ArgInfo
  | .read x [] => match lookupSym x Γ with
      | some t => some ⟨x, t, List.range t.shape.length, []⟩
      | none => none
  | .read x (i :: is) => match lookupSym x Γ with
      | some t => some ⟨x, ⟨[], t.root, false⟩, [],
                        boundObs (if t.isWin then "arg-point@win" else "arg-point") P (i :: is) t.shape⟩
      | none => none
  | .win x acc => match lookupSym x Γ with
      | some t => some ⟨x, ⟨winShape acc, t.root, true⟩, winDims 0 acc,
                        winObs P acc t.shape⟩
      | none => none
  | _ => none

/-- the argument substitution of a call: control formals ↦ actual expressions, numeric formals ↦
    what the actual denotes.  Both lists are built in the order `Exo.bindArgs` builds the callee
    environment (last argument first). -/
structure Subst where
  ctrl : List (Sym × Expr)
  views : List (Sym × ArgInfo)

/-- substitute into a control expression of the callee; `none` if the expression mentions
    something that is not a formal (or a stride of a dimension the argument does not have) -/
def substE (θ : Subst) : Expr → Option Expr
  | .read y [] => lookupSym y θ.ctrl
  | .lit (.int n) => some (.lit (.int n))
  | .lit (.bool b) => some (.lit (.bool b))
  | .usub e => (substE θ e).map .usub
  | .binop op a b => match substE θ a, substE θ b with
      | some a', some b' => some (.binop op a' b')
      | _, _ => none
  | .stride y d => match lookupSym y θ.views with
      | some info => match info.dimMap[d]? with
          | some d' => some (.stride info.base d')
          | none => none
      | none => none
  | .readcfg c f => some (.readcfg c f)
  | _ => none

/-- mirror of `Exo.bindArgs` -/
def callArgs (Γ : TyEnv) (P : List Expr) : List FnArg → List Expr → Subst → Option (List Ob × Subst)
  | [], [], θ => some ([], θ)
  | ⟨y, .ctrl _⟩ :: fs, a :: as, θ => callArgs Γ P fs as { θ with ctrl := (y, a) :: θ.ctrl }
  | ⟨y, .scalar⟩ :: fs, a :: as, θ => match argInfo Γ P a with
      | none => none
      | some info => match callArgs Γ P fs as { θ with views := (y, info) :: θ.views } with
          | none => none
          | some (obs, θ') => some (info.obs ++ obs, θ')
  | ⟨y, .tensor _ _⟩ :: fs, a :: as, θ => match argInfo Γ P a with
      | none => none
      | some info => match callArgs Γ P fs as { θ with views := (y, info) :: θ.views } with
          | none => none
          | some (obs, θ') => some (info.obs ++ obs, θ')
  | _, _, _ => none

/-- extents of the argument = declared extents under the substitution -/
def eqObs (P : List Expr) (θ : Subst) : List Expr → List Expr → List Ob
  | [], [] => []
  | a :: as, s :: ss =>
      (match substE θ s with
       | some s' => mkVC "call-shape" P (eEq a s')
       | none => .wf "call: declared extent mentions a non-formal" false) :: eqObs P θ as ss
  | _, _ => [.wf "call: rank mismatch" false]

/-- extents of the argument are positive (asked by the real checker; not needed for safety) -/
def posObs (kind : String) (P : List Expr) (sh : List Expr) : List Ob :=
  sh.map (fun e => mkVC kind P (eLt (eInt 0) e))

/-- mirror of `Exo.checkShapes` -/
def shapeObs (P : List Expr) (θ : Subst) : List FnArg → List Ob
  | [] => []
  | ⟨x, .tensor shape _⟩ :: fs =>
      (match lookupSym x θ.views with
       | some info => eqObs P θ info.ty.shape shape ++ posObs "call-argshape-pos" P info.ty.shape
       | none => [.wf "call: unbound formal" false]) ++ shapeObs P θ fs
  | ⟨x, .scalar⟩ :: fs =>
      (match lookupSym x θ.views with
       | some info => [.wf "call: scalar formal bound to a tensor" info.ty.shape.isEmpty]
       | none => [.wf "call: unbound formal" false]) ++ shapeObs P θ fs
  | _ :: fs => shapeObs P θ fs

/-- facts of the callee under the substitution -/
def factObs (kind : String) (P : List Expr) (θ : Subst) (fs : List Expr) : List Ob :=
  fs.map (fun f => match substE θ f with
    | some f' => mkVC kind P f'
    | none => .wf (kind ++ ": fact mentions a non-formal") false)

def sizeFacts : List FnArg → List Expr
  | [] => []
  | ⟨n, .ctrl .size⟩ :: r => eLt (eInt 0) (eVar n) :: sizeFacts r
  | _ :: r => sizeFacts r

/-- non-window tensor arguments are densely laid out (Exo's calling convention; the compiled C
    computes their strides from the extents) -/
def denseArgFacts : List FnArg → List Expr
  | [] => []
  | ⟨x, .tensor shape false⟩ :: r => denseFacts x shape ++ denseArgFacts r
  | _ :: r => denseArgFacts r

/-- what a procedure may assume about its arguments on entry -/
def entryFacts (args : List FnArg) (preds : List Expr) : List Expr :=
  sizeFacts args ++ preds ++ denseArgFacts args

def argTys : List FnArg → TyEnv
  | [] => []
  | ⟨x, .tensor shape _⟩ :: r => (x, ⟨shape, x, false⟩) :: argTys r
  | ⟨x, .scalar⟩ :: r => (x, ⟨[], x, false⟩) :: argTys r
  | _ :: r => argTys r

def argShapesCfgFree : List FnArg → Bool
  | [] => true
  | ⟨_, .tensor shape _⟩ :: r => shapeCfgFree shape && argShapesCfgFree r
  | _ :: r => argShapesCfgFree r

def argNames : List FnArg → List Sym
  | [] => []
  | a :: r => a.name :: argNames r

def argShapePosObs (P : List Expr) : List FnArg → List Ob
  | [] => []
  | ⟨_, .tensor shape _⟩ :: r => posObs "arg-shape-pos" P shape ++ argShapePosObs P r
  | _ :: r => argShapePosObs P r

/-- distinct buffers in numeric argument positions (`Check_Aliasing`) -/
def rootsOf : List (Sym × ArgInfo) → List Sym
  | [] => []
  | (_, i) :: r => i.ty.root :: rootsOf r

def nodupB : List Sym → Bool
  | [] => true
  | x :: r => !(r.contains x) && nodupB r

/-! ### the generator -/

/-- context after a statement (only `alloc` and `window` extend it) -/
def ctxAfter (Γ : TyEnv) (P : List Expr) : Stmt → TyEnv × List Expr
  | .alloc x shape => ((x, ⟨shape, x, false⟩) :: Γ, addFacts P (denseFacts x shape))
  | .window w (.win x acc) => match lookupSym x Γ with
      | some t => ((w, ⟨winShape acc, t.root, true⟩) :: Γ,
                   addFacts P (winStrideFacts w x 0 (winDims 0 acc)))
      | none => (Γ, P)
  | _ => (Γ, P)

mutual
def genS (Γ : TyEnv) (P : List Expr) : Stmt → List Ob
  | .assign x idx rhs => readObs Γ P (readsE false rhs) ++ accessObs Γ P "write" x idx
  | .reduce x idx rhs => readObs Γ P (readsE false rhs) ++ accessObs Γ P "reduce" x idx
  | .writecfg _ _ rhs isData => if isData then readObs Γ P (readsE false rhs) else []
  | .pass => []
  | .free _ => []
  | .ite c t e => genL Γ (addFacts P [c]) t ++ genL Γ (addFacts P [eNot c]) e
  | .loop i lo hi body _ =>
      .wf ("loop variable " ++ toString i ++ " is not fresh")
          (fresh i Γ P && !(mentions i lo) && !(mentions i hi)) ::
      mkVC "loop" P (eLe lo hi) ::
      genL Γ (addFacts P [eLt (eVar i) hi, eLe lo (eVar i)]) body
  | .alloc x shape =>
      .wf ("allocated name " ++ toString x ++ " is not fresh")
          (fresh x Γ P && !(isRoot x Γ) && !(shape.any (mentions x))) ::
      .wf "allocation extents read configuration" (shapeCfgFree shape) ::
      posObs "alloc-pos" P shape
  | .window w rhs =>
      match rhs with
      | .win x acc =>
          .wf ("window name " ++ toString w ++ " is not fresh")
              (fresh w Γ P && !((winShape acc).any (mentions w)) && decide (w ≠ x)) ::
          .wf "window extents read configuration" (shapeCfgFree (winShape acc)) ::
          (match lookupSym x Γ with
           | some t => winObs P acc t.shape
           | none => [.wf ("window: unknown buffer " ++ toString x) false])
      | _ => [.wf "window statement without window expression" false]
  | .call f args =>
      (match callArgs Γ P f.args args ⟨[], []⟩ with
       | none => [.wf "call: arguments do not match the signature" false]
       | some (obs, θ) =>
           obs ++
           mkVC "call-alias" P (eBool (nodupB (rootsOf θ.views))) ::
           shapeObs P θ f.args ++
           factObs "call-size" P θ (sizeFacts f.args) ++
           factObs "call-assert" P θ f.preds ++
           factObs "call-dense" P θ (denseArgFacts f.args)) ++
      genP f
def genL (Γ : TyEnv) (P : List Expr) : List Stmt → List Ob
  | [] => []
  | s :: r => genS Γ P s ++ genL (ctxAfter Γ P s).1 (ctxAfter Γ P s).2 r
def genP : Proc → List Ob
  | .mk _ args preds body =>
      .wf "argument extents read configuration" (argShapesCfgFree args) ::
      .wf "argument names are not distinct" (nodupB (argNames args)) ::
      argShapePosObs (addFacts [] (entryFacts args preds)) args ++
      genL (argTys args) (addFacts [] (entryFacts args preds)) body
end

def obsVCs : List Ob → List VC
  | [] => []
  | .vc v :: r => v :: obsVCs r
  | .wf _ _ :: r => obsVCs r

def obsWf : List Ob → Bool
  | [] => true
  | .vc _ :: r => obsWf r
  | .wf _ b :: r => b && obsWf r

/-- the verification conditions of a procedure (and, recursively, of its callees) -/
def vcgen (p : Proc) : List VC := obsVCs (genP p)

/-- the syntactic side conditions: binders are fresh (no fact or extent in scope mentions
    them), extents and path facts the generator relies on do not read configuration state,
    every accessed name is a buffer in scope with the right rank, call arguments match the
    signature, callee extents / assertions mention only formals -/
def wf (p : Proc) : Bool := obsWf (genP p)

def wfFailures : List Ob → List String
  | [] => []
  | .vc _ :: r => wfFailures r
  | .wf s b :: r => if b then wfFailures r else s :: wfFailures r

/-! ### the literal model of `CheckBounds` + `Check_Aliasing`

  `CheckBounds.map_stmts` collects *effects* `(buffer, location, path predicate)` and checks, at
  every allocation and for every tensor argument `x`, the effects whose buffer is `x`.

  * an effect of an assignment / reduction `w[..] = ..` keeps the buffer name `w`; when `w` is a
    window variable nothing is ever checked for it (the name is neither allocated nor an argument)
  * an effect of a read `.. = w[..]` inside an expression is translated through the chain of
    window definitions to the underlying allocation / argument (`translate_eff`), so it is
    checked against the extents of the root, not of the window
  * window definitions themselves produce no effect
  * at a call the callee's effects are renamed: a formal bound to a plain name takes that name
    (and if the name is a window variable the effect is never checked); a formal bound to a
    window expression is translated through it (every kind of effect)
-/

inductive RTy where
  | base (shape : List Expr)
  | winvar (src : Sym) (acc : List WAcc)
  | alias (name : Sym)
  | winarg (src : Sym) (acc : List WAcc)
  | skip

abbrev REnv := List (Sym × RTy)

inductive RMode | read | write | viaAlias | chain
deriving DecidableEq

/-- `translate_eff`: location in the window ↦ location in its source -/
def translateLoc : List WAcc → List Expr → List Expr
  | [], _ => []
  | .point p :: r, loc => p :: translateLoc r loc
  | .interval lo _ :: r, i :: loc => .binop .add i lo :: translateLoc r loc
  | .interval _ _ :: _, [] => []

def andAll : List Expr → Expr
  | [] => eBool true
  | e :: r => .binop .and e (andAll r)

def inBounds : List Expr → List Expr → List Expr
  | i :: is, e :: es => .binop .and (eLe (eInt 0) i) (eLt i e) :: inBounds is es
  | _, _ => []

/-- the check (if any) the real checker performs for an effect on `x` at `loc` -/
def resolveR (kind : String) (P : List Expr) : REnv → Sym → List Expr → RMode → List VC
  | [], _, _, _ => []
  | (y, ty) :: rest, x, loc, m =>
      if x = y then
        match ty with
        | .base shape => [⟨kind, P, andAll (inBounds loc shape)⟩]
        | .winvar src acc =>
            if m = .read || m = .chain then resolveR kind P rest src (translateLoc acc loc) .chain
            else []
        | .alias name => resolveR kind P rest name loc .viaAlias
        | .winarg src acc => resolveR kind P rest src (translateLoc acc loc) .chain
        | .skip => []
      else resolveR kind P rest x loc m

def readsR (Γ : REnv) (P : List Expr) : List (Sym × List Expr) → List VC
  | [] => []
  | (x, idx) :: r => resolveR "read" P Γ x idx .read ++ readsR Γ P r

/-- total substitution of the formals of a call (`loopir_subst`): control formals ↦ actuals,
    `stride(formal, d)` ↦ `stride(actual buffer, dimension d of the window)`; names that are not
    formals are left alone -/
def substT (θ : List (Sym × Expr)) (θv : List (Sym × (Sym × List Nat))) : Expr → Expr
  | .read y [] => match lookupSym y θ with
      | some e => e
      | none => .read y []
  | .usub e => .usub (substT θ θv e)
  | .binop op a b => .binop op (substT θ θv a) (substT θ θv b)
  | .stride y d => match lookupSym y θv with
      | some (x, dm) => match dm[d]? with
          | some d' => .stride x d'
          | none => .stride y d
      | none => .stride y d
  | e => e

/-- reads the real checker extracts effects for: `eff_e` returns the empty effect for an extern
    call, so reads inside its arguments are never seen -/
def readsReal : Expr → List (Sym × List Expr)
  | .read x idx => [(x, idx)]
  | .usub e => readsReal e
  | .binop _ a b => readsReal a ++ readsReal b
  | _ => []

/-- symbolic extents of a name as the real type checker records them -/
def shapeR : REnv → Sym → Option (List Expr)
  | [], _ => none
  | (y, ty) :: rest, x =>
      if x = y then
        match ty with
        | .base shape => some shape
        | .winvar _ acc => some (winShape acc)
        | _ => none
      else shapeR rest x

/-- the allocation / argument a name is (a window of), as `Check_Aliasing` computes it -/
def rootR : REnv → Sym → Sym
  | [], x => x
  | (y, ty) :: rest, x =>
      if x = y then
        match ty with
        | .winvar src _ => rootR rest src
        | _ => x
      else rootR rest x

def argShapeR (Γ : REnv) : Expr → Option (List Expr)
  | .read x [] => shapeR Γ x
  | .win _ acc => some (winShape acc)
  | _ => none

def argRootR (Γ : REnv) : Expr → Option Sym
  | .read x _ => some (rootR Γ x)
  | .win x _ => some (rootR Γ x)
  | _ => none

structure BindR where
  env : REnv
  ctrl : List (Sym × Expr)
  views : List (Sym × (Sym × List Nat))

/-- bind the formals of an inlined callee -/
def bindR : List FnArg → List Expr → BindR → BindR
  | ⟨y, .ctrl _⟩ :: fs, a :: as, b => bindR fs as { b with ctrl := (y, a) :: b.ctrl }
  | ⟨y, .scalar⟩ :: fs, a :: as, b =>
      bindR fs as { b with env := (y, match a with
        | .read x [] => RTy.alias x
        | _ => RTy.skip) :: b.env }
  | ⟨y, .tensor sh _⟩ :: fs, a :: as, b =>
      bindR fs as (match a with
        | .read x [] => { b with env := (y, RTy.alias x) :: b.env,
                                 views := (y, (x, List.range sh.length)) :: b.views }
        | .win x acc => { b with env := (y, RTy.winarg x acc) :: b.env,
                                 views := (y, (x, winDims 0 acc)) :: b.views }
        | _ => { b with env := (y, RTy.skip) :: b.env })
  | _, _, b => b

def eqShapeR (P : List Expr) (b : BindR) (a s : List Expr) : VC :=
  ⟨"call-shape", P, andAll ((a.zip s).map (fun p => eEq p.1 (substT b.ctrl b.views p.2)))⟩

/-- call-site checks of `CheckBounds` (positivity of size arguments and of argument extents,
    shape equality, callee assertions) and of `Check_Aliasing` (path-insensitive) -/
def callChecksR (Γ : REnv) (P : List Expr) (θ : BindR) :
    List FnArg → List Expr → List VC
  | ⟨_, .ctrl .size⟩ :: fs, a :: as => ⟨"call-size", P, eLt (eInt 0) a⟩ :: callChecksR Γ P θ fs as
  | ⟨_, .tensor shape _⟩ :: fs, a :: as =>
      (match argShapeR Γ a with
       | some sh => sh.map (fun e => ⟨"call-argshape-pos", P, eLt (eInt 0) e⟩) ++ [eqShapeR P θ sh shape]
       | none => []) ++ callChecksR Γ P θ fs as
  | _ :: fs, _ :: as => callChecksR Γ P θ fs as
  | _, _ => []

def numericRoots (Γ : REnv) : List FnArg → List Expr → List Sym
  | ⟨_, .ctrl _⟩ :: fs, _ :: as => numericRoots Γ fs as
  | _ :: fs, a :: as => (match argRootR Γ a with | some r => [r] | none => []) ++ numericRoots Γ fs as
  | _, _ => []

def substVC (b : BindR) (P : List Expr) (v : VC) : VC :=
  ⟨v.kind, v.path.map (substT b.ctrl b.views) ++ P, substT b.ctrl b.views v.goal⟩

mutual
/-- `inl` = inside an inlined callee body (only effects on the caller's buffers matter there) -/
def realS (Γ : REnv) (P : List Expr) (inl : Bool) : Stmt → List VC
  | .assign x idx rhs => readsR Γ P (readsReal rhs) ++ resolveR "write" P Γ x idx .write
  | .reduce x idx rhs => readsR Γ P (readsReal rhs) ++ resolveR "reduce" P Γ x idx .write
  | .writecfg _ _ rhs isData => if isData then readsR Γ P (readsReal rhs) else []
  | .pass => []
  | .free _ => []
  | .ite c t e => realL Γ (c :: P) inl t ++ realL Γ (eNot c :: P) inl e
  | .loop i lo hi body _ =>
      (if inl then [] else [⟨"loop", P, eLe (eInt 0) (eSub hi lo)⟩]) ++
      realL Γ (eLt (eVar i) hi :: eLe lo (eVar i) :: P) inl body
  | .alloc _ shape =>
      if inl then [] else shape.map (fun e => ⟨"alloc-pos", P, eLt (eInt 0) e⟩)
  | .window _ _ => []
  | .call f args => realCall Γ P inl f args
def realCall (Γ : REnv) (P : List Expr) (inl : Bool) : Proc → List Expr → List VC
  | .mk _ fargs preds body, args =>
      let b := bindR fargs args ⟨Γ, [], []⟩
      (if inl then [] else
        callChecksR Γ P b fargs args ++
        preds.map (fun p => ⟨"call-assert", P, substT b.ctrl b.views p⟩) ++
        [⟨"call-alias", [], eBool (nodupB (numericRoots Γ fargs args))⟩]) ++
      (realL b.env (sizeFacts fargs) true body).map (substVC b P)
def realL (Γ : REnv) (P : List Expr) (inl : Bool) : List Stmt → List VC
  | [] => []
  | s :: r =>
      realS Γ P inl s ++
      realL (match s with
             | .alloc x shape => (x, if inl then RTy.skip else RTy.base shape) :: Γ
             | .window w (.win x acc) => (w, RTy.winvar x acc) :: Γ
             | _ => Γ)
            (match s with
             | .alloc x shape => if inl then P else denseFacts x shape ++ P
             | .window w (.win x acc) => winStrideFacts w x 0 (winDims 0 acc) ++ P
             | _ => P) inl r
end

def argTysR : List FnArg → REnv
  | [] => []
  | ⟨x, .tensor shape _⟩ :: r => (x, .base shape) :: argTysR r
  | ⟨x, .scalar⟩ :: r => (x, .base []) :: argTysR r
  | _ :: r => argTysR r

/-- what `CheckBounds(p)` and `Check_Aliasing(p)` ask about `p` (callees were checked when they
    were defined; here only their effects on `p`'s buffers are re-checked) -/
def vcgenReal : Proc → List VC
  | .mk _ args preds body =>
      let P := entryFacts args preds
      obsVCs (argShapePosObs P args) ++ realL (argTysR args) P false body

end Exo.VCGen
