/-
  ExoModel.WfSite — the EXECUTABLE side of the well-formedness preservation theorems of
  Props/C04Shapes.lean (model file: no Mathlib, no Lemmas import; used by Drivers/C04Tie.lean):

  * binders / top-level definitions of a block (`bindS/bindL`, `defName/defNames`, `disj`);
  * `siteAt` — the static environment and block suffix a path addresses;
  * the decidable site conditions `…Ok` of the `…_wf_anywhere` theorems, one per rewrite shape;
  * `scopeS/scopeL/scopeP` — the no-shadowing skeleton check of `alpha_preserves_wf`.

  The lemmas about these definitions are in Lemmas/WfShapes*.lean (same namespace).
-/
import ExoModel.Wf
import ExoModel.Rewrite
import ExoModel.RewriteStorage
import ExoModel.RewriteData

namespace Exo.WfShapes
open Exo Exo.Wf Exo.Rw

/-! ### binders and top-level definitions -/

mutual
/-- every name bound anywhere in the statement: loop iterators, allocations, window statements
    (callee bodies are separate scopes and are not entered) -/
def bindS : Stmt → List Sym
  | .ite _ t e => bindL t ++ bindL e
  | .loop i _ _ b _ => i :: bindL b
  | .alloc x _ => [x]
  | .window x _ => [x]
  | _ => []
def bindL : List Stmt → List Sym
  | [] => []
  | s :: r => bindS s ++ bindL r
end

/-- the name a statement adds to the scope of the statements that follow it -/
def defName : Stmt → List Sym
  | .alloc x _ => [x]
  | .window x _ => [x]
  | _ => []

/-- names a block adds to its own scope at top level (visible after it when it is spliced) -/
def defNames : List Stmt → List Sym
  | [] => []
  | s :: r => defName s ++ defNames r

/-- `a` and `b` have no common element -/
def disj (a b : List Sym) : Bool := a.all (fun x => !b.contains x)

/-! ### the site a path addresses -/

/-- static environment and block suffix at `path` (what the local rewrite is applied to) -/
def siteAt : Path → Env → List Stmt → Option (Env × List Stmt)
  | [], _, _ => none
  | [st], Γ, ss => (wfL Γ (ss.take st.idx)).map (fun Γ1 => (Γ1, ss.drop st.idx))
  | st :: nxt :: rest, Γ, ss =>
    match wfL Γ (ss.take st.idx), ss[st.idx]? with
    | some Γ1, some (.loop i _ _ b _) =>
      match nxt with
      | .body _ => siteAt (nxt :: rest) ((i, none) :: Γ1) b
      | .orelse _ => none
    | some Γ1, some (.ite _ t e) =>
      match nxt with
      | .body _ => siteAt (nxt :: rest) Γ1 t
      | .orelse _ => siteAt (nxt :: rest) Γ1 e
    | _, _ => none

/-! ### site conditions, one per shape (hypothesis `hok` of the `…_wf_anywhere` theorems) -/

def deadCodeOk (keepThen : Bool) : List Stmt → Bool
  | .ite _ t e :: r => disj (defNames (if keepThen then t else e)) (bindL r)
  | _ => true

def removeLoopOk (guarded : Bool) : List Stmt → Bool
  | .loop i _ _ b _ :: r => !occL i b && (guarded || disj (defNames b) (bindL r))
  | _ => true

def fissionLoopOk (Γ : Env) (i2 : Sym) (second : List Stmt) : List Stmt → Bool
  | .loop _ _ _ _ _ :: _ => fresh Γ i2 && (wfL ((i2, none) :: Γ) second).isSome
  | _ => true

def fuseLoopsOk (Γ : Env) (body2 : List Stmt) : List Stmt → Bool
  | .loop i _ _ b _ :: .loop _ _ _ _ _ :: _ =>
    (wfL ((i, none) :: Γ) body2).isSome && disj (defNames b) (bindL body2)
  | _ => true

def fuseIfsOk : List Stmt → Bool
  | .ite _ t e :: .ite _ t2 e2 :: _ => disj (defNames t) (bindL t2) && disj (defNames e) (bindL e2)
  | _ => true

def cutLoopOk (Γ : Env) (i2 : Sym) (mid : Expr) (body2 : List Stmt) : List Stmt → Bool
  | .loop _ _ _ _ _ :: _ => fresh Γ i2 && wfC Γ mid && (wfL ((i2, none) :: Γ) body2).isSome
  | _ => true

def specializeOk (Γ : Env) (c : Expr) (copy : List Stmt) : List Stmt → Bool
  | _ :: rest => wfC Γ c && (wfL Γ copy).isSome && (wfL Γ rest).isSome
  | [] => true

def reorderLoopsOk : List Stmt → Bool
  | .loop i _ _ [.loop _ lo2 hi2 _ _] _ :: _ => !lo2.occC i && !hi2.occC i
  | _ => true

def reorderStmtsOk (Γ : Env) : List Stmt → Bool
  | a :: b :: _ => (wfS Γ b).isSome && disj (defName b) (bindS a)
  | _ => true

/-- `(wfL Γ rest).isSome`: the statements after the wrapped one are well formed WITHOUT what it
    defines (the new loop closes the scope of a definition); syntactic form and exactness:
    `addLoop_rest_iff` in Lemmas/WfShapes3.lean -/
def addLoopOk (Γ : Env) (i : Sym) (hi : Expr) : List Stmt → Bool
  | s :: rest => fresh Γ i && wfC Γ hi && !(bindS s).contains i && (wfL Γ rest).isSome
  | [] => true

def shiftLoopOk (Γ : Env) (nlo : Expr) : List Stmt → Bool
  | .loop _ _ _ _ _ :: _ => wfC Γ nlo
  | _ => true

def divideLoopOk (Γ : Env) (tail : Nat) (io ii i3 : Sym) (ohi : Expr) (copy : List Stmt) :
    List Stmt → Bool
  | .loop i _ _ b _ :: _ =>
    fresh Γ io && fresh Γ ii && io != ii && !(bindL b).contains io && !(bindL b).contains ii
      && (tail != 0 || wfC Γ ohi)
      && (tail < 2 || (fresh Γ i3 && !(bindL copy).contains i3 && (wfL ((i, none) :: Γ) copy).isSome))
  | _ => true

def unrollLoopOk : List Stmt → Bool
  | .loop _ _ _ b _ :: _ => (defNames b).isEmpty
  | _ => true

def multLoopsOk (Γ : Env) (k : Sym) : List Stmt → Bool
  | .loop _ _ _ [.loop _ _ _ b _] _ :: _ => fresh Γ k && !(bindL b).contains k
  | _ => true

/-- `lift_scope`, `if` directly in a `for`: the condition must not mention the iterator -/
def liftIfOutOfLoopOk : List Stmt → Bool
  | .loop i _ _ [.ite c _ _] _ :: _ => !c.occC i
  | _ => true

/-! ### the symbols a term mentions (free or binding; callee bodies are separate scopes) -/

mutual
def symsE : Expr → List Sym
  | .read x idx => x :: symsEs idx
  | .lit _ => []
  | .usub e => symsE e
  | .binop _ a b => symsE a ++ symsE b
  | .extern _ args => symsEs args
  | .win x acc => x :: symsWs acc
  | .stride x _ => [x]
  | .readcfg _ _ => []
def symsEs : List Expr → List Sym
  | [] => []
  | e :: r => symsE e ++ symsEs r
def symsW : WAcc → List Sym
  | .interval lo hi => symsE lo ++ symsE hi
  | .point e => symsE e
def symsWs : List WAcc → List Sym
  | [] => []
  | a :: r => symsW a ++ symsWs r
end

mutual
def symsS : Stmt → List Sym
  | .assign x idx e => x :: (symsEs idx ++ symsE e)
  | .reduce x idx e => x :: (symsEs idx ++ symsE e)
  | .writecfg _ _ e _ => symsE e
  | .pass => []
  | .ite c t e => symsE c ++ (symsL t ++ symsL e)
  | .loop i lo hi b _ => i :: (symsE lo ++ (symsE hi ++ symsL b))
  | .alloc x sh => x :: symsEs sh
  | .free x => [x]
  | .call _ args => symsEs args
  | .window x e => x :: symsE e
def symsL : List Stmt → List Sym
  | [] => []
  | s :: r => symsS s ++ symsL r
end

/-! ### side conditions of the dimension rewrites (re-indexing of a buffer) -/

mutual
/-- the bare name `x` in a view position (whole-buffer call argument, right-hand side of a window
    statement): its rank is the declared rank, which the rewrite changes -/
def bareViewS (x : Sym) : Stmt → Bool
  | .call _ args => passesWhole x args
  | .window _ (.read y []) => y == x
  | .ite _ t el => bareViewL x t || bareViewL x el
  | .loop _ _ _ b _ => bareViewL x b
  | _ => false
def bareViewL (x : Sym) : List Stmt → Bool
  | [] => false
  | s :: r => bareViewS x s || bareViewL x r
end

mutual
/-- a later allocation whose extents mention `x` (the rewrites do not touch extents) -/
def allocMentionsS (x : Sym) : Stmt → Bool
  | .alloc _ sh => (symsEs sh).contains x
  | .ite _ t el => allocMentionsL x t || allocMentionsL x el
  | .loop _ _ _ b _ => allocMentionsL x b
  | _ => false
def allocMentionsL (x : Sym) : List Stmt → Bool
  | [] => false
  | s :: r => allocMentionsS x s || allocMentionsL x r
end

/-- what a re-indexing of `x` needs from the rest of the block: no window expression of `x` when
    the rewrite cannot re-index windows (`noWin`), no `stride(x, d)` with a dimension number `ps`
    rejects (RANK CONSISTENCY of `stride`: the findings S1–S3), no bare `x` in a view position, no
    later extent that mentions `x` -/
def reidxSideOk (x : Sym) (noWin : Bool) (ps : Nat → Bool) (r : List Stmt) : Bool :=
  !anyAccL x (fun _ => false) (fun _ => noWin) ps r && !bareViewL x r && !allocMentionsL x r

def expandDimOk (Γ : Env) (n e : Expr) : List Stmt → Bool
  | .alloc x _ :: r => wfC Γ n && wfC Γ e && reidxSideOk x false (fun _ => false) r
  | _ => true

def divideDimOk : List Stmt → Bool
  | .alloc x _ :: r => reidxSideOk x true (fun _ => false) r
  | _ => true

/-- `mult_dim` lowers the rank by one: `stride(x, rank - 1)` would dangle -/
def multDimOk : List Stmt → Bool
  | .alloc x sh :: r => reidxSideOk x true (fun d => decide (sh.length - 1 ≤ d)) r
  | _ => true

/-- `rearrange_dim`: `perm` is a permutation of the dimensions (what the wrapper checks with
    `sorted(perm) == list(range(N))`), plus the re-indexing side conditions -/
def rearrangeDimOk (perm : List Nat) : List Stmt → Bool
  | .alloc x sh :: r => perm.isPerm (List.range sh.length) && reidxSideOk x false (fun _ => false) r
  | _ => true

def resizeDimOk (Γ : Env) (size off : Expr) : List Stmt → Bool
  | .alloc x _ :: r => wfC Γ size && wfC Γ off && reidxSideOk x false (fun _ => false) r
  | _ => true

/-! ### site conditions of the storage, data and call shapes -/

/-- `delete_buffer`: the statements after the allocation are well formed without it -/
def deleteBufferOk (Γ : Env) : List Stmt → Bool
  | .alloc _ _ :: r => (wfL Γ r).isSome
  | _ => true

/-- `delete_pass` as a local rewrite of the whole body (applied at path `[body 0]`) -/
def deletePassLocal : Local := fun ss => some (deletePass ss)

/-- `sink_alloc`: bounds / condition of the scope statement and the statements after it are well
    formed without the allocation; a non-empty `else` branch is well formed WITHOUT it (its
    statements are not renamed: finding D1) and its copy's name `x'` is new -/
def sinkAllocOk (Γ : Env) (x' : Sym) : List Stmt → Bool
  | .alloc _ _ :: .loop _ lo hi _ _ :: r => wfC Γ lo && wfC Γ hi && (wfL Γ r).isSome
  | .alloc _ _ :: .ite c _ e :: r =>
    wfC Γ c && (wfL Γ r).isSome &&
      (e.isEmpty || (fresh Γ x' && !(bindL e).contains x' && (wfL Γ e).isSome))
  | _ => true

/-- `lift_alloc`: the allocation's name is new at the scope statement and bound nowhere else in
    it nor after it, its extents are well formed there (they mention no iterator of a crossed loop) -/
def liftAllocOk (Γ : Env) (rel : Path) : List Stmt → Bool
  | s :: r =>
    match rel with
    | _ :: nxt :: rest =>
      match removeAt (.body 0 :: nxt :: rest) [s] with
      | some (.alloc x sh, [s']) =>
        fresh Γ x && wfCs Γ sh && !(bindS s').contains x && !(bindL r).contains x
      | _ => true
    | _ => true
  | [] => true

/-- `bind_expr`: new name, the bound expression is a well-formed data expression at the site, the
    statement after replacement is well formed with the new scalar in scope -/
def bindExprOk (Γ : Env) (t : Sym) (e : Expr) (s' : Stmt) : List Stmt → Bool
  | _ :: r =>
    fresh Γ t && wfD Γ e && (defName s').isEmpty && (wfS ((t, some 0) :: Γ) s').isSome &&
      !(bindL r).contains t
  | [] => true

/-- `lift_reduce_constant`: the factor taken from inside the loop is well formed after the loop -/
def liftConstantOk (Γ : Env) : List Stmt → Bool
  | .assign x _ _ :: .loop _ _ _ body _ :: _ =>
    match firstScaleL x body with | some c => wfD Γ c | none => true
  | .reduce x _ _ :: .loop _ _ _ body _ :: _ =>
    match firstScaleL x body with | some c => wfD Γ c | none => true
  | .assign x _ _ :: .ite _ t _ :: _ =>
    match firstScaleL x t with | some c => wfD Γ c | none => true
  | .reduce x _ _ :: .ite _ t _ :: _ =>
    match firstScaleL x t with | some c => wfD Γ c | none => true
  | _ => true

/-- `rewrite_expr`: the statement with the new expressions is well formed and defines what the old
    one defined -/
def rewriteExprOk (Γ : Env) (s' : Stmt) : List Stmt → Bool
  | s :: r =>
    match rewriteExprWith s' (s :: r) with
    | some (s2 :: _) => (wfS Γ s2).isSome && (wfS Γ s2 == wfS Γ s)
    | _ => true
  | [] => true

/-- `extract_subproc`: the new callee is well formed, the call is well formed, the statements
    after the block are well formed without what the block defined -/
def extractBlockOk (Γ : Env) (sub : Proc) (args : List Expr) (n : Nat) (ss : List Stmt) : Bool :=
  wfP sub && wfCallArgs Γ sub.args args && (wfL Γ (ss.drop n)).isSome

/-! ### reuse_buffer -/

mutual
def freesS (y : Sym) : Stmt → Bool
  | .free z => z == y
  | .ite _ t el => freesL y t || freesL y el
  | .loop _ _ _ b _ => freesL y b
  | _ => false
def freesL (y : Sym) : List Stmt → Bool
  | [] => false
  | s :: r => freesS y s || freesL y r
end

/-- `reuse_buffer`: the kept buffer `x` is in scope at the replaced allocation with the same
    rank; the rest of the block has no `stride(y, _)` (it is not renamed: it would keep the dead
    name), no later extent mentioning `y`, no `free y` -/
def reuseBufferOk (Γ : Env) (x : Sym) : List Stmt → Bool
  | .alloc y shy :: r =>
    (rankOf Γ x == some shy.length) &&
      !anyAccL y (fun _ => false) (fun _ => false) (fun _ => true) r &&
      !allocMentionsL y r && !freesL y r
  | _ => true

/-! ### divide_with_recompute, stage_mem -/

def divideRecomputeOk (Γ : Env) (io ii : Sym) (ohi : Expr) : List Stmt → Bool
  | .loop _ _ _ b _ :: _ =>
    fresh Γ io && fresh Γ ii && io != ii && !(bindL b).contains io && !(bindL b).contains ii &&
      wfC Γ ohi
  | _ => true

/-- the environment inside a loop nest over `iters` (innermost iterator first) -/
def itersEnv (iters : List Sym) : Env := iters.reverse.map (fun i => (i, none))

def nodupB : List Sym → Bool
  | [] => true
  | a :: r => !r.contains a && nodupB r

/-- a copy nest `loopNest iters ns inner` is fine at `Γ'`: as many iterators as extents, extents
    well formed, iterators new and distinct, innermost statement well formed under them -/
def nestOk (Γ' : Env) (iters : List Sym) (ns : List Expr) (inner : List Stmt) : Bool :=
  iters.length == ns.length && wfCs Γ' ns && iters.all (fun i => fresh Γ' i) && nodupB iters &&
    (wfL (itersEnv iters ++ Γ') inner).isSome

/-- `stage_mem`: the staging buffer's name is new, the window bounds are well formed at the site
    (extents `hi - lo`), the copy nests are fine where they are put, the staged block `B'` (read
    off the output) is well formed with the staging buffer in scope and the statements after it
    are well formed in the environment it leaves -/
def stageMemOk (Γ : Env) (x xs : Sym) (w : List WAcc) (n : Nat) (iters : List Sym)
    (accum load store : Bool) (gl gs : Option Expr) (B' : List Stmt) (ss : List Stmt) : Bool :=
  fresh Γ xs && wfCs Γ (stageShape w) &&
    (!load || nestOk ((xs, some (stageShape w).length) :: Γ) iters (stageShape w)
      (guarded gl (.assign xs (iterReads iters)
        (if accum then .lit (.data 0 1) else .read x (stageRIdx w iters))))) &&
    match wfL ((xs, some (stageShape w).length) :: Γ) B' with
    | some Γb =>
      (!store || nestOk Γb iters (stageShape w)
        (guarded gs ((if accum then Stmt.reduce else Stmt.assign) x (stageRIdx w iters)
          (.read xs (iterReads iters))))) &&
        (wfL Γb (ss.drop n)).isSome
    | none => false

/-! ### the scope skeleton: every binder is fresh where it is bound -/

mutual
/-- tracks only the names in scope; returns the scope after the statement -/
def scopeS (sc : List Sym) : Stmt → Option (List Sym)
  | .assign _ _ _ => some sc
  | .reduce _ _ _ => some sc
  | .writecfg _ _ _ _ => some sc
  | .pass => some sc
  | .ite _ t e => if (scopeL sc t).isSome && (scopeL sc e).isSome then some sc else none
  | .loop i _ _ b _ => if !sc.contains i && (scopeL (i :: sc) b).isSome then some sc else none
  | .alloc x _ => if !sc.contains x then some (x :: sc) else none
  | .free _ => some sc
  | .call g _ => if scopeP g then some sc else none
  | .window x _ => if !sc.contains x then some (x :: sc) else none
def scopeL (sc : List Sym) : List Stmt → Option (List Sym)
  | [] => some sc
  | s :: r => match scopeS sc s with
      | some sc' => scopeL sc' r
      | none => none
/-- a callee body is a scope of its own that starts with the formals -/
def scopeP : Proc → Bool
  | .mk _ args _ body => (scopeL ((formalsEnv args).map Prod.fst) body).isSome
end

end Exo.WfShapes
