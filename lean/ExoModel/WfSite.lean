/-
  ExoModel.WfSite — the EXECUTABLE side of the well-formedness preservation theorems of
  Props/C04Shapes.lean (model file: no Mathlib, no Lemmas import; used by Drivers/C04Tie.lean):

  * binders / top-level definitions of a block (`bindS/bindL`, `defName/defNames`, `disj`);
  * `siteAt` — the static environment and block suffix a path addresses;
  * the decidable site conditions `…Ok` of the `…_wf_anywhere` theorems, one per rewrite shape;
  * `scopeS/scopeL/scopeP` — the no-shadowing skeleton check of `alpha_preserves_wf`.

  The lemmas about these definitions are in Lemmas/WfShapes*.lean (same namespace).
-/
import ExoModel.Wf
import ExoModel.Rewrite

namespace Exo.WfShapes
open Exo Exo.Wf Exo.Rw

/-! ### binders and top-level definitions -/

mutual
/-- every name bound anywhere in the statement: loop iterators, allocations, window statements
    (callee bodies are separate scopes and are not entered) -/
def bindS : Stmt → List Sym
  | .ite _ t e => bindL t ++ bindL e
  | .loop i _ _ b _ => i :: bindL b
  | .alloc x _ => [x]
  | .window x _ => [x]
  | _ => []
def bindL : List Stmt → List Sym
  | [] => []
  | s :: r => bindS s ++ bindL r
end

/-- the name a statement adds to the scope of the statements that follow it -/
def defName : Stmt → List Sym
  | .alloc x _ => [x]
  | .window x _ => [x]
  | _ => []

/-- names a block adds to its own scope at top level (visible after it when it is spliced) -/
def defNames : List Stmt → List Sym
  | [] => []
  | s :: r => defName s ++ defNames r

/-- `a` and `b` have no common element -/
def disj (a b : List Sym) : Bool := a.all (fun x => !b.contains x)

/-! ### the site a path addresses -/

/-- static environment and block suffix at `path` (what the local rewrite is applied to) -/
def siteAt : Path → Env → List Stmt → Option (Env × List Stmt)
  | [], _, _ => none
  | [st], Γ, ss => (wfL Γ (ss.take st.idx)).map (fun Γ1 => (Γ1, ss.drop st.idx))
  | st :: nxt :: rest, Γ, ss =>
    match wfL Γ (ss.take st.idx), ss[st.idx]? with
    | some Γ1, some (.loop i _ _ b _) =>
      match nxt with
      | .body _ => siteAt (nxt :: rest) ((i, none) :: Γ1) b
      | .orelse _ => none
    | some Γ1, some (.ite _ t e) =>
      match nxt with
      | .body _ => siteAt (nxt :: rest) Γ1 t
      | .orelse _ => siteAt (nxt :: rest) Γ1 e
    | _, _ => none

/-! ### site conditions, one per shape (hypothesis `hok` of the `…_wf_anywhere` theorems) -/

def deadCodeOk (keepThen : Bool) : List Stmt → Bool
  | .ite _ t e :: r => disj (defNames (if keepThen then t else e)) (bindL r)
  | _ => true

def removeLoopOk (guarded : Bool) : List Stmt → Bool
  | .loop i _ _ b _ :: r => !occL i b && (guarded || disj (defNames b) (bindL r))
  | _ => true

def fissionLoopOk (Γ : Env) (i2 : Sym) (second : List Stmt) : List Stmt → Bool
  | .loop _ _ _ _ _ :: _ => fresh Γ i2 && (wfL ((i2, none) :: Γ) second).isSome
  | _ => true

def fuseLoopsOk (Γ : Env) (body2 : List Stmt) : List Stmt → Bool
  | .loop i _ _ b _ :: .loop _ _ _ _ _ :: _ =>
    (wfL ((i, none) :: Γ) body2).isSome && disj (defNames b) (bindL body2)
  | _ => true

def fuseIfsOk : List Stmt → Bool
  | .ite _ t e :: .ite _ t2 e2 :: _ => disj (defNames t) (bindL t2) && disj (defNames e) (bindL e2)
  | _ => true

def cutLoopOk (Γ : Env) (i2 : Sym) (mid : Expr) (body2 : List Stmt) : List Stmt → Bool
  | .loop _ _ _ _ _ :: _ => fresh Γ i2 && wfC Γ mid && (wfL ((i2, none) :: Γ) body2).isSome
  | _ => true

def specializeOk (Γ : Env) (c : Expr) (copy : List Stmt) : List Stmt → Bool
  | _ :: rest => wfC Γ c && (wfL Γ copy).isSome && (wfL Γ rest).isSome
  | [] => true

def reorderLoopsOk : List Stmt → Bool
  | .loop i _ _ [.loop _ lo2 hi2 _ _] _ :: _ => !lo2.occC i && !hi2.occC i
  | _ => true

def reorderStmtsOk (Γ : Env) : List Stmt → Bool
  | a :: b :: _ => (wfS Γ b).isSome && disj (defName b) (bindS a)
  | _ => true

/-- `(wfL Γ rest).isSome`: the statements after the wrapped one are well formed WITHOUT what it
    defines (the new loop closes the scope of a definition); syntactic form and exactness:
    `addLoop_rest_iff` in Lemmas/WfShapes3.lean -/
def addLoopOk (Γ : Env) (i : Sym) (hi : Expr) : List Stmt → Bool
  | s :: rest => fresh Γ i && wfC Γ hi && !(bindS s).contains i && (wfL Γ rest).isSome
  | [] => true

def shiftLoopOk (Γ : Env) (nlo : Expr) : List Stmt → Bool
  | .loop _ _ _ _ _ :: _ => wfC Γ nlo
  | _ => true

def divideLoopOk (Γ : Env) (tail : Nat) (io ii i3 : Sym) (ohi : Expr) (copy : List Stmt) :
    List Stmt → Bool
  | .loop i _ _ b _ :: _ =>
    fresh Γ io && fresh Γ ii && io != ii && !(bindL b).contains io && !(bindL b).contains ii
      && (tail != 0 || wfC Γ ohi)
      && (tail < 2 || (fresh Γ i3 && !(bindL copy).contains i3 && (wfL ((i, none) :: Γ) copy).isSome))
  | _ => true

def unrollLoopOk : List Stmt → Bool
  | .loop _ _ _ b _ :: _ => (defNames b).isEmpty
  | _ => true

def multLoopsOk (Γ : Env) (k : Sym) : List Stmt → Bool
  | .loop _ _ _ [.loop _ _ _ b _] _ :: _ => fresh Γ k && !(bindL b).contains k
  | _ => true

/-- `lift_scope`, `if` directly in a `for`: the condition must not mention the iterator -/
def liftIfOutOfLoopOk : List Stmt → Bool
  | .loop i _ _ [.ite c _ _] _ :: _ => !c.occC i
  | _ => true

/-! ### the scope skeleton: every binder is fresh where it is bound -/

mutual
/-- tracks only the names in scope; returns the scope after the statement -/
def scopeS (sc : List Sym) : Stmt → Option (List Sym)
  | .assign _ _ _ => some sc
  | .reduce _ _ _ => some sc
  | .writecfg _ _ _ _ => some sc
  | .pass => some sc
  | .ite _ t e => if (scopeL sc t).isSome && (scopeL sc e).isSome then some sc else none
  | .loop i _ _ b _ => if !sc.contains i && (scopeL (i :: sc) b).isSome then some sc else none
  | .alloc x _ => if !sc.contains x then some (x :: sc) else none
  | .free _ => some sc
  | .call g _ => if scopeP g then some sc else none
  | .window x _ => if !sc.contains x then some (x :: sc) else none
def scopeL (sc : List Sym) : List Stmt → Option (List Sym)
  | [] => some sc
  | s :: r => match scopeS sc s with
      | some sc' => scopeL sc' r
      | none => none
/-- a callee body is a scope of its own that starts with the formals -/
def scopeP : Proc → Bool
  | .mk _ args _ body => (scopeL ((formalsEnv args).map Prod.fst) body).isSome
end

end Exo.WfShapes
