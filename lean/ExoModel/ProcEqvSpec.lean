/-
  ExoModel/ProcEqvSpec.lean — the SPECIFICATION side of property C11 (no code is mirrored here).

  A history is a list of `Op`s.  The *recorded steps* (`Spec.edges`) are the `derive_proc` /
  `assert_eqv_proc` calls that returned normally, i.e. whose two procedures had been declared
  (`derive_proc` declares its `new` proc first); a call that mentions a never-declared proc raises
  `KeyError` in Python before any link is made and records nothing.

  `Conn k E p q`  : `p` and `q` are related by the reflexive-symmetric-transitive closure of the
                    recorded steps whose modulo-set does not contain field `k`
                    ("equal when field `k` is observed").
  `ConnAll E`     : closure of all recorded steps (the relation `_UF_Unv` is meant to hold).
  `ConnStrict E`  : closure of the steps recorded with the empty modulo-set (`_UF_Strict`).
-/
import ExoModel.ProcEqv
namespace Exo.ProcEqv

structure Edge where
  p : Proc
  q : Proc
  K : List Field
  deriving Repr, DecidableEq

/-- reflexive-symmetric-transitive closure of the edges of `E` selected by `P` -/
inductive ConnP (P : Edge → Prop) (E : List Edge) : Proc → Proc → Prop where
  | refl (a : Proc) : ConnP P E a a
  | edge (e : Edge) : e ∈ E → P e → ConnP P E e.p e.q
  | symm {a b : Proc} : ConnP P E a b → ConnP P E b a
  | trans {a b c : Proc} : ConnP P E a b → ConnP P E b c → ConnP P E a c

def Conn (k : Field) (E : List Edge) : Proc → Proc → Prop := ConnP (fun e => k ∉ e.K) E
def ConnAll (E : List Edge) : Proc → Proc → Prop := ConnP (fun _ => True) E
def ConnStrict (E : List Edge) : Proc → Proc → Prop := ConnP (fun e => e.K = []) E

/-- an interpretation (observable behaviour of each proc on each config field) in which every
    recorded step `(p, q, K)` really left every field outside `K` alone -/
def Respects {Val : Type} (I : Proc → Field → Val) (E : List Edge) : Prop :=
  ∀ e ∈ E, ∀ k, k ∉ e.K → I e.p k = I e.q k

/-- a walk from `p` to `q` along recorded steps (in either direction) each of which disturbed only
    fields of `K` — the literal reading of "connected by steps each of which disturbed only K" -/
inductive PathWithin (K : List Field) (E : List Edge) : Proc → Proc → Prop where
  | nil (a : Proc) : PathWithin K E a a
  | fwd {c : Proc} (e : Edge) : e ∈ E → (∀ k ∈ e.K, k ∈ K) → PathWithin K E e.q c → PathWithin K E e.p c
  | bwd {c : Proc} (e : Edge) : e ∈ E → (∀ k ∈ e.K, k ∈ K) → PathWithin K E e.p c → PathWithin K E e.q c

/-- what a history has declared and recorded -/
structure Spec where
  decl : List Proc
  edges : List Edge
  deriving Repr

def Spec.step (sp : Spec) : Op → Spec
  | .decl p => { sp with decl := p :: sp.decl }
  | .derive o n K =>
    if o ∈ n :: sp.decl then ⟨n :: sp.decl, ⟨o, n, K⟩ :: sp.edges⟩ else ⟨n :: sp.decl, sp.edges⟩
  | .assertEqv p q K =>
    if p ∈ sp.decl ∧ q ∈ sp.decl then { sp with edges := ⟨p, q, K⟩ :: sp.edges } else sp
  | .check _ _ _ => sp
  | .strictest _ _ => sp
  | .repr _ => sp

def spec (h : List Op) : Spec := h.foldl Spec.step ⟨[], []⟩

/-- histories in which the only recording steps are `derive_proc(orig, new, K)` with `orig` already
    declared and `new` not yet declared — what exo itself produces as long as `unsafe_assert_eq` is
    not used.  The recorded steps then form a forest. -/
def ForestFrom : Spec → List Op → Prop
  | _, [] => True
  | sp, .decl p :: h => ForestFrom (sp.step (.decl p)) h
  | sp, .derive o n K :: h => o ∈ sp.decl ∧ n ∉ sp.decl ∧ ForestFrom (sp.step (.derive o n K)) h
  | _, .assertEqv _ _ _ :: _ => False
  | sp, .check _ _ _ :: h => ForestFrom sp h
  | sp, .strictest _ _ :: h => ForestFrom sp h
  | sp, .repr _ :: h => ForestFrom sp h

def Forest (h : List Op) : Prop := ForestFrom ⟨[], []⟩ h

/-- procedures declared by a history -/
def declared (h : List Op) (p : Proc) : Prop := p ∈ (spec h).decl
/-- recorded steps of a history -/
def edges (h : List Op) : List Edge := (spec h).edges

instance (h : List Op) (p : Proc) : Decidable (declared h p) := by unfold declared; infer_instance

end Exo.ProcEqv
