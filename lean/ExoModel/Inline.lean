/-
  ExoModel.Inline — executable model of `DoInline` (src/exo/rewrite/LoopIR_scheduling.py:896-925,
  with `SubstArgs`, src/exo/core/LoopIR.py:1333-1400) on `ExoModel.Syntax`, and the syntactic
  machinery of the `replace` validator (property C05):

  * `eqE`, `eqS`, `eqP` structural equality of expressions, statements, procedures (the syntax has
                     no derived `DecidableEq`)
  * `lin`, `lfEq`    linear normal form of index expressions: sums are flattened, constants folded,
                     constant factors distributed, equal atoms merged, terms compared as multisets.
                     No atom is ever dropped (`0 * i` keeps the atom `i` with coefficient 0), so the
                     normal form evaluates successfully exactly when the expression does.
  * `eqC`            equality of control expressions modulo `lin`; comparisons are first brought to
                     the form `0 < d` / `0 == d` exactly like `Unification.comparision_to_unification_expr`
  * `Target`, `Subst` what a name of the callee stands for on the caller's side: a control
                     expression, a caller buffer, or a window `y[lo:hi, p, …]` of a caller buffer
  * `substC`         substitution into control expressions (`SubstArgs.map_e`)
  * `matchC/D/V/Args/S/L` the simultaneous walk over (callee statement, caller statement): the callee
                     side is substituted on the fly, index expressions are compared with `eqC`,
                     bound names of the callee (`for`, `alloc`, window statements) are mapped to the
                     names the caller's block uses — this is the comparison "up to alpha": no
                     statement is ever renamed, the correspondence of bound names lives in `Subst`
  * `inline`         the model of `DoInline`: window actuals become window statements named after
                     the formal, every other actual is substituted; binders keep the callee's names
                     (the real code gives them fresh copies: `Alpha_Rename`)
-/
import ExoModel.Syntax
import ExoModel.Sem

namespace Exo.Inline
open Exo

/-! ### structural equality -/

mutual
def eqE : Expr → Expr → Bool
  | .read x i, .read y j => x == y && eqEs i j
  | .lit a, .lit b => a == b
  | .usub a, .usub b => eqE a b
  | .binop o a b, .binop o' a' b' => o == o' && eqE a a' && eqE b b'
  | .extern f a, .extern g b => f == g && eqEs a b
  | .win x a, .win y b => x == y && eqWs a b
  | .stride x d, .stride y e => x == y && d == e
  | .readcfg c f, .readcfg c' f' => c == c' && f == f'
  | _, _ => false
def eqEs : List Expr → List Expr → Bool
  | [], [] => true
  | a :: r, b :: s => eqE a b && eqEs r s
  | _, _ => false
def eqW : WAcc → WAcc → Bool
  | .interval a b, .interval c d => eqE a c && eqE b d
  | .point a, .point b => eqE a b
  | _, _ => false
def eqWs : List WAcc → List WAcc → Bool
  | [], [] => true
  | a :: r, b :: s => eqW a b && eqWs r s
  | _, _ => false
end

def eqArgTy : ArgTy → ArgTy → Bool
  | .ctrl k, .ctrl k' => k == k'
  | .scalar, .scalar => true
  | .tensor s w, .tensor s' w' => eqEs s s' && w == w'
  | _, _ => false

def eqFnArgs : List FnArg → List FnArg → Bool
  | [], [] => true
  | ⟨x, t⟩ :: r, ⟨y, u⟩ :: s => x == y && eqArgTy t u && eqFnArgs r s
  | _, _ => false

mutual
def eqS : Stmt → Stmt → Bool
  | .assign x i r, .assign y j s => x == y && eqEs i j && eqE r s
  | .reduce x i r, .reduce y j s => x == y && eqEs i j && eqE r s
  | .writecfg c f r d, .writecfg c' f' r' d' => c == c' && f == f' && eqE r r' && d == d'
  | .pass, .pass => true
  | .ite c t e, .ite c' t' e' => eqE c c' && eqSs t t' && eqSs e e'
  | .loop i lo hi b p, .loop i' lo' hi' b' p' =>
      i == i' && eqE lo lo' && eqE hi hi' && eqSs b b' && p == p'
  | .alloc x sh, .alloc y sh' => x == y && eqEs sh sh'
  | .free x, .free y => x == y
  | .call f a, .call g b => eqP f g && eqEs a b
  | .window x r, .window y s => x == y && eqE r s
  | _, _ => false
def eqSs : List Stmt → List Stmt → Bool
  | [], [] => true
  | a :: r, b :: s => eqS a b && eqSs r s
  | _, _ => false
def eqP : Proc → Proc → Bool
  | .mk n a p b, .mk n' a' p' b' => n == n' && eqFnArgs a a' && eqEs p p' && eqSs b b'
end

/-! ### occurrence of a symbol, configuration reads -/

mutual
def mentionsE (s : Sym) : Expr → Bool
  | .read x i => x == s || mentionsEs s i
  | .lit _ => false
  | .usub a => mentionsE s a
  | .binop _ a b => mentionsE s a || mentionsE s b
  | .extern _ a => mentionsEs s a
  | .win x a => x == s || mentionsWs s a
  | .stride x _ => x == s
  | .readcfg _ _ => false
def mentionsEs (s : Sym) : List Expr → Bool
  | [] => false
  | a :: r => mentionsE s a || mentionsEs s r
def mentionsW (s : Sym) : WAcc → Bool
  | .interval a b => mentionsE s a || mentionsE s b
  | .point a => mentionsE s a
def mentionsWs (s : Sym) : List WAcc → Bool
  | [] => false
  | a :: r => mentionsW s a || mentionsWs s r
end

mutual
/-- the expression reads no configuration field -/
def noCfgE : Expr → Bool
  | .read _ i => noCfgEs i
  | .lit _ => true
  | .usub a => noCfgE a
  | .binop _ a b => noCfgE a && noCfgE b
  | .extern _ a => noCfgEs a
  | .win _ a => noCfgWs a
  | .stride _ _ => true
  | .readcfg _ _ => false
def noCfgEs : List Expr → Bool
  | [] => true
  | a :: r => noCfgE a && noCfgEs r
def noCfgW : WAcc → Bool
  | .interval a b => noCfgE a && noCfgE b
  | .point a => noCfgE a
def noCfgWs : List WAcc → Bool
  | [] => true
  | a :: r => noCfgW a && noCfgWs r
end

/-! ### linear normal form -/

structure LF where
  const : Int
  terms : List (Int × Expr)

def LF.add (a b : LF) : LF := ⟨a.const + b.const, a.terms ++ b.terms⟩
def scaleTerms (k : Int) : List (Int × Expr) → List (Int × Expr)
  | [] => []
  | (c, t) :: r => (k * c, t) :: scaleTerms k r
def LF.scale (k : Int) (a : LF) : LF := ⟨k * a.const, scaleTerms k a.terms⟩

/-- flatten `+`, `-`, unary minus and multiplication by a constant; everything else is an atom -/
def lin : Expr → LF
  | .lit (.int n) => ⟨n, []⟩
  | .usub e => (lin e).scale (-1)
  | .binop .add a b => (lin a).add (lin b)
  | .binop .sub a b => (lin a).add ((lin b).scale (-1))
  | .binop .mul a b =>
      let la := lin a
      let lb := lin b
      match la.terms, lb.terms with
      | [], _ => lb.scale la.const
      | _, [] => la.scale lb.const
      | _, _ => ⟨0, [(1, .binop .mul a b)]⟩
  | e => ⟨0, [(1, e)]⟩

/-- add the term to the first term with the same atom, or append it -/
def insertTerm (c : Int) (t : Expr) : List (Int × Expr) → List (Int × Expr)
  | [] => [(c, t)]
  | (c', t') :: r => if eqE t t' then (c + c', t') :: r else (c', t') :: insertTerm c t r

def mergeTerms : List (Int × Expr) → List (Int × Expr)
  | [] => []
  | (c, t) :: r => insertTerm c t (mergeTerms r)

/-- remove the first term equal to `(c, t)` -/
def removeTerm (c : Int) (t : Expr) : List (Int × Expr) → Option (List (Int × Expr))
  | [] => none
  | (c', t') :: r =>
      if c == c' && eqE t t' then some r
      else match removeTerm c t r with
        | some r' => some ((c', t') :: r')
        | none => none

/-- multiset equality of term lists -/
def permTerms : List (Int × Expr) → List (Int × Expr) → Bool
  | [], [] => true
  | [], _ :: _ => false
  | (c, t) :: r, l => match removeTerm c t l with
      | some l' => permTerms r l'
      | none => false

def lfEq (a b : LF) : Bool :=
  a.const == b.const && permTerms (mergeTerms a.terms) (mergeTerms b.terms)

/-- `a op b` for an order comparison is `0 < d`: the `d` chosen by
    `Unification.comparision_to_unification_expr` -/
def ineqDiff : BinOp → Expr → Expr → Option Expr
  | .lt, a, b => some (.binop .sub b a)
  | .le, a, b => some (.binop .add (.binop .sub b a) (.lit (.int 1)))
  | .gt, a, b => some (.binop .sub a b)
  | .ge, a, b => some (.binop .add (.binop .sub a b) (.lit (.int 1)))
  | _, _, _ => none

/-- equality of control expressions modulo the linear normal form -/
def eqC : Expr → Expr → Bool
  | .binop o a b, .binop o' a' b' =>
      match ineqDiff o a b, ineqDiff o' a' b' with
      | some d, some d' => lfEq (lin d) (lin d')
      | _, _ =>
        if o == .eq && o' == .eq then lfEq (lin (.binop .sub b a)) (lin (.binop .sub b' a'))
        else if (o == .and || o == .or) && o == o' then eqC a a' && eqC b b'
        else lfEq (lin (.binop o a b)) (lin (.binop o' a' b'))
  | a, b => lfEq (lin a) (lin b)

def eqCs : List Expr → List Expr → Bool
  | [], [] => true
  | a :: r, b :: s => eqC a b && eqCs r s
  | _, _ => false

/-! ### what callee names stand for -/

inductive Target where
  | ctrl (e : Expr)
  | buf (y : Sym) (acc : Option (List WAcc))

abbrev Subst := List (Sym × Target)

def Target.mentions (s : Sym) : Target → Bool
  | .ctrl e => mentionsE s e
  | .buf y none => y == s
  | .buf y (some acc) => y == s || mentionsWs s acc

def Target.noCfg : Target → Bool
  | .ctrl e => noCfgE e
  | .buf _ none => true
  | .buf _ (some acc) => noCfgWs acc

/-- the name is not used by anything the substitution maps to -/
def fresh (s : Sym) : Subst → Bool
  | [] => true
  | (_, t) :: r => !t.mentions s && fresh s r

def pureSubst : Subst → Bool
  | [] => true
  | (_, t) :: r => t.noCfg && pureSubst r

def hasWin : Subst → Bool
  | [] => false
  | (_, .buf _ (some _)) :: _ => true
  | _ :: r => hasWin r

/-- the `d`-th dimension of the window `y[acc]` is dimension `dimMap acc d` of `y` -/
def dimMap : List WAcc → Nat → Option Nat
  | [], _ => none
  | .point _ :: r, d => (dimMap r d).map (· + 1)
  | .interval _ _ :: _, 0 => some 0
  | .interval _ _ :: r, d + 1 => (dimMap r d).map (· + 1)

/-- substitution into a control expression of the callee (`SubstArgs.map_e`); `none` when a name
    is not in scope or used at the wrong kind -/
def substC (θ : Subst) : Expr → Option Expr
  | .read x [] => match lookupSym x θ with
      | some (.ctrl e) => some e
      | _ => none
  | .read _ (_ :: _) => none
  | .lit (.int n) => some (.lit (.int n))
  | .lit (.bool b) => some (.lit (.bool b))
  | .lit (.data _ _) => none
  | .usub e => match substC θ e with
      | some e' => some (.usub e')
      | none => none
  | .binop op a b => match substC θ a, substC θ b with
      | some a', some b' => some (.binop op a' b')
      | _, _ => none
  | .stride x d => match lookupSym x θ with
      | some (.buf y none) => some (.stride y d)
      | some (.buf y (some acc)) => match dimMap acc d with
          | some k => some (.stride y k)
          | none => none
      | _ => none
  | .readcfg c f => some (.readcfg c f)
  | .extern _ _ => none
  | .win _ _ => none

def substCs (θ : Subst) : List Expr → Option (List Expr)
  | [] => some []
  | e :: r => match substC θ e, substCs θ r with
      | some e', some r' => some (e' :: r')
      | _, _ => none

def matchC (θ : Subst) (e e' : Expr) : Bool :=
  match substC θ e with
  | some e'' => eqC e'' e'
  | none => false

def matchCs (θ : Subst) : List Expr → List Expr → Bool
  | [], [] => true
  | a :: r, b :: s => matchC θ a b && matchCs θ r s
  | _, _ => false

/-- indices `idx` into the window `y[acc]` against indices `idx'` into `y` itself -/
def matchWin (θ : Subst) : List WAcc → List Expr → List Expr → Bool
  | [], [], [] => true
  | .point p :: as, is, j :: js => eqC p j && matchWin θ as is js
  | .interval lo _ :: as, i :: is, j :: js =>
      (match substC θ i with
       | some i' => eqC (.binop .add lo i') j
       | none => false) && matchWin θ as is js
  | _, _, _ => false

/-- access `x[idx]` of the callee against access `x'[idx']` of the caller -/
def matchAcc (θ : Subst) (x : Sym) (idx : List Expr) (x' : Sym) (idx' : List Expr) : Bool :=
  match lookupSym x θ with
  | some (.buf y none) => y == x' && matchCs θ idx idx'
  | some (.buf y (some acc)) => y == x' && matchWin θ acc idx idx'
  | _ => false

mutual
/-- data expressions -/
def matchD (θ : Subst) : Expr → Expr → Bool
  | .read x idx, .read x' idx' => matchAcc θ x idx x' idx'
  | .lit (.data n d), .lit (.data n' d') => n == n' && d == d'
  | .lit (.int n), .lit (.int n') => n == n'
  | .usub a, .usub a' => matchD θ a a'
  | .binop op a b, .binop op' a' b' => op == op' && matchD θ a a' && matchD θ b b'
  | .extern f as, .extern f' as' => f == f' && matchDs θ as as'
  | .readcfg c f, .readcfg c' f' => c == c' && f == f'
  | _, _ => false
def matchDs (θ : Subst) : List Expr → List Expr → Bool
  | [], [] => true
  | a :: r, b :: s => matchD θ a b && matchDs θ r s
  | _, _ => false
end

def matchW (θ : Subst) : WAcc → WAcc → Bool
  | .interval a b, .interval a' b' => matchC θ a a' && matchC θ b b'
  | .point a, .point a' => matchC θ a a'
  | _, _ => false

def matchWs (θ : Subst) : List WAcc → List WAcc → Bool
  | [], [] => true
  | a :: r, b :: s => matchW θ a b && matchWs θ r s
  | _, _ => false

def eqCW : WAcc → WAcc → Bool
  | .interval a b, .interval a' b' => eqC a a' && eqC b b'
  | .point a, .point a' => eqC a a'
  | _, _ => false

def eqCWs : List WAcc → List WAcc → Bool
  | [], [] => true
  | a :: r, b :: s => eqCW a b && eqCWs r s
  | _, _ => false

/-- the window `x[acc]` of a formal `x` that is itself the window `y[w]`, against the window
    `y[acc']` the caller's block takes -/
def matchWinWin (θ : Subst) : List WAcc → List WAcc → List WAcc → Bool
  | [], [], [] => true
  | .point p :: ws, as, .point q :: bs => eqC p q && matchWinWin θ ws as bs
  | .interval lo _ :: ws, .point e :: as, .point q :: bs =>
      (match substC θ e with
       | some e' => eqC (.binop .add lo e') q
       | none => false) && matchWinWin θ ws as bs
  | .interval lo _ :: ws, .interval a b :: as, .interval a' b' :: bs =>
      (match substC θ a, substC θ b with
       | some a2, some b2 => eqC (.binop .add lo a2) a' && eqC (.binop .add lo b2) b'
       | _, _ => false) && matchWinWin θ ws as bs
  | _, _, _ => false

/-- expressions in view position (right-hand side of a window statement, numeric call argument) -/
def matchV (θ : Subst) : Expr → Expr → Bool
  | .read x [], .read x' [] => match lookupSym x θ with
      | some (.buf y none) => y == x'
      | _ => false
  | .read x [], .win x' acc' => match lookupSym x θ with
      | some (.buf y (some acc)) => y == x' && eqCWs acc acc'
      | _ => false
  | .read x (i :: is), .read x' (j :: js) => matchAcc θ x (i :: is) x' (j :: js)
  | .win x acc, .win x' acc' => match lookupSym x θ with
      | some (.buf y none) => y == x' && matchWs θ acc acc'
      | some (.buf y (some w)) => y == x' && matchWinWin θ w acc acc'
      | _ => false
  | _, _ => false

/-- arguments of a nested call: control arguments by value, numeric arguments as views -/
def matchArgs (θ : Subst) : List FnArg → List Expr → List Expr → Bool
  | [], [], [] => true
  | ⟨_, .ctrl _⟩ :: fs, a :: as, b :: bs => matchC θ a b && matchArgs θ fs as bs
  | ⟨_, .scalar⟩ :: fs, a :: as, b :: bs => matchV θ a b && matchArgs θ fs as bs
  | ⟨_, .tensor _ _⟩ :: fs, a :: as, b :: bs => matchV θ a b && matchArgs θ fs as bs
  | _, _, _ => false

/-! ### statements -/

/-- right-hand side of a configuration write: data or control, as the field's type says -/
def matchRhs (θ : Subst) (isData : Bool) (e e' : Expr) : Bool :=
  if isData then matchD θ e e' else matchC θ e e'

mutual
/-- callee statement against caller statement; the result is the substitution for the
    statements that follow (allocations and window statements extend it) -/
def matchS (θ : Subst) : Stmt → Stmt → Option Subst
  | .assign x idx rhs, .assign x' idx' rhs' =>
      if matchD θ rhs rhs' && matchAcc θ x idx x' idx' then some θ else none
  | .reduce x idx rhs, .reduce x' idx' rhs' =>
      if matchD θ rhs rhs' && matchAcc θ x idx x' idx' then some θ else none
  | .writecfg c f rhs isData, .writecfg c' f' rhs' isData' =>
      if c == c' && f == f' && isData == isData' && matchRhs θ isData rhs rhs' then some θ
      else none
  | .pass, .pass => some θ
  | .ite c t e, .ite c' t' e' =>
      if matchC θ c c' then
        match matchL θ t t', matchL θ e e' with
        | some _, some _ => some θ
        | _, _ => none
      else none
  | .loop i lo hi body _, .loop i' lo' hi' body' _ =>
      if matchC θ lo lo' && matchC θ hi hi' && fresh i' θ then
        match matchL ((i, .ctrl (.read i' [])) :: θ) body body' with
        | some _ => some θ
        | none => none
      else none
  | .alloc x shape, .alloc x' shape' =>
      if matchCs θ shape shape' && fresh x' θ then some ((x, .buf x' none) :: θ) else none
  | .free _, .free _ => some θ
  | .window x rhs, .window x' rhs' =>
      if matchV θ rhs rhs' && fresh x' θ then some ((x, .buf x' none) :: θ) else none
  | .call g as, .call g' as' =>
      if eqP g g' && matchArgs θ g.args as as' then some θ else none
  | _, _ => none
def matchL (θ : Subst) : List Stmt → List Stmt → Option Subst
  | [], [] => some θ
  | s :: r, s' :: r' => match matchS θ s s' with
      | some θ' => matchL θ' r r'
      | none => none
  | _, _ => none
end

/-! ### the call site -/

/-- a numeric actual as a target.  Window actuals are kept as windows: accesses are compared by
    index rewriting.  Point accesses `y[i]` as scalar actuals are not produced by `replace`. -/
def viewTarget : Expr → Option Target
  | .read y [] => some (.buf y none)
  | .win y w => some (.buf y (some w))
  | _ => none

/-- what the formals stand for, in the order in which `bindArgs` binds them (later formals
    shadow earlier ones) -/
def mkSubst : List FnArg → List Expr → Subst → Option Subst
  | [], [], acc => some acc
  | ⟨x, .ctrl _⟩ :: fs, a :: as, acc => mkSubst fs as ((x, .ctrl a) :: acc)
  | ⟨x, _⟩ :: fs, a :: as, acc => match viewTarget a with
      | some t => mkSubst fs as ((x, t) :: acc)
      | none => none
  | _, _, _ => none

/-! ### the model of `DoInline` -/

/-- `DoInline.map_bind`: a window actual becomes `formal = actual` and the formal stands for itself -/
def inlineTarget (x : Sym) : Expr → Option (Target × List Stmt)
  | .read y [] => some (.buf y none, [])
  | .win y w => some (.buf x none, [.window x (.win y w)])
  | _ => none

def inlineBind : List FnArg → List Expr → Subst → List Stmt → Option (Subst × List Stmt)
  | [], [], acc, ws => some (acc, ws)
  | ⟨x, .ctrl _⟩ :: fs, a :: as, acc, ws => inlineBind fs as ((x, .ctrl a) :: acc) ws
  | ⟨x, _⟩ :: fs, a :: as, acc, ws => match inlineTarget x a with
      | some (t, w) => inlineBind fs as ((x, t) :: acc) (ws ++ w)
      | none => none
  | _, _, _, _ => none

def substW (θ : Subst) : WAcc → Option WAcc
  | .interval a b => match substC θ a, substC θ b with
      | some a', some b' => some (.interval a' b')
      | _, _ => none
  | .point a => match substC θ a with
      | some a' => some (.point a')
      | none => none

def substWs (θ : Subst) : List WAcc → Option (List WAcc)
  | [] => some []
  | e :: r => match substW θ e, substWs θ r with
      | some e', some r' => some (e' :: r')
      | _, _ => none

/-- the caller buffer a callee buffer name is renamed to (only plain renamings: `DoInline`
    never rewrites indices) -/
def bufName (θ : Subst) (x : Sym) : Option Sym :=
  match lookupSym x θ with
  | some (.buf y none) => some y
  | _ => none

mutual
def substD (θ : Subst) : Expr → Option Expr
  | .read x idx => match bufName θ x, substCs θ idx with
      | some y, some idx' => some (.read y idx')
      | _, _ => none
  | .lit (.data n d) => some (.lit (.data n d))
  | .lit (.int n) => some (.lit (.int n))
  | .lit (.bool _) => none
  | .usub a => match substD θ a with
      | some a' => some (.usub a')
      | none => none
  | .binop op a b => match substD θ a, substD θ b with
      | some a', some b' => some (.binop op a' b')
      | _, _ => none
  | .extern f as => match substDs θ as with
      | some as' => some (.extern f as')
      | none => none
  | .readcfg c f => some (.readcfg c f)
  | .win _ _ => none
  | .stride _ _ => none
def substDs (θ : Subst) : List Expr → Option (List Expr)
  | [] => some []
  | e :: r => match substD θ e, substDs θ r with
      | some e', some r' => some (e' :: r')
      | _, _ => none
end

def substV (θ : Subst) : Expr → Option Expr
  | .read x idx => match bufName θ x, substCs θ idx with
      | some y, some idx' => some (.read y idx')
      | _, _ => none
  | .win x acc => match bufName θ x, substWs θ acc with
      | some y, some acc' => some (.win y acc')
      | _, _ => none
  | _ => none

/-- arguments of a nested call -/
def substArgs (θ : Subst) : List FnArg → List Expr → Option (List Expr)
  | [], [] => some []
  | ⟨_, .ctrl _⟩ :: fs, a :: as => match substC θ a, substArgs θ fs as with
      | some a', some as' => some (a' :: as')
      | _, _ => none
  | ⟨_, .scalar⟩ :: fs, a :: as => match substV θ a, substArgs θ fs as with
      | some a', some as' => some (a' :: as')
      | _, _ => none
  | ⟨_, .tensor _ _⟩ :: fs, a :: as => match substV θ a, substArgs θ fs as with
      | some a', some as' => some (a' :: as')
      | _, _ => none
  | _, _ => none

mutual
/-- `SubstArgs` over statements; bound names are kept and stand for themselves -/
def substS (θ : Subst) : Stmt → Option (Stmt × Subst)
  | .assign x idx rhs => match bufName θ x, substCs θ idx, substD θ rhs with
      | some y, some idx', some rhs' => some (.assign y idx' rhs', θ)
      | _, _, _ => none
  | .reduce x idx rhs => match bufName θ x, substCs θ idx, substD θ rhs with
      | some y, some idx', some rhs' => some (.reduce y idx' rhs', θ)
      | _, _, _ => none
  | .writecfg c f rhs isData =>
      match (if isData then substD θ rhs else substC θ rhs) with
      | some rhs' => some (.writecfg c f rhs' isData, θ)
      | none => none
  | .pass => some (.pass, θ)
  | .ite c t e => match substC θ c, substL θ t, substL θ e with
      | some c', some t', some e' => some (.ite c' t' e', θ)
      | _, _, _ => none
  | .loop i lo hi body par =>
      match substC θ lo, substC θ hi, substL ((i, .ctrl (.read i [])) :: θ) body with
      | some lo', some hi', some body' => some (.loop i lo' hi' body' par, θ)
      | _, _, _ => none
  | .alloc x shape => match substCs θ shape with
      | some shape' => some (.alloc x shape', (x, .buf x none) :: θ)
      | none => none
  | .free x => some (.free x, θ)
  | .window x rhs => match substV θ rhs with
      | some rhs' => some (.window x rhs', (x, .buf x none) :: θ)
      | none => none
  | .call g as => match substArgs θ g.args as with
      | some as' => some (.call g as', θ)
      | none => none
def substL (θ : Subst) : List Stmt → Option (List Stmt)
  | [] => some []
  | s :: r => match substS θ s with
      | some (s', θ') => match substL θ' r with
          | some r' => some (s' :: r')
          | none => none
      | none => none
end

/-- `DoInline`: the statements that take the place of `f(args)` -/
def inline (f : Proc) (args : List Expr) : Option (List Stmt) :=
  match inlineBind f.args args [] [] with
  | some (θ, ws) => match substL θ f.body with
      | some body => some (ws ++ body)
      | none => none
  | none => none

end Exo.Inline
