/-
  ExoModel.RwCheckStorage — correspondence A for the storage-related rewrites
  (ExoModel.RewriteStorage): is the real output `after` exactly the model rewrite of `before`
  for some choice of the parameters the real primitive is free to choose (the fresh name of the
  else-copy made by `sink_alloc`)?  Parameters are read off `after` and then checked
  (same scheme as ExoModel.RwCheck).

  Conventions (`path`, `k`, `flag` as sent by the stream):
    lift_alloc    path = address of the allocation, k = n_lifts, flag unused
    sink_alloc    path = address of the allocation, k, flag unused
    delete_buffer path = address of the allocation, k, flag unused
                  (`fill` of `deleteBuffer` is computed from the path: see below)
    delete_pass   path ignored (whole body), k, flag unused
    expand_dim    path = address of the allocation; extent and indexing expression read off output
    bind_expr     path = address of the STATEMENT containing the bound expression (the stream's
                  path minus its trailing expression steps `rhs`/`lhs`/`arg`/`args k`)
  dimension rewrites (path = address of the allocation in all five):
    divide_dim    k = dim_idx, flag unused; the quotient is read off the output allocation
                  (extent number k+1 must be an integer literal)
    mult_dim      k = 16 * hi_dim_idx + lo_dim_idx, flag unused
    rearrange_dim k = Σ_i permute_vector[i] * 16^i (little-endian base 16; the length N of the
                  vector is the rank of the input allocation: `permute_vector[i] = (k / 16^i) % 16`
                  for `i < N`), flag unused.  A vector of another length than N is rejected by the
                  real wrapper and cannot be encoded — nothing to check then.
    resize_dim    k = dim_idx, flag = fold.  flag = true: "no storage model" (DoFoldBuffer is not
                  modelled).  flag = false: the new size is read off the output allocation
                  (extent number k), the offset off the first access to the buffer in the output
                  (its k-th index must be `_ - offset`; literal 0 if the buffer is never accessed).
    unroll_buffer k = dimension, flag unused; the fresh names are read off the output (the first
                  m statements at `path`, m = number of used indices computed by the model) and
                  checked fresh and distinct
  stage_mem     path = address of the FIRST statement of the staged block (the stream's path: its block
                is that one statement); k = number of statements of the block (k = 0 is read as 1);
                flag = accum.  The window string and the new name are NOT sent; read off the output:
                * `xs`, extents: the statement at `path` in the output must be `xs : T[sh]`, `xs` not
                  mentioned in the input;
                * which nests exist: (#statements at `path` in the output) - 1 - (#statements at
                  `path` in the input) = 2: both; 1: copy-in only or copy-out only (both readings are
                  tried, at most one can pass); anything else: rejected;
                * iterators, guards: peeled off the nests (`for i in seq(0, _)` … then an optional
                  `if g:` around exactly one statement);
                * `x` and the window: from the copy-out statement `x[r…] (+)= xs[i…]` if there is one,
                  else from the copy-in statement `xs[i…] = x[r…]` (accum without copy-out cannot be
                  read: rejected): a coordinate `r_d` of the form `i_k + lo` (`i_k` the next unused
                  iterator) is an interval `lo : hi` with `hi` from extent number k of the allocation
                  (which must be `hi - _`), any other coordinate is a point;
                * `B'` = the n statements after the allocation (and the copy-in nest).
                Checked: `stageMem x xs w n iters accum load store gl gs B'` applied at `path` gives
                the output up to alpha (this contains `stageRelL` and the flag computation), the
                guards have the form `guardForm` (extents of `x` taken from its allocation in the
                input; unknown — accepted as they are — when `x` is a procedure argument), all
                iterators of both nests are distinct and not mentioned in the input.
  stage_mem_all same, and in addition EVERY access to `x` in the block was redirected
                (`stageAllRedirected`: the case `Rw.stageMemAll` / the soundness theorem covers).
                A pair accepted by `stage_mem` and refused by `stage_mem_all` with
                "stage_mem_all: some access to the buffer was left alone" is outside the theorem.
  reuse_buffer  path = address of the allocation of `x`, the buffer that is KEPT (first cursor of the
                API, the stream's `path`); k = encoding of the address of the allocation of `y`, the
                one that is REPLACED (second cursor, the stream's `args.other`):
                k = Σ_i d_i * 256^i, d_i = 2 * index_i + (1 if step i is `orelse` else 0) + 1,
                step 0 = outermost (`decodePath`); flag unused.  The `Local` `reuseBuffer x fill` is
                applied at the decoded address (`fill` = its last index is 0).  Both addresses must
                hold allocations of different symbols with equal extents (`exprsEq`; the real
                assertion is stricter, see RewriteStorage).
-/
import ExoModel.RwCheck
import ExoModel.RewriteStorage

namespace Exo.Rw
open Exo

/-! ### does a symbol occur at all (binder, buffer name, read, window, stride …) -/

mutual
def mentionsE (y : Sym) : Expr → Bool
  | .read x idx => x == y || mentionsEs y idx
  | .lit _ => false
  | .usub e => mentionsE y e
  | .binop _ a b => mentionsE y a || mentionsE y b
  | .extern _ args => mentionsEs y args
  | .win x acc => x == y || mentionsWs y acc
  | .stride x _ => x == y
  | .readcfg _ _ => false
def mentionsEs (y : Sym) : List Expr → Bool
  | [] => false
  | e :: r => mentionsE y e || mentionsEs y r
def mentionsW (y : Sym) : WAcc → Bool
  | .interval a b => mentionsE y a || mentionsE y b
  | .point a => mentionsE y a
def mentionsWs (y : Sym) : List WAcc → Bool
  | [] => false
  | w :: r => mentionsW y w || mentionsWs y r
end

mutual
/-- `y` occurs anywhere in the statement (callee bodies excluded: they are closed) -/
def mentionsS (y : Sym) : Stmt → Bool
  | .assign x idx e => x == y || mentionsEs y idx || mentionsE y e
  | .reduce x idx e => x == y || mentionsEs y idx || mentionsE y e
  | .writecfg _ _ e _ => mentionsE y e
  | .pass => false
  | .ite c t e => mentionsE y c || mentionsL y t || mentionsL y e
  | .loop i lo hi b _ => i == y || mentionsE y lo || mentionsE y hi || mentionsL y b
  | .alloc x sh => x == y || mentionsEs y sh
  | .free x => x == y
  | .call _ args => mentionsEs y args
  | .window x e => x == y || mentionsE y e
def mentionsL (y : Sym) : List Stmt → Bool
  | [] => false
  | s :: r => mentionsS y s || mentionsL y r
end

/-! ### first index of every access to a buffer (to read the indexing expression of `expand_dim`
off the output) -/

mutual
def headIdxE (x : Sym) : Expr → List Expr
  | .read y idx => (if y == x then idx.take 1 else []) ++ headIdxEs x idx
  | .lit _ => []
  | .usub e => headIdxE x e
  | .binop _ a b => headIdxE x a ++ headIdxE x b
  | .extern _ args => headIdxEs x args
  | .win y acc =>
    (if y == x then (match acc with | .point i :: _ => [i] | _ => []) else []) ++ headIdxWs x acc
  | .stride _ _ => []
  | .readcfg _ _ => []
def headIdxEs (x : Sym) : List Expr → List Expr
  | [] => []
  | e :: r => headIdxE x e ++ headIdxEs x r
def headIdxW (x : Sym) : WAcc → List Expr
  | .interval a b => headIdxE x a ++ headIdxE x b
  | .point a => headIdxE x a
def headIdxWs (x : Sym) : List WAcc → List Expr
  | [] => []
  | w :: r => headIdxW x w ++ headIdxWs x r
end

mutual
def headIdxS (x : Sym) : Stmt → List Expr
  | .assign y idx e => (if y == x then idx.take 1 else []) ++ headIdxEs x idx ++ headIdxE x e
  | .reduce y idx e => (if y == x then idx.take 1 else []) ++ headIdxEs x idx ++ headIdxE x e
  | .writecfg _ _ e _ => headIdxE x e
  | .ite c t e => headIdxE x c ++ headIdxL x t ++ headIdxL x e
  | .loop _ lo hi b _ => headIdxE x lo ++ headIdxE x hi ++ headIdxL x b
  | .call _ args => headIdxEs x args
  | .window _ e => headIdxE x e
  | _ => []
def headIdxL (x : Sym) : List Stmt → List Expr
  | [] => []
  | s :: r => headIdxS x s ++ headIdxL x r
end

/-! ### `d`-th index of every access to a buffer (to read the offset of `resize_dim` off the
output; a window interval contributes its lower end) -/

mutual
def dimIdxE (x : Sym) (d : Nat) : Expr → List Expr
  | .read y idx => (if y == x then (idx[d]?).toList else []) ++ dimIdxEs x d idx
  | .lit _ => []
  | .usub e => dimIdxE x d e
  | .binop _ a b => dimIdxE x d a ++ dimIdxE x d b
  | .extern _ args => dimIdxEs x d args
  | .win y acc =>
    (if y == x then
      (match acc[d]? with
       | some (.point i) => [i]
       | some (.interval a _) => [a]
       | none => [])
     else []) ++ dimIdxWs x d acc
  | .stride _ _ => []
  | .readcfg _ _ => []
def dimIdxEs (x : Sym) (d : Nat) : List Expr → List Expr
  | [] => []
  | e :: r => dimIdxE x d e ++ dimIdxEs x d r
def dimIdxW (x : Sym) (d : Nat) : WAcc → List Expr
  | .interval a b => dimIdxE x d a ++ dimIdxE x d b
  | .point a => dimIdxE x d a
def dimIdxWs (x : Sym) (d : Nat) : List WAcc → List Expr
  | [] => []
  | w :: r => dimIdxW x d w ++ dimIdxWs x d r
end

mutual
def dimIdxS (x : Sym) (d : Nat) : Stmt → List Expr
  | .assign y idx e => (if y == x then (idx[d]?).toList else []) ++ dimIdxEs x d idx ++ dimIdxE x d e
  | .reduce y idx e => (if y == x then (idx[d]?).toList else []) ++ dimIdxEs x d idx ++ dimIdxE x d e
  | .writecfg _ _ e _ => dimIdxE x d e
  | .ite c t e => dimIdxE x d c ++ dimIdxL x d t ++ dimIdxL x d e
  | .loop _ lo hi b _ => dimIdxE x d lo ++ dimIdxE x d hi ++ dimIdxL x d b
  | .call _ args => dimIdxEs x d args
  | .window _ e => dimIdxE x d e
  | _ => []
def dimIdxL (x : Sym) (d : Nat) : List Stmt → List Expr
  | [] => []
  | s :: r => dimIdxS x d s ++ dimIdxL x d r
end


/-! ### stage_mem: reading the parameters off the output -/

/-- `for i_0 in seq(0, n_0): … : inner` → iterators, extents, innermost block (loops with lower
    bound 0, sequential, one statement in the body) -/
def peelNest : Nat → List Stmt → List Sym × List Expr × List Stmt
  | fuel + 1, [.loop i (.lit (.int 0)) hi b false] =>
    let (is, hs, inner) := peelNest fuel b
    (i :: is, hi :: hs, inner)
  | _, ss => ([], [], ss)

/-- optional `if g:` (no else) around exactly one statement -/
def peelGuard : List Stmt → Option (Option Expr × Stmt)
  | [.ite g [s] []] =>
    -- a copy statement is never an `if`
    some (some g, s)
  | [s] => some (none, s)
  | _ => none

/-- window from the indices of the access to the original buffer, the iterators and the extents
    of the staging buffer -/
def readWin : List Sym → List Expr → List Expr → Option (List WAcc)
  | [], [], [] => some []
  | _, _, [] => none
  | is, sh, e :: r =>
    match is, sh, e with
    | i :: is', (.binop .sub hi _) :: sh', .binop .add (.read j []) lo =>
      if j == i then (readWin is' sh' r).map (fun w => .interval lo hi :: w)
      else (readWin is sh r).map (fun w => .point e :: w)
    | _, _, _ => (readWin is sh r).map (fun w => .point e :: w)

/-- extents of the first allocation of `x` found in the block -/
def findAlloc (x : Sym) : Nat → List Stmt → Option (List Expr)
  | 0, _ => none
  | _, [] => none
  | fuel + 1, s :: r =>
    let here : Option (List Expr) := match s with
      | .alloc y sh => if y == x then some sh else none
      | .loop _ _ _ b _ => findAlloc x fuel b
      | .ite _ t e => (findAlloc x fuel t).orElse (fun _ => findAlloc x fuel e)
      | _ => none
    here.orElse (fun _ => findAlloc x fuel r)

/-- first reading that passes; if none does: the "left alone" verdict of `stage_mem_all` if some
    reading got that far, else all errors -/
def firstOk (rs : List (Except String Unit)) : Except String Unit :=
  match rs.find? (fun r => match r with | .ok _ => true | .error _ => false) with
  | some r => r
  | none =>
    match rs.find? (fun r => match r with | .error e => e.startsWith "stage_mem_all" | .ok _ => false) with
    | some r => r
    | none =>
      if rs.isEmpty then
        throw "stage_mem: nothing to try (no copy nest names the buffer and the block has no window expression)"
      else
        throw (" | ".intercalate (rs.filterMap (fun r => match r with | .error e => some e | .ok _ => none)))

/-- the iterators of one copy nest renamed to those of the other (guards are control expressions) -/
def renameIters (src dst : List Sym) (e : Expr) : Expr :=
  (src.zip dst).foldl (fun e p => Expr.substC p.1 (.read p.2 []) e) e

mutual
/-- symbols of the window expressions below an expression -/
def winSymsE : Expr → List Sym
  | .read _ idx => winSymsEs idx
  | .lit _ => []
  | .usub a => winSymsE a
  | .binop _ a b => winSymsE a ++ winSymsE b
  | .extern _ args => winSymsEs args
  | .win y _ => [y]
  | .stride _ _ => []
  | .readcfg _ _ => []
def winSymsEs : List Expr → List Sym
  | [] => []
  | a :: r => winSymsE a ++ winSymsEs r
end

mutual
def winSymsS : Stmt → List Sym
  | .assign _ idx rhs => winSymsEs idx ++ winSymsE rhs
  | .reduce _ idx rhs => winSymsEs idx ++ winSymsE rhs
  | .writecfg _ _ rhs _ => winSymsE rhs
  | .ite c t e => winSymsE c ++ winSymsL t ++ winSymsL e
  | .loop _ lo hi b _ => winSymsE lo ++ winSymsE hi ++ winSymsL b
  | .call _ args => winSymsEs args
  | .window _ rhs => winSymsE rhs
  | _ => []
def winSymsL : List Stmt → List Sym
  | [] => []
  | s :: r => winSymsS s ++ winSymsL r
end

/-- the all-interval window whose staging buffer has these extents -/
def winOfShape : List Expr → Option (List WAcc)
  | [] => some []
  | .binop .sub hi lo :: r => (winOfShape r).map (fun w => .interval lo hi :: w)
  | _ :: _ => none

/-- one reading (`load`, `store`) of the output of stage_mem; `sa` = output suffix AFTER the allocation -/
def checkStageMem (all : Bool) (path : Path) (n : Nat) (accum load store : Bool)
    (before sb : List Stmt) (xs : Sym) (sh : List Expr) (sa after : List Stmt) :
    Except String Unit := do
  let nl := if load then 1 else 0
  let B' := (sa.drop nl).take n
  let loadN := if load then peelNest 64 (sa.take 1) else ([], [], [])
  let storeN := if store then peelNest 64 ((sa.drop (nl + n)).take 1) else ([], [], [])
  -- copy statements
  let lg ← (if load then
      match peelGuard loadN.2.2 with
      | some r => pure (some r)
      | none => throw "stage_mem: copy-in nest has no single innermost statement"
    else pure none : Except String (Option (Option Expr × Stmt)))
  let sg ← (if store then
      match peelGuard storeN.2.2 with
      | some r => pure (some r)
      | none => throw "stage_mem: copy-out nest has no single innermost statement"
    else pure none : Except String (Option (Option Expr × Stmt)))
  -- candidates for (the buffer, the window, the iterators the window is expressed with)
  let fromCopy := fun (x : Sym) (ridx : List Expr) (iters : List Sym) =>
    match readWin iters sh ridx with
    | some w => pure [(x, w, iters)]
    | none => throw "stage_mem: extents of the new buffer / indices of the copy statement do not determine a window"
  let cands ← (match sg, lg with
    | some (_, .assign x ridx (.read _ _)), _ => fromCopy x ridx storeN.1
    | some (_, .reduce x ridx (.read _ _)), _ => fromCopy x ridx storeN.1
    | some _, _ => throw "stage_mem: copy-out statement is not `x[…] (+)= xs[…]`"
    | none, some (_, .assign _ _ (.read x ridx)) => fromCopy x ridx loadN.1
    | none, some (_, .assign _ _ (.lit _)) =>
      -- accum, zero-filled copy-in, no copy-out: the block touches the buffer through window
      -- expressions only; neither copy statement names the buffer.  All coordinates are intervals
      -- (extents `hi - lo` give the window); the buffer is one of those windowed in the block.
      match winOfShape sh with
      | some w => pure (((winSymsL (sb.take n)).eraseDups).map (fun x => (x, w, loadN.1)))
      | none => throw "stage_mem: extents of the new buffer are not of the form hi - lo"
    | none, _ => throw "stage_mem: cannot read the window off the output (no copy-out, copy-in does not read the buffer)"
    : Except String (List (Sym × List WAcc × List Sym)))
  let allIters := loadN.1 ++ storeN.1
  expect (allIters.all (fun i => !mentionsL i before)) "stage_mem: an iterator of a copy nest is not fresh"
  expect (allIters.eraseDups.length == allIters.length) "stage_mem: two copy loops share an iterator"
  firstOk (cands.map (fun (x, w, iters) => do
    -- the model uses ONE list of iterators for both nests: guards are renamed to it
    let gl := ((lg.map (·.1)).join).map (renameIters loadN.1 iters)
    let gs := ((sg.map (·.1)).join).map (renameIters storeN.1 iters)
    let exts : List (Option Expr) := match findAlloc x 64 before with
      | some e => e.map some
      | none => w.map (fun _ => none)
    expect (!load || loadN.1.length == iters.length) "stage_mem: the two copy nests have different depths"
    expect (guardForm (stageRIdx w iters) exts gl) "stage_mem: guard of the copy-in nest is not a conjunction of bound conditions of the access"
    expect (guardForm (stageRIdx w iters) exts gs) "stage_mem: guard of the copy-out nest is not a conjunction of bound conditions of the access"
    same (rewriteAt (stageMem x xs w n iters accum load store gl gs B') path before) after
    if all then
      expect (stageAllRedirected x xs w (sb.take n) B') "stage_mem_all: some access to the buffer was left alone"))

/-- address from its encoding: digit `d = 2 * idx + (1 if orelse) + 1` per step, base 256,
    outermost step = least significant digit; `none` on a zero digit -/
def decodePath : Nat → Nat → Option Path
  | 0, _ => none
  | fuel + 1, k =>
    if k == 0 then some []
    else
      let d := k % 256
      if d == 0 then none
      else
        let st : Step := if (d - 1) % 2 == 1 then .orelse ((d - 1) / 2) else .body ((d - 1) / 2)
        (decodePath fuel (k / 256)).map (fun r => st :: r)

/-- `permute_vector` from its base-16 encoding (`n` = rank of the buffer) -/
def decodePerm (n k : Nat) : List Nat := (List.range n).map (fun i => (k / 16 ^ i) % 16)

/-- `flag` and `k` as in `Rw.check`.

  **lift_alloc, the off-by-one.**  `path` addresses the allocation; write `L = path.length`.
  `DoLiftAllocSimple` walks `k = n_lifts` parents up (`stmt_c = stmt_c.parent()` k times; it
  refuses when a parent is the procedure root, i.e. it needs `L ≥ k + 1`) and moves the
  allocation in front of the statement reached, the *scope statement*.  Each `.parent()` drops
  one step of the address, so the scope statement has address `path.take (L - k)`; that is where
  the `Local` is applied (its suffix starts at the scope statement).  The address of the
  allocation relative to the scope statement is the last `k` steps, `path.drop (L - k)`;
  `liftAlloc` wants these preceded by the step that addresses the scope statement itself (whose
  index it ignores, the scope statement being the head of the suffix), hence
  `rel = path.drop (L - k - 1)`, `rel.length = k + 1`.
  Example: `path = [body 0, body 2]`, `k = 1`: applied at `[body 0]` with
  `rel = [body 0, body 2]`;  `path = [body 1, orelse 0, body 3]`, `k = 1`: applied at
  `[body 1, orelse 0]` with `rel = [orelse 0, body 3]`; same path, `k = 2`: applied at
  `[body 1]` with `rel = [body 1, orelse 0, body 3]`.

  **delete_buffer.**  `Block._delete` refills the block with `pass` exactly when the allocation
  was its only statement, i.e. when the last index of `path` is 0 and nothing follows; the second
  half is tested by `deleteBuffer` itself (`r.isEmpty`), the first half is `fill`. -/
def checkStorage (name : String) (path : Path) (k : Nat) (flag : Bool)
    (before after : List Stmt) : Except String Unit := do
  let _ := flag
  match name with
  | "lift_alloc" =>
    let L := path.length
    expect (decide (1 ≤ k)) "lift_alloc: n_lifts must be positive"
    expect (decide (k + 1 ≤ L)) "lift_alloc: fewer than n_lifts scopes above the allocation"
    let scope := path.take (L - k)
    let rel := path.drop (L - k - 1)
    match getAt path before with
    | some (.alloc _ _ :: _) => same (rewriteAt (liftAlloc rel) scope before) after
    | _ => throw "lift_alloc: path does not address an allocation"
  | "sink_alloc" =>
    match getAt path before with
    | some (.alloc x _ :: .ite _ _ e :: _) =>
      if e.isEmpty then same (rewriteAt (sinkAlloc x) path before) after
      else
        -- the fresh name of the else-copy is read off the output
        match getAt path after with
        | some (.ite _ _ (.alloc x' _ :: _) :: _) =>
          expect (x' != x) "sink_alloc: the else-copy of the allocation was not renamed"
          expect (!mentionsL x' before) "sink_alloc: the name of the else-copy is not fresh"
          same (rewriteAt (sinkAlloc x') path before) after
        | _ => throw "sink_alloc: else branch of the output does not start with an allocation"
    | some (.alloc x _ :: .loop _ _ _ _ _ :: _) => same (rewriteAt (sinkAlloc x) path before) after
    | _ => throw "sink_alloc: unexpected shape"
  | "delete_buffer" =>
    match path.getLast? with
    | some st => same (rewriteAt (deleteBuffer (st.idx == 0)) path before) after
    | none => throw "delete_buffer: empty path"
  | "delete_pass" =>
    expect (alphaEqBlocks (deletePass before) after) "real output differs from the model rewrite"
  | "expand_dim" =>
    -- the new extent and the indexing expression are read off the output
    match getAt path before, getAt path after with
    | some (.alloc x _ :: _), some (.alloc x2 (n :: _) :: r2) =>
      expect (x2 == x) "expand_dim: the allocation changed its name"
      let e := ((headIdxL x r2).head?).getD (.lit (.int 0))
      same (rewriteAt (expandDim n e) path before) after
    | _, _ => throw "expand_dim: unexpected shape"
  | "bind_expr" =>
    -- `path` = address of the statement that contains the bound expression
    match getAt path after with
    | some (.alloc t [] :: .assign t2 [] e :: s' :: _) =>
      expect (t2 == t) "bind_expr: the inserted assignment does not write the new buffer"
      expect (!mentionsL t before) "bind_expr: the new buffer's name is not fresh"
      expect (mentionsS t s') "bind_expr: nothing was replaced in the statement"
      same (rewriteAt (bindExpr t e s') path before) after
    | _ => throw "bind_expr: output does not start with `t : _ ; t = e ; s'` at this path"
  | "divide_dim" =>
    -- k = dim_idx; the quotient is read off the output allocation
    match getAt path before, getAt path after with
    | some (.alloc x _ :: _), some (.alloc x2 sh2 :: _) =>
      expect (x2 == x) "divide_dim: the allocation changed its name"
      match sh2[k + 1]? with
      | some (.lit (.int q)) => same (rewriteAt (divideDim k q) path before) after
      | _ => throw "divide_dim: extent k+1 of the output allocation is not an integer literal"
    | _, _ => throw "divide_dim: unexpected shape"
  | "mult_dim" =>
    -- k = 16 * hi + lo
    match getAt path before, getAt path after with
    | some (.alloc x _ :: _), some (.alloc x2 _ :: _) =>
      expect (x2 == x) "mult_dim: the allocation changed its name"
      same (rewriteAt (multDim (k / 16) (k % 16)) path before) after
    | _, _ => throw "mult_dim: unexpected shape"
  | "rearrange_dim" =>
    -- k = Σ perm[i] * 16^i
    match getAt path before, getAt path after with
    | some (.alloc x sh :: _), some (.alloc x2 _ :: _) =>
      expect (x2 == x) "rearrange_dim: the allocation changed its name"
      same (rewriteAt (rearrangeDim (decodePerm sh.length k)) path before) after
    | _, _ => throw "rearrange_dim: unexpected shape"
  | "resize_dim" =>
    -- k = dim_idx, flag = fold
    if flag then throw "no storage model for resize_dim(fold=True)"
    else
      match getAt path before, getAt path after with
      | some (.alloc x _ :: _), some (.alloc x2 sh2 :: r2) =>
        expect (x2 == x) "resize_dim: the allocation changed its name"
        match sh2[k]? with
        | some size =>
          let off : Expr := match (dimIdxL x k r2).head? with
            | some (.binop .sub _ o) => o
            | _ => .lit (.int 0)
          same (rewriteAt (resizeDim k size off) path before) after
        | none => throw "resize_dim: the output allocation has no dimension k"
      | _, _ => throw "resize_dim: unexpected shape"
  | "unroll_buffer" =>
    -- k = dimension; fresh names read off the output
    match getAt path before, getAt path after with
    | some (.alloc x sh :: r), some sa =>
      match unrollOrder x k sh r with
      | none => throw "unroll_buffer: model rewrite does not apply (non-literal extent or access)"
      | some order =>
        let names := (sa.take order.length).filterMap
          (fun s => match s with | .alloc y _ => some y | _ => none)
        expect (names.length == order.length)
          "unroll_buffer: output does not start with one allocation per used index"
        expect (names.all (fun y => !mentionsL y before)) "unroll_buffer: a new buffer's name is not fresh"
        expect (names.eraseDups.length == names.length) "unroll_buffer: two new buffers share a name"
        same (rewriteAt (unrollBuffer k names) path before) after
    | _, _ => throw "unroll_buffer: unexpected shape"
  | "stage_mem" | "stage_mem_all" =>
    -- k = block length (0 read as 1), flag = accum; everything else read off the output
    let n := max k 1
    match getAt path before, getAt path after with
    | some sb, some (.alloc xs sh :: sa) =>
      expect (!mentionsL xs before) "stage_mem: the new buffer's name is not fresh"
      expect (decide (n ≤ sb.length)) "stage_mem: the block is longer than the rest of its enclosing block"
      let all := name == "stage_mem_all"
      let run := fun (load store : Bool) => checkStageMem all path n flag load store before sb xs sh sa after
      if sa.length == sb.length + 2 then run true true
      else if sa.length == sb.length + 1 then firstOk [run true false, run false true]
      else throw "stage_mem: the output does not have one or two statements more than allocation + block"
    | _, _ => throw "stage_mem: output does not start with an allocation at this path"
  | "reuse_buffer" =>
    -- path = allocation of the kept buffer x; k = encoded address of the replaced allocation
    match decodePath 64 k with
    | none => throw "reuse_buffer: k does not encode an address"
    | some other =>
      match getAt path before, getAt other before, other.getLast? with
      | some (.alloc x shx :: _), some (.alloc y shy :: _), some st =>
        expect (x != y) "reuse_buffer: both cursors address the same allocation"
        expect (exprsEq [] shx shy) "reuse_buffer: the two allocations have different extents"
        same (rewriteAt (reuseBuffer x (st.idx == 0)) other before) after
      | _, _, _ => throw "reuse_buffer: path / decoded k do not address two allocations"
  | _ => throw s!"no storage model for {name}"

end Exo.Rw
