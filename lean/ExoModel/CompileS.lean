/-
  ExoModel.CompileS — `Compiler.comp_s` / `comp_e` of src/exo/backend/LoopIR_compiler.py on the DRAM
  core of LoopIR, as a function `Stmt → mini-C` (`Exo.CSem`), plus the printer that turns the mini-C
  tree into the text the real compiler emits (used by the tie, harness/ccstmt.py).

  INPUT: the statement list AFTER `MemoryAnalysis` (i.e. with `Stmt.free` nodes), as the real
  `Compiler` sees it.

  The compiler's state that matters:
    `CEnv.typ`    `self.envtyp` — a plain dict, NEVER popped (quirk kept: a binding made in an inner
                  block stays visible to the type lookup after the block)
    `CEnv.refs`   `self._scalar_refs` (scalar arguments: passed by reference, read as `*x`)
    `CEnv.known`  `self._known_strides` (from `assert stride(x, d) == c` preconditions)
    `CEnv.renv`   `self.range_env` (`IndexRangeEnvironment`, model: `Exo.Range.Env`) — pushed /
                  popped with the C scopes, extended by `add_loop_iter`
    `CEnv.modOK`  GHOST (not in the Python): "so far every `%` that was emitted had a numerator that
                  the range analysis proved non-negative".  `false` marks finding F6 (`%` is
                  emitted verbatim).  Does not influence the output.
  `self.env` / `self.names` (Sym ↦ C identifier) are replayed by the printer (`printL`) with
  `Exo.CIndex.newVarname`; the tree binds `Sym`s.  `self.mems`: everything is DRAM here.

  Covered: Pass, Assign, Reduce, WriteConfig, If, For (seq; `par` is compiled the same way, the
  pragma is printed), Alloc, Free, WindowStmt; reads of tensors / windows / scalars, window
  expressions on the right of a WindowStmt, stride expressions, config reads; one precision.
  Calls of non-instruction sub-procedures: `comp_fnarg` (`compArg`) and the Call case of `comp_s`;
  the callee is compiled with its own environment (`initEnvOf` from ITS signature and stride
  assertions) and embedded in the call node.
  NOT covered (`compS` returns `.error "unsupported:…"`): instruction procedures (not visible in
  the export: excluded by the tie), data expressions as arguments, externs, memories other than
  DRAM, precision casts.
  `.error "raise:…"` = the real compiler raises on this input (assertions of `lift_to_cir`,
  `get_idx_offset`, `simplify_cir`'s Python-float division, exceptions of the range analysis).
  No Mathlib.
-/
import ExoModel.CSem

namespace Exo.CompileS
open Exo Exo.CIndex Exo.CSem
open Exo.Range (IExpr Op Bound)

inductive Ty
  | idx                          -- size / index / int / bool / stride: printed by name
  | tensor (shape : List IExpr)  -- dense tensor (allocation or non-window argument)
  | window (ndim : Nat)          -- window argument or `w = x[...]`
  | scalar
deriving Repr, Inhabited

structure CEnv where
  typ : List (Sym × Ty)
  refs : List Sym
  known : List ((Sym × Nat) × Int)
  renv : Range.Env
  modOK : Bool
  /-- per callee name: the bounds `IndexRangeEnvironment(callee, fast=False)` holds for its size
      arguments (SMT-derived in the real code; an input of the model) -/
  cb : List (String × List (Sym × Bound))
deriving Inhabited

abbrev M := Except String

def toOp : BinOp → Option Op
  | .add => some .add | .sub => some .sub | .mul => some .mul | .div => some .div
  | .mod => some .mod | _ => none

/-- the LoopIR expression as the range analysis / `lift_to_cir` see it: everything that is not
    index arithmetic over index-typed variables is `other` -/
def toIE (typ : List (Sym × Ty)) : Expr → IExpr
  | .read x [] => match lookupSym x typ with
      | some .idx => .var x
      | _ => .other
  | .lit (.int n) => .const n
  | .usub a => .neg (toIE typ a)
  | .binop op a b => match toOp op with
      | some o => .bin o (toIE typ a) (toIE typ b)
      | none => .other
  | _ => .other

def noOther : IExpr → Bool
  | .other => false
  | .neg a => noOther a
  | .bin _ a b => noOther a && noOther b
  | _ => true

/-- `is_non_neg = range_env.check_expr_bound(0, leq, e)`; an exception of the analysis is
    rendered as `false` here (on `other`-free expressions whose divisors are positive literals the
    analysis does not raise) -/
def nnOf (renv : Range.Env) (e : IExpr) : Bool :=
  match Range.isNonNeg renv.lookup e with
  | .ok b => b
  | .error _ => false

/-- GHOST: every `%` of the expression has a numerator proved non-negative -/
def modNumOK (renv : Range.Env) : IExpr → Bool
  | .bin op a b => modNumOK renv a && modNumOK renv b && (op != .mod || nnOf renv a)
  | .neg a => modNumOK renv a
  | _ => true

/-- `lift_to_cir(e, self.range_env)` -/
def liftIdx (Γ : CEnv) (e : Expr) : M CIR :=
  match lift (nnOf Γ.renv) (toIE Γ.typ e) with
  | some c => pure c
  | none => throw "raise:AssertionError:lift_to_cir"

def simp (c : CIR) : M CIR :=
  match simplify c with
  | .ok s => pure s
  | .error e => throw ("raise:simplify_cir:" ++ e.str)

def mapM' {α β : Type} (f : α → M β) : List α → M (List β)
  | [] => pure []
  | a :: r => do let b ← f a; let bs ← mapM' f r; pure (b :: bs)

def liftShape (renv : Range.Env) (sh : List IExpr) : M (List CIR) :=
  mapM' (fun e => match lift (nnOf renv) e with
    | some c => pure c
    | none => throw "raise:AssertionError:lift_to_cir") sh

def knownOf (x : Sym) (known : List ((Sym × Nat) × Int)) : List (Nat × Int) :=
  (known.filter (fun k => k.1.1 == x)).map (fun k => (k.1.2, k.2))

/-- `self.envtyp[x]` as `get_strides` looks at it -/
def bufTy (Γ : CEnv) (x : Sym) : M BufTy :=
  match lookupSym x Γ.typ with
  | some (.tensor sh) => do let cs ← liftShape Γ.renv sh; pure (.tensor cs)
  | some (.window n) => pure (.window n (knownOf x Γ.known))
  | _ => throw "unsupported:access-to-non-buffer"

def shapeOK (Γ : CEnv) (x : Sym) : Bool :=
  match lookupSym x Γ.typ with
  | some (.tensor sh) => sh.all (modNumOK Γ.renv)
  | _ => true

/-- the `lhs` of `comp_s` on Assign / Reduce and the `Read` case of `comp_e` for numeric names -/
def accessLV (Γ : CEnv) (x : Sym) (idx : List Expr) : M (LVal × Bool) :=
  if Γ.refs.contains x then pure (.scalar x true, true) else
  match lookupSym x Γ.typ with
  | some .scalar => pure (.scalar x false, true)
  | some .idx => throw "unsupported:index-variable-as-data"
  | none => throw "raise:KeyError"
  | some _ => do   -- `access_str`
      let cirs ← mapM' (liftIdx Γ) idx
      let ty ← bufTy Γ x
      match getIdxOffset x ty cirs with
      | none => throw "raise:AssertionError:get_idx_offset"
      | some off => do
          let s ← simp off
          pure (.idx x (isWinTy ty) (compAst s),
                idx.all (fun e => modNumOK Γ.renv (toIE Γ.typ e)) && shapeOK Γ x)

/-- `comp_e` on control-typed expressions.  `inBound`: the expression is a loop bound. -/
def compC (Γ : CEnv) (inBound : Bool) : Expr → M (CI × Bool)
  | .read x [] => match lookupSym x Γ.typ with
      | some .idx => pure (.var x, true)
      | none => throw "raise:KeyError"
      | _ => throw "unsupported:data-in-control-expression"
  | .read _ (_ :: _) => throw "unsupported:data-in-control-expression"
  | .lit (.int n) => pure (.lit n, true)
  | .lit (.bool b) => pure (.blit b, true)
  | .lit (.data _ _) => throw "unsupported:data-in-control-expression"
  | .usub a => do let (a', k) ← compC Γ inBound a; pure (.neg a', k)
  | .binop op a b => do
      let (a', ka) ← compC Γ inBound a
      let (b', kb) ← compC Γ inBound b
      match op with
      | .div =>
          let ie := toIE Γ.typ (.binop .div a b)
          if !noOther ie then throw "raise:range-analysis-of-non-index-expression" else
          match Range.isNonNeg Γ.renv.lookup ie with
          | .ok true => pure (.bin .div a' b', ka && kb)
          | .ok false => pure (.floorDiv a' b', ka && kb)
          | .error e => throw ("raise:" ++ e.str)
      | .mod =>
          let ia := toIE Γ.typ a
          pure (.bin .mod a' b', ka && kb && noOther ia && nnOf Γ.renv ia)
      | _ => pure (.bin op a' b', ka && kb)
  | .stride x d => do
      let ty ← bufTy Γ x
      match (getStrides x ty)[d]? with
      | none => throw "raise:IndexError"
      | some s => do let s' ← simp s; pure (.ix (compAst s'), shapeOK Γ x)
  | .readcfg c f =>
      if inBound then throw "unsupported:config-read-in-loop-bound" else pure (.cfg c f, true)
  | .extern _ _ => throw "unsupported:extern"
  | .win _ _ => throw "unsupported:window-expression"

/-- `comp_e` on data-typed expressions -/
def compD (Γ : CEnv) : Expr → M (CD × Bool)
  | .read x idx => do let (lv, k) ← accessLV Γ x idx; pure (.rd lv, k)
  | .lit (.data n d) => pure (.lit n d, true)
  | .lit _ => throw "unsupported:control-literal-in-data-expression"
  | .usub a => do let (a', k) ← compD Γ a; pure (.neg a', k)
  | .binop op a b => do
      let (a', ka) ← compD Γ a
      let (b', kb) ← compD Γ b
      match op with
      | .add | .sub | .mul | .div => pure (.bin op a' b', ka && kb)
      | _ => throw "unsupported:comparison-of-data"
  | .readcfg c f => pure (.cfg c f, true)
  | .extern _ _ => throw "unsupported:extern"
  | .win _ _ => throw "unsupported:window-expression"
  | .stride _ _ => throw "unsupported:stride-in-data-expression"

def waccLo : WAcc → Expr
  | .interval lo _ => lo
  | .point e => e

def waccIsIv : WAcc → Bool
  | .interval _ _ => true
  | .point _ => false

/-- `window_struct_fields(e)` as trees: the `lo`s, all strides of the source, interval flags -/
def windowFields (Γ : CEnv) (x : Sym) (acc : List WAcc) :
    M (Bool × List CExpr × List CExpr × List Bool × Bool) := do
  let ty ← bufTy Γ x
  let los ← mapM' (fun w => do let c ← liftIdx Γ (waccLo w); let s ← simp c; pure (compAst s)) acc
  let strs ← mapM' (fun c => do let s ← simp c; pure (compAst s)) (getStrides x ty)
  -- `assert 0 < len(all_strides_s) == len(e.idx)` and, in `window_struct` (called through
  -- `get_window_type`), `assert n_dims >= 1`: a window expression needs at least one interval
  if strs.length = 0 ∨ strs.length ≠ acc.length ∨ ((acc.map waccIsIv).filter id).length = 0 then
    throw "raise:AssertionError:window_struct_fields"
  else pure (isWinTy ty, los, strs, acc.map waccIsIv,
             acc.all (fun w => modNumOK Γ.renv (toIE Γ.typ (waccLo w))) && shapeOK Γ x)

def CEnv.note (Γ : CEnv) (k : Bool) : CEnv := { Γ with modOK := Γ.modOK && k }

def CEnv.push (Γ : CEnv) : CEnv := { Γ with renv := Γ.renv.enterScope }
def CEnv.pop (Γ : CEnv) : CEnv := { Γ with renv := Γ.renv.exitScope }
def CEnv.declare (Γ : CEnv) (x : Sym) (t : Ty) : CEnv := { Γ with typ := (x, t) :: Γ.typ }

/-! ## the environment `Compiler.__init__` builds from the signature -/

def argTyOf (typ : List (Sym × Ty)) : ArgTy → Ty
  | .ctrl _ => .idx
  | .scalar => .scalar
  | .tensor sh true => .window sh.length
  | .tensor sh false => .tensor (sh.map (toIE typ))

def initTyp : List FnArg → List (Sym × Ty) → List (Sym × Ty)
  | [], acc => acc
  | a :: r, acc => initTyp r ((a.name, argTyOf acc a.ty) :: acc)

def initRefs : List FnArg → List Sym
  | [] => []
  | ⟨x, .scalar⟩ :: r => x :: initRefs r
  | _ :: r => initRefs r

/-- `_known_strides`: predicates of the form `stride(x, d) == c` (later ones win) -/
def initKnown : List Expr → List ((Sym × Nat) × Int) → List ((Sym × Nat) × Int)
  | [], acc => acc
  | .binop .eq (.stride x d) (.lit (.int c)) :: r, acc => initKnown r (((x, d), c) :: acc)
  | _ :: r, acc => initKnown r acc

/-- `bounds`: what `IndexRangeEnvironment(proc, fast=False)` holds for the size arguments (SMT
    derived in the real code; supplied by the caller) -/
def cbLookup (name : String) : List (String × List (Sym × Bound)) → List (Sym × Bound)
  | [] => []
  | (n, b) :: r => if name = n then b else cbLookup name r

def initEnvOf (args : List FnArg) (preds : List Expr) (bounds : List (Sym × Bound))
    (cb : List (String × List (Sym × Bound))) : CEnv :=
  { typ := initTyp args [], refs := initRefs args, known := initKnown preds [],
    renv := Range.Env.initWith bounds, modOK := true, cb := cb }

def initEnv (p : Proc) (bounds : List (Sym × Bound))
    (cb : List (String × List (Sym × Bound)) := []) : CEnv :=
  initEnvOf p.args p.preds bounds cb

/-- C parameter kind of a formal -/
def paramKind : ArgTy → PKind
  | .ctrl _ => .int
  | .scalar => .ptr
  | .tensor sh true => .win sh.length
  | .tensor _ false => .ptr

def paramsOf (args : List FnArg) : List (Sym × PKind) := args.map (fun a => (a.name, paramKind a.ty))

/-- `comp_fnarg(e, fn, i)`; the formal is consulted only for the consistency that the real code
    asserts (`a.type.is_win() == fna.type.is_win()`) or that the front end guarantees -/
def compArg (Γ : CEnv) (fa : FnArg) : Expr → M (CArg × Bool)
  | .read y [] =>
      match lookupSym y Γ.typ, paramKind fa.ty with
      | some .idx, .int => pure (.int (.var y), true)
      | some .scalar, .ptr =>
          match fa.ty with
          | .scalar => pure (.ptr y (!Γ.refs.contains y), true)
          | _ => throw "raise:call-argument-kind"
      | some (.tensor _), .ptr =>
          match fa.ty with
          | .tensor _ false => pure (.ptr y false, true)
          | _ => throw "raise:call-argument-kind"
      | some (.window _), .win _ => pure (.winVar y, true)
      | none, _ => throw "raise:KeyError"
      | _, _ => throw "raise:call-argument-kind"
  | .read _ (_ :: _) => throw "raise:AssertionError:comp_fnarg"
  | .win y acc =>
      match paramKind fa.ty with
      | .win _ => do
          let (isW, los, strs, ivs, k) ← windowFields Γ y acc
          pure (.win y isW los strs ivs, k)
      | _ => throw "raise:call-argument-kind"
  | e =>
      match paramKind fa.ty with
      | .int => do let (e', k) ← compC Γ false e; pure (.int e', k)
      | _ => throw "unsupported:data-expression-as-argument"

def compArgs (Γ : CEnv) : List FnArg → List Expr → M (List CArg × Bool)
  | [], [] => pure ([], true)
  | fa :: fs, e :: es => do
      let (a, k1) ← compArg Γ fa e
      let (as, k2) ← compArgs Γ fs es
      pure (a :: as, k1 && k2)
  | _, _ => throw "raise:arity"


mutual
/-- `comp_s` -/
def compS (Γ : CEnv) : Stmt → M (List CStmt × CEnv)
  | .pass => pure ([.nop], Γ)
  | .assign x idx rhs => do
      let (lv, k1) ← accessLV Γ x idx
      let (e, k2) ← compD Γ rhs
      pure ([.store lv e], Γ.note (k1 && k2))
  | .reduce x idx rhs => do
      let (lv, k1) ← accessLV Γ x idx
      let (e, k2) ← compD Γ rhs
      pure ([.accum lv e], Γ.note (k1 && k2))
  | .writecfg c f rhs isData =>
      if isData then do
        let (e, k) ← compD Γ rhs
        pure ([.cfgWriteD c f e], Γ.note k)
      else do
        let (e, k) ← compC Γ false rhs
        pure ([.cfgWriteI c f e], Γ.note k)
  | .window w (.win x acc) => do
      let (isW, los, strs, ivs, k) ← windowFields Γ x acc
      pure ([.winInit w x isW los strs ivs],
            (Γ.note k).declare w (.window (ivs.filter id).length))
  | .window _ _ => throw "raise:AssertionError:WindowStmt-rhs"
  | .ite c t e => do
      let (c', k) ← compC Γ false c
      let (t', Γ1) ← compL (Γ.note k).push t
      let (e', Γ2) ← compL Γ1.pop.push e
      pure ([.ite c' t' e'], Γ2.pop)
  | .loop i lo hi body par => do
      let (lo', k1) ← compC Γ true lo
      let (hi', k2) ← compC Γ true hi
      let Γ0 := (Γ.note (k1 && k2)).push
      -- `add_loop_iter` analyses both bounds: every node must be index arithmetic
      if !(noOther (toIE Γ.typ lo) && noOther (toIE Γ.typ hi)) then
        throw "raise:range-analysis-of-non-index-expression" else
      match Γ0.renv.addLoopIter i (.e (toIE Γ.typ lo)) (.e (toIE Γ.typ hi)) with
      | .error e => throw ("raise:" ++ e.str)
      | .ok renv' => do
          let (b', Γ1) ← compL ({ Γ0 with renv := renv' }.declare i .idx) body
          pure ([.for_ i lo' hi' b' par], Γ1.pop)
  | .alloc x shape =>
      match shape with
      | [] => pure ([.declScalar x], Γ.declare x .scalar)
      | _ => do
          let dims ← mapM' (fun e => do let c ← liftIdx Γ e; let s ← simp c; pure (compAst s)) shape
          pure ([.malloc x dims],
                (Γ.note (shape.all (fun e => modNumOK Γ.renv (toIE Γ.typ e)))).declare x
                  (.tensor (shape.map (toIE Γ.typ))))
  | .free x =>
      match lookupSym x Γ.typ with
      | some .scalar => pure ([], Γ)
      | some (.tensor _) => pure ([.free x], Γ)
      | _ => throw "raise:KeyError"
  | .call (.mk name fargs preds body) args => do
      -- `args = [self.comp_fnarg(e, s.f, i) …]`; `fname(ctxt,args)`.  The callee is compiled by its
      -- own `Compiler` (fresh environment from ITS signature); instruction procedures are not
      -- visible in the export and are excluded by the tie
      let (as, k) ← compArgs Γ fargs args
      let (b', Γf) ← compL (initEnvOf fargs preds (cbLookup name Γ.cb) Γ.cb) body
      pure ([.call (.mk name (paramsOf fargs) b') as], Γ.note (k && Γf.modOK))
/-- `comp_stmts` -/
def compL (Γ : CEnv) : List Stmt → M (List CStmt × CEnv)
  | [] => pure ([], Γ)
  | s :: r => do
      let (cs, Γ1) ← compS Γ s
      let (cr, Γ2) ← compL Γ1 r
      pure (cs ++ cr, Γ2)
end

def compP (p : Proc) (bounds : List (Sym × Bound))
    (cb : List (String × List (Sym × Bound)) := []) : M (List CStmt × CEnv) :=
  compL (initEnv p bounds cb) p.body

/-! ## printer: the text the real compiler emits for the tree -/

/-- one precision: C type name, window-struct shorthand -/
structure Prec where
  ctype : String
  short : String

/-- text of a `comp_cir` result (same parenthesisation as `Exo.CIndex.comp`) -/
def printCE (env : Sym → String) : CExpr → Nat → String
  | .var x, _ => env x
  | .lit n, _ => toString n
  | .bin op a b, prec =>
      let lp := opPrec op
      let l := printCE env a lp
      let r := printCE env b (lp + 1)
      if op = .div then "(" ++ l ++ " / " ++ r ++ ")"
      else paren (decide (lp < prec)) (l ++ " " ++ op.str ++ " " ++ r)
  | .floorDiv a b, _ =>
      "exo_floor_div(" ++ printCE env a 60 ++ ", " ++ printCE env b 61 ++ ")"
  | .neg a, _ => "-" ++ printCE env a 70
  | .strideOf x d, _ => x.name ++ ".strides[" ++ toString d ++ "]"

/-- `op_prec` and the C spelling -/
def binPrec : BinOp → Nat
  | .or => 10 | .and => 20 | .eq => 30 | .lt => 40 | .gt => 40 | .le => 40 | .ge => 40
  | .add => 50 | .sub => 50 | .mul => 60 | .div => 60 | .mod => 60

def binStr : BinOp → String
  | .or => "||" | .and => "&&" | .eq => "==" | .lt => "<" | .gt => ">" | .le => "<=" | .ge => ">="
  | .add => "+" | .sub => "-" | .mul => "*" | .div => "/" | .mod => "%"

def printCI (env : Sym → String) : CI → Nat → String
  | .ix e, _ => printCE env e 0
  | .var x, _ => env x
  | .lit n, _ => toString n
  | .blit b, _ => if b then "true" else "false"
  | .bin op a b, prec =>
      if op = .div then "((" ++ printCI env a 0 ++ ") / (" ++ printCI env b 1 ++ "))"
      else
        let lp := binPrec op
        paren (decide (lp < prec)) (printCI env a lp ++ " " ++ binStr op ++ " " ++ printCI env b (lp + 1))
  | .floorDiv a b, _ => "exo_floor_div(" ++ printCI env a 0 ++ ", " ++ printCI env b 1 ++ ")"
  | .neg a, _ => "-" ++ printCI env a 70
  | .cfg c f, _ => "ctxt->" ++ c ++ "." ++ f

def printLV (env : Sym → String) : LVal → String
  | .idx x isWin off => env x ++ (if isWin then ".data[" else "[") ++ printCE env off 0 ++ "]"
  | .scalar x byRef => (if byRef then "*" else "") ++ env x

/-- data literals are printed canonically as `lit(num/den)`; harness/ccstmt.py rewrites the real
    compiler's `0.5f`, `2.0`, `((int8_t) 3)` into the same form -/
def printCD (env : Sym → String) : CD → Nat → String
  | .rd lv, _ => printLV env lv
  | .lit n d, _ => "lit(" ++ toString n ++ "/" ++ toString d ++ ")"
  | .bin op a b, prec =>
      let lp := binPrec op
      paren (decide (lp < prec)) (printCD env a lp ++ " " ++ binStr op ++ " " ++ printCD env b (lp + 1))
  | .neg a, _ => "-" ++ printCD env a 70
  | .cfg c f, _ => "ctxt->" ++ c ++ "." ++ f

def envFn (sc : Scopes) : Sym → String := fun x => (envGet x sc).getD ("?" ++ x.name)

def nameErr : NErr → String
  | .value => "raise:ValueError:new_varname"
  | .fuel => "model:new_varname-fuel"

def fresh (sc : Scopes) (x : Sym) : M (String × Scopes) :=
  match newVarname sc x with
  | .ok r => pure r
  | .error e => throw (nameErr e)

def printArg (pr : Prec) (env : Sym → String) : CArg → String
  | .int e => printCI env e 0
  | .ptr x addr => (if addr then "&" else "") ++ env x
  | .winVar x => env x
  | .win src isW los strs ivs =>
      let idxs := los.map (fun e => printCE env e 0)
      let ss := strs.map (fun e => printCE env e 0)
      let data := memWindow isW (env src) idxs ss
      let kept := ((ss.zip ivs).filter (fun p => p.2)).map (fun p => p.1)
      let ty := "struct exo_win_" ++ toString kept.length ++ pr.short
      "(" ++ ty ++ "){ &" ++ data ++ ", { " ++ ", ".intercalate kept ++ " } }"

mutual
def printS (pr : Prec) (sc : Scopes) : CStmt → M (List String × Scopes)
  | .nop => pure (["; // NO-OP"], sc)
  | .store lv e => pure ([printLV (envFn sc) lv ++ " = " ++ printCD (envFn sc) e 0 ++ ";"], sc)
  | .accum lv e => pure ([printLV (envFn sc) lv ++ " += " ++ printCD (envFn sc) e 0 ++ ";"], sc)
  | .cfgWriteI c f e =>
      pure (["ctxt->" ++ c ++ "." ++ f ++ " = " ++ printCI (envFn sc) e 0 ++ ";"], sc)
  | .cfgWriteD c f e =>
      pure (["ctxt->" ++ c ++ "." ++ f ++ " = " ++ printCD (envFn sc) e 0 ++ ";"], sc)
  | .ite c t e => do
      let hd := "if (" ++ printCI (envFn sc) c 0 ++ ") {"
      let (lt, sc1) ← printL pr (pushScope sc) t
      let sc1 := popScope sc1
      match e with
      | [] => pure ([hd] ++ lt ++ ["}"], sc1)
      | _ => do
          let (le, sc2) ← printL pr (pushScope sc1) e
          pure ([hd] ++ lt ++ ["} else {"] ++ le ++ ["}"], popScope sc2)
  | .for_ i lo hi body par => do
      let los := printCI (envFn sc) lo 0
      let his := printCI (envFn sc) hi 0
      let (itr, sc1) ← fresh (pushScope sc) i
      let hd := "for (int_fast32_t " ++ itr ++ " = " ++ los ++ "; " ++ itr ++ " < " ++ his ++ "; " ++
        itr ++ "++) {"
      let (lb, sc2) ← printL pr sc1 body
      pure ((if par then ["#pragma omp parallel for"] else []) ++ [hd] ++ lb ++ ["}"], popScope sc2)
  | .malloc x dims => do
      let (nm, sc1) ← fresh sc x
      let shape := dims.map (fun d => printCE (envFn sc1) d 100)
      pure ([pr.ctype ++ " *" ++ nm ++ " = (" ++ pr.ctype ++ "*) malloc(" ++ " * ".intercalate shape ++
        " * sizeof(*" ++ nm ++ "));"], sc1)
  | .declScalar x => do
      let (nm, sc1) ← fresh sc x
      pure ([pr.ctype ++ " " ++ nm ++ ";"], sc1)
  | .free x => pure (["free(" ++ envFn sc x ++ ");"], sc)
  | .winInit w src isW los strs ivs => do
      let env := envFn sc
      let idxs := los.map (fun e => printCE env e 0)
      let ss := strs.map (fun e => printCE env e 0)
      let data := memWindow isW (env src) idxs ss
      let kept := ((ss.zip ivs).filter (fun p => p.2)).map (fun p => p.1)
      let ty := "struct exo_win_" ++ toString kept.length ++ pr.short
      let (nm, sc1) ← fresh sc w
      pure ([ty ++ " " ++ nm ++ " = (" ++ ty ++ "){ &" ++ data ++ ", { " ++ ", ".intercalate kept ++
        " } };"], sc1)
  | .call (.mk name _ _) args =>
      pure ([name ++ "(" ++ ",".intercalate ("ctxt" :: args.map (printArg pr (envFn sc))) ++ ");"], sc)
def printL (pr : Prec) (sc : Scopes) : List CStmt → M (List String × Scopes)
  | [] => pure ([], sc)
  | s :: r => do
      let (a, sc1) ← printS pr sc s
      let (b, sc2) ← printL pr sc1 r
      pure (a ++ b, sc2)
end

/-- the scopes after `Compiler.__init__`: `ctxt`, then the arguments in order -/
def initScopes : List Sym → Scopes → M Scopes
  | [], sc => pure sc
  | x :: r, sc => do let (_, sc1) ← fresh sc x; initScopes r sc1

/-! ## the `free` discipline (static, decidable) on the emitted C

  What a placement of `Free` nodes has to satisfy so that the status monitors of `CSem` cannot trip
  (proved: Lemmas/CSimFree*.lean, Props/C02Stmt.lean).  Per C block:
    * a name is declared at most once while visible (`vis`),
    * `free(x)` only of a pointer `malloc`ed in the SAME block (`mine`), at most once (`dead`),
    * no statement dereferences a pointer / window whose alias root (`w = src[..]` chains, `al`,
      resolved with `Exo.CIndex.aliasRoot`) has been freed,
    * at the closing brace every `malloc` of the block has been freed.
  `MemoryAnalysis` establishes all of this except the alias part of the third item (finding F7). -/

def lvSym : LVal → Sym
  | .idx x _ _ => x
  | .scalar x _ => x

/-- the pointer / struct variables an expression dereferences -/
def cdSyms : CD → List Sym
  | .rd lv => [lvSym lv]
  | .lit _ _ => []
  | .bin _ a b => cdSyms a ++ cdSyms b
  | .neg a => cdSyms a
  | .cfg _ _ => []

/-- the pointer / struct variables handed to a callee -/
def argSyms : List CArg → List Sym
  | [] => []
  | .int _ :: r => argSyms r
  | .ptr x _ :: r => x :: argSyms r
  | .winVar x :: r => x :: argSyms r
  | .win src _ _ _ _ :: r => src :: argSyms r

structure FS where
  al : List (Sym × Sym)    -- (window, source), newest first
  dead : List Sym          -- freed
  mine : List Sym          -- `malloc`ed in the current block
  vis : List Sym           -- visible pointer / struct names
deriving Repr, Inhabited

def FS.okUse (fs : FS) (y : Sym) : Bool := !fs.dead.contains (aliasRoot fs.al y)

/-- closing brace: everything the block `malloc`ed has been freed -/
def blockOK : Option FS → Bool
  | some fs1 => fs1.mine.all (fun x => fs1.dead.contains x)
  | none => false

mutual
def fsS (fs : FS) : CStmt → Option FS
  | .nop => some fs
  | .store lv e => if (lvSym lv :: cdSyms e).all fs.okUse then some fs else none
  | .accum lv e => if (lvSym lv :: cdSyms e).all fs.okUse then some fs else none
  | .cfgWriteI _ _ _ => some fs
  | .cfgWriteD _ _ e => if (cdSyms e).all fs.okUse then some fs else none
  | .ite _ t e =>
      if blockOK (fsL { fs with mine := [] } t) && blockOK (fsL { fs with mine := [] } e)
      then some fs else none
  | .for_ _ _ _ b _ => if blockOK (fsL { fs with mine := [] } b) then some fs else none
  | .malloc x _ =>
      if fs.vis.contains x then none else some { fs with mine := x :: fs.mine, vis := x :: fs.vis }
  | .declScalar x => if fs.vis.contains x then none else some { fs with vis := x :: fs.vis }
  | .free x =>
      if fs.mine.contains x && !fs.dead.contains x then some { fs with dead := x :: fs.dead } else none
  | .winInit w src _ _ _ _ =>
      if fs.vis.contains w then none else some { fs with al := (w, src) :: fs.al, vis := w :: fs.vis }
  | .call (.mk _ ps body) args =>
      -- the callee may dereference what it is handed; its body is a function body of its own
      if (argSyms args).all fs.okUse && blockOK (fsL ⟨[], [], [], ps.map (·.1)⟩ body)
      then some fs else none
def fsL (fs : FS) : List CStmt → Option FS
  | [] => some fs
  | s :: r => match fsS fs s with
      | some fs1 => fsL fs1 r
      | none => none
end

/-- a block: its own `mine`; everything it `malloc`ed is freed at the brace -/
def fsBlock (fs : FS) (ss : List CStmt) : Bool := blockOK (fsL { fs with mine := [] } ss)

/-- the discipline for a function body whose pointer / struct arguments are `vis0` -/
def freeOK (vis0 : List Sym) (cs : List CStmt) : Bool := fsBlock ⟨[], [], [], vis0⟩ cs

/-- … for a LoopIR statement list (after MemoryAnalysis), through the compiler -/
def FreeOK (Γ : CEnv) (vis0 : List Sym) (ss : List Stmt) : Bool :=
  match compL Γ ss with
  | .ok (cs, _) => freeOK vis0 cs
  | .error _ => false

/-- the lines of the function body that `comp_stmts(proc.body)` produces, the ghost F6 flag, and
    whether the body satisfies the `free` discipline -/
def printP (pr : Prec) (p : Proc) (bounds : List (Sym × Bound))
    (cb : List (String × List (Sym × Bound)) := []) : M (List String × Bool × Bool) := do
  let (cs, Γ) ← compP p bounds cb
  let sc ← initScopes (⟨"ctxt", 0⟩ :: p.args.map (·.name)) [⟨[], []⟩]
  let (ls, _) ← printL pr sc cs
  pure (ls, Γ.modOK, freeOK (p.args.map (·.name)) cs)

end Exo.CompileS
