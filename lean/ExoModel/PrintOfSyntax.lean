/-
  ExoModel.PrintOfSyntax — from the LoopIR mirror `ExoModel.Syntax` (what `harness/export_ir.py`
  exports and `ExoModel.Wire` reads; the ONLY view the semantic checks C01–C05, C08–C10, C19 … have
  of exo's LoopIR) to the printer model `ExoModel.PrintStmt`:

      toPProc : Exo.Proc → Except String PProc

  Symbols `(name, id)` are resolved to printed names with the existing literal model of
  `PrintEnv.get_name` (`Exo.Print.getName`), requested in the order and in the frames in which
  `_print_proc`/`_print_fnarg`/`_print_block`/`_print_stmt`/`_print_expr`
  (src/exo/core/LoopIR_pprint.py:379-580) request them:

    * arguments in order — for `size`/`index` the name; for every other argument first the names
      inside its type (shape expressions), then its name (`_print_fnarg`: `ty = _print_type(…)`
      is evaluated before the f-string asks for the name);
    * the predicates, then the body in the SAME environment (no push for the procedure body);
    * `Assign`/`Reduce`: name, indices, right-hand side; `WriteConfig`: right-hand side;
      `WindowStmt`: right-hand side, THEN the new name; `Alloc`: shape, THEN the new name;
      `Call`: arguments; `If`: condition, then body in `env.push()`, then `orelse` in another
      `env.push()`; `For`: `lo`, `hi` in the outer environment, then `body_env = env.push()`,
      the iterator's name in `body_env`, the body in `body_env`;
    * `Read`: name, indices; `BinOp`: left, right; `WindowExpr`: name, accesses (`Interval`: lo,
      hi); `StrideExpr`: name; `Extern`: arguments; `ReadConfig`: nothing.

  A pushed environment is a child `ChainMap`: names bound inside it are written to the child only,
  so after the block the parent is used again UNCHANGED (`E` below, not the child's final state).

  BLIND FIELDS.  What printing needs and the exported syntax does not carry is printed as a fixed
  placeholder; `harness/exportcheck.py` masks the same positions of the real LoopIR before it
  lets the real printer print it.  This list is exactly what the semantic checks cannot see:

    1. the numeric precision of allocations and of scalar/tensor arguments (`R f16 f32 f64 i8 i32
       ui8 ui16`)                                               → placeholder `R`
    2. the memory of allocations and arguments                   → placeholder `DRAM`
    3. the SPELLING of literals (the value is exported exactly: control literals as integers /
       booleans, data literals as the exact rational of the float)
                                                                → `p/q` (or `p` when `q = 1`),
                                                                   i.e. `str(Fraction(val))`
    4. the `@instr` C template of a procedure (and `srcinfo`, and the type annotations on
       expressions / `Assign` / `Reduce`, which the printer does not show either)
    5. of an extern function and of a configuration only the name (resp. name and field) — as
       printed; the identity of the Python object behind it is not exported

  Not translatable (reported as `.error`, counted by the check): `Free` (only present after
  compilation; `PStmt` has no such form), `int` arguments, a window expression anywhere but as
  right-hand side of a window statement or as call argument.

  Total functions, no Mathlib.
-/
import ExoModel.PrintStmt

namespace Exo.PrintStmt
open Exo Exo.Print

/-- placeholder for blind field 2 -/
def blindMem : Option String := some "DRAM"
/-- placeholder for blind field 1 -/
def blindTy : Ty := .R

/-- `str(int)` as a literal -/
def intLit (n : Int) : XExpr := .const (n < 0) (toString n.natAbs)

/-- `str(Fraction(num, den))` as a literal (blind field 3) -/
def dataLit (num : Int) (den : Nat) : XExpr :=
  .const (num < 0) (if den == 1 then toString num.natAbs else toString num.natAbs ++ "/" ++ toString den)

def litX : Lit → XExpr
  | .int n => intLit n
  | .bool b => .const false (if b then "True" else "False")
  | .data num den => dataLit num den

mutual
/-- `_print_expr` (name requests in its order); a window expression is not an expression here -/
def exprX : PEnv → Expr → Except String (XExpr × PEnv)
  | E, .read x idx =>
    match exprsX (getName E x).2 idx with
    | .error e => .error e
    | .ok (is, E') => .ok (.var (getName E x).1 is, E')
  | E, .lit c => .ok (litX c, E)
  | E, .usub e =>
    match exprX E e with
    | .error m => .error m
    | .ok (a, E') => .ok (.neg a, E')
  | E, .binop o a b =>
    match exprX E a with
    | .error m => .error m
    | .ok (l, E1) =>
      match exprX E1 b with
      | .error m => .error m
      | .ok (r, E2) => .ok (.bin o l r, E2)
  | E, .extern f args =>
    match exprsX E args with
    | .error m => .error m
    | .ok (as, E') => .ok (.call (if f.isEmpty then "_anon_" else f) as, E')
  | _, .win _ _ => .error "window expression in expression position"
  | E, .stride x d =>
    .ok (.call "stride" [.var (getName E x).1 [], .const false (toString d)], (getName E x).2)
  | E, .readcfg c f => .ok (.cfg c f, E)
def exprsX : PEnv → List Expr → Except String (List XExpr × PEnv)
  | E, [] => .ok ([], E)
  | E, e :: es =>
    match exprX E e with
    | .error m => .error m
    | .ok (a, E1) =>
      match exprsX E1 es with
      | .error m => .error m
      | .ok (as, E2) => .ok (a :: as, E2)
end

/-- `_print_w_access` -/
def waccX (E : PEnv) : Exo.WAcc → Except String (PrintStmt.WAcc × PEnv)
  | .point e =>
    match exprX E e with
    | .error m => .error m
    | .ok (a, E') => .ok (.pt a, E')
  | .interval lo hi =>
    match exprX E lo with
    | .error m => .error m
    | .ok (l, E1) =>
      match exprX E1 hi with
      | .error m => .error m
      | .ok (h, E2) => .ok (.iv l h, E2)

def waccsX : PEnv → List Exo.WAcc → Except String (List PrintStmt.WAcc × PEnv)
  | E, [] => .ok ([], E)
  | E, a :: as =>
    match waccX E a with
    | .error m => .error m
    | .ok (b, E1) =>
      match waccsX E1 as with
      | .error m => .error m
      | .ok (bs, E2) => .ok (b :: bs, E2)

/-- a call argument: `WindowExpr` (name first, then the accesses) or an expression -/
def argX (E : PEnv) : Expr → Except String (PArg × PEnv)
  | .win x accs =>
    match waccsX (getName E x).2 accs with
    | .error m => .error m
    | .ok (as, E') => .ok (.win (getName E x).1 as, E')
  | e =>
    match exprX E e with
    | .error m => .error m
    | .ok (a, E') => .ok (.e a, E')

def argsX : PEnv → List Expr → Except String (List PArg × PEnv)
  | E, [] => .ok ([], E)
  | E, a :: as =>
    match argX E a with
    | .error m => .error m
    | .ok (b, E1) =>
      match argsX E1 as with
      | .error m => .error m
      | .ok (bs, E2) => .ok (b :: bs, E2)

mutual
/-- `_print_stmt` -/
def stmtP : PEnv → Stmt → Except String (PStmt × PEnv)
  | E, .assign x idx rhs =>
    match exprsX (getName E x).2 idx with
    | .error m => .error m
    | .ok (is, E1) =>
      match exprX E1 rhs with
      | .error m => .error m
      | .ok (r, E2) => .ok (.assign (getName E x).1 is r, E2)
  | E, .reduce x idx rhs =>
    match exprsX (getName E x).2 idx with
    | .error m => .error m
    | .ok (is, E1) =>
      match exprX E1 rhs with
      | .error m => .error m
      | .ok (r, E2) => .ok (.reduce (getName E x).1 is r, E2)
  | E, .writecfg c f rhs _ =>
    match exprX E rhs with
    | .error m => .error m
    | .ok (r, E1) => .ok (.writeCfg c f r, E1)
  | E, .pass => .ok (.pass, E)
  | E, .ite c t e =>
    match exprX E c with
    | .error m => .error m
    | .ok (c', E1) =>
      match blockP (({} : Frame) :: E1) t with          -- env.push()
      | .error m => .error m
      | .ok (t', _) =>
        match blockP (({} : Frame) :: E1) e with        -- env.push() again, from the parent
        | .error m => .error m
        | .ok (e', _) => .ok (.ite c' t' e', E1)
  | E, .loop i lo hi body par =>
    match exprX E lo with
    | .error m => .error m
    | .ok (lo', E1) =>
      match exprX E1 hi with
      | .error m => .error m
      | .ok (hi', E2) =>
        -- body_env = env.push(); body_env.get_name(stmt.iter)
        match blockP (getName (({} : Frame) :: E2) i).2 body with
        | .error m => .error m
        | .ok (body', _) => .ok (.loop par (getName (({} : Frame) :: E2) i).1 lo' hi' body', E2)
  | E, .alloc x shape =>
    match exprsX E shape with
    | .error m => .error m
    | .ok (sh, E1) => .ok (.alloc (getName E1 x).1 blindTy sh blindMem, (getName E1 x).2)
  | _, .free _ => .error "free"
  | E, .call f args =>
    match argsX E args with
    | .error m => .error m
    | .ok (as, E1) => .ok (.call f.name as, E1)
  | E, .window x rhs =>
    match rhs with
    | .win y accs =>
      match waccsX (getName E y).2 accs with
      | .error m => .error m
      | .ok (as, E1) => .ok (.window (getName E1 x).1 (getName E y).1 as, (getName E1 x).2)
    | _ => .error "window statement whose right-hand side is not a window expression"
/-- `_print_block` -/
def blockP : PEnv → List Stmt → Except String (List PStmt × PEnv)
  | E, [] => .ok ([], E)
  | E, s :: ss =>
    match stmtP E s with
    | .error m => .error m
    | .ok (s', E1) =>
      match blockP E1 ss with
      | .error m => .error m
      | .ok (ss', E2) => .ok (s' :: ss', E2)
end

/-- `_print_fnarg` -/
def fnArgP (E : PEnv) (a : FnArg) : Except String (PFnArg × PEnv) :=
  match a.ty with
  | .ctrl .size => .ok (⟨(getName E a.name).1, .size⟩, (getName E a.name).2)
  | .ctrl .index => .ok (⟨(getName E a.name).1, .index⟩, (getName E a.name).2)
  | .ctrl .bool => .ok (⟨(getName E a.name).1, .ctrl .bool blindMem⟩, (getName E a.name).2)
  | .ctrl .stride => .ok (⟨(getName E a.name).1, .ctrl .stride blindMem⟩, (getName E a.name).2)
  | .ctrl .int => .error "int argument"
  | .scalar => .ok (⟨(getName E a.name).1, .num blindTy [] false blindMem⟩, (getName E a.name).2)
  | .tensor shape isWin =>
    match exprsX E shape with
    | .error m => .error m
    | .ok (sh, E1) => .ok (⟨(getName E1 a.name).1, .num blindTy sh isWin blindMem⟩, (getName E1 a.name).2)

def fnArgsP : PEnv → List FnArg → Except String (List PFnArg × PEnv)
  | E, [] => .ok ([], E)
  | E, a :: as =>
    match fnArgP E a with
    | .error m => .error m
    | .ok (b, E1) =>
      match fnArgsP E1 as with
      | .error m => .error m
      | .ok (bs, E2) => .ok (b :: bs, E2)

/-- `_print_proc` with a fresh `PrintEnv()` -/
def toPProc (p : Proc) : Except String PProc :=
  match fnArgsP PEnv.init p.args with
  | .error m => .error m
  | .ok (args, E1) =>
    match exprsX E1 p.preds with
    | .error m => .error m
    | .ok (preds, E2) =>
      match blockP E2 p.body with
      | .error m => .error m
      | .ok (body, _) => .ok ⟨p.name, args, preds, body⟩

mutual
/-- the callees of the `Call` statements, in the order the statements are printed -/
def calleesS : Stmt → List Proc
  | .call f _ => [f]
  | .ite _ t e => calleesL t ++ calleesL e
  | .loop _ _ _ body _ => calleesL body
  | _ => []
def calleesL : List Stmt → List Proc
  | [] => []
  | s :: ss => calleesS s ++ calleesL ss
end

end Exo.PrintStmt
