/-
  Base of the well-formedness preservation proofs for the rewrite shapes (C04):
  binders and top-level definitions of a block, facts about `lookup`, the *site* a path addresses
  (static environment + block suffix) and the lifting theorem `rewriteAt_site_wf`: if the result
  of the local rewrite is well formed in the static environment OF THE SITE, the rewritten body
  is well formed.
-/
import ExoModel.Wf
import ExoModel.Rewrite
import ExoModel.RewriteMore
import ExoModel.WfSite
import ExoModel.Lemmas.WfRewrite

namespace Exo.WfShapes
open Exo Exo.Wf Exo.Rw

/-! ### binders and top-level definitions -/

theorem disj_iff (a b : List Sym) : disj a b = true ↔ ∀ x, x ∈ a → x ∉ b := by
  simp [disj, List.all_eq_true]

theorem bindL_append (a b : List Stmt) : bindL (a ++ b) = bindL a ++ bindL b := by
  induction a with
  | nil => simp [bindL]
  | cons s r ih => simp [bindL, ih]

theorem defNames_append (a b : List Stmt) : defNames (a ++ b) = defNames a ++ defNames b := by
  induction a with
  | nil => simp [defNames]
  | cons s r ih => simp [defNames, ih]

theorem defName_sub_bindS (s : Stmt) : ∀ x, x ∈ defName s → x ∈ bindS s := by
  intro x hx
  cases s <;> simp [defName] at hx <;> simp [bindS, hx]

theorem defNames_sub_bindL : ∀ (ss : List Stmt) (x : Sym), x ∈ defNames ss → x ∈ bindL ss
  | [], x, h => by simp [defNames] at h
  | s :: r, x, h => by
    simp only [defNames, List.mem_append] at h
    simp only [bindL, List.mem_append]
    rcases h with h | h
    · exact Or.inl (defName_sub_bindS s x h)
    · exact Or.inr (defNames_sub_bindL r x h)

/-! ### lookup -/

theorem lookup_cons (x y : Sym) (k : Option Nat) (Γ : Env) :
    lookup x ((y, k) :: Γ) = if x = y then some k else lookup x Γ := rfl

theorem lookup_append_none : ∀ (D Γ : Env) (x : Sym), lookup x D = none →
    lookup x (D ++ Γ) = lookup x Γ
  | [], _, _, _ => rfl
  | (y, k) :: D, Γ, x, h => by
    simp only [lookup_cons] at h
    by_cases hx : x = y
    · simp [hx] at h
    · simp only [hx, if_false] at h
      simp only [List.cons_append, lookup_cons, hx, if_false]
      exact lookup_append_none D Γ x h

theorem lookup_append_some : ∀ (D Γ : Env) (x : Sym) (k : Option Nat), lookup x D = some k →
    lookup x (D ++ Γ) = some k
  | [], _, _, _, h => by simp [lookup] at h
  | (y, k') :: D, Γ, x, k, h => by
    simp only [lookup_cons] at h
    by_cases hx : x = y
    · simp only [hx, if_true] at h
      simp [lookup_cons, hx, h]
    · simp only [hx, if_false] at h
      simp only [List.cons_append, lookup_cons, hx, if_false]
      exact lookup_append_some D Γ x k h

theorem lookup_none_of_not_mem : ∀ (D : Env) (x : Sym), x ∉ D.map Prod.fst → lookup x D = none
  | [], _, _ => rfl
  | (y, k) :: D, x, h => by
    simp only [List.map_cons, List.mem_cons, not_or] at h
    simp only [lookup_cons, h.1, if_false]
    exact lookup_none_of_not_mem D x h.2

theorem mem_of_lookup_some : ∀ (D : Env) (x : Sym) (k : Option Nat), lookup x D = some k →
    x ∈ D.map Prod.fst
  | [], _, _, h => by simp [lookup] at h
  | (y, k') :: D, x, k, h => by
    simp only [lookup_cons] at h
    by_cases hx : x = y
    · simp [hx]
    · simp only [hx, if_false] at h
      simp only [List.map_cons, List.mem_cons]
      exact Or.inr (mem_of_lookup_some D x k h)

theorem fresh_iff (Γ : Env) (x : Sym) : fresh Γ x = true ↔ lookup x Γ = none := by
  simp [fresh, Option.isNone_iff_eq_none]

theorem rankOf_iff (Γ : Env) (x : Sym) (n : Nat) :
    rankOf Γ x = some n ↔ lookup x Γ = some (some n) := by
  unfold rankOf
  cases lookup x Γ with
  | none => simp
  | some k => cases k <;> simp

theorem isCtrl_iff (Γ : Env) (x : Sym) : isCtrl Γ x = true ↔ lookup x Γ = some none := by
  simp [isCtrl]

/-! ### shape of the environment a well-formed block returns -/

/-- the environment after a well-formed statement is the old one extended by at most one entry,
    for the name the statement defines, which was fresh -/
theorem wfS_shape (Γ Γ' : Env) (s : Stmt) (h : wfS Γ s = some Γ') :
    ∃ D : Env, Γ' = D ++ Γ ∧ D.map Prod.fst = defName s ∧ ∀ y ∈ defName s, lookup y Γ = none := by
  cases s with
  | assign x idx e =>
    simp only [wfS] at h
    split at h
    · split at h
      · cases h; exact ⟨[], rfl, rfl, by simp [defName]⟩
      · cases h
    · cases h
  | reduce x idx e =>
    simp only [wfS] at h
    split at h
    · split at h
      · cases h; exact ⟨[], rfl, rfl, by simp [defName]⟩
      · cases h
    · cases h
  | writecfg c f e d =>
    have : Γ' = Γ := by
      simp only [wfS] at h
      cases hc : (if d = true then wfD Γ e else wfC Γ e) with
      | false => rw [hc] at h; simp at h
      | true => rw [hc] at h; simpa using h.symm
    subst this
    exact ⟨[], rfl, rfl, by simp [defName]⟩
  | pass => simp only [wfS] at h; cases h; exact ⟨[], rfl, rfl, by simp [defName]⟩
  | ite c t e =>
    simp only [wfS] at h
    split at h
    · cases h; exact ⟨[], rfl, rfl, by simp [defName]⟩
    · cases h
  | loop i lo hi b par =>
    simp only [wfS] at h
    split at h
    · cases h; exact ⟨[], rfl, rfl, by simp [defName]⟩
    · cases h
  | alloc x sh =>
    simp only [wfS] at h
    split at h
    · rename_i hc
      simp only [Bool.and_eq_true] at hc
      cases h
      exact ⟨[(x, some sh.length)], rfl, rfl, by
        intro y hy; simp only [defName, List.mem_singleton] at hy; subst hy
        exact (fresh_iff _ _).1 hc.1⟩
    · cases h
  | free x =>
    simp only [wfS] at h
    split at h
    · cases h; exact ⟨[], rfl, rfl, by simp [defName]⟩
    · cases h
  | call f args =>
    simp only [wfS] at h
    split at h
    · cases h; exact ⟨[], rfl, rfl, by simp [defName]⟩
    · cases h
  | window x e =>
    simp only [wfS] at h
    split at h
    · split at h
      · rename_i n _ hf
        cases h
        exact ⟨[(x, some n)], rfl, rfl, by
          intro y hy; simp only [defName, List.mem_singleton] at hy; subst hy
          exact (fresh_iff _ _).1 hf⟩
      · cases h
    · cases h

/-- the environment after a well-formed block: the old one extended, in front, by entries for
    (exactly) the names the block defines at top level, all of which were fresh before -/
theorem wfL_shape : ∀ (ss : List Stmt) (Γ Γ' : Env), wfL Γ ss = some Γ' →
    ∃ D : Env, Γ' = D ++ Γ ∧ (∀ y, y ∈ D.map Prod.fst → y ∈ defNames ss) ∧
      ∀ y ∈ D.map Prod.fst, lookup y Γ = none
  | [], Γ, Γ', h => by
    simp only [wfL, Option.some.injEq] at h
    subst h
    exact ⟨[], rfl, by simp, by simp⟩
  | s :: r, Γ, Γ', h => by
    simp only [wfL] at h
    cases h1 : wfS Γ s with
    | none => rw [h1] at h; cases h
    | some Γ1 =>
      rw [h1] at h
      obtain ⟨D1, e1, n1, f1⟩ := wfS_shape Γ Γ1 s h1
      obtain ⟨D2, e2, n2, f2⟩ := wfL_shape r Γ1 Γ' h
      refine ⟨D2 ++ D1, by rw [e2, e1, List.append_assoc], ?_, ?_⟩
      · intro y hy
        simp only [List.map_append, List.mem_append] at hy
        simp only [defNames, List.mem_append]
        rcases hy with hy | hy
        · exact Or.inr (n2 y hy)
        · rw [n1] at hy; exact Or.inl hy
      · intro y hy
        simp only [List.map_append, List.mem_append] at hy
        rcases hy with hy | hy
        · have := f2 y hy
          rw [e1] at this
          cases hl : lookup y D1 with
          | none => rw [lookup_append_none D1 Γ y hl] at this; exact this
          | some k => rw [lookup_append_some D1 Γ y k hl] at this; cases this
        · rw [n1] at hy; exact f1 y hy

/-! ### the site a path addresses -/

theorem isSome_bind_some {α β} (o : Option α) (f : α → Option β)
    (h : (o.bind f).isSome = true) : ∃ a, o = some a ∧ (f a).isSome = true := by
  cases o with
  | none => simp at h
  | some a => exact ⟨a, rfl, by simpa using h⟩

/-- **lifting a local well-formedness fact to the whole body**: when the local rewrite applied at
    `path` succeeds on a well-formed body, the path addresses a site (static environment `Γs`,
    suffix `site`), the suffix is well formed in `Γs`, and if the block the local rewrite returns
    for that suffix is well formed in `Γs` then the whole rewritten body is well formed -/
theorem rewriteAt_site_wf (f : Local) :
    ∀ (path : Path) (Γ : Env) (ss ss' : List Stmt), rewriteAt f path ss = some ss' →
      (wfL Γ ss).isSome = true →
      ∃ Γs site r, siteAt path Γ ss = some (Γs, site) ∧ (wfL Γs site).isSome = true ∧
        f site = some r ∧ ((wfL Γs r).isSome = true → (wfL Γ ss').isSome = true)
  | [], _, _, _, h, _ => by simp [rewriteAt] at h
  | [st], Γ, ss, ss', h, hw => by
    simp only [rewriteAt, Option.map_eq_some_iff] at h
    obtain ⟨r, hr, rfl⟩ := h
    have e : ss = ss.take st.idx ++ ss.drop st.idx := (List.take_append_drop _ _).symm
    rw [e, wfL_append] at hw
    obtain ⟨Γ1, h1, h2⟩ := isSome_bind_some _ _ hw
    refine ⟨Γ1, ss.drop st.idx, r, by simp [siteAt, h1], h2, hr, fun hres => ?_⟩
    rw [wfL_append, h1]
    simpa using hres
  | st :: nxt :: rest, Γ, ss, ss', h, hw => by
    simp only [rewriteAt] at h
    split at h
    · rename_i i lo hi b par hs
      split at h
      · rename_i kb
        simp only [Option.map_eq_some_iff] at h
        obtain ⟨b', hb', rfl⟩ := h
        have e0 := decomp ss st.idx _ hs
        rw [e0, wfL_append] at hw
        obtain ⟨Γ1, h1, h2⟩ := isSome_bind_some _ _ hw
        simp only [wfL] at h2
        cases h3 : wfS Γ1 (.loop i lo hi b par) with
        | none => rw [h3] at h2; simp at h2
        | some Γ2 =>
          rw [h3] at h2
          simp only [wfS] at h3
          split at h3
          · rename_i hcond
            simp only [Bool.and_eq_true] at hcond
            obtain ⟨⟨⟨hfr, hlo⟩, hhi⟩, hbwf⟩ := hcond
            cases h3
            obtain ⟨Γs, site, r, hsite, hsw, hr, himp⟩ :=
              rewriteAt_site_wf f (.body kb :: rest) ((i, none) :: Γ1) b b' hb' hbwf
            refine ⟨Γs, site, r, by simp only [siteAt, h1, hs]; exact hsite, hsw, hr, fun hres => ?_⟩
            have hb2 := himp hres
            rw [wfL_append, h1]
            simp only [Option.bind_some, wfL, wfS, hfr, hlo, hhi, hb2, Bool.and_self, if_true]
            exact h2
          · cases h3
      · cases h
    · rename_i c t e hs
      have e0 := decomp ss st.idx _ hs
      rw [e0, wfL_append] at hw
      obtain ⟨Γ1, h1, h2⟩ := isSome_bind_some _ _ hw
      simp only [wfL] at h2
      cases h3 : wfS Γ1 (.ite c t e) with
      | none => rw [h3] at h2; simp at h2
      | some Γ2 =>
        rw [h3] at h2
        simp only [wfS] at h3
        split at h3
        · rename_i hcond
          simp only [Bool.and_eq_true] at hcond
          obtain ⟨⟨hc, htw⟩, hew⟩ := hcond
          cases h3
          split at h
          · rename_i kb
            simp only [Option.map_eq_some_iff] at h
            obtain ⟨t', ht', rfl⟩ := h
            obtain ⟨Γs, site, r, hsite, hsw, hr, himp⟩ :=
              rewriteAt_site_wf f (.body kb :: rest) Γ1 t t' ht' htw
            refine ⟨Γs, site, r, by simp only [siteAt, h1, hs]; exact hsite, hsw, hr, fun hres => ?_⟩
            have hb2 := himp hres
            rw [wfL_append, h1]
            simp only [Option.bind_some, wfL, wfS, hc, hb2, hew, Bool.and_self, if_true]
            exact h2
          · rename_i kb
            simp only [Option.map_eq_some_iff] at h
            obtain ⟨e', he', rfl⟩ := h
            obtain ⟨Γs, site, r, hsite, hsw, hr, himp⟩ :=
              rewriteAt_site_wf f (.orelse kb :: rest) Γ1 e e' he' hew
            refine ⟨Γs, site, r, by simp only [siteAt, h1, hs]; exact hsite, hsw, hr, fun hres => ?_⟩
            have hb2 := himp hres
            rw [wfL_append, h1]
            simp only [Option.bind_some, wfL, wfS, hc, hb2, htw, Bool.and_self, if_true]
            exact h2
        · cases h3
    · cases h

/-- the form used by the `…_wf_anywhere` theorems: the site is named, the local obligation is
    an implication about that site only -/
theorem rewriteAt_wf_of_site (f : Local) (path : Path) (Γ Γs : Env) (ss ss' site : List Stmt)
    (h : rewriteAt f path ss = some ss') (hw : (wfL Γ ss).isSome = true)
    (hs : siteAt path Γ ss = some (Γs, site))
    (hloc : ∀ r, f site = some r → (wfL Γs site).isSome = true → (wfL Γs r).isSome = true) :
    (wfL Γ ss').isSome = true := by
  obtain ⟨Γs', site', r, hsite, hsw, hr, himp⟩ := rewriteAt_site_wf f path Γ ss ss' h hw
  rw [hs] at hsite
  simp only [Option.some.injEq, Prod.mk.injEq] at hsite
  obtain ⟨rfl, rfl⟩ := hsite
  exact himp (hloc r hr hsw)

end Exo.WfShapes
