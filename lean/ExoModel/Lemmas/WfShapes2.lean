/-
  Well-formedness of the results of the rewrite shapes that re-express a loop iterator by
  substitution: shift_loop, divide_loop (four tail strategies), unroll_loop, mult_loops.
  All of them are instances of the transfer lemma `wfL_tr` of Lemmas/WfSubst.lean.
-/
import ExoModel.Lemmas.WfShapes1

namespace Exo.WfShapes
open Exo Exo.Wf Exo.Rw

theorem wfC_weaken2 (Γ : Env) (z1 z2 : Sym) (e : Expr) (h1 : lookup z1 Γ = none)
    (h2 : lookup z2 Γ = none) (he : wfC Γ e = true) :
    wfC ((z2, none) :: (z1, none) :: Γ) e = true := by
  have hr : Rel none [z2, z1] Γ ([(z2, none), (z1, none)] ++ Γ) :=
    Rel.ext _ Γ _ (by intro y hy; simp at hy; rcases hy with rfl | rfl <;> assumption)
      (by intro y hy; simpa using hy)
  exact wfC_tr hr e he

/-! ### shift_loop -/

theorem shiftLoop_local (nlo : Expr) (Γ : Env) (ss r : List Stmt)
    (hr : shiftLoop nlo ss = some r) (hok : shiftLoopOk Γ nlo ss = true)
    (hw : (wfL Γ ss).isSome = true) : (wfL Γ r).isSome = true := by
  unfold shiftLoop at hr
  split at hr
  · rename_i i lo hi b par rest
    simp only [Option.some.injEq] at hr
    subst hr
    simp only [shiftLoopOk] at hok
    obtain ⟨hf, hlo, hhi, hb, hrest⟩ := loop_inv hw
    have hi0 := (fresh_iff _ _).1 hf
    have he : wfC ((i, none) :: Γ) (.binop .add (.read i []) (.binop .sub lo nlo)) = true := by
      simp [wfC, isCtrl, lookup_cons, wfC_weaken Γ i none lo hi0 hlo, wfC_weaken Γ i none nlo hi0 hok]
    have hrel : Rel (some (i, .binop .add (.read i []) (.binop .sub lo nlo))) []
        ((i, none) :: Γ) ((i, none) :: Γ) :=
      Rel.mkSub i _ [] _ _ (fun y _ => Or.inl rfl) (by simp [lookup_cons]) he
    have hb' := tr_isSome hrel b hb (by simp)
    exact loop_intro par hf hok (by simp [wfC, hok, hhi, hlo]) (by simpa [tL] using hb') hrest
  · cases hr

/-! ### divide_loop -/

/-- the main nest of a divided loop is well formed -/
theorem dividedMain_wf {Γ : Env} {q : Nat} {io ii i : Sym} {ohi lo hi : Expr} {b : List Stmt}
    {par : Bool} (guard : Bool) (hio : lookup io Γ = none) (hii : lookup ii Γ = none)
    (hne : io ≠ ii) (hbo : io ∉ bindL b) (hbi : ii ∉ bindL b) (hohi : wfC Γ ohi = true)
    (hhi : wfC Γ hi = true) (hb : (wfL ((i, none) :: Γ) b).isSome = true) (s : Stmt)
    (hs : dividedMain q io ii ohi guard (.loop i lo hi b par) = some s) {rest : List Stmt}
    (hrest : (wfL Γ rest).isSome = true) : (wfL Γ (s :: rest)).isSome = true := by
  simp only [dividedMain, Option.some.injEq] at hs
  subst hs
  have hidx : wfC ((ii, none) :: (io, none) :: Γ) (dividedIdx q io ii) = true := by
    simp [dividedIdx, wfC, isCtrl, lookup_cons, hne]
  have hrel : Rel (some (i, dividedIdx q io ii)) [ii, io] ((i, none) :: Γ)
      ((ii, none) :: (io, none) :: Γ) := by
    refine Rel.mkSub i _ _ _ _ ?_ (by simp [lookup_cons]) hidx
    intro y hy
    by_cases h1 : y = ii
    · right; subst h1; simp [lookup_cons, hy, hii]
    · by_cases h2 : y = io
      · right; subst h2; simp [lookup_cons, hy, hio]
      · left; simp [lookup_cons, hy, h1, h2]
  have hbody : (wfL ((ii, none) :: (io, none) :: Γ) (substL i (dividedIdx q io ii) b)).isSome
      = true := by
    have := tr_isSome hrel b hb (by
      intro z hz hzN
      simp only [List.mem_cons, List.not_mem_nil, or_false] at hzN
      rcases hzN with rfl | rfl
      · exact hbi hz
      · exact hbo hz)
    simpa [tL] using this
  have hfio : fresh Γ io = true := (fresh_iff _ _).2 hio
  have hfii : fresh ((io, none) :: Γ) ii = true := by
    rw [fresh_iff]; simp [lookup_cons, Ne.symm hne, hii]
  refine loop_intro par hfio (by simp [wfC]) hohi ?_ hrest
  refine loop_intro par hfii (by simp [wfC]) (by simp [wfC]) ?_ (wfL_nil_isSome _)
  cases guard with
  | false => simpa using hbody
  | true =>
    simp only [if_true]
    refine ite_intro ?_ hbody (wfL_nil_isSome _) (wfL_nil_isSome _)
    simp only [wfC, Bool.and_eq_true]
    exact ⟨hidx, wfC_weaken2 Γ io ii hi hio hii hhi⟩

/-- the tail loop of a divided loop is well formed -/
theorem dividedTail_wf {Γ : Env} {q : Nat} {i i3 : Sym} {hi : Expr} {copy : List Stmt}
    (par : Bool) (h3 : lookup i3 Γ = none) (hb3 : i3 ∉ bindL copy) (hhi : wfC Γ hi = true)
    (hc : (wfL ((i, none) :: Γ) copy).isSome = true) {rest : List Stmt}
    (hrest : (wfL Γ rest).isSome = true) :
    (wfL Γ (.loop i3 (.lit (.int 0)) (.binop .mod hi (.lit (.int q)))
      (substL i (.binop .add (.read i3 []) (.binop .mul (.binop .div hi (.lit (.int q)))
        (.lit (.int q)))) copy) par :: rest)).isSome = true := by
  have he : wfC ((i3, none) :: Γ) (.binop .add (.read i3 []) (.binop .mul (.binop .div hi
      (.lit (.int q))) (.lit (.int q)))) = true := by
    simp [wfC, isCtrl, lookup_cons, wfC_weaken Γ i3 none hi h3 hhi]
  have hrel : Rel (some (i, .binop .add (.read i3 []) (.binop .mul (.binop .div hi
      (.lit (.int q))) (.lit (.int q))))) [i3] ((i, none) :: Γ) ((i3, none) :: Γ) := by
    refine Rel.mkSub i _ _ _ _ ?_ (by simp [lookup_cons]) he
    intro y hy
    by_cases h1 : y = i3
    · right; subst h1; simp [lookup_cons, hy, h3]
    · left; simp [lookup_cons, hy, h1]
  have hbody := tr_isSome hrel copy hc (by
    intro z hz hzN
    simp only [List.mem_singleton] at hzN
    subst hzN; exact hb3 hz)
  exact loop_intro par ((fresh_iff _ _).2 h3) (by simp [wfC]) (by simp [wfC, hhi])
    (by simpa [tL] using hbody) hrest

theorem divideLoop_local (q tail : Nat) (io ii i3 : Sym) (ohi : Expr) (copy : List Stmt)
    (Γ : Env) (ss r : List Stmt) (hr : divideLoop q tail io ii i3 ohi copy ss = some r)
    (hok : divideLoopOk Γ tail io ii i3 ohi copy ss = true)
    (hw : (wfL Γ ss).isSome = true) : (wfL Γ r).isSome = true := by
  unfold divideLoop at hr
  split at hr
  · rename_i i lo hi b par rest
    simp only [divideLoopOk, Bool.and_eq_true, Bool.not_eq_true', Bool.or_eq_true,
      bne_iff_ne, ne_eq, decide_eq_true_eq] at hok
    obtain ⟨⟨⟨⟨⟨⟨hfo, hfi⟩, hne⟩, hbo⟩, hbi⟩, hohi⟩, htl⟩ := hok
    obtain ⟨_, _, hhi, hb, hrest⟩ := loop_inv hw
    have hio := (fresh_iff _ _).1 hfo
    have hii := (fresh_iff _ _).1 hfi
    have hbo' : io ∉ bindL b := by
      intro h; have : (bindL b).contains io = true := by simpa using h
      rw [hbo] at this; cases this
    have hbi' : ii ∉ bindL b := by
      intro h; have : (bindL b).contains ii = true := by simpa using h
      rw [hbi] at this; cases this
    simp only [] at hr
    split at hr
    · -- perfect
      simp only [Option.map_eq_some_iff] at hr
      obtain ⟨s, hs, rfl⟩ := hr
      have : wfC Γ ohi = true := by
        rcases hohi with h | h
        · simp at h
        · exact h
      exact dividedMain_wf false hio hii hne hbo' hbi' this hhi hb s hs hrest
    · -- guard
      simp only [Option.map_eq_some_iff] at hr
      obtain ⟨s, hs, rfl⟩ := hr
      exact dividedMain_wf true hio hii hne hbo' hbi' (by simp [wfC, hhi]) hhi hb s hs hrest
    · -- cut
      simp only [Option.map_eq_some_iff] at hr
      obtain ⟨s, hs, rfl⟩ := hr
      have h3 : fresh Γ i3 = true ∧ (bindL copy).contains i3 = false ∧
          (wfL ((i, none) :: Γ) copy).isSome = true := by
        rcases htl with h | h
        · omega
        · exact ⟨h.1.1, h.1.2, h.2⟩
      have hb3 : i3 ∉ bindL copy := by
        intro h; have : (bindL copy).contains i3 = true := by simpa using h
        rw [h3.2.1] at this; cases this
      exact dividedMain_wf false hio hii hne hbo' hbi' (by simp [wfC, hhi]) hhi hb s hs
        (dividedTail_wf par ((fresh_iff _ _).1 h3.1) hb3 hhi h3.2.2 hrest)
    · -- cut_and_guard
      simp only [Option.map_eq_some_iff] at hr
      obtain ⟨s, hs, rfl⟩ := hr
      have h3 : fresh Γ i3 = true ∧ (bindL copy).contains i3 = false ∧
          (wfL ((i, none) :: Γ) copy).isSome = true := by
        rcases htl with h | h
        · omega
        · exact ⟨h.1.1, h.1.2, h.2⟩
      have hb3 : i3 ∉ bindL copy := by
        intro h; have : (bindL copy).contains i3 = true := by simpa using h
        rw [h3.2.1] at this; cases this
      refine dividedMain_wf false hio hii hne hbo' hbi' (by simp [wfC, hhi]) hhi hb s hs ?_
      exact ite_intro (by simp [wfC, hhi])
        (dividedTail_wf par ((fresh_iff _ _).1 h3.1) hb3 hhi h3.2.2 (wfL_nil_isSome _))
        (wfL_nil_isSome _) hrest
    · cases hr
  · cases hr

/-! ### unroll_loop -/

/-- one copy of the body with a literal for the iterator defines nothing (the body defines
    nothing at top level) and is well formed without the iterator -/
theorem unrolledCopy_wf {Γ : Env} {i : Sym} {b : List Stmt} (v : Int)
    (hb : (wfL ((i, none) :: Γ) b).isSome = true) (hd : defNames b = []) :
    wfL Γ (substL i (.lit (.int v)) b) = some Γ := by
  obtain ⟨Γb, hΓb⟩ := Option.isSome_iff_exists.1 hb
  have hrel : Rel (some (i, .lit (.int v))) [] ((i, none) :: Γ) Γ :=
    Rel.mkSub i _ [] _ _ (by intro y hy; left; simp [lookup_cons, hy]) (by simp [lookup_cons])
      (by simp [wfC])
  obtain ⟨D, e1, h2, _⟩ := wfL_tr _ [] b _ Γ Γb hrel hΓb (by simp)
  obtain ⟨D', e1', hn, _⟩ := wfL_shape b _ Γb hΓb
  have hDD : D = D' := List.append_cancel_right (e1.symm.trans e1')
  subst hDD
  rw [hd] at hn
  have hD : D = [] := by
    cases D with
    | nil => rfl
    | cons p t => exact absurd (hn p.1 (by simp)) (by simp)
  subst hD
  simpa [tL] using h2

theorem unrolledCopies_wf {Γ : Env} {i : Sym} {b : List Stmt}
    (hb : (wfL ((i, none) :: Γ) b).isSome = true) (hd : defNames b = []) {rest : List Stmt}
    (hrest : (wfL Γ rest).isSome = true) : ∀ (n : Nat) (lo : Int),
    (wfL Γ (unrolledCopies i b n lo ++ rest)).isSome = true
  | 0, _ => by simpa [unrolledCopies] using hrest
  | n + 1, lo => by
    simp only [unrolledCopies, List.append_assoc]
    exact append_intro (unrolledCopy_wf lo hb hd) (unrolledCopies_wf hb hd hrest n (lo + 1))

theorem unrollLoop_local (Γ : Env) (ss r : List Stmt) (hr : unrollLoop ss = some r)
    (hok : unrollLoopOk ss = true) (hw : (wfL Γ ss).isSome = true) :
    (wfL Γ r).isSome = true := by
  unfold unrollLoop at hr
  split at hr
  · rename_i i lo hi b par rest
    simp only [Option.some.injEq] at hr
    subst hr
    simp only [unrollLoopOk, List.isEmpty_iff] at hok
    obtain ⟨_, _, _, hb, hrest⟩ := loop_inv hw
    exact unrolledCopies_wf hb hok hrest _ _
  · cases hr

/-! ### mult_loops -/

theorem multLoops_local (k : Sym) (Γ : Env) (ss r : List Stmt) (hr : multLoops k ss = some r)
    (hok : multLoopsOk Γ k ss = true) (hw : (wfL Γ ss).isSome = true) :
    (wfL Γ r).isSome = true := by
  unfold multLoops at hr
  split at hr
  · rename_i i hi j c b par2 par rest
    simp only [Option.some.injEq] at hr
    subst hr
    simp only [multLoopsOk, Bool.and_eq_true, Bool.not_eq_true'] at hok
    obtain ⟨hfi, _, hhi, hinner, hrest⟩ := loop_inv hw
    obtain ⟨hfj, _, _, hb, _⟩ := loop_inv hinner
    have hk0 := (fresh_iff _ _).1 hok.1
    have hi0 := (fresh_iff _ _).1 hfi
    have hj0 := (fresh_iff _ _).1 hfj
    simp only [lookup_cons] at hj0
    have hji : j ≠ i := by intro e; simp [e] at hj0
    simp only [hji, if_false] at hj0
    have hkb : k ∉ bindL b := by
      intro h; have : (bindL b).contains k = true := by simpa using h
      rw [hok.2] at this; cases this
    -- step 1: i ↦ k / c, from (j)(i)Γ to (j)(k)Γ
    have hrel1 : Rel (some (i, .binop .div (.read k []) (.lit (.int c)))) [k]
        ((j, none) :: (i, none) :: Γ) ((j, none) :: (k, none) :: Γ) := by
      refine Rel.mkSub i _ _ _ _ ?_ (by simp [lookup_cons, Ne.symm hji]) ?_
      · intro y hy
        by_cases h1 : y = j
        · left; simp [lookup_cons, h1]
        · by_cases h2 : y = k
          · right; subst h2; simp [lookup_cons, h1, hy, hk0]
          · left; simp [lookup_cons, h1, h2, hy]
      · by_cases hkj : k = j <;> simp [wfC, isCtrl, lookup_cons, hkj]
    obtain ⟨Γb, hΓb⟩ := Option.isSome_iff_exists.1 hb
    obtain ⟨D1, _, h1, _⟩ := wfL_tr _ [k] b _ _ Γb hrel1 hΓb (by
      intro z hz hzN
      simp only [List.mem_singleton] at hzN
      subst hzN; exact hkb hz)
    simp only [tL] at h1
    -- step 2: j ↦ k % c, from (j)(k)Γ to (k)Γ
    have hrel2 : Rel (some (j, .binop .mod (.read k []) (.lit (.int c)))) []
        ((j, none) :: (k, none) :: Γ) ((k, none) :: Γ) := by
      refine Rel.mkSub j _ _ _ _ ?_ (by simp [lookup_cons]) (by simp [wfC, isCtrl, lookup_cons])
      intro y hy
      left; simp [lookup_cons, hy]
    have h2 := tr_isSome hrel2 (substL i (.binop .div (.read k []) (.lit (.int c))) b)
      (by rw [h1]; rfl) (by simp)
    simp only [tL] at h2
    exact loop_intro par hok.1 (by simp [wfC]) (by simp [wfC, hhi]) h2 hrest
  · cases hr

end Exo.WfShapes
