/-
  `sink_alloc` into an `if` (`DoSinkAlloc`, shape `Rw.sinkAlloc x'`):
  `x : T[sh]; if c: B else: E ; rest`  ⊑  `if c: (x : T[sh]; B) else: (x' : T[sh]; E) ; rest`
  when `E` (and `c`, `rest`) do not mention `x` — the real code does not check this for `E`
  (finding D1) — and the extents are positive literals.  It is the converse of `lift_if_lock`
  (which holds for every cell relation, hence also for the converse of poison refinement),
  followed by the insertion of a dead allocation into the `else` branch.
-/
import ExoModel.Lemmas.StorageLocal

set_option linter.unusedSectionVars false
set_option linter.unusedVariables false
namespace Exo

/-- insertion of a dead allocation with positive literal extents -/
theorem dead_alloc_insert_refW (x : Sym) (sh : List Expr) (rest : List Stmt)
    (hlit : posLits sh = true) (hx : ∀ y ∈ namesL rest, y ≠ x) :
    BlockRefW rest (.alloc x sh :: rest) := by
  intro V _ ext s s' t hr ht
  obtain ⟨szs, h1, h2⟩ := posLits_eval sh hlit
  have hl := dead_alloc_lock ext CellRel.refines x sh rest s s' hr.ref.sim hr.ok szs (h1 V s') h2 hx
  obtain ⟨t', ht', htt⟩ := hl.ok_left ht
  obtain ⟨t1, h1', rfl⟩ := execB_ok_inv ext ht
  exact ⟨t', ht', htt, hr.ok.leave (execL_scope ext _ s t1 h1').2.1⟩

/-- converse of `lift_if_refW` -/
theorem unlift_if_refW (x : Sym) (c : Expr) (sh : List Expr) (B E rest : List Stmt)
    (hx : ∀ y ∈ c.names ++ namesL E ++ namesL rest, y ≠ x) :
    BlockRefW (.alloc x sh :: .ite c B E :: rest) (.ite c (.alloc x sh :: B) E :: rest) := by
  intro V _ ext s s' t hr ht
  obtain ⟨t1, h1', rfl⟩ := execB_ok_inv ext ht
  have hal : ∃ sa, execS ext (.alloc x sh) s = .ok sa := by
    simp only [execL, bind, Except.bind] at h1'
    cases h : execS ext (.alloc x sh) s with
    | error e => rw [h] at h1'; cases h1'
    | ok sa => exact ⟨sa, rfl⟩
  obtain ⟨sa, hsa⟩ := hal
  obtain ⟨szs, hsz, hpos⟩ := execS_alloc_ok ext hsa
  have hsz' : evalCs s' sh = .ok szs := by
    rw [evalCs_sim hr.ref.sim sh (fun _ _ hx => hx)]; exact hsz
  have hl := lift_if_lock ext CellRel.refinedBy x c sh B E rest s' s hr.ref.sim.flip00 hr.ok' szs
    hsz' hpos hx
  obtain ⟨t', ht', htt⟩ := hl.ok_right (execB_ok ext h1')
  exact ⟨t', ht', htt.flip00, hr.ok.leave (execL_scope ext _ s t1 h1').2.1⟩

/-- `sink_alloc` into an `if`, as `Rw.sinkAlloc x'` builds it -/
theorem sink_if_refW (x x' : Sym) (c : Expr) (sh : List Expr) (B E rest : List Stmt)
    (hlit : posLits sh = true) (hx : ∀ y ∈ c.names ++ namesL E ++ namesL rest, y ≠ x)
    (hx' : ∀ y ∈ namesL E, y ≠ x') :
    BlockRefW (.alloc x sh :: .ite c B E :: rest)
      (.ite c (.alloc x sh :: B) (if E.isEmpty then [] else .alloc x' sh :: E) :: rest) := by
  refine BlockRefW.trans (unlift_if_refW x c sh B E rest hx) ?_
  by_cases he : E.isEmpty = true
  · have : E = [] := List.isEmpty_iff.1 he
    subst this
    simp only [List.isEmpty_nil, if_true]
    exact BlockRefW.refl _
  · simp only [he, if_false, Bool.false_eq_true]
    exact BlockRefW.cons_mid [] rest
      (LRefW.iteE (dead_alloc_insert_refW x' sh E hlit hx') c (.alloc x sh :: B))

end Exo

namespace Exo.Rw
open Exo

/-- guard of `sink_alloc` into an `if` -/
def sinkIfGuard (x' : Sym) : List Stmt → Bool
  | .alloc x sh :: .ite c _ E :: rest =>
      posLits sh && notIn x (c.names ++ namesL E ++ namesL rest) && notIn x' (namesL E)
  | _ => false

def sinkAllocIf (x' : Sym) : Local := fun ss => if sinkIfGuard x' ss then sinkAlloc x' ss else none

theorem sinkAllocIf_sound (x' : Sym) :
    ∀ (ss r : List Stmt), sinkAllocIf x' ss = some r → BlockRefW ss r := by
  intro ss r h
  unfold sinkAllocIf at h
  split at h
  · rename_i hg
    cases ss with
    | nil => simp [sinkIfGuard] at hg
    | cons s rest =>
      cases s with
      | alloc x sh =>
        cases rest with
        | nil => simp [sinkIfGuard] at hg
        | cons s2 rest2 =>
          cases s2 with
          | ite c B E =>
            simp only [sinkIfGuard, Bool.and_eq_true] at hg
            simp only [sinkAlloc, Option.some.injEq] at h
            subst h
            exact sink_if_refW x x' c sh B E rest2 hg.1.1 (notIn_iff.1 hg.1.2) (notIn_iff.1 hg.2)
          | _ => simp [sinkIfGuard] at hg
      | _ => simp [sinkIfGuard] at hg
  · cases h

end Exo.Rw
