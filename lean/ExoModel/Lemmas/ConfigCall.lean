/-
  `call_eqv` (C10): an equivalence of callees modulo `K₀` is a simulation of the two call
  statements from a common state; and statement-level congruence for `bind_config`.
-/
import ExoModel.Config
import ExoModel.Lemmas.ConfigSim
import ExoModel.Lemmas.ConfigBind

set_option linter.unusedSectionVars false
set_option linter.unusedVariables false
namespace Exo.Config
open Exo

variable {V : Type} [DataAlg V] (ext : String → List V → V)

/-- the state in which a callee body runs -/
def calleeState (σ : State V) (ce : List (Sym × Int)) (cv : List (Sym × View)) : State V :=
  { env := ce, views := cv, heap := σ.heap, cfg := σ.cfg }

theorem execP_ok_iff (nm : String) (fargs : List FnArg) (preds : List Expr) (body : List Stmt)
    (args : List Expr) (σ o : State V) :
    execP ext (.mk nm fargs preds body) args σ = .ok o ↔
      ∃ ce cv s2, bindArgs σ fargs args [] [] = .ok (ce, cv) ∧ noAlias cv = true ∧
        checkShapes (calleeState σ ce cv) fargs = .ok () ∧
        checkPreds (calleeState σ ce cv) preds = .ok () ∧
        execL ext body (calleeState σ ce cv) = .ok s2 ∧ o = State.leave σ s2 := by
  constructor
  · intro h
    simp only [execP, bind, Except.bind] at h
    split at h
    · cases h
    · rename_i cecv hb
      obtain ⟨ce, cv⟩ := cecv
      split at h
      · cases h
      · rename_i hna
        split at h
        · cases h
        · rename_i u1 hsh
          split at h
          · cases h
          · rename_i u2 hpr
            split at h
            · cases h
            · rename_i s2 h2
              simp only [pure, Except.pure] at h
              cases h
              exact ⟨ce, cv, s2, hb, by simpa using hna, hsh, hpr, h2, rfl⟩
  · rintro ⟨ce, cv, s2, hb, hna, hsh, hpr, h2, rfl⟩
    unfold calleeState at hsh hpr h2
    simp only [execP, bind, Except.bind, hb, hna, hsh, hpr, h2, pure, Except.pure]
    rfl

theorem call_sim0_refine {K₀ : FieldSet} {f g : Proc} (h : Equiv K₀ f g) (hargs : g.args = f.args)
    (hpreds : ∀ (V : Type) (σ : State V), checkPreds σ f.preds = .ok () → checkPreds σ g.preds = .ok ())
    (args : List Expr) : Sim0 refineFam K₀ [.call f args] [.call g args] := by
  intro V _ ext σ o ho
  rw [execL_singleton] at ho ⊢
  simp only [execS] at ho ⊢
  obtain ⟨nm, fargs, fpreds, fbody⟩ := f
  obtain ⟨nm', gargs, gpreds, gbody⟩ := g
  simp only [Proc.args] at hargs
  subst hargs
  simp only [Proc.preds] at hpreds
  obtain ⟨ce, cv, s2, hb, hna, hsh, hpr, h2, rfl⟩ := (execP_ok_iff ext _ _ _ _ _ _ _).1 ho
  have hB : execB ext (Proc.mk nm gargs fpreds fbody).body (calleeState σ ce cv)
      = .ok (State.leave (calleeState σ ce cv) s2) := by
    simp only [execB, Proc.body, h2]; rfl
  obtain ⟨o', ho', r⟩ := h V ext _ _ hB
  simp only [execB, Proc.body] at ho'
  obtain ⟨s2', h2', rfl⟩ := map_leave_ok ho'
  refine ⟨State.leave σ s2', ?_, ?_⟩
  · exact (execP_ok_iff ext _ _ _ _ _ _ _).2 ⟨ce, cv, s2', hb, hna, hsh, hpreds V _ hpr, h2', rfl⟩
  · exact ⟨rfl, rfl, r.heapLen, r.cells, r.cfg⟩

theorem call_sim0_exact {K₀ : FieldSet} {f g : Proc} (h : EquivExact K₀ f g) (hargs : g.args = f.args)
    (hpreds : ∀ (V : Type) (σ : State V), checkPreds σ f.preds = .ok () → checkPreds σ g.preds = .ok ())
    (args : List Expr) : Sim0 agreeFam K₀ [.call f args] [.call g args] := by
  intro V _ ext σ o ho
  rw [execL_singleton] at ho ⊢
  simp only [execS] at ho ⊢
  obtain ⟨nm, fargs, fpreds, fbody⟩ := f
  obtain ⟨nm', gargs, gpreds, gbody⟩ := g
  simp only [Proc.args] at hargs
  subst hargs
  simp only [Proc.preds] at hpreds
  obtain ⟨ce, cv, s2, hb, hna, hsh, hpr, h2, rfl⟩ := (execP_ok_iff ext _ _ _ _ _ _ _).1 ho
  have hB : execB ext (Proc.mk nm gargs fpreds fbody).body (calleeState σ ce cv)
      = .ok (State.leave (calleeState σ ce cv) s2) := by
    simp only [execB, Proc.body, h2]; rfl
  obtain ⟨o', ho', r⟩ := h V ext _ _ hB
  simp only [execB, Proc.body] at ho'
  obtain ⟨s2', h2', rfl⟩ := map_leave_ok ho'
  refine ⟨State.leave σ s2', ?_, ?_⟩
  · exact (execP_ok_iff ext _ _ _ _ _ _ _).2 ⟨ce, cv, s2', hb, hna, hsh, hpreds V _ hpr, h2', rfl⟩
  · exact ⟨rfl, rfl, r.heap, r.cfg⟩

end Exo.Config
