/-
  Lemmas for C12, part 1: the linear normal form of `_DoNormalize` and its division / modulo rewrites.
-/
import ExoModel.Simplify

namespace Exo.Simplify
open Exo (Sym)

/-! ### value of coefficient lists -/

def evalTerms (ρ : Val) : List Term → Int
  | [] => 0
  | t :: r => t.1 * ρ.sym t.2 + evalTerms ρ r

def evalTs (ρ : Val) : List (Sym × Int) → Int
  | [] => 0
  | t :: r => t.2 * ρ.sym t.1 + evalTs ρ r

def evalMap (ρ : Val) (m : NMap) : Int := m.c.getD 0 + evalTs ρ m.ts

theorem evalTs_append (ρ : Val) (a b : List (Sym × Int)) :
    evalTs ρ (a ++ b) = evalTs ρ a + evalTs ρ b := by
  induction a with
  | nil => simp [evalTs]
  | cons t r ih => simp [evalTs, ih]; omega

theorem evalTs_updT (ρ : Val) (f : Int → Int → Int) (g : Int → Int) (s : Sym) (v k : Int)
    (hf : ∀ a, f a v = a + k) (hg : g v = k) (l : List (Sym × Int)) :
    evalTs ρ (updT f g s v l) = evalTs ρ l + k * ρ.sym s := by
  induction l with
  | nil => simp [updT, evalTs, hg]
  | cons t r ih =>
    obtain ⟨s', a⟩ := t
    simp only [updT]
    split
    · rename_i h
      subst h
      simp only [evalTs, hf, Int.add_mul]
      omega
    · simp only [evalTs, ih]
      omega

theorem evalTs_mergeT_add (ρ : Val) (l r : List (Sym × Int)) :
    evalTs ρ (mergeT (· + ·) id l r) = evalTs ρ l + evalTs ρ r := by
  unfold mergeT
  induction r generalizing l with
  | nil => simp [evalTs]
  | cons t r ih =>
    simp only [List.foldl_cons, ih, evalTs]
    rw [evalTs_updT ρ (· + ·) id t.1 t.2 t.2 (by intro a; rfl) rfl]
    omega

theorem evalTs_mergeT_sub (ρ : Val) (l r : List (Sym × Int)) :
    evalTs ρ (mergeT (· - ·) (- ·) l r) = evalTs ρ l - evalTs ρ r := by
  unfold mergeT
  induction r generalizing l with
  | nil => simp [evalTs]
  | cons t r ih =>
    simp only [List.foldl_cons, ih, evalTs]
    rw [evalTs_updT ρ (· - ·) (- ·) t.1 t.2 (- t.2) (by intro a; show a - t.2 = a + - t.2; omega) rfl]
    rw [Int.neg_mul]
    omega

theorem evalTs_scale (ρ : Val) (k : Int) (l : List (Sym × Int)) :
    evalTs ρ (l.map (fun t => (t.1, t.2 * k))) = evalTs ρ l * k := by
  induction l with
  | nil => simp [evalTs]
  | cons t r ih =>
    simp only [List.map_cons, evalTs, ih, Int.add_mul]
    rw [Int.mul_right_comm]

theorem evalTs_neg (ρ : Val) (l : List (Sym × Int)) :
    evalTs ρ (l.map (fun t => (t.1, - t.2))) = - evalTs ρ l := by
  induction l with
  | nil => simp [evalTs]
  | cons t r ih =>
    simp only [List.map_cons, evalTs, ih, Int.neg_mul]
    omega

theorem evalMap_scale (ρ : Val) (m : NMap) (k : Int) :
    evalMap ρ (m.scale k) = evalMap ρ m * k := by
  unfold evalMap NMap.scale
  simp only [evalTs_scale, Int.add_mul]
  cases m.c <;> simp

theorem concatMap_sound (ρ : Val) (op : Op) (a b m : NMap) (h : concatMap op a b = some m) :
    evalMap ρ m = evalOp op (evalMap ρ a) (evalMap ρ b) := by
  cases op <;> simp only [concatMap] at h <;> try cases h
  · -- add
    simp only [evalMap, evalOp, evalTs_mergeT_add]
    cases a.c <;> cases b.c <;> simp [mergeC] <;> omega
  · -- sub
    simp only [evalMap, evalOp, evalTs_mergeT_sub]
    cases a.c <;> cases b.c <;> simp [mergeC] <;> omega
  · -- mul
    split at h
    · rename_i k hts hc
      cases h
      rw [evalMap_scale]
      simp [evalOp, evalMap, hts, hc, evalTs]
    · split at h
      · rename_i k hts hc
        cases h
        rw [evalMap_scale]
        simp only [evalOp, evalMap, hts, hc, evalTs, Option.getD_some, Int.add_zero]
        rw [Int.mul_comm]
      · cases h

theorem normalizeE_sound (ρ : Val) : ∀ (e : Expr) (m : NMap), normalizeE e = some m → evalMap ρ m = eval ρ e
  | .var s, m, h => by
    simp only [normalizeE, Option.some.injEq] at h
    subst h
    simp [evalMap, evalTs, eval]
  | .const v, m, h => by
    simp only [normalizeE, Option.some.injEq] at h
    subst h
    simp [evalMap, evalTs, eval]
  | .usub e, m, h => by
    simp only [normalizeE, Option.map_eq_some_iff] at h
    obtain ⟨m', hm', rfl⟩ := h
    have ih := normalizeE_sound ρ e m' hm'
    simp only [eval, ← ih, evalMap, evalTs_neg]
    cases m'.c <;> simp <;> omega
  | .bin op l r, m, h => by
    simp only [normalizeE] at h
    split at h
    · rename_i a b ha hb
      have := concatMap_sound ρ op a b m h
      rw [this, normalizeE_sound ρ l a ha, normalizeE_sound ρ r b hb, eval]
    · cases h
  | .bconst _, _, h => by simp [normalizeE] at h
  | .cfg _ _, _, h => by simp [normalizeE] at h

theorem evalTerms_append (ρ : Val) (a b : List Term) :
    evalTerms ρ (a ++ b) = evalTerms ρ a + evalTerms ρ b := by
  induction a with
  | nil => simp [evalTerms]
  | cons t r ih => simp [evalTerms, ih]; omega

theorem evalTerms_of_ts (ρ : Val) (l : List (Sym × Int)) :
    evalTerms ρ ((l.filter (fun t => t.2 ≠ 0)).map (fun t => (t.2, t.1))) = evalTs ρ l := by
  induction l with
  | nil => simp [evalTerms, evalTs]
  | cons t r ih =>
    simp only [List.filter_cons]
    split
    · simp only [List.map_cons, evalTerms, evalTs, ih]
    · rename_i h
      have : t.2 = 0 := by simpa using h
      simp only [evalTs, this, Int.zero_mul, Int.zero_add]
      exact ih

theorem getNormalized_sound (ρ : Val) (e : Expr) (c : Int) (nl : List Term)
    (h : getNormalized e = some (c, nl)) : c + evalTerms ρ nl = eval ρ e := by
  simp only [getNormalized, Option.map_eq_some_iff, Prod.mk.injEq] at h
  obtain ⟨m, hm, rfl, rfl⟩ := h
  rw [evalTerms_of_ts, ← normalizeE_sound ρ e m hm]
  rfl

/-! ### `generate_loopIR` -/

theorem evalTerms_insertT (ρ : Val) (t : Term) (l : List Term) :
    evalTerms ρ (insertT t l) = t.1 * ρ.sym t.2 + evalTerms ρ l := by
  induction l with
  | nil => simp [insertT, evalTerms]
  | cons x r ih =>
    simp only [insertT]
    split
    · simp [evalTerms]
    · simp only [evalTerms, ih]; omega

theorem evalTerms_sortT (ρ : Val) (l : List Term) : evalTerms ρ (sortT l) = evalTerms ρ l := by
  induction l with
  | nil => simp [sortT, evalTerms]
  | cons t r ih =>
    have : sortT (t :: r) = insertT t (sortT r) := rfl
    rw [this, evalTerms_insertT, evalTerms, ih]

theorem eval_genStep (ρ : Val) (acc : Expr) (t : Term) :
    eval ρ (genStep acc t) = eval ρ acc + t.1 * ρ.sym t.2 := by
  unfold genStep
  split
  · simp [eval, evalOp, scaleRead]
  · simp only [eval, evalOp, scaleRead, Int.neg_mul]; omega

theorem eval_foldl_genStep (ρ : Val) (l : List Term) (acc : Expr) :
    eval ρ (l.foldl genStep acc) = eval ρ acc + evalTerms ρ l := by
  induction l generalizing acc with
  | nil => simp [evalTerms]
  | cons t r ih => simp only [List.foldl_cons, ih, eval_genStep, evalTerms]; omega

theorem eval_gen (ρ : Val) (c : Int) (l : List Term) : eval ρ (gen c l) = c + evalTerms ρ l := by
  unfold gen
  rw [eval_foldl_genStep, evalTerms_sortT]
  rfl

theorem evalTerms_filter_split (ρ : Val) (p : Term → Bool) (l : List Term) :
    evalTerms ρ (l.filter p) + evalTerms ρ (l.filter (fun t => !p t)) = evalTerms ρ l := by
  induction l with
  | nil => simp [evalTerms]
  | cons t r ih =>
    simp only [List.filter_cons]
    cases hp : p t <;> simp [evalTerms] <;> omega

theorem evalTerms_divTerms (ρ : Val) (d : Int) (l : List Term) (h : ∀ t ∈ l, t.1 % d = 0) :
    evalTerms ρ (divTerms d l) * d = evalTerms ρ l := by
  induction l with
  | nil => simp [divTerms, evalTerms]
  | cons t r ih =>
    have ht : t.1 % d = 0 := h t (by simp)
    have ih' := ih (fun x hx => h x (by simp [hx]))
    simp only [divTerms, List.map_cons, evalTerms, Int.add_mul] at *
    rw [ih']
    have : t.1 / d * ρ.sym t.2 * d = t.1 * ρ.sym t.2 := by
      rw [Int.mul_right_comm, Int.ediv_mul_cancel (Int.dvd_of_emod_eq_zero ht)]
    omega

/-! ### integer identities behind the rewrites -/

theorem div_all_divisible (c E' d : Int) (hd : 0 < d) : (c + E' * d) / d = c / d + E' :=
  Int.add_mul_ediv_right c E' (by omega)

theorem div_drop_small (q N d : Int) (h0 : 0 ≤ N) (h1 : N < d) : (N + q * d) / d = q := by
  rw [Int.add_mul_ediv_right N q (by omega), Int.ediv_eq_zero_of_lt h0 h1]
  omega

theorem mod_drop_multiples (x D' m : Int) : (x + D' * m) % m = x % m :=
  Int.add_mul_emod_self_right x D' m

theorem div_div_pos (x a b : Int) (ha : 0 ≤ a) : x / a / b = x / (a * b) :=
  Int.ediv_ediv_of_nonneg ha

end Exo.Simplify
