/-
  stage_mem, part 1: the heap / state relation with TWO special buffers and the identity mode.

  `HR M N Q h h'` : the heaps have the same number of buffers, every buffer other than `M`, `N` is
  identical; the left version `lm` of buffer `M` and the right versions `rm`, `rn` of buffers `M`, `N`
  are related by an abstract joint predicate `Q lm rm rn` (the left version of buffer `N` is
  unconstrained).

  `SR P M N Q pv s s'` : same control environment, configuration AND views, `HR`-related heaps;
  a name of `P` is bound to the view `pv y`; the binding of every other name does not point into
  buffer `M` or `N`.

  `execS_id / execL_id / execP_id` (identity mode): a statement that mentions no name of `P` runs in
  lock step from `SR`-related states, for ANY `Q` (buffers `M`, `N` are never touched) — in particular
  (`P = ∅`) callee bodies.  Copy of the identity mode of StorageReindex1.lean.
-/
import ExoModel.Lemmas.StorageReindex
import ExoModel.RewriteStage

set_option linter.unusedSectionVars false
set_option linter.unusedVariables false
namespace Exo.Stg.Stage
open Exo
variable {V : Type}

/-! ### control evaluation depends on the environment, the views and the configuration only -/

section Cong
variable {s s' : State V}

theorem evalC_cong (he : s'.env = s.env) (hv : s'.views = s.views) (hc : s'.cfg = s.cfg) :
    ∀ (c : Expr), evalC s' c = evalC s c
  | .read x [] => by simp [evalC, he]
  | .read x (_ :: _) => by simp [evalC]
  | .lit (.int n) => by simp [evalC]
  | .lit (.bool n) => by simp [evalC]
  | .lit (.data _ _) => by simp [evalC]
  | .usub e => by
    simp only [evalC]
    rw [evalC_cong he hv hc e]
  | .binop op a b => by
    simp only [evalC]
    rw [evalC_cong he hv hc a, evalC_cong he hv hc b]
  | .stride x d => by simp only [evalC, hv]
  | .readcfg c f => by simp only [evalC, hc]
  | .extern _ _ => by simp [evalC]
  | .win _ _ => by simp [evalC]

theorem evalCs_cong (he : s'.env = s.env) (hv : s'.views = s.views) (hc : s'.cfg = s.cfg) :
    ∀ (es : List Expr), evalCs s' es = evalCs s es
  | [] => rfl
  | e :: r => by
    simp only [evalCs]
    rw [evalC_cong he hv hc e, evalCs_cong he hv hc r]

theorem applyAcc_cong (he : s'.env = s.env) (hv : s'.views = s.views) (hc : s'.cfg = s.cfg) :
    ∀ (acc : List WAcc) (ds : List (Int × Int)) (off : Int),
    applyAcc s' acc ds off = applyAcc s acc ds off
  | [], [], _ => rfl
  | [], _ :: _, _ => rfl
  | .point e :: as, [], off => rfl
  | .interval lo hi :: as, [], off => rfl
  | .point e :: as, (ext, st) :: ds, off => by
    simp only [applyAcc]
    rw [evalC_cong he hv hc e]
    refine bind_congr (fun i => ?_)
    split
    · exact applyAcc_cong he hv hc as ds _
    · rfl
  | .interval lo hi :: as, (ext, st) :: ds, off => by
    simp only [applyAcc]
    rw [evalC_cong he hv hc lo, evalC_cong he hv hc hi]
    refine bind_congr (fun l => bind_congr (fun hh => ?_))
    split
    · rw [applyAcc_cong he hv hc as ds _]
    · rfl

theorem evalView_cong (he : s'.env = s.env) (hv : s'.views = s.views) (hc : s'.cfg = s.cfg) :
    ∀ (a : Expr), evalView s' a = evalView s a
  | .read x [] => by simp only [evalView, hv]
  | .read x (i :: r) => by
    simp only [evalView]
    rw [hv, evalCs_cong he hv hc (i :: r)]
  | .win x acc => by
    simp only [evalView]
    rw [hv]
    cases lookupSym x s.views with
    | none => rfl
    | some v =>
      simp only []
      rw [applyAcc_cong he hv hc acc _ _]
  | .lit _ => rfl
  | .usub _ => rfl
  | .binop _ _ _ => rfl
  | .extern _ _ => rfl
  | .stride _ _ => rfl
  | .readcfg _ _ => rfl

theorem bindArgs_cong (he : s'.env = s.env) (hv : s'.views = s.views) (hc : s'.cfg = s.cfg) :
    ∀ (fs : List FnArg) (as : List Expr) (ce : List (Sym × Int)) (cv : List (Sym × View)),
    bindArgs s' fs as ce cv = bindArgs s fs as ce cv
  | [], [], _, _ => rfl
  | [], _ :: _, _, _ => rfl
  | ⟨_, .ctrl _⟩ :: _, [], _, _ => rfl
  | ⟨_, .scalar⟩ :: _, [], _, _ => rfl
  | ⟨_, .tensor _ _⟩ :: _, [], _, _ => rfl
  | ⟨x, .ctrl kd⟩ :: fs, a :: as, ce, cv => by
    simp only [bindArgs]
    rw [evalC_cong he hv hc a]
    refine bind_congr (fun v => ?_)
    split
    · rfl
    · exact bindArgs_cong he hv hc fs as _ cv
  | ⟨x, .scalar⟩ :: fs, a :: as, ce, cv => by
    simp only [bindArgs]
    rw [evalView_cong he hv hc a]
    exact bind_congr (fun v => bindArgs_cong he hv hc fs as ce ((x, v) :: cv))
  | ⟨x, .tensor _ _⟩ :: fs, a :: as, ce, cv => by
    simp only [bindArgs]
    rw [evalView_cong he hv hc a]
    exact bind_congr (fun v => bindArgs_cong he hv hc fs as ce ((x, v) :: cv))

theorem checkShapes_cong (he : s'.env = s.env) (hv : s'.views = s.views) (hc : s'.cfg = s.cfg) :
    ∀ (fs : List FnArg), checkShapes s' fs = checkShapes s fs
  | [] => rfl
  | ⟨x, .tensor shape _⟩ :: fs => by
    simp only [checkShapes]
    rw [evalCs_cong he hv hc shape, hv, checkShapes_cong he hv hc fs]
  | ⟨x, .scalar⟩ :: fs => by
    simp only [checkShapes]
    rw [hv, checkShapes_cong he hv hc fs]
  | ⟨x, .ctrl _⟩ :: fs => by
    simp only [checkShapes]
    exact checkShapes_cong he hv hc fs

theorem checkPreds_cong (he : s'.env = s.env) (hv : s'.views = s.views) (hc : s'.cfg = s.cfg) :
    ∀ (ps : List Expr), checkPreds s' ps = checkPreds s ps
  | [] => rfl
  | p :: ps => by
    simp only [checkPreds]
    rw [evalC_cong he hv hc p, checkPreds_cong he hv hc ps]

end Cong

/-! ### the heap relation -/

structure HR (M N : Nat) (Q : List (Option V) → List (Option V) → List (Option V) → Prop)
    (h h' : List (List (Option V))) : Prop where
  ne : M ≠ N
  len : h'.length = h.length
  other : ∀ b, b ≠ M → b ≠ N → h'[b]? = h[b]?
  big : ∃ lm rm rn, h[M]? = some lm ∧ h'[M]? = some rm ∧ h'[N]? = some rn ∧ Q lm rm rn

section HRLemmas
variable {M N : Nat} {Q : List (Option V) → List (Option V) → List (Option V) → Prop}
  {h h' : List (List (Option V))}

theorem HR.ltM (H : HR M N Q h h') : M < h.length := by
  obtain ⟨lm, rm, rn, h1, _⟩ := H.big
  exact (List.getElem?_eq_some_iff.1 h1).1

theorem HR.ltN (H : HR M N Q h h') : N < h.length := by
  obtain ⟨lm, rm, rn, _, _, h3, _⟩ := H.big
  have := (List.getElem?_eq_some_iff.1 h3).1
  rw [H.len] at this
  exact this

theorem HR.append (H : HR M N Q h h') (b : List (Option V)) :
    HR M N Q (h ++ [b]) (h' ++ [b]) := by
  have hltM := H.ltM
  have hltN := H.ltN
  have hl := H.len
  refine ⟨H.ne, by simp [hl], ?_, ?_⟩
  · intro k hk hk2
    by_cases hkl : k < h.length
    · rw [List.getElem?_append_left hkl, List.getElem?_append_left (by omega)]
      exact H.other k hk hk2
    · have hge : h.length ≤ k := Nat.le_of_not_lt hkl
      rw [List.getElem?_append_right hge, List.getElem?_append_right (by omega), hl]
  · obtain ⟨lm, rm, rn, h1, h2, h3, h4⟩ := H.big
    refine ⟨lm, rm, rn, ?_, ?_, ?_, h4⟩
    · rw [List.getElem?_append_left hltM]; exact h1
    · rw [List.getElem?_append_left (by omega)]; exact h2
    · rw [List.getElem?_append_left (by omega)]; exact h3

/-- the same write to a cell of another buffer on both sides -/
theorem HR.setOther (H : HR M N Q h h') (c : Nat × Nat) (hc : c.1 ≠ M) (hc2 : c.1 ≠ N)
    (v : Option V) : HR M N Q (heapSet h c v) (heapSet h' c v) := by
  refine ⟨H.ne, by simp only [heapSet, List.length_modify]; exact H.len, ?_, ?_⟩
  · intro b hb hb2
    rw [getElem?_heapSet, getElem?_heapSet, H.other b hb hb2]
  · obtain ⟨lm, rm, rn, h1, h2, h3, h4⟩ := H.big
    refine ⟨lm, rm, rn, ?_, ?_, ?_, h4⟩
    · rw [getElem?_heapSet, if_neg hc]; exact h1
    · rw [getElem?_heapSet, if_neg hc]; exact h2
    · rw [getElem?_heapSet, if_neg hc2]; exact h3

/-- both heaps cut at the same length above `M`, `N` -/
theorem HR.take (H : HR M N Q h h') (k : Nat) (hk : M < k) (hk2 : N < k) :
    HR M N Q (h.take k) (h'.take k) := by
  refine ⟨H.ne, by simp [H.len], ?_, ?_⟩
  · intro b hb hb2
    rw [List.getElem?_take, List.getElem?_take, H.other b hb hb2]
  · obtain ⟨lm, rm, rn, h1, h2, h3, h4⟩ := H.big
    refine ⟨lm, rm, rn, ?_, ?_, ?_, h4⟩
    · rw [List.getElem?_take, if_pos hk]; exact h1
    · rw [List.getElem?_take, if_pos hk]; exact h2
    · rw [List.getElem?_take, if_pos hk2]; exact h3

theorem HR.get_other (H : HR M N Q h h') (c : Nat × Nat) (hc : c.1 ≠ M) (hc2 : c.1 ≠ N) :
    heapGet h' c = heapGet h c := by
  simp only [heapGet, H.other _ hc hc2]

theorem HR.cellOf_other (H : HR M N Q h h') (v : View) (hv : v.buf ≠ M) (hv2 : v.buf ≠ N)
    (is : List Int) : cellOf h' v is = cellOf h v is := by
  simp only [cellOf, H.other _ hv hv2]

end HRLemmas

/-! ### the state relation -/

structure SR (P : Sym → Prop) (M N : Nat)
    (Q : List (Option V) → List (Option V) → List (Option V) → Prop) (pv : Sym → View)
    (s s' : State V) : Prop where
  env : s'.env = s.env
  cfg : s'.cfg = s.cfg
  views : s'.views = s.views
  heap : HR M N Q s.heap s'.heap
  nb : ∀ y v, ¬ P y → lookupSym y s.views = some v → v.buf ≠ M ∧ v.buf ≠ N
  px : ∀ y, P y → lookupSym y s.views = some (pv y)

section SRLemmas
variable {P : Sym → Prop} {M N : Nat}
  {Q : List (Option V) → List (Option V) → List (Option V) → Prop} {pv : Sym → View}
  {s s' : State V}

theorem SR.bind (h : SR P M N Q pv s s') (i : Sym) (v : Int) :
    SR P M N Q pv (s.bind i v) (s'.bind i v) :=
  ⟨by simp [State.bind, h.env], h.cfg, h.views, h.heap, h.nb, h.px⟩

theorem SR.heapWrite (h : SR P M N Q pv s s') {hp hp' : List (List (Option V))}
    (H : HR M N Q hp hp') :
    SR P M N Q pv { s with heap := hp } { s' with heap := hp' } :=
  ⟨h.env, h.cfg, h.views, H, h.nb, h.px⟩

theorem SR.cfgWrite (h : SR P M N Q pv s s') (key : String × String) (v : CfgVal V) :
    SR P M N Q pv { s with cfg := setCfg key v s.cfg } { s' with cfg := setCfg key v s'.cfg } :=
  ⟨h.env, by simp only [h.cfg], h.views, h.heap, h.nb, h.px⟩

/-- the same binding of a name outside `P` to a view that does not point into buffer `M`, `N` -/
theorem SR.pushView (h : SR P M N Q pv s s') (y : Sym) (hy : ¬ P y) (v : View)
    (hv : v.buf ≠ M) (hv2 : v.buf ≠ N) :
    SR P M N Q pv { s with views := (y, v) :: s.views } { s' with views := (y, v) :: s'.views } := by
  refine ⟨h.env, h.cfg, by simp only [h.views], h.heap, ?_, ?_⟩
  · intro z w hz hl
    simp only [lookupSym] at hl
    split at hl
    · cases hl; exact ⟨hv, hv2⟩
    · exact h.nb z w hz hl
  · intro z hz
    have hzy : ¬ z = y := fun e => hy (e ▸ hz)
    simp only [lookupSym, if_neg hzy]
    exact h.px z hz

theorem SR.alloc (h : SR P M N Q pv s s') (y : Sym) (hy : ¬ P y) (n : Nat)
    (ds : List (Int × Int)) :
    SR P M N Q pv
      { s with heap := s.heap ++ [List.replicate n none],
               views := (y, { buf := s.heap.length, off := 0, dims := ds }) :: s.views }
      { s' with heap := s'.heap ++ [List.replicate n none],
                views := (y, { buf := s'.heap.length, off := 0, dims := ds }) :: s'.views } := by
  have hltM := h.heap.ltM
  have hltN := h.heap.ltN
  have h1 := (h.heapWrite (h.heap.append (List.replicate n none))).pushView y hy
    { buf := s.heap.length, off := 0, dims := ds } (by simp only []; omega) (by simp only []; omega)
  rw [h.heap.len]
  exact h1

theorem SR.leave {P₂ : Sym → Prop} {σ σ' t t' : State V} (hin : SR P M N Q pv σ σ')
    (hout : SR P₂ M N Q pv t t') (hle : σ.heap.length ≤ t.heap.length) :
    SR P M N Q pv (State.leave σ t) (State.leave σ' t') := by
  refine ⟨hin.env, hout.cfg, hin.views, ?_, hin.nb, hin.px⟩
  show HR M N Q (t.heap.take σ.heap.length) (t'.heap.take σ'.heap.length)
  rw [hin.heap.len]
  exact hout.heap.take _ hin.heap.ltM hin.heap.ltN

theorem evalC_sr (h : SR P M N Q pv s s') (c : Expr) : evalC s' c = evalC s c :=
  evalC_cong h.env h.views h.cfg c

theorem evalCs_sr (h : SR P M N Q pv s s') (es : List Expr) : evalCs s' es = evalCs s es :=
  evalCs_cong h.env h.views h.cfg es

theorem evalView_sr (h : SR P M N Q pv s s') (a : Expr) : evalView s' a = evalView s a :=
  evalView_cong h.env h.views h.cfg a

/-- a view expression that mentions no name of `P` does not denote a view into buffer `M`, `N` -/
theorem evalView_nb (h : SR P M N Q pv s s') {a : Expr} {v : View}
    (hv : evalView s a = .ok v) (hn : ∀ y ∈ a.names, ¬ P y) : v.buf ≠ M ∧ v.buf ≠ N := by
  obtain ⟨y, w, hy, hl, e⟩ := evalView_lookup hv
  rw [e]
  exact h.nb y w (hn y hy) hl

/-- none of the views bound to the formals points into buffer `M`, `N` -/
theorem bindArgs_nb (h : SR P M N Q pv s s') : ∀ (fs : List FnArg) (as : List Expr)
    (ce : List (Sym × Int)) (cv : List (Sym × View)) (p : List (Sym × Int) × List (Sym × View)),
    (∀ y ∈ namesEs as, ¬ P y) → (∀ q ∈ cv, q.2.buf ≠ M ∧ q.2.buf ≠ N) →
    bindArgs s fs as ce cv = .ok p → ∀ q ∈ p.2, q.2.buf ≠ M ∧ q.2.buf ≠ N
  | [], [], _, _, p, _, hcv, hb => by
    simp only [bindArgs, pure, Except.pure, Except.ok.injEq] at hb
    subst hb; exact hcv
  | [], _ :: _, _, _, _, _, _, hb => by simp [bindArgs] at hb
  | ⟨_, .ctrl _⟩ :: _, [], _, _, _, _, _, hb => by simp [bindArgs] at hb
  | ⟨_, .scalar⟩ :: _, [], _, _, _, _, _, hb => by simp [bindArgs] at hb
  | ⟨_, .tensor _ _⟩ :: _, [], _, _, _, _, _, hb => by simp [bindArgs] at hb
  | ⟨x, .ctrl kd⟩ :: fs, a :: as, ce, cv, p, hn, hcv, hb => by
    simp only [bindArgs] at hb
    obtain ⟨v, _, hb⟩ := except_bind_ok_inv hb
    split at hb
    · simp [bind, Except.bind] at hb
    · exact bindArgs_nb h fs as _ cv p (fun y hy => hn y (by simp [namesEs, hy])) hcv hb
  | ⟨x, .scalar⟩ :: fs, a :: as, ce, cv, p, hn, hcv, hb => by
    simp only [bindArgs] at hb
    obtain ⟨v, hv, hb⟩ := except_bind_ok_inv hb
    have hvb := evalView_nb h hv (fun y hy => hn y (by simp [namesEs, hy]))
    refine bindArgs_nb h fs as ce ((x, v) :: cv) p (fun y hy => hn y (by simp [namesEs, hy])) ?_ hb
    intro q hq
    rcases List.mem_cons.1 hq with rfl | hq
    · exact hvb
    · exact hcv q hq
  | ⟨x, .tensor _ _⟩ :: fs, a :: as, ce, cv, p, hn, hcv, hb => by
    simp only [bindArgs] at hb
    obtain ⟨v, hv, hb⟩ := except_bind_ok_inv hb
    have hvb := evalView_nb h hv (fun y hy => hn y (by simp [namesEs, hy]))
    refine bindArgs_nb h fs as ce ((x, v) :: cv) p (fun y hy => hn y (by simp [namesEs, hy])) ?_ hb
    intro q hq
    rcases List.mem_cons.1 hq with rfl | hq
    · exact hvb
    · exact hcv q hq

section
variable [DataAlg V] (ext : String → List V → V)

mutual
theorem evalD_sr (h : SR P M N Q pv s s') : ∀ (a : Expr), (∀ y ∈ a.names, ¬ P y) →
    evalD ext s' a = evalD ext s a
  | .read x idx, hn => by
    simp only [evalD]
    rw [h.views, evalCs_sr h idx]
    cases hl : lookupSym x s.views with
    | none => rfl
    | some v =>
      simp only []
      have hb := h.nb x v (hn x (by simp [Expr.names])) hl
      refine bind_congr (fun is => ?_)
      rw [h.heap.cellOf_other v hb.1 hb.2 is]
      refine bind_congr_ok (fun c hc => ?_)
      rw [h.heap.get_other c (by rw [cellOf_buf hc]; exact hb.1) (by rw [cellOf_buf hc]; exact hb.2)]
  | .lit (.data n d), _ => rfl
  | .lit (.int n), _ => rfl
  | .lit (.bool _), _ => rfl
  | .usub e, hn => by
    simp only [evalD]
    rw [evalD_sr h e (fun y hy => hn y (by simpa [Expr.names] using hy))]
  | .binop op a b, hn => by
    simp only [evalD]
    rw [evalD_sr h a (fun y hy => hn y (by simp [Expr.names, hy])),
        evalD_sr h b (fun y hy => hn y (by simp [Expr.names, hy]))]
  | .extern f args, hn => by
    simp only [evalD]
    rw [evalDs_sr h args (fun y hy => hn y (by simpa [Expr.names] using hy))]
  | .readcfg c f, _ => by
    simp only [evalD, h.cfg]
  | .win _ _, _ => rfl
  | .stride _ _, _ => rfl
theorem evalDs_sr (h : SR P M N Q pv s s') : ∀ (es : List Expr),
    (∀ y ∈ namesEs es, ¬ P y) → evalDs ext s' es = evalDs ext s es
  | [], _ => rfl
  | e :: r, hn => by
    simp only [evalDs]
    rw [evalD_sr h e (fun y hy => hn y (by simp [namesEs, hy])),
        evalDs_sr h r (fun y hy => hn y (by simp [namesEs, hy]))]
end

end

theorem writeCell_sr (h : SR P M N Q pv s s') (y : Sym) (idx : List Expr)
    (hy : ¬ P y) (f : Option V → Option V) :
    Lock (SR P M N Q pv) (writeCell s y idx f) (writeCell s' y idx f) := by
  simp only [writeCell]
  rw [h.views, evalCs_sr h idx]
  cases hl : lookupSym y s.views with
  | none => exact Lock.ofThrow
  | some v =>
    simp only []
    have hb := h.nb y v hy hl
    refine Lock.bind_eq (fun is _ => ?_)
    rw [h.heap.cellOf_other v hb.1 hb.2 is]
    refine Lock.bind_eq (fun c hc => ?_)
    have hcM : c.1 ≠ M := by rw [cellOf_buf hc]; exact hb.1
    have hcN : c.1 ≠ N := by rw [cellOf_buf hc]; exact hb.2
    rw [h.heap.get_other c hcM hcN]
    exact Lock.ofPure ⟨h.env, h.cfg, rfl, h.heap.setOther c hcM hcN _, h.nb, h.px⟩

end SRLemmas

/-! ### the lock-step theorem for statements that do not mention a name of `P` -/

section
variable [DataAlg V] (ext : String → List V → V)

mutual
theorem execS_id (M N : Nat) (Q : List (Option V) → List (Option V) → List (Option V) → Prop)
    (pv : Sym → View) : ∀ (a : Stmt) (P : Sym → Prop) (s s' : State V),
    (∀ y ∈ a.names, ¬ P y) → SR P M N Q pv s s' →
    Lock (SR P M N Q pv) (execS ext a s) (execS ext a s')
  | .assign x idx rhs, P, s, s', hn, h => by
    simp only [execS]
    rw [evalD_sr ext h rhs (fun y hy => hn y (by simp [Stmt.names, hy]))]
    exact Lock.bind_eq (fun v _ => writeCell_sr h x idx (hn x (by simp [Stmt.names])) _)
  | .reduce x idx rhs, P, s, s', hn, h => by
    simp only [execS]
    rw [evalD_sr ext h rhs (fun y hy => hn y (by simp [Stmt.names, hy]))]
    exact Lock.bind_eq (fun v _ => writeCell_sr h x idx (hn x (by simp [Stmt.names])) _)
  | .writecfg c f rhs true, P, s, s', hn, h => by
    simp only [execS, ↓reduceIte]
    rw [evalD_sr ext h rhs (fun y hy => hn y (by simpa [Stmt.names] using hy))]
    exact Lock.bind_eq (fun v _ => Lock.ofPure (h.cfgWrite (c, f) (.data v)))
  | .writecfg c f rhs false, P, s, s', hn, h => by
    simp only [execS, Bool.false_eq_true, ↓reduceIte]
    rw [evalC_sr h rhs]
    exact Lock.bind_eq (fun v _ => Lock.ofPure (h.cfgWrite (c, f) (.ctrl v)))
  | .pass, P, s, s', _, h => by
    simp only [execS]; exact Lock.ofPure h
  | .free _, P, s, s', _, h => by
    simp only [execS]; exact Lock.ofPure h
  | .ite c t e, P, s, s', hn, h => by
    simp only [execS]
    rw [evalC_sr h c]
    refine Lock.bind_eq (fun b _ => Lock.ite (fun _ => ?_) (fun _ => ?_))
    · exact Lock.map
        (execL_id M N Q pv t P s s' (fun y hy => hn y (by simp [Stmt.names, hy])) h)
        (fun a b ha _ hab => h.leave hab (execL_scope ext t s a ha).2.1)
    · exact Lock.map
        (execL_id M N Q pv e P s s' (fun y hy => hn y (by simp [Stmt.names, hy])) h)
        (fun a b ha _ hab => h.leave hab (execL_scope ext e s a ha).2.1)
  | .loop i lo hi body par, P, s, s', hn, h => by
    simp only [execS]
    rw [evalC_sr h lo, evalC_sr h hi]
    refine Lock.bind_eq (fun l _ => Lock.bind_eq (fun hh _ =>
      Lock.ite (fun _ => Lock.ofThrowBind) (fun _ => ?_)))
    exact iterate_lock (SR P M N Q pv) _ _
      (fun v a b hab => Lock.map
        (execL_id M N Q pv body P _ _ (fun y hy => hn y (by simp [Stmt.names, hy]))
          (hab.bind i v))
        (fun a1 b1 ha1 _ h1 => hab.leave h1 (execL_scope ext body _ a1 ha1).2.1))
      _ _ s s' h
  | .alloc x shape, P, s, s', hn, h => by
    simp only [execS]
    rw [evalCs_sr h shape]
    exact Lock.bind_eq (fun sh _ => Lock.bind_eq (fun _ _ =>
      Lock.ofPure (h.alloc x (hn x (by simp [Stmt.names])) _ _)))
  | .call f args, P, s, s', hn, h => by
    simp only [execS]
    exact execP_id M N Q pv f args P s s' (fun y hy => hn y (by simpa [Stmt.names] using hy)) h
  | .window x rhs, P, s, s', hn, h => by
    simp only [execS]
    have hr : ∀ y ∈ rhs.names, ¬ P y := fun y hy => hn y (by simp [Stmt.names, hy])
    rw [evalView_sr h rhs]
    refine Lock.bind_eq (fun v hv => ?_)
    have hb := evalView_nb h hv hr
    exact Lock.ofPure (h.pushView x (hn x (by simp [Stmt.names])) v hb.1 hb.2)
theorem execL_id (M N : Nat) (Q : List (Option V) → List (Option V) → List (Option V) → Prop)
    (pv : Sym → View) : ∀ (ss : List Stmt) (P : Sym → Prop)
    (s s' : State V), (∀ y ∈ namesL ss, ¬ P y) → SR P M N Q pv s s' →
    Lock (SR P M N Q pv) (execL ext ss s) (execL ext ss s')
  | [], P, s, s', _, h => by
    simp only [execL]; exact Lock.ofPure h
  | a :: r, P, s, s', hn, h => by
    simp only [execL]
    exact Lock.bind (execS_id M N Q pv a P s s' (fun y hy => hn y (by simp [namesL, hy])) h)
      (fun s1 s1' _ _ h1 =>
        execL_id M N Q pv r P s1 s1' (fun y hy => hn y (by simp [namesL, hy])) h1)
theorem execP_id (M N : Nat) (Q : List (Option V) → List (Option V) → List (Option V) → Prop)
    (pv : Sym → View) : ∀ (p : Proc) (args : List Expr)
    (P : Sym → Prop) (s s' : State V), (∀ y ∈ namesOfArgs args, ¬ P y) →
    SR P M N Q pv s s' →
    Lock (SR P M N Q pv) (execP ext p args s) (execP ext p args s')
  | .mk nm fargs preds body, args, P, s, s', hn, h => by
    simp only [execP]
    rw [bindArgs_cong h.env h.views h.cfg fargs args [] []]
    refine Lock.bind_eq (fun p hp => ?_)
    refine Lock.ite (fun _ => Lock.ofThrowBind) (fun _ => ?_)
    have hc : SR (fun _ => False) M N Q pv
        { env := p.1, views := p.2, heap := s.heap, cfg := s.cfg }
        { env := p.1, views := p.2, heap := s'.heap, cfg := s'.cfg } :=
      ⟨rfl, h.cfg, rfl, h.heap,
        fun y v _ hl => bindArgs_nb h fargs args [] [] p hn (fun _ hq => by cases hq) hp
          (y, v) (lookupSym_mem hl),
        fun _ hf => hf.elim⟩
    rw [checkShapes_cong (s := { env := p.1, views := p.2, heap := s.heap, cfg := s.cfg })
          (s' := { env := p.1, views := p.2, heap := s'.heap, cfg := s'.cfg }) rfl rfl h.cfg fargs,
        checkPreds_cong (s := { env := p.1, views := p.2, heap := s.heap, cfg := s.cfg })
          (s' := { env := p.1, views := p.2, heap := s'.heap, cfg := s'.cfg }) rfl rfl h.cfg preds]
    exact Lock.bind_eq (fun _ _ => Lock.bind_eq (fun _ _ =>
      Lock.bind (execL_id M N Q pv body (fun _ => False) _ _ (fun _ _ hx => hx) hc)
        (fun t t' ht _ htt => Lock.ofPure (h.leave htt (execL_scope ext body _ t ht).2.1))))
end

end

end Exo.Stg.Stage
