/-
  Lemmas about `GetWrites` / `non_const` and the `const` decisions of the C backend
  (model: ExoModel/CIndex.lean §6).  Property theorems: ExoModel/Props/C08.lean.

  Spec-side vocabulary defined here (none of it is used by the model):
    `callActuals`          the actuals of a call whose formal is written in the callee
    `sitesS` / `sitesL`    every write site of a body in traversal order: the name written through
                           (target of an Assign/Reduce, or such a call actual) with `window_dict` as
                           it is when the traversal reaches the site
    `resolve`              the buffer `GetWrites` records for a site
    `DictFlat`, `winFreshS` / `winFreshL`, `rootsDoneS` / `rootsDoneL`, `tcS` / `tcL`
                           for the adequacy of the fuel of `dictRoot` and the agreement of
                           `window_dict` with the typechecker's `src_buf`
-/
import ExoModel.CIndex

set_option linter.unusedVariables false
namespace Exo.CIndex

/-! ## write sites -/

/-- the actuals (`Read` / `WindowExpr` / `StrideExpr` names) whose formal the callee writes -/
def callActuals : List Bool → List (Option Sym) → List Sym
  | true :: ws, some a :: as => a :: callActuals ws as
  | _ :: ws, _ :: as => callActuals ws as
  | _, _ => []

mutual
def sitesS : KStmt → GW → List (Sym × List (Sym × Sym))
  | .write x, g => [(x, g.dict)]
  | .call ws as, g => (callActuals ws as).map (fun a => (a, g.dict))
  | .block ss, g => sitesL ss g
  | .window _ _, _ => []
  | .other, _ => []
def sitesL : List KStmt → GW → List (Sym × List (Sym × Sym))
  | [], _ => []
  | s :: r, g => sitesS s g ++ sitesL r (gwS s g)
end

/-- `self.window_dict.get(sym, sym)` at the site -/
def resolve (p : Sym × List (Sym × Sym)) : Sym := dictGet p.1 p.2

theorem callWrites_eq (d : List (Sym × Sym)) (ws : List Bool) (as : List (Option Sym)) :
    callWrites d ws as = (callActuals ws as).map (fun a => dictGet a d) := by
  fun_induction callActuals ws as <;> simp_all [callWrites]

mutual
theorem gwS_writes : ∀ (s : KStmt) (g : GW),
    (gwS s g).writes = g.writes ++ (sitesS s g).map resolve
  | .write x, g => by simp [gwS, sitesS, resolve]
  | .call ws as, g => by simp [gwS, sitesS, callWrites_eq, resolve, Function.comp_def]
  | .window _ _, g => by simp [gwS, sitesS]
  | .block ss, g => by simp [gwS, sitesS, gwL_writes ss g]
  | .other, g => by simp [gwS, sitesS]
theorem gwL_writes : ∀ (ss : List KStmt) (g : GW),
    (gwL ss g).writes = g.writes ++ (sitesL ss g).map resolve
  | [], g => by simp [gwL, sitesL]
  | s :: r, g => by simp [gwL, sitesL, gwL_writes r (gwS s g), gwS_writes s g]
end

mutual
theorem gwS_dict_suffix : ∀ (s : KStmt) (g : GW), g.dict <:+ (gwS s g).dict
  | .write _, g => by simp [gwS]
  | .call _ _, g => by simp [gwS]
  | .window _ _, g => by simp [gwS]
  | .block ss, g => by simpa [gwS] using gwL_dict_suffix ss g
  | .other, g => by simp [gwS]
theorem gwL_dict_suffix : ∀ (ss : List KStmt) (g : GW), g.dict <:+ (gwL ss g).dict
  | [], g => by simp [gwL]
  | s :: r, g => by
      simpa [gwL] using (gwS_dict_suffix s g).trans (gwL_dict_suffix r (gwS s g))
end

/-- the dict seen at a site extends the dict the traversal started with -/
theorem sites_dict_suffix : (∀ (s : KStmt) (g : GW) (p), p ∈ sitesS s g → g.dict <:+ p.2) ∧
    (∀ (ss : List KStmt) (g : GW) (p), p ∈ sitesL ss g → g.dict <:+ p.2) := by
  have key : ∀ n, (∀ (s : KStmt), sizeOf s ≤ n → ∀ (g : GW) (p), p ∈ sitesS s g → g.dict <:+ p.2) ∧
      (∀ (ss : List KStmt), sizeOf ss ≤ n → ∀ (g : GW) (p), p ∈ sitesL ss g → g.dict <:+ p.2) := by
    intro n
    induction n with
    | zero =>
      constructor
      · intro s hs; cases s <;> simp at hs <;> omega
      · intro ss hs; cases ss <;> simp at hs
    | succ n ih =>
      constructor
      · intro s hs g p hp
        cases s with
        | write x => simp [sitesS] at hp; subst hp; simp
        | call ws as =>
          simp [sitesS] at hp; obtain ⟨a, _, rfl⟩ := hp; simp
        | window _ _ => simp [sitesS] at hp
        | block ss =>
          simp only [sitesS] at hp
          exact ih.2 ss (by simp at hs; omega) g p hp
        | other => simp [sitesS] at hp
      · intro ss hs g p hp
        cases ss with
        | nil => simp [sitesL] at hp
        | cons s r =>
          simp only [sitesL, List.mem_append] at hp
          simp at hs
          rcases hp with hp | hp
          · exact ih.1 s (by omega) g p hp
          · exact (gwS_dict_suffix s g).trans (ih.2 r (by omega) _ p hp)
  exact ⟨fun s => (key (sizeOf s)).1 s (Nat.le_refl _), fun ss => (key (sizeOf ss)).2 ss (Nat.le_refl _)⟩

theorem lookupSym_isSome_of_suffix {w : Sym} {d₀ d : List (Sym × Sym)} (hs : d₀ <:+ d)
    (h : (lookupSym w d₀).isSome = true) : (lookupSym w d).isSome = true := by
  obtain ⟨ds, rfl⟩ := hs
  induction ds with
  | nil => simpa using h
  | cons a ds ih =>
    obtain ⟨k, v⟩ := a
    simp only [List.cons_append, lookupSym]
    split <;> simp [ih]

theorem gwL_append (l₁ l₂ : List KStmt) : ∀ g, gwL (l₁ ++ l₂) g = gwL l₂ (gwL l₁ g) := by
  induction l₁ with
  | nil => intro g; simp [gwL]
  | cons s r ih => intro g; simp [gwL, ih]

theorem sitesL_append (l₁ l₂ : List KStmt) : ∀ g,
    sitesL (l₁ ++ l₂) g = sitesL l₁ g ++ sitesL l₂ (gwL l₁ g) := by
  induction l₁ with
  | nil => intro g; simp [sitesL, gwL]
  | cons s r ih => intro g; simp [sitesL, gwL, ih]

/-! ## the fuel of `dictRoot`, and `src_buf` -/

/-- no value of the dict is a key of the dict: every chain has length ≤ 1 -/
def DictFlat (d : List (Sym × Sym)) : Prop := ∀ k v, (k, v) ∈ d → lookupSym v d = none

theorem dictFlat_nil : DictFlat [] := by intro k v h; simp at h

theorem dictRoot_of_flat {d : List (Sym × Sym)} (hf : DictFlat d) (fuel : Nat) (x : Sym) :
    dictRoot d (fuel + 1) x = dictGet x d ∧ lookupSym (dictRoot d (fuel + 1) x) d = none := by
  have mem_of_lookup : ∀ (d : List (Sym × Sym)) (y : Sym), lookupSym x d = some y → (x, y) ∈ d := by
    intro d
    induction d with
    | nil => intro y h; simp [lookupSym] at h
    | cons a d ih =>
      obtain ⟨k, v⟩ := a
      intro y h
      simp only [lookupSym] at h
      split at h
      · simp_all
      · simp [ih y h]
  simp only [dictRoot, dictGet]
  cases h : lookupSym x d with
  | none => simp [h]
  | some y =>
    have hy := hf x y (mem_of_lookup d y h)
    cases fuel <;> simp [dictRoot, hy]

mutual
/-- the name bound by a window statement is neither its own source nor a value already in the dict
    (the values are sources of earlier window statements, or their roots) -/
def winFreshS : KStmt → GW → Bool
  | .window w src, g => w != src && !(g.dict.map (·.2)).contains w
  | .block ss, g => winFreshL ss g
  | .write _, _ => true
  | .call _ _, _ => true
  | .other, _ => true
def winFreshL : List KStmt → GW → Bool
  | [], _ => true
  | s :: r, g => winFreshS s g && winFreshL r (gwS s g)
end

mutual
/-- at every window statement the model's fuel-bounded loop stops because the real loop's exit
    condition (`base_sym not in self.window_dict`) holds -/
def rootsDoneS : KStmt → GW → Bool
  | .window _ src, g => (lookupSym (dictRoot g.dict (g.dict.length + 1) src) g.dict).isNone
  | .block ss, g => rootsDoneL ss g
  | .write _, _ => true
  | .call _ _, _ => true
  | .other, _ => true
def rootsDoneL : List KStmt → GW → Bool
  | [], _ => true
  | s :: r, g => rootsDoneS s g && rootsDoneL r (gwS s g)
end

mutual
/-- the typechecker's `src_buf` map (`create_window_type`: the source itself if it is a tensor,
    the source's `src_buf` if it is a window), kept unscoped like `window_dict` -/
def tcS : KStmt → List (Sym × Sym) → List (Sym × Sym)
  | .window w src, te => (w, dictGet src te) :: te
  | .block ss, te => tcL ss te
  | .write _, te => te
  | .call _ _, te => te
  | .other, te => te
def tcL : List KStmt → List (Sym × Sym) → List (Sym × Sym)
  | [], te => te
  | s :: r, te => tcL r (tcS s te)
end

theorem dictFlat_window {d : List (Sym × Sym)} {w src : Sym} (hf : DictFlat d)
    (hw : w ≠ src) (hv : ∀ k v, (k, v) ∈ d → v ≠ w) (fuel : Nat) :
    DictFlat ((w, dictRoot d (fuel + 1) src) :: d) := by
  obtain ⟨hr, hn⟩ := dictRoot_of_flat hf fuel src
  have hrw : dictRoot d (fuel + 1) src ≠ w := by
    rw [hr, dictGet]
    cases h : lookupSym src d with
    | none => simpa using fun e => hw e.symm
    | some y =>
      have : (src, y) ∈ d := by
        clear hr hn hf hv
        induction d with
        | nil => simp [lookupSym] at h
        | cons a d ih =>
          obtain ⟨k, v⟩ := a
          simp only [lookupSym] at h
          split at h
          · simp_all
          · simp [ih h]
      simpa using hv _ _ this
  intro k v hm
  rcases List.mem_cons.1 hm with hm | hm
  · cases hm
    simp only [lookupSym]
    rw [if_neg hrw]; exact hn
  · simp only [lookupSym]
    rw [if_neg (hv k v hm)]; exact hf k v hm

mutual
theorem flat_gwS : ∀ (s : KStmt) (g : GW), DictFlat g.dict → winFreshS s g = true →
    DictFlat (gwS s g).dict ∧ rootsDoneS s g = true ∧ (gwS s g).dict = tcS s g.dict
  | .write _, g, hf, _ => by simp [gwS, rootsDoneS, tcS, hf]
  | .call _ _, g, hf, _ => by simp [gwS, rootsDoneS, tcS, hf]
  | .other, g, hf, _ => by simp [gwS, rootsDoneS, tcS, hf]
  | .window w src, g, hf, hw => by
      simp only [winFreshS, Bool.and_eq_true, bne_iff_ne, ne_eq, Bool.not_eq_true',
        List.contains_eq_mem, List.mem_map, decide_eq_false_iff_not, not_exists, not_and] at hw
      obtain ⟨hr, hn⟩ := dictRoot_of_flat hf g.dict.length src
      refine ⟨?_, ?_, ?_⟩
      · simp only [gwS]
        exact dictFlat_window hf hw.1 (fun k v hm e => hw.2 (k, v) hm e) _
      · simp [rootsDoneS, hn]
      · simp [gwS, tcS, hr]
  | .block ss, g, hf, hw => by
      simp only [winFreshS] at hw
      simpa [gwS, rootsDoneS, tcS] using flat_gwL ss g hf hw
theorem flat_gwL : ∀ (ss : List KStmt) (g : GW), DictFlat g.dict → winFreshL ss g = true →
    DictFlat (gwL ss g).dict ∧ rootsDoneL ss g = true ∧ (gwL ss g).dict = tcL ss g.dict
  | [], g, hf, _ => by simp [gwL, rootsDoneL, tcL, hf]
  | s :: r, g, hf, hw => by
      simp only [winFreshL, Bool.and_eq_true] at hw
      obtain ⟨h1, h2, h3⟩ := flat_gwS s g hf hw.1
      obtain ⟨h4, h5, h6⟩ := flat_gwL r (gwS s g) h1 hw.2
      simp only [gwL, rootsDoneL, tcL, h2, h5, Bool.and_self, true_and]
      exact ⟨h4, by rw [h6, h3]⟩
end

end Exo.CIndex
