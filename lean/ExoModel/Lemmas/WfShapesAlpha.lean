/-
  Alpha-renaming preserves static well-formedness (C04).

  `alpha_wfL`: if `blockEq' ρc ρv B B' = true`, `B` is well formed in `Γ`, the environments
  correspond through the renamings (`EnvRen ρc ρv Γ Γ'`) and every binder of `B'` (callee bodies
  included) is fresh where it is bound (`scopeL (names of Γ') B'` succeeds), then `B'` is well
  formed in `Γ'`.  The scope hypothesis is necessary (`scope_of_wf`: it follows from well-formedness
  of `B'`) and cannot be dropped (`alpha_wf_needs_scope`: alpha-equality accepts a loop whose
  iterator shadows a name of the environment, `wfS` does not).
-/
import ExoModel.AlphaEq
import ExoModel.Lemmas.WfShapesBase

set_option linter.unusedSectionVars false
namespace Exo.WfShapes
open Exo Exo.Wf Exo.Rw

/-! ### `symEq` -/

theorem symEq_nil_iff (a b : Sym) : symEq [] a b = true ↔ a = b := by simp [symEq]

theorem symEq_cons_if (x y : Sym) (ρ : Ren) (a b : Sym) :
    symEq ((x, y) :: ρ) a b
      = if (x == a || y == b) = true then (x == a && y == b) else symEq ρ a b := by
  unfold symEq
  rw [List.find?_cons]
  cases h : (x == a || y == b) <;> simp

theorem symEq_cons_iff (x y : Sym) (ρ : Ren) (a b : Sym) :
    symEq ((x, y) :: ρ) a b = true ↔
      (a = x ∧ b = y) ∨ (a ≠ x ∧ b ≠ y ∧ symEq ρ a b = true) := by
  rw [symEq_cons_if]
  by_cases h1 : x = a
  · by_cases h2 : y = b
    · simp [h1, h2]
    · have h2' : ¬ b = y := fun e => h2 e.symm
      simp [h1, h2, h2']
  · have h1' : ¬ a = x := fun e => h1 e.symm
    by_cases h2 : y = b
    · simp [h1, h2, h1']
    · have h2' : ¬ b = y := fun e => h2 e.symm
      simp [h1, h2, h1', h2']

/-! ### correspondence of the static environments through the renamings -/

/-- a control variable of `Γ` is compared only with control variables of `Γ'`, a buffer of rank
    `n` only with buffers of rank `n` -/
def EnvRen (ρc ρv : Ren) (Γ Γ' : Env) : Prop :=
  (∀ x y, symEq ρc x y = true → isCtrl Γ x = true → isCtrl Γ' y = true) ∧
  (∀ x y n, symEq ρv x y = true → rankOf Γ x = some n → rankOf Γ' y = some n)

theorem EnvRen.refl (Γ : Env) : EnvRen [] [] Γ Γ := by
  refine ⟨fun x y h hc => ?_, fun x y n h hr => ?_⟩
  · rw [symEq_nil_iff] at h; subst h; exact hc
  · rw [symEq_nil_iff] at h; subst h; exact hr

/-- entering a pair of loops: the right iterator must be fresh in `Γ'` -/
theorem EnvRen.pushCtrl {ρc ρv : Ren} {Γ Γ' : Env} (h : EnvRen ρc ρv Γ Γ') (i i' : Sym)
    (hf : lookup i' Γ' = none) :
    EnvRen ((i, i') :: ρc) ρv ((i, none) :: Γ) ((i', none) :: Γ') := by
  refine ⟨fun x y hs hc => ?_, fun x y n hs hr => ?_⟩
  · rw [symEq_cons_iff] at hs
    rw [isCtrl_iff, lookup_cons] at hc ⊢
    rcases hs with ⟨rfl, rfl⟩ | ⟨hx, hy, hs⟩
    · simp
    · rw [if_neg hx] at hc
      rw [if_neg hy]
      exact (isCtrl_iff _ _).1 (h.1 x y hs ((isCtrl_iff _ _).2 hc))
  · rw [rankOf_iff, lookup_cons] at hr ⊢
    by_cases hx : x = i
    · rw [if_pos hx] at hr; cases hr
    · rw [if_neg hx] at hr
      have h2 := (rankOf_iff _ _ _).1 (h.2 x y n hs ((rankOf_iff _ _ _).2 hr))
      have hy : y ≠ i' := by
        intro e; rw [e, hf] at h2; cases h2
      rw [if_neg hy]; exact h2

/-- passing a pair of definitions (`alloc` / window statement): the right name must be fresh -/
theorem EnvRen.pushView {ρc ρv : Ren} {Γ Γ' : Env} (h : EnvRen ρc ρv Γ Γ') (x y : Sym) (n : Nat)
    (hf : lookup y Γ' = none) :
    EnvRen ρc ((x, y) :: ρv) ((x, some n) :: Γ) ((y, some n) :: Γ') := by
  refine ⟨fun a b hs hc => ?_, fun a b m hs hr => ?_⟩
  · rw [isCtrl_iff, lookup_cons] at hc ⊢
    by_cases ha : a = x
    · rw [if_pos ha] at hc; cases hc
    · rw [if_neg ha] at hc
      have h2 := (isCtrl_iff _ _).1 (h.1 a b hs ((isCtrl_iff _ _).2 hc))
      have hb : b ≠ y := by
        intro e; rw [e, hf] at h2; cases h2
      rw [if_neg hb]; exact h2
  · rw [symEq_cons_iff] at hs
    rw [rankOf_iff, lookup_cons] at hr ⊢
    rcases hs with ⟨rfl, rfl⟩ | ⟨ha, hb, hs⟩
    · simpa using hr
    · rw [if_neg ha] at hr
      rw [if_neg hb]
      exact (rankOf_iff _ _ _).1 (h.2 a b m hs ((rankOf_iff _ _ _).2 hr))

/-! ### the scope skeleton: every binder is fresh where it is bound -/

theorem lookup_none_of_contains {Γ : Env} {x : Sym}
    (h : (!(Γ.map Prod.fst).contains x) = true) : lookup x Γ = none := by
  apply lookup_none_of_not_mem
  simpa using h

theorem contains_of_lookup_none {Γ : Env} {x : Sym} (h : lookup x Γ = none) :
    (!(Γ.map Prod.fst).contains x) = true := by
  cases hc : (Γ.map Prod.fst).contains x with
  | false => rfl
  | true =>
    exfalso
    rw [List.contains_iff_mem] at hc
    induction Γ with
    | nil => simp at hc
    | cons p Γ ih =>
      obtain ⟨y, k⟩ := p
      rw [lookup_cons] at h
      by_cases hx : x = y
      · rw [if_pos hx] at h; cases h
      · rw [if_neg hx] at h
        simp only [List.map_cons, List.mem_cons] at hc
        rcases hc with hc | hc
        · exact hx hc
        · exact ih h hc

/-! ### expressions -/

theorem exprsEq'_length {c : Bool} {ρc ρv : Ren} : ∀ (a b : List Expr),
    exprsEq' c ρc ρv a b = true → a.length = b.length
  | [], [], _ => rfl
  | [], _ :: _, h => by simp [exprsEq'] at h
  | _ :: _, [], h => by simp [exprsEq'] at h
  | _ :: r, _ :: r', h => by
    simp only [exprsEq', Bool.and_eq_true] at h
    simp [exprsEq'_length r r' h.2]

theorem waccsEq'_length {ρc ρv : Ren} : ∀ (a b : List WAcc),
    waccsEq' ρc ρv a b = true → a.length = b.length
  | [], [], _ => rfl
  | [], _ :: _, h => by simp [waccsEq'] at h
  | _ :: _, [], h => by simp [waccsEq'] at h
  | _ :: r, _ :: r', h => by
    simp only [waccsEq', Bool.and_eq_true] at h
    simp [waccsEq'_length r r' h.2]

section
variable {ρc ρv : Ren} {Γ Γ' : Env} (hr : EnvRen ρc ρv Γ Γ')
include hr

theorem alpha_wfC : ∀ (e e' : Expr), exprEq' true ρc ρv e e' = true → wfC Γ e = true →
    wfC Γ' e' = true
  | .read x i, e', h, hw => by
    cases e' with
    | read y j =>
      simp only [exprEq', if_true, Bool.and_eq_true] at h
      simp only [wfC, Bool.and_eq_true] at hw ⊢
      refine ⟨hr.1 x y h.1 hw.1, ?_⟩
      have := exprsEq'_length i j h.2
      cases i with
      | nil => cases j with
        | nil => rfl
        | cons _ _ => simp at this
      | cons _ _ => simp at hw
    | _ => simp [exprEq'] at h
  | .lit a, e', h, hw => by
    cases e' with
    | lit b =>
      simp only [exprEq', beq_iff_eq] at h
      subst h
      cases a <;> simp_all [wfC]
    | _ => simp [exprEq'] at h
  | .usub a, e', h, hw => by
    cases e' with
    | usub b =>
      simp only [exprEq'] at h
      simp only [wfC] at hw ⊢
      exact alpha_wfC a b h hw
    | _ => simp [exprEq'] at h
  | .binop o a b, e', h, hw => by
    cases e' with
    | binop o' a' b' =>
      simp only [exprEq', Bool.and_eq_true] at h
      simp only [wfC, Bool.and_eq_true] at hw ⊢
      exact ⟨alpha_wfC a a' h.1.2 hw.1, alpha_wfC b b' h.2 hw.2⟩
    | _ => simp [exprEq'] at h
  | .extern f a, _, _, hw => by simp [wfC] at hw
  | .win x a, _, _, hw => by simp [wfC] at hw
  | .stride x d, e', h, hw => by
    cases e' with
    | stride y d' =>
      simp only [exprEq', Bool.and_eq_true, beq_iff_eq] at h
      obtain ⟨hs, rfl⟩ := h
      simp only [wfC] at hw ⊢
      cases hx : rankOf Γ x with
      | none => rw [hx] at hw; simp at hw
      | some n =>
        rw [hx] at hw
        rw [hr.2 x y n hs hx]
        exact hw
    | _ => simp [exprEq'] at h
  | .readcfg c f, e', h, _ => by
    cases e' with
    | readcfg c' f' => simp [wfC]
    | _ => simp [exprEq'] at h

theorem alpha_wfCs : ∀ (es es' : List Expr), exprsEq' true ρc ρv es es' = true →
    wfCs Γ es = true → wfCs Γ' es' = true
  | [], [], _, _ => rfl
  | [], _ :: _, h, _ => by simp [exprsEq'] at h
  | _ :: _, [], h, _ => by simp [exprsEq'] at h
  | a :: r, b :: r', h, hw => by
    simp only [exprsEq', Bool.and_eq_true] at h
    simp only [wfCs, Bool.and_eq_true] at hw ⊢
    exact ⟨alpha_wfC hr a b h.1 hw.1, alpha_wfCs r r' h.2 hw.2⟩

mutual
theorem alpha_wfD : ∀ (e e' : Expr), exprEq' false ρc ρv e e' = true → wfD Γ e = true →
    wfD Γ' e' = true
  | .read x i, e', h, hw => by
    cases e' with
    | read y j =>
      simp only [exprEq', Bool.false_eq_true, if_false, Bool.and_eq_true] at h
      simp only [wfD] at hw ⊢
      cases hx : rankOf Γ x with
      | none => rw [hx] at hw; simp at hw
      | some n =>
        rw [hx] at hw
        rw [hr.2 x y n h.1 hx]
        simp only [Bool.and_eq_true, beq_iff_eq] at hw ⊢
        exact ⟨by rw [← exprsEq'_length i j h.2]; exact hw.1, alpha_wfCs hr i j h.2 hw.2⟩
    | _ => simp [exprEq'] at h
  | .lit a, e', h, hw => by
    cases e' with
    | lit b =>
      simp only [exprEq', beq_iff_eq] at h
      subst h
      cases a <;> simp_all [wfD]
    | _ => simp [exprEq'] at h
  | .usub a, e', h, hw => by
    cases e' with
    | usub b =>
      simp only [exprEq'] at h
      simp only [wfD] at hw ⊢
      exact alpha_wfD a b h hw
    | _ => simp [exprEq'] at h
  | .binop o a b, e', h, hw => by
    cases e' with
    | binop o' a' b' =>
      simp only [exprEq', Bool.and_eq_true, beq_iff_eq] at h
      obtain ⟨⟨rfl, ha⟩, hb⟩ := h
      simp only [wfD, Bool.and_eq_true] at hw ⊢
      exact ⟨⟨hw.1.1, alpha_wfD a a' ha hw.1.2⟩, alpha_wfD b b' hb hw.2⟩
    | _ => simp [exprEq'] at h
  | .extern f a, e', h, hw => by
    cases e' with
    | extern g b =>
      simp only [exprEq', Bool.and_eq_true] at h
      simp only [wfD] at hw ⊢
      exact alpha_wfDs a b h.2 hw
    | _ => simp [exprEq'] at h
  | .win x a, _, _, hw => by simp [wfD] at hw
  | .stride x d, _, _, hw => by simp [wfD] at hw
  | .readcfg c f, e', h, _ => by
    cases e' with
    | readcfg c' f' => simp [wfD]
    | _ => simp [exprEq'] at h
theorem alpha_wfDs : ∀ (es es' : List Expr), exprsEq' false ρc ρv es es' = true →
    wfDs Γ es = true → wfDs Γ' es' = true
  | [], [], _, _ => by simp [wfDs]
  | [], _ :: _, h, _ => by simp [exprsEq'] at h
  | _ :: _, [], h, _ => by simp [exprsEq'] at h
  | a :: r, b :: r', h, hw => by
    simp only [exprsEq', Bool.and_eq_true] at h
    simp only [wfDs, Bool.and_eq_true] at hw ⊢
    exact ⟨alpha_wfD a b h.1 hw.1, alpha_wfDs r r' h.2 hw.2⟩
end

theorem alpha_wfAcc : ∀ (w w' : WAcc), waccEq' ρc ρv w w' = true → wfAcc Γ w = true →
    wfAcc Γ' w' = true
  | .point a, .point b, h, hw => by
    simp only [waccEq'] at h
    simp only [wfAcc] at hw ⊢
    exact alpha_wfC hr a b h hw
  | .interval a b, .interval a' b', h, hw => by
    simp only [waccEq', Bool.and_eq_true] at h
    simp only [wfAcc, Bool.and_eq_true] at hw ⊢
    exact ⟨alpha_wfC hr a a' h.1 hw.1, alpha_wfC hr b b' h.2 hw.2⟩
  | .point _, .interval _ _, h, _ => by simp [waccEq'] at h
  | .interval _ _, .point _, h, _ => by simp [waccEq'] at h

theorem alpha_wfAccs : ∀ (ws ws' : List WAcc), waccsEq' ρc ρv ws ws' = true →
    wfAccs Γ ws = true → wfAccs Γ' ws' = true
  | [], [], _, _ => rfl
  | [], _ :: _, h, _ => by simp [waccsEq'] at h
  | _ :: _, [], h, _ => by simp [waccsEq'] at h
  | a :: r, b :: r', h, hw => by
    simp only [waccsEq', Bool.and_eq_true] at h
    simp only [wfAccs, Bool.and_eq_true] at hw ⊢
    exact ⟨alpha_wfAcc hr a b h.1 hw.1, alpha_wfAccs r r' h.2 hw.2⟩

omit hr in
theorem alpha_accRank : ∀ (ws ws' : List WAcc), waccsEq' ρc ρv ws ws' = true →
    accRank ws = accRank ws'
  | [], [], _ => rfl
  | [], _ :: _, h => by simp [waccsEq'] at h
  | _ :: _, [], h => by simp [waccsEq'] at h
  | .point _ :: r, .point _ :: r', h => by
    simp only [waccsEq', Bool.and_eq_true] at h
    simp only [accRank]
    exact alpha_accRank r r' h.2
  | .interval _ _ :: r, .interval _ _ :: r', h => by
    simp only [waccsEq', Bool.and_eq_true] at h
    simp only [accRank]
    rw [alpha_accRank r r' h.2]
  | .point _ :: _, .interval _ _ :: _, h => by simp [waccsEq', waccEq'] at h
  | .interval _ _ :: _, .point _ :: _, h => by simp [waccsEq', waccEq'] at h

theorem alpha_viewRank (e e' : Expr) (n : Nat) (h : exprEq' false ρc ρv e e' = true)
    (hw : viewRank Γ e = some n) : viewRank Γ' e' = some n := by
  cases e with
  | read x i =>
    cases e' with
    | read y j =>
      simp only [exprEq', Bool.false_eq_true, if_false, Bool.and_eq_true] at h
      have hl := exprsEq'_length i j h.2
      cases i with
      | nil =>
        cases j with
        | nil =>
          simp only [viewRank] at hw ⊢
          exact hr.2 x y n h.1 hw
        | cons _ _ => simp at hl
      | cons i0 ir =>
        cases j with
        | nil => simp at hl
        | cons j0 jr =>
          simp only [viewRank] at hw ⊢
          cases hx : rankOf Γ x with
          | none => rw [hx] at hw; simp at hw
          | some m =>
            simp only [hx] at hw
            simp only [hr.2 x y m h.1 hx]
            split at hw
            · rename_i hc
              simp only [Bool.and_eq_true, beq_iff_eq] at hc
              have hc' : ((j0 :: jr).length == m && wfCs Γ' (j0 :: jr)) = true := by
                simp only [Bool.and_eq_true, beq_iff_eq]
                exact ⟨by rw [← hl]; exact hc.1, alpha_wfCs hr _ _ h.2 hc.2⟩
              simp only [hc', if_true]
              exact hw
            · cases hw
    | _ => simp [exprEq'] at h
  | win x a =>
    cases e' with
    | win y b =>
      simp only [exprEq', Bool.and_eq_true] at h
      simp only [viewRank] at hw ⊢
      cases hx : rankOf Γ x with
      | none => rw [hx] at hw; simp at hw
      | some m =>
        simp only [hx] at hw
        simp only [hr.2 x y m h.1 hx]
        split at hw
        · rename_i hc
          simp only [Bool.and_eq_true, beq_iff_eq] at hc
          have hc' : (b.length == m && wfAccs Γ' b) = true := by
            simp only [Bool.and_eq_true, beq_iff_eq]
            exact ⟨by rw [← waccsEq'_length a b h.2]; exact hc.1, alpha_wfAccs hr _ _ h.2 hc.2⟩
          simp only [hc', if_true]
          rw [← alpha_accRank a b h.2]
          exact hw
        · cases hw
    | _ => simp [exprEq'] at h
  | lit _ => simp [viewRank] at hw
  | usub _ => simp [viewRank] at hw
  | binop _ _ _ => simp [viewRank] at hw
  | extern _ _ => simp [viewRank] at hw
  | stride _ _ => simp [viewRank] at hw
  | readcfg _ _ => simp [viewRank] at hw

end

/-! ### formals and call arguments -/

theorem argTyEq'_rank (t t' : ArgTy) (h : argTyEq' t t' = true) : argRank t = argRank t' := by
  cases t with
  | ctrl k => cases t' <;> simp [argTyEq', argRank] at h ⊢
  | scalar => cases t' <;> simp [argTyEq', argRank] at h ⊢
  | tensor sh w =>
    cases t' with
    | tensor sh' w' =>
      simp only [argTyEq', Bool.and_eq_true] at h
      simp only [argRank]
      rw [exprsEq'_length sh sh' h.1]
    | _ => simp [argTyEq'] at h

theorem fnArgsEq'_formalsEnv : ∀ (fs gs : List FnArg), fnArgsEq' fs gs = true →
    formalsEnv fs = formalsEnv gs
  | [], [], _ => rfl
  | [], _ :: _, h => by simp [fnArgsEq'] at h
  | _ :: _, [], h => by simp [fnArgsEq'] at h
  | ⟨x, t⟩ :: r, ⟨y, t'⟩ :: r', h => by
    simp only [fnArgsEq', Bool.and_eq_true, beq_iff_eq] at h
    obtain ⟨⟨rfl, ht⟩, hr⟩ := h
    simp only [formalsEnv]
    rw [argTyEq'_rank t t' ht, fnArgsEq'_formalsEnv r r' hr]

theorem fnArgsEq'_allne (x : Sym) : ∀ (fs gs : List FnArg), fnArgsEq' fs gs = true →
    fs.all (fun a => a.name != x) = gs.all (fun a => a.name != x)
  | [], [], _ => rfl
  | [], _ :: _, h => by simp [fnArgsEq'] at h
  | _ :: _, [], h => by simp [fnArgsEq'] at h
  | ⟨z, t⟩ :: r, ⟨y, t'⟩ :: r', h => by
    simp only [fnArgsEq', Bool.and_eq_true, beq_iff_eq] at h
    obtain ⟨⟨rfl, _⟩, hr⟩ := h
    simp only [List.all_cons]
    rw [fnArgsEq'_allne x r r' hr]

theorem fnArgsEq'_distinct : ∀ (fs gs : List FnArg), fnArgsEq' fs gs = true →
    distinctFormals fs = distinctFormals gs
  | [], [], _ => rfl
  | [], _ :: _, h => by simp [fnArgsEq'] at h
  | _ :: _, [], h => by simp [fnArgsEq'] at h
  | ⟨x, t⟩ :: r, ⟨y, t'⟩ :: r', h => by
    have h0 := h
    simp only [fnArgsEq', Bool.and_eq_true, beq_iff_eq] at h
    obtain ⟨⟨rfl, _⟩, hr⟩ := h
    simp only [distinctFormals]
    rw [fnArgsEq'_allne x r r' hr, fnArgsEq'_distinct r r' hr]

theorem alpha_wfFormalShapes {Γ Γ' : Env} (hr : EnvRen [] [] Γ Γ') :
    ∀ (fs gs : List FnArg), fnArgsEq' fs gs = true → wfFormalShapes Γ fs = true →
      wfFormalShapes Γ' gs = true
  | [], [], _, _ => rfl
  | [], _ :: _, h, _ => by simp [fnArgsEq'] at h
  | _ :: _, [], h, _ => by simp [fnArgsEq'] at h
  | ⟨x, t⟩ :: r, ⟨y, t'⟩ :: r', h, hw => by
    simp only [fnArgsEq', Bool.and_eq_true] at h
    obtain ⟨⟨_, ht⟩, hrr⟩ := h
    cases t with
    | ctrl k =>
      cases t' with
      | ctrl k' =>
        simp only [wfFormalShapes] at hw ⊢
        exact alpha_wfFormalShapes hr r r' hrr hw
      | _ => simp [argTyEq'] at ht
    | scalar =>
      cases t' with
      | scalar =>
        simp only [wfFormalShapes] at hw ⊢
        exact alpha_wfFormalShapes hr r r' hrr hw
      | _ => simp [argTyEq'] at ht
    | tensor sh w =>
      cases t' with
      | tensor sh' w' =>
        simp only [argTyEq', Bool.and_eq_true] at ht
        simp only [wfFormalShapes, Bool.and_eq_true] at hw ⊢
        exact ⟨alpha_wfCs hr sh sh' ht.1 hw.1, alpha_wfFormalShapes hr r r' hrr hw.2⟩
      | _ => simp [argTyEq'] at ht

theorem alpha_wfCallArgs {ρc ρv : Ren} {Γ Γ' : Env} (hr : EnvRen ρc ρv Γ Γ') :
    ∀ (fs gs : List FnArg) (as bs : List Expr), fnArgsEq' fs gs = true →
      argsEq' ρc ρv fs as bs = true → wfCallArgs Γ fs as = true → wfCallArgs Γ' gs bs = true
  | [], [], [], [], _, _, _ => by simp [wfCallArgs]
  | [], [], [], _ :: _, _, h, _ => by simp [argsEq'] at h
  | [], [], _ :: _, _, _, _, hw => by simp [wfCallArgs] at hw
  | [], _ :: _, _, _, h, _, _ => by simp [fnArgsEq'] at h
  | _ :: _, [], _, _, h, _, _ => by simp [fnArgsEq'] at h
  | ⟨x, t⟩ :: fs, ⟨y, t'⟩ :: gs, [], _, _, _, hw => by cases t <;> simp [wfCallArgs] at hw
  | ⟨x, t⟩ :: fs, ⟨y, t'⟩ :: gs, _ :: _, [], _, h, _ => by cases t <;> simp [argsEq'] at h
  | ⟨x, t⟩ :: fs, ⟨y, t'⟩ :: gs, a :: as, b :: bs, hf, h, hw => by
    simp only [fnArgsEq', Bool.and_eq_true] at hf
    obtain ⟨⟨_, ht⟩, hrr⟩ := hf
    have hrk := argTyEq'_rank t t' ht
    cases t with
    | ctrl k =>
      cases t' with
      | ctrl k' =>
        simp only [argsEq', Bool.and_eq_true] at h
        simp only [wfCallArgs, Bool.and_eq_true] at hw ⊢
        exact ⟨alpha_wfC hr a b h.1 hw.1, alpha_wfCallArgs hr fs gs as bs hrr h.2 hw.2⟩
      | _ => simp [argTyEq'] at ht
    | scalar =>
      cases t' with
      | scalar =>
        simp only [argsEq', Bool.and_eq_true] at h
        simp only [wfCallArgs, argRank, Bool.and_eq_true, beq_iff_eq] at hw ⊢
        exact ⟨alpha_viewRank hr a b 0 h.1 hw.1, alpha_wfCallArgs hr fs gs as bs hrr h.2 hw.2⟩
      | _ => simp [argTyEq'] at ht
    | tensor sh w =>
      cases t' with
      | tensor sh' w' =>
        simp only [argsEq', Bool.and_eq_true] at h
        simp only [argRank, Option.some.injEq] at hrk
        simp only [wfCallArgs, argRank, Bool.and_eq_true, beq_iff_eq] at hw ⊢
        exact ⟨by rw [← hrk]; exact alpha_viewRank hr a b _ h.1 hw.1,
          alpha_wfCallArgs hr fs gs as bs hrr h.2 hw.2⟩
      | _ => simp [argTyEq'] at ht

theorem procEq'_args (f g : Proc) (h : procEq' f g = true) : fnArgsEq' f.args g.args = true := by
  cases f; cases g
  simp only [procEq', Bool.and_eq_true] at h
  exact h.1.1.2

theorem isSome_iff_exists {α} (o : Option α) : o.isSome = true ↔ ∃ a, o = some a := by
  cases o <;> simp

/-! ### statements, blocks, callees -/

mutual
theorem alpha_wfS_aux : ∀ (s s' : Stmt) (ρc ρv : Ren) (Γ Γ' Γ₁ : Env) (ρ₁ : Ren × Ren)
    (sc₁ : List Sym), EnvRen ρc ρv Γ Γ' → stmtEq' ρc ρv s s' = some ρ₁ → wfS Γ s = some Γ₁ →
    scopeS (Γ'.map Prod.fst) s' = some sc₁ →
    ∃ Γ₁', wfS Γ' s' = some Γ₁' ∧ EnvRen ρ₁.1 ρ₁.2 Γ₁ Γ₁' ∧ Γ₁'.map Prod.fst = sc₁
  | .assign x i e, s', ρc, ρv, Γ, Γ', Γ₁, ρ₁, sc₁, hr, h, hw, hs => by
    cases s' with
    | assign y j e' =>
      simp only [stmtEq'] at h
      split at h
      · rename_i hc
        cases h
        simp only [Bool.and_eq_true] at hc
        simp only [scopeS, Option.some.injEq] at hs
        subst hs
        simp only [wfS] at hw ⊢
        cases hx : rankOf Γ x with
        | none => simp [hx] at hw
        | some n =>
          simp only [hx] at hw
          split at hw
          · rename_i hc2
            cases hw
            simp only [Bool.and_eq_true, beq_iff_eq] at hc2
            have hc3 : (j.length == n && wfCs Γ' j && wfD Γ' e') = true := by
              simp only [Bool.and_eq_true, beq_iff_eq]
              exact ⟨⟨by rw [← exprsEq'_length i j hc.1.2]; exact hc2.1.1,
                alpha_wfCs hr i j hc.1.2 hc2.1.2⟩, alpha_wfD hr e e' hc.2 hc2.2⟩
            simp only [hr.2 x y n hc.1.1 hx, hc3, if_true]
            exact ⟨Γ', rfl, hr, rfl⟩
          · cases hw
      · cases h
    | _ => simp [stmtEq'] at h
  | .reduce x i e, s', ρc, ρv, Γ, Γ', Γ₁, ρ₁, sc₁, hr, h, hw, hs => by
    cases s' with
    | reduce y j e' =>
      simp only [stmtEq'] at h
      split at h
      · rename_i hc
        cases h
        simp only [Bool.and_eq_true] at hc
        simp only [scopeS, Option.some.injEq] at hs
        subst hs
        simp only [wfS] at hw ⊢
        cases hx : rankOf Γ x with
        | none => simp [hx] at hw
        | some n =>
          simp only [hx] at hw
          split at hw
          · rename_i hc2
            cases hw
            simp only [Bool.and_eq_true, beq_iff_eq] at hc2
            have hc3 : (j.length == n && wfCs Γ' j && wfD Γ' e') = true := by
              simp only [Bool.and_eq_true, beq_iff_eq]
              exact ⟨⟨by rw [← exprsEq'_length i j hc.1.2]; exact hc2.1.1,
                alpha_wfCs hr i j hc.1.2 hc2.1.2⟩, alpha_wfD hr e e' hc.2 hc2.2⟩
            simp only [hr.2 x y n hc.1.1 hx, hc3, if_true]
            exact ⟨Γ', rfl, hr, rfl⟩
          · cases hw
      · cases h
    | _ => simp [stmtEq'] at h
  | .writecfg c f e d, s', ρc, ρv, Γ, Γ', Γ₁, ρ₁, sc₁, hr, h, hw, hs => by
    cases s' with
    | writecfg c' f' e' d' =>
      simp only [stmtEq'] at h
      split at h
      · rename_i hc
        cases h
        simp only [Bool.and_eq_true, beq_iff_eq] at hc
        obtain ⟨⟨⟨_, _⟩, rfl⟩, he⟩ := hc
        simp only [scopeS, Option.some.injEq] at hs
        subst hs
        cases d with
        | false =>
          simp only [Bool.not_false] at he
          simp only [wfS, Bool.false_eq_true, if_false] at hw ⊢
          split at hw
          · rename_i hc2
            cases hw
            simp only [alpha_wfC hr e e' he hc2, if_true]
            exact ⟨Γ', rfl, hr, rfl⟩
          · cases hw
        | true =>
          simp only [Bool.not_true] at he
          simp only [wfS, if_true] at hw ⊢
          split at hw
          · rename_i hc2
            cases hw
            simp only [alpha_wfD hr e e' he hc2, if_true]
            exact ⟨Γ', rfl, hr, rfl⟩
          · cases hw
      · cases h
    | _ => simp [stmtEq'] at h
  | .pass, s', ρc, ρv, Γ, Γ', Γ₁, ρ₁, sc₁, hr, h, hw, hs => by
    cases s' with
    | pass =>
      simp only [stmtEq', Option.some.injEq] at h
      subst h
      simp only [scopeS, Option.some.injEq] at hs
      subst hs
      simp only [wfS, Option.some.injEq] at hw
      subst hw
      exact ⟨Γ', by simp [wfS], hr, rfl⟩
    | _ => simp [stmtEq'] at h
  | .ite c t e, s', ρc, ρv, Γ, Γ', Γ₁, ρ₁, sc₁, hr, h, hw, hs => by
    cases s' with
    | ite c' t' e' =>
      simp only [stmtEq'] at h
      split at h
      · rename_i hc
        cases h
        simp only [Bool.and_eq_true] at hc
        simp only [scopeS] at hs
        split at hs
        · rename_i hsc
          cases hs
          simp only [Bool.and_eq_true, isSome_iff_exists] at hsc
          obtain ⟨⟨st, hst⟩, ⟨se, hse⟩⟩ := hsc
          simp only [wfS] at hw ⊢
          split at hw
          · rename_i hc2
            cases hw
            simp only [Bool.and_eq_true, isSome_iff_exists] at hc2
            obtain ⟨⟨hcw, ⟨Γt, hΓt⟩⟩, ⟨Γe, hΓe⟩⟩ := hc2
            have hc3 : (wfC Γ' c' && (wfL Γ' t').isSome && (wfL Γ' e').isSome) = true := by
              simp only [Bool.and_eq_true]
              exact ⟨⟨alpha_wfC hr c c' hc.1.1 hcw,
                alpha_wfL_aux t t' ρc ρv Γ Γ' Γt st hr hc.1.2 hΓt hst⟩,
                alpha_wfL_aux e e' ρc ρv Γ Γ' Γe se hr hc.2 hΓe hse⟩
            simp only [hc3, if_true]
            exact ⟨Γ', rfl, hr, rfl⟩
          · cases hw
        · cases hs
      · cases h
    | _ => simp [stmtEq'] at h
  | .loop i lo hi b par, s', ρc, ρv, Γ, Γ', Γ₁, ρ₁, sc₁, hr, h, hw, hs => by
    cases s' with
    | loop i' lo' hi' b' par' =>
      simp only [stmtEq'] at h
      split at h
      · rename_i hc
        cases h
        simp only [Bool.and_eq_true] at hc
        simp only [scopeS] at hs
        split at hs
        · rename_i hsc
          cases hs
          simp only [Bool.and_eq_true, isSome_iff_exists] at hsc
          obtain ⟨hfr, ⟨sb, hsb⟩⟩ := hsc
          have hfr' := lookup_none_of_contains hfr
          simp only [wfS] at hw ⊢
          split at hw
          · rename_i hc2
            cases hw
            simp only [Bool.and_eq_true, isSome_iff_exists] at hc2
            obtain ⟨⟨⟨_, hlo⟩, hhi⟩, ⟨Γb, hΓb⟩⟩ := hc2
            have hc3 : (fresh Γ' i' && wfC Γ' lo' && wfC Γ' hi'
                && (wfL ((i', none) :: Γ') b').isSome) = true := by
              simp only [Bool.and_eq_true]
              exact ⟨⟨⟨(fresh_iff _ _).2 hfr', alpha_wfC hr lo lo' hc.1.1.1 hlo⟩,
                alpha_wfC hr hi hi' hc.1.1.2 hhi⟩,
                alpha_wfL_aux b b' ((i, i') :: ρc) ρv ((i, none) :: Γ) ((i', none) :: Γ') Γb sb
                  (hr.pushCtrl i i' hfr') hc.2 hΓb hsb⟩
            simp only [hc3, if_true]
            exact ⟨Γ', rfl, hr, rfl⟩
          · cases hw
        · cases hs
      · cases h
    | _ => simp [stmtEq'] at h
  | .alloc x sh, s', ρc, ρv, Γ, Γ', Γ₁, ρ₁, sc₁, hr, h, hw, hs => by
    cases s' with
    | alloc y sh' =>
      simp only [stmtEq'] at h
      split at h
      · rename_i hc
        cases h
        simp only [scopeS] at hs
        split at hs
        · rename_i hfr
          cases hs
          have hfr' := lookup_none_of_contains hfr
          simp only [wfS] at hw ⊢
          split at hw
          · rename_i hc2
            cases hw
            simp only [Bool.and_eq_true] at hc2
            have hc3 : (fresh Γ' y && wfCs Γ' sh') = true := by
              simp only [Bool.and_eq_true]
              exact ⟨(fresh_iff _ _).2 hfr', alpha_wfCs hr sh sh' hc hc2.2⟩
            simp only [hc3, if_true]
            refine ⟨_, rfl, ?_, rfl⟩
            rw [← exprsEq'_length sh sh' hc]
            exact hr.pushView x y sh.length hfr'
          · cases hw
        · cases hs
      · cases h
    | _ => simp [stmtEq'] at h
  | .free x, s', ρc, ρv, Γ, Γ', Γ₁, ρ₁, sc₁, hr, h, hw, hs => by
    cases s' with
    | free y =>
      simp only [stmtEq'] at h
      split at h
      · rename_i hc
        cases h
        simp only [scopeS, Option.some.injEq] at hs
        subst hs
        simp only [wfS] at hw ⊢
        split at hw
        · rename_i hc2
          cases hw
          rw [isSome_iff_exists] at hc2
          obtain ⟨n, hn⟩ := hc2
          have hc3 : (rankOf Γ' y).isSome = true := by
            rw [hr.2 x y n hc hn]; rfl
          simp only [hc3, if_true]
          exact ⟨Γ', rfl, hr, rfl⟩
        · cases hw
      · cases h
    | _ => simp [stmtEq'] at h
  | .call f a, s', ρc, ρv, Γ, Γ', Γ₁, ρ₁, sc₁, hr, h, hw, hs => by
    cases s' with
    | call g b =>
      simp only [stmtEq'] at h
      split at h
      · rename_i hc
        cases h
        simp only [Bool.and_eq_true] at hc
        simp only [scopeS] at hs
        split at hs
        · rename_i hsc
          cases hs
          simp only [wfS] at hw ⊢
          split at hw
          · rename_i hc2
            cases hw
            simp only [Bool.and_eq_true] at hc2
            have hc3 : (wfP g && wfCallArgs Γ' g.args b) = true := by
              simp only [Bool.and_eq_true]
              exact ⟨alpha_wfP f g hc.1 hc2.1 hsc,
                alpha_wfCallArgs hr f.args g.args a b (procEq'_args f g hc.1) hc.2 hc2.2⟩
            simp only [hc3, if_true]
            exact ⟨Γ', rfl, hr, rfl⟩
          · cases hw
        · cases hs
      · cases h
    | _ => simp [stmtEq'] at h
  | .window x e, s', ρc, ρv, Γ, Γ', Γ₁, ρ₁, sc₁, hr, h, hw, hs => by
    cases s' with
    | window y e' =>
      simp only [stmtEq'] at h
      split at h
      · rename_i hc
        cases h
        simp only [scopeS] at hs
        split at hs
        · rename_i hfr
          cases hs
          have hfr' := lookup_none_of_contains hfr
          simp only [wfS] at hw ⊢
          cases hv : viewRank Γ e with
          | none => simp [hv] at hw
          | some n =>
            simp only [hv] at hw
            split at hw
            · cases hw
              simp only [alpha_viewRank hr e e' n hc hv, (fresh_iff _ _).2 hfr', if_true]
              exact ⟨_, rfl, hr.pushView x y n hfr', rfl⟩
            · cases hw
        · cases hs
      · cases h
    | _ => simp [stmtEq'] at h
theorem alpha_wfL_aux : ∀ (B B' : List Stmt) (ρc ρv : Ren) (Γ Γ' Γ₁ : Env) (sc₁ : List Sym),
    EnvRen ρc ρv Γ Γ' → blockEq' ρc ρv B B' = true → wfL Γ B = some Γ₁ →
    scopeL (Γ'.map Prod.fst) B' = some sc₁ → (wfL Γ' B').isSome = true
  | [], [], _, _, _, _, _, _, _, _, _, _ => by simp [wfL]
  | [], _ :: _, _, _, _, _, _, _, _, h, _, _ => by simp [blockEq'] at h
  | _ :: _, [], _, _, _, _, _, _, _, h, _, _ => by simp [blockEq'] at h
  | s :: r, s' :: r', ρc, ρv, Γ, Γ', Γ₁, sc₁, hr, h, hw, hs => by
    simp only [blockEq'] at h
    cases h1 : stmtEq' ρc ρv s s' with
    | none => simp [h1] at h
    | some ρ₁ =>
      simp only [h1] at h
      simp only [wfL] at hw
      cases h2 : wfS Γ s with
      | none => simp [h2] at hw
      | some Γ₂ =>
        simp only [h2] at hw
        simp only [scopeL] at hs
        cases h3 : scopeS (Γ'.map Prod.fst) s' with
        | none => simp [h3] at hs
        | some sc₂ =>
          simp only [h3] at hs
          obtain ⟨Γ₂', hw', hr', hn⟩ := alpha_wfS_aux s s' ρc ρv Γ Γ' Γ₂ ρ₁ sc₂ hr h1 h2 h3
          simp only [wfL, hw']
          exact alpha_wfL_aux r r' ρ₁.1 ρ₁.2 Γ₂ Γ₂' Γ₁ sc₁ hr' h hw (by rw [hn]; exact hs)
theorem alpha_wfP : ∀ (f g : Proc), procEq' f g = true → wfP f = true → scopeP g = true →
    wfP g = true
  | .mk n fs ps b, .mk n' gs ps' b', h, hw, hs => by
    simp only [procEq', Bool.and_eq_true] at h
    obtain ⟨⟨⟨_, hf⟩, hp⟩, hb⟩ := h
    have hE := fnArgsEq'_formalsEnv fs gs hf
    simp only [scopeP, ← hE, isSome_iff_exists] at hs
    obtain ⟨sc, hsc⟩ := hs
    simp only [wfP, Bool.and_eq_true, isSome_iff_exists] at hw
    obtain ⟨⟨⟨hd, hsh⟩, hpr⟩, ⟨Γb, hΓb⟩⟩ := hw
    have hr := EnvRen.refl (formalsEnv fs)
    simp only [wfP, ← hE, Bool.and_eq_true]
    exact ⟨⟨⟨by rw [← fnArgsEq'_distinct fs gs hf]; exact hd,
      alpha_wfFormalShapes hr fs gs hf hsh⟩, alpha_wfCs hr ps ps' hp hpr⟩,
      alpha_wfL_aux b b' [] [] _ _ Γb sc hr hb hΓb hsc⟩
end

/-- **alpha-renaming preserves well-formedness.**  `B'` is alpha-equal to `B` under `ρc`/`ρv`,
    `B` is well formed in `Γ`, the environments correspond through the renamings, and every
    binder of `B'` is fresh where it is bound: then `B'` is well formed in `Γ'`. -/
theorem alpha_wfL (ρc ρv : Ren) (Γ Γ' Γ₁ : Env) (B B' : List Stmt) (hren : EnvRen ρc ρv Γ Γ')
    (hα : blockEq' ρc ρv B B' = true) (hw : wfL Γ B = some Γ₁)
    (hsc : (scopeL (Γ'.map Prod.fst) B').isSome = true) : (wfL Γ' B').isSome = true := by
  obtain ⟨sc, hsc⟩ := (isSome_iff_exists _).1 hsc
  exact alpha_wfL_aux B B' ρc ρv Γ Γ' Γ₁ sc hren hα hw hsc

/-- the instance used by the tie: same environment, empty renamings -/
theorem alpha_wfL_top (Γ Γ₁ : Env) (B B' : List Stmt) (hα : alphaEqBlocks' B B' = true)
    (hw : wfL Γ B = some Γ₁) (hsc : (scopeL (Γ.map Prod.fst) B').isSome = true) :
    (wfL Γ B').isSome = true :=
  alpha_wfL [] [] Γ Γ Γ₁ B B' (EnvRen.refl Γ) hα hw hsc

/-- one statement: the environments after the pair correspond through the extended renamings -/
theorem alpha_wfS (ρc ρv : Ren) (Γ Γ' Γ₁ : Env) (s s' : Stmt) (ρ₁ : Ren × Ren)
    (hren : EnvRen ρc ρv Γ Γ') (hα : stmtEq' ρc ρv s s' = some ρ₁) (hw : wfS Γ s = some Γ₁)
    (hsc : (scopeS (Γ'.map Prod.fst) s').isSome = true) :
    ∃ Γ₁', wfS Γ' s' = some Γ₁' ∧ EnvRen ρ₁.1 ρ₁.2 Γ₁ Γ₁' := by
  obtain ⟨sc, hsc⟩ := (isSome_iff_exists _).1 hsc
  obtain ⟨Γ₁', h1, h2, _⟩ := alpha_wfS_aux s s' ρc ρv Γ Γ' Γ₁ ρ₁ sc hren hα hw hsc
  exact ⟨Γ₁', h1, h2⟩

/-! ### the scope hypothesis is necessary: it follows from well-formedness -/

mutual
theorem scopeS_of_wf : ∀ (s : Stmt) (Γ Γ₁ : Env), wfS Γ s = some Γ₁ →
    scopeS (Γ.map Prod.fst) s = some (Γ₁.map Prod.fst)
  | .assign x i e, Γ, Γ₁, hw => by
    obtain ⟨D, rfl, hD, _⟩ := wfS_shape Γ Γ₁ _ hw
    simp only [defName, List.map_eq_nil_iff] at hD
    subst hD
    simp [scopeS]
  | .reduce x i e, Γ, Γ₁, hw => by
    obtain ⟨D, rfl, hD, _⟩ := wfS_shape Γ Γ₁ _ hw
    simp only [defName, List.map_eq_nil_iff] at hD
    subst hD
    simp [scopeS]
  | .writecfg c f e d, Γ, Γ₁, hw => by
    obtain ⟨D, rfl, hD, _⟩ := wfS_shape Γ Γ₁ _ hw
    simp only [defName, List.map_eq_nil_iff] at hD
    subst hD
    simp [scopeS]
  | .pass, Γ, Γ₁, hw => by
    obtain ⟨D, rfl, hD, _⟩ := wfS_shape Γ Γ₁ _ hw
    simp only [defName, List.map_eq_nil_iff] at hD
    subst hD
    simp [scopeS]
  | .free x, Γ, Γ₁, hw => by
    obtain ⟨D, rfl, hD, _⟩ := wfS_shape Γ Γ₁ _ hw
    simp only [defName, List.map_eq_nil_iff] at hD
    subst hD
    simp [scopeS]
  | .ite c t e, Γ, Γ₁, hw => by
    simp only [wfS] at hw
    split at hw
    · rename_i hc
      cases hw
      simp only [Bool.and_eq_true, isSome_iff_exists] at hc
      obtain ⟨⟨_, ⟨Γt, hΓt⟩⟩, ⟨Γe, hΓe⟩⟩ := hc
      simp [scopeS, scopeL_of_wf t Γ Γt hΓt, scopeL_of_wf e Γ Γe hΓe]
    · cases hw
  | .loop i lo hi b par, Γ, Γ₁, hw => by
    simp only [wfS] at hw
    split at hw
    · rename_i hc
      cases hw
      simp only [Bool.and_eq_true, isSome_iff_exists] at hc
      obtain ⟨⟨⟨hfr, _⟩, _⟩, ⟨Γb, hΓb⟩⟩ := hc
      have h1 := contains_of_lookup_none ((fresh_iff _ _).1 hfr)
      have h2 := scopeL_of_wf b ((i, none) :: Γ) Γb hΓb
      simp only [List.map_cons] at h2
      simp only [scopeS, h1, h2, Option.isSome_some, Bool.and_self, if_true]
    · cases hw
  | .alloc x sh, Γ, Γ₁, hw => by
    simp only [wfS] at hw
    split at hw
    · rename_i hc
      cases hw
      simp only [Bool.and_eq_true] at hc
      have h1 := contains_of_lookup_none ((fresh_iff _ _).1 hc.1)
      simp only [scopeS, h1, if_true, List.map_cons]
    · cases hw
  | .call f a, Γ, Γ₁, hw => by
    simp only [wfS] at hw
    split at hw
    · rename_i hc
      cases hw
      simp only [Bool.and_eq_true] at hc
      simp only [scopeS, scopeP_of_wf f hc.1, if_true]
    · cases hw
  | .window x e, Γ, Γ₁, hw => by
    simp only [wfS] at hw
    cases hv : viewRank Γ e with
    | none => simp [hv] at hw
    | some n =>
      simp only [hv] at hw
      split at hw
      · rename_i hfr
        cases hw
        have h1 := contains_of_lookup_none ((fresh_iff _ _).1 hfr)
        simp only [scopeS, h1, if_true, List.map_cons]
      · cases hw
theorem scopeL_of_wf : ∀ (B : List Stmt) (Γ Γ₁ : Env), wfL Γ B = some Γ₁ →
    scopeL (Γ.map Prod.fst) B = some (Γ₁.map Prod.fst)
  | [], Γ, Γ₁, hw => by
    simp only [wfL, Option.some.injEq] at hw
    subst hw
    simp [scopeL]
  | s :: r, Γ, Γ₁, hw => by
    simp only [wfL] at hw
    cases h2 : wfS Γ s with
    | none => simp [h2] at hw
    | some Γ₂ =>
      simp only [h2] at hw
      simp only [scopeL, scopeS_of_wf s Γ Γ₂ h2]
      exact scopeL_of_wf r Γ₂ Γ₁ hw
theorem scopeP_of_wf : ∀ (f : Proc), wfP f = true → scopeP f = true
  | .mk n fs ps b, hw => by
    simp only [wfP, Bool.and_eq_true, isSome_iff_exists] at hw
    obtain ⟨_, ⟨Γb, hΓb⟩⟩ := hw
    simp only [scopeP, scopeL_of_wf b _ Γb hΓb, Option.isSome_some]
end

/-- **necessity**: a well-formed block passes the scope check, so `alpha_wfL` assumes about `B'`
    nothing that its conclusion does not imply -/
theorem scope_of_wf (Γ Γ₁ : Env) (B : List Stmt) (hw : wfL Γ B = some Γ₁) :
    (scopeL (Γ.map Prod.fst) B).isSome = true := by
  rw [scopeL_of_wf B Γ Γ₁ hw]; rfl

/-- alpha-equal to a well-formed block: well formed iff the binders are fresh where bound -/
theorem alpha_wfL_iff (Γ Γ₁ : Env) (B B' : List Stmt) (hα : alphaEqBlocks' B B' = true)
    (hw : wfL Γ B = some Γ₁) :
    (wfL Γ B').isSome = true ↔ (scopeL (Γ.map Prod.fst) B').isSome = true := by
  refine ⟨fun h => ?_, alpha_wfL_top Γ Γ₁ B B' hα hw⟩
  obtain ⟨Γ₂, h2⟩ := (isSome_iff_exists _).1 h
  exact scope_of_wf Γ Γ₂ B' h2

/-! ### examples and counter-examples -/

namespace AlphaWfEx
def i : Sym := ⟨"i", 1⟩
def n : Sym := ⟨"n", 2⟩
def x : Sym := ⟨"x", 3⟩
def y : Sym := ⟨"y", 4⟩
def one : Expr := .lit (.int 1)
/-- `for i in (0, n): x : R[n]; x[i] = 1` -/
def B : List Stmt :=
  [.loop i (.lit (.int 0)) (.read n []) [.alloc x [.read n []], .assign x [.read i []] one] false]
/-- the same with the iterator named `y` and the buffer named `i` -/
def B' : List Stmt :=
  [.loop y (.lit (.int 0)) (.read n []) [.alloc i [.read n []], .assign i [.read y []] one] false]
def Γ : Env := [(n, none)]
def callee (it : Sym) : Proc := .mk "f" [⟨n, .ctrl .size⟩] [] [.loop it (.lit (.int 0)) (.read n []) [.pass] false]
end AlphaWfEx

/-- the hypotheses of `alpha_wfL_top` are satisfiable on a block with a loop, an allocation and
    uses of both (non-vacuity) -/
example : alphaEqBlocks' AlphaWfEx.B AlphaWfEx.B' = true ∧
    (wfL AlphaWfEx.Γ AlphaWfEx.B).isSome = true ∧
    (scopeL (AlphaWfEx.Γ.map Prod.fst) AlphaWfEx.B').isSome = true := by decide +kernel

/-- **the scope hypothesis cannot be dropped**: `for i in (0, 1): pass` and `for n in (0, 1): pass`
    are alpha-equal (`symEq` treats the shadowing soundly), the first is well formed where `n` is
    a size, the second is not (`n` is declared twice) -/
theorem alpha_wf_needs_scope :
    alphaEqBlocks' [.loop AlphaWfEx.i (.lit (.int 0)) AlphaWfEx.one [.pass] false]
      [.loop AlphaWfEx.n (.lit (.int 0)) AlphaWfEx.one [.pass] false] = true ∧
    (wfL AlphaWfEx.Γ [.loop AlphaWfEx.i (.lit (.int 0)) AlphaWfEx.one [.pass] false]).isSome = true ∧
    (wfL AlphaWfEx.Γ [.loop AlphaWfEx.n (.lit (.int 0)) AlphaWfEx.one [.pass] false]).isSome = false ∧
    (scopeL (AlphaWfEx.Γ.map Prod.fst)
      [.loop AlphaWfEx.n (.lit (.int 0)) AlphaWfEx.one [.pass] false]).isSome = false := by
  decide +kernel

/-- the same for a definition: `x : R[1]` against `n : R[1]` where `n` is already declared -/
example :
    alphaEqBlocks' [.alloc AlphaWfEx.x [AlphaWfEx.one]] [.alloc AlphaWfEx.n [AlphaWfEx.one]] = true ∧
    (wfL AlphaWfEx.Γ [.alloc AlphaWfEx.x [AlphaWfEx.one]]).isSome = true ∧
    (wfL AlphaWfEx.Γ [.alloc AlphaWfEx.n [AlphaWfEx.one]]).isSome = false := by decide +kernel

/-- … and for callee bodies, which is why `scopeS` checks `scopeP` at a call: the callees
    `f(n): for i in (0, n): pass` and `f(n): for n in (0, n): pass` are alpha-equal (the bound `n`
    is evaluated outside the loop); the second callee is ill formed because its iterator
    redeclares the formal `n`. -/
example :
    alphaEqBlocks' [.call (AlphaWfEx.callee AlphaWfEx.i) [AlphaWfEx.one]]
      [.call (AlphaWfEx.callee AlphaWfEx.n) [AlphaWfEx.one]] = true ∧
    (wfL [] [.call (AlphaWfEx.callee AlphaWfEx.i) [AlphaWfEx.one]]).isSome = true ∧
    (wfL [] [.call (AlphaWfEx.callee AlphaWfEx.n) [AlphaWfEx.one]]).isSome = false ∧
    (scopeL [] [.call (AlphaWfEx.callee AlphaWfEx.n) [AlphaWfEx.one]]).isSome = false := by
  decide +kernel

/-- **`EnvRen` cannot be dropped either**: under a renaming that pairs the control variable `n`
    with the buffer `x`, alpha-equal blocks need not be well formed together -/
example :
    blockEq' [(AlphaWfEx.n, AlphaWfEx.x)] []
      [.ite (.read AlphaWfEx.n []) [] []] [.ite (.read AlphaWfEx.x []) [] []] = true ∧
    (wfL [(AlphaWfEx.n, none)] [.ite (.read AlphaWfEx.n []) [] []]).isSome = true ∧
    (scopeL [AlphaWfEx.x] [.ite (.read AlphaWfEx.x []) [] []]).isSome = true ∧
    (wfL [(AlphaWfEx.x, some 0)] [.ite (.read AlphaWfEx.x []) [] []]).isSome = false := by
  decide +kernel

end Exo.WfShapes
