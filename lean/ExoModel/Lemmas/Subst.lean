/-
  Lemmas about control environments and substitution (definitions in ExoModel/Subst.lean).

  Part A (coincidence / weakening): evaluation and execution depend on the control environment
  only through the values of the variables that occur free (`evalC_env … execL_env`).  Special
  cases: an unused binding may be added or dropped (`execL_weaken`), bindings of distinct variables
  may be swapped, a shadowed binding may be dropped.

  Part B (substitution): `evalC σ (substC x r e) = evalC (σ.bind x v) e` when `evalC σ r = ok v`,
  same for data/view expressions, statements and blocks (`evalC_subst … execL_subst`).
-/
import ExoModel.Subst
import ExoModel.Lemmas.Exec

set_option linter.unusedSectionVars false
set_option linter.unusedVariables false
namespace Exo
variable {V : Type}

/-! ### generalities -/

theorem Except.map_bind' {ε α β γ} (r : Except ε α) (f : α → Except ε β) (g : β → γ) :
    (r >>= f).map g = r >>= fun a => (f a).map g := by
  cases r <;> rfl

theorem Except.map_map' {ε α β γ} (r : Except ε α) (f : α → β) (g : β → γ) :
    (r.map f).map g = r.map (g ∘ f) := by
  cases r <;> rfl

theorem lookupSym_cons {α} (y x : Sym) (v : α) (E : List (Sym × α)) :
    lookupSym y ((x, v) :: E) = if y = x then some v else lookupSym y E := rfl

/-- an invariant-carrying simulation of two iterations related by a state map `g` -/
theorem iterate_map_inv (P : State V → Prop) (g : State V → State V)
    (f f' : Int → State V → Except Err (State V))
    (hP : ∀ v s s', P s → f v s = .ok s' → P s')
    (h : ∀ v s, P s → f' v (g s) = (f v s).map g) :
    ∀ (n : Nat) (lo : Int) (s : State V), P s → iterate f' n lo (g s) = (iterate f n lo s).map g
  | 0, _, _, _ => rfl
  | n + 1, lo, s, hs => by
    simp only [iterate, bind, Except.bind]
    rw [h lo s hs]
    cases h1 : f lo s with
    | error e => rfl
    | ok s1 =>
      simp only [Except.map]
      exact iterate_map_inv P g f f' hP h n (lo + 1) s1 (hP lo s s1 hs h1)

/-! ### Part A: dependence on the environment -/

theorem evalC_env : ∀ (e : Expr) (σ : State V) (E' : List (Sym × Int)),
    (∀ y, e.occC y = true → lookupSym y E' = lookupSym y σ.env) →
    evalC (σ.withEnv E') e = evalC σ e
  | .read x [], σ, E', h => by
    have := h x (by simp [Expr.occC])
    simp [evalC, this]
  | .read x (_ :: _), σ, E', _ => rfl
  | .lit (.int n), _, _, _ => rfl
  | .lit (.bool n), _, _, _ => rfl
  | .lit (.data _ _), _, _, _ => rfl
  | .usub e, σ, E', h => by
    simp only [evalC]
    rw [evalC_env e σ E' (fun y hy => h y (by simpa [Expr.occC] using hy))]
  | .binop op a b, σ, E', h => by
    simp only [evalC]
    rw [evalC_env a σ E' (fun y hy => h y (by simp [Expr.occC, hy])),
        evalC_env b σ E' (fun y hy => h y (by simp [Expr.occC, hy]))]
  | .stride x d, σ, E', _ => rfl
  | .readcfg _ _, _, _, _ => rfl
  | .extern _ _, _, _, _ => rfl
  | .win _ _, _, _, _ => rfl

theorem evalCs_env : ∀ (es : List Expr) (σ : State V) (E' : List (Sym × Int)),
    (∀ y, occCs y es = true → lookupSym y E' = lookupSym y σ.env) →
    evalCs (σ.withEnv E') es = evalCs σ es
  | [], _, _, _ => rfl
  | e :: r, σ, E', h => by
    simp only [evalCs]
    rw [evalC_env e σ E' (fun y hy => h y (by simp [occCs, hy])),
        evalCs_env r σ E' (fun y hy => h y (by
          simp only [occCs, List.any_cons, Bool.or_eq_true]; right; exact hy))]

section
variable [DataAlg V] (ext : String → List V → V)

mutual
theorem evalD_env : ∀ (e : Expr) (σ : State V) (E' : List (Sym × Int)),
    (∀ y, e.occD y = true → lookupSym y E' = lookupSym y σ.env) →
    evalD ext (σ.withEnv E') e = evalD ext σ e
  | .read x idx, σ, E', h => by
    simp only [evalD, State.withEnv_views, State.withEnv_heap]
    rw [evalCs_env idx σ E' (fun y hy => h y (by simpa [Expr.occD] using hy))]
  | .lit (.int n), _, _, _ => rfl
  | .lit (.bool n), _, _, _ => rfl
  | .lit (.data _ _), _, _, _ => rfl
  | .usub e, σ, E', h => by
    simp only [evalD]
    rw [evalD_env e σ E' (fun y hy => h y (by simpa [Expr.occD] using hy))]
  | .binop op a b, σ, E', h => by
    simp only [evalD]
    rw [evalD_env a σ E' (fun y hy => h y (by simp [Expr.occD, hy])),
        evalD_env b σ E' (fun y hy => h y (by simp [Expr.occD, hy]))]
  | .extern f args, σ, E', h => by
    simp only [evalD]
    rw [evalDs_env args σ E' (fun y hy => h y (by simpa [Expr.occD] using hy))]
  | .stride x d, σ, E', _ => rfl
  | .readcfg _ _, _, _, _ => rfl
  | .win _ _, _, _, _ => rfl
theorem evalDs_env : ∀ (es : List Expr) (σ : State V) (E' : List (Sym × Int)),
    (∀ y, occDs y es = true → lookupSym y E' = lookupSym y σ.env) →
    evalDs ext (σ.withEnv E') es = evalDs ext σ es
  | [], _, _, _ => rfl
  | e :: r, σ, E', h => by
    simp only [evalDs]
    rw [evalD_env e σ E' (fun y hy => h y (by simp [occDs, hy])),
        evalDs_env r σ E' (fun y hy => h y (by simp [occDs, hy]))]
end


omit [DataAlg V] in
theorem applyAcc_env : ∀ (acc : List WAcc) (σ : State V) (E' : List (Sym × Int))
    (ds : List (Int × Int)) (off : Int),
    (∀ y, acc.any (·.occ y) = true → lookupSym y E' = lookupSym y σ.env) →
    applyAcc (σ.withEnv E') acc ds off = applyAcc σ acc ds off
  | [], _, _, [], _, _ => rfl
  | [], _, _, _ :: _, _, _ => rfl
  | .point e :: as, σ, E', [], off, _ => rfl
  | .interval lo hi :: as, σ, E', [], off, _ => rfl
  | .point e :: as, σ, E', (ext, st) :: ds, off, h => by
    simp only [applyAcc]
    rw [evalC_env e σ E' (fun y hy => h y (by simp [WAcc.occ, hy]))]
    refine bind_congr (fun i => ?_)
    split
    · exact applyAcc_env as σ E' ds _ (fun y hy => h y (by
        simp only [List.any_cons, Bool.or_eq_true]; right; exact hy))
    · rfl
  | .interval lo hi :: as, σ, E', (ext, st) :: ds, off, h => by
    simp only [applyAcc]
    rw [evalC_env lo σ E' (fun y hy => h y (by simp [WAcc.occ, hy])),
        evalC_env hi σ E' (fun y hy => h y (by simp [WAcc.occ, hy]))]
    refine bind_congr (fun l => bind_congr (fun hh => ?_))
    split
    · rw [applyAcc_env as σ E' ds _ (fun y hy => h y (by
        simp only [List.any_cons, Bool.or_eq_true]; right; exact hy))]
    · rfl

omit [DataAlg V] in
theorem evalView_env : ∀ (e : Expr) (σ : State V) (E' : List (Sym × Int)),
    (∀ y, e.occV y = true → lookupSym y E' = lookupSym y σ.env) →
    evalView (σ.withEnv E') e = evalView σ e
  | .read x [], σ, E', _ => rfl
  | .read x (i :: r), σ, E', h => by
    simp only [evalView, State.withEnv_views]
    rw [evalCs_env (i :: r) σ E' (fun y hy => h y (by simpa [Expr.occV] using hy))]
  | .win x acc, σ, E', h => by
    simp only [evalView, State.withEnv_views]
    split
    · rw [applyAcc_env acc σ E' _ _ (fun y hy => h y (by simpa [Expr.occV] using hy))]
    · rfl
  | .lit _, _, _, _ => rfl
  | .usub _, _, _, _ => rfl
  | .binop _ _ _, _, _, _ => rfl
  | .extern _ _, _, _, _ => rfl
  | .stride _ _, _, _, _ => rfl
  | .readcfg _ _, _, _, _ => rfl

omit [DataAlg V] in
theorem bindArgs_env : ∀ (fs : List FnArg) (as : List Expr) (σ : State V) (E' : List (Sym × Int))
    (ce : List (Sym × Int)) (cv : List (Sym × View)),
    (∀ y, occArgs y fs as = true → lookupSym y E' = lookupSym y σ.env) →
    bindArgs (σ.withEnv E') fs as ce cv = bindArgs σ fs as ce cv
  | [], [], _, _, _, _, _ => rfl
  | [], _ :: _, _, _, _, _, _ => rfl
  | _ :: _, [], _, _, _, _, _ => by simp [bindArgs]
  | ⟨x, .ctrl k⟩ :: fs, a :: as, σ, E', ce, cv, h => by
    simp only [bindArgs]
    rw [evalC_env a σ E' (fun y hy => h y (by simp [occArgs, hy]))]
    refine bind_congr (fun v => ?_)
    split
    · rfl
    · exact bindArgs_env fs as σ E' _ _ (fun y hy => h y (by simp [occArgs, hy]))
  | ⟨x, .scalar⟩ :: fs, a :: as, σ, E', ce, cv, h => by
    simp only [bindArgs]
    rw [evalView_env a σ E' (fun y hy => h y (by simp [occArgs, hy]))]
    exact bind_congr (fun v => bindArgs_env fs as σ E' _ _ (fun y hy => h y (by simp [occArgs, hy])))
  | ⟨x, .tensor _ _⟩ :: fs, a :: as, σ, E', ce, cv, h => by
    simp only [bindArgs]
    rw [evalView_env a σ E' (fun y hy => h y (by simp [occArgs, hy]))]
    exact bind_congr (fun v => bindArgs_env fs as σ E' _ _ (fun y hy => h y (by simp [occArgs, hy])))

omit [DataAlg V] in
theorem writeCell_env (σ : State V) (E' : List (Sym × Int)) (x : Sym) (idx : List Expr)
    (f : Option V → Option V)
    (h : ∀ y, occCs y idx = true → lookupSym y E' = lookupSym y σ.env) :
    writeCell (σ.withEnv E') x idx f = (writeCell σ x idx f).map (·.withEnv E') := by
  simp only [writeCell, State.withEnv_views, State.withEnv_heap]
  rw [evalCs_env idx σ E' h]
  split
  · cases evalCs σ idx with
    | error e => rfl
    | ok is =>
      simp only [bind, Except.bind]
      split <;> rfl
  · rfl


omit [DataAlg V] in
theorem leave_withEnv (σ s' : State V) (E' : List (Sym × Int)) :
    State.leave (σ.withEnv E') s' = (State.leave σ s').withEnv E' := rfl

omit [DataAlg V] in
theorem leave_withEnv' (σ s' : State V) (E' E'' : List (Sym × Int)) :
    State.leave (σ.withEnv E') (s'.withEnv E'') = (State.leave σ s').withEnv E' := rfl

theorem execP_env (f : Proc) (args : List Expr) (σ : State V) (E' : List (Sym × Int))
    (h : ∀ y, occArgs y f.args args = true → lookupSym y E' = lookupSym y σ.env) :
    execP ext f args (σ.withEnv E') = (execP ext f args σ).map (·.withEnv E') := by
  cases f with
  | mk nm fargs preds body =>
    simp only [execP, State.withEnv_heap, State.withEnv_cfg]
    rw [bindArgs_env fargs args σ E' [] [] h]
    cases bindArgs σ fargs args [] [] with
    | error e => rfl
    | ok p =>
      obtain ⟨ce, cv⟩ := p
      simp only [bind, Except.bind]
      split
      · rfl
      · cases checkShapes { env := ce, views := cv, heap := σ.heap, cfg := σ.cfg } fargs with
        | error e => rfl
        | ok _ =>
          cases checkPreds { env := ce, views := cv, heap := σ.heap, cfg := σ.cfg } preds with
          | error e => rfl
          | ok _ =>
            cases execL ext body { env := ce, views := cv, heap := σ.heap, cfg := σ.cfg } with
            | error e => rfl
            | ok s' => rfl

mutual
/-- coincidence: a statement run in an environment that agrees with `σ.env` on its free control
    variables does what it does from `σ` (and leaves the environment it was given) -/
theorem execS_env : ∀ (s : Stmt) (σ : State V) (E' : List (Sym × Int)),
    (∀ y, s.occ y = true → lookupSym y E' = lookupSym y σ.env) →
    execS ext s (σ.withEnv E') = (execS ext s σ).map (·.withEnv E')
  | .assign x idx rhs, σ, E', h => by
    simp only [execS]
    rw [evalD_env ext rhs σ E' (fun y hy => h y (by simp [Stmt.occ, hy])), Except.map_bind']
    exact bind_congr (fun v => writeCell_env σ E' x idx _ (fun y hy => h y (by simp [Stmt.occ, hy])))
  | .reduce x idx rhs, σ, E', h => by
    simp only [execS]
    rw [evalD_env ext rhs σ E' (fun y hy => h y (by simp [Stmt.occ, hy])), Except.map_bind']
    exact bind_congr (fun v => writeCell_env σ E' x idx _ (fun y hy => h y (by simp [Stmt.occ, hy])))
  | .writecfg c f rhs isData, σ, E', h => by
    cases isData with
    | true =>
      simp only [execS, if_true]
      rw [evalD_env ext rhs σ E' (fun y hy => h y (by simpa [Stmt.occ] using hy))]
      cases evalD ext σ rhs <;> rfl
    | false =>
      simp only [execS, Bool.false_eq_true, if_false]
      rw [evalC_env rhs σ E' (fun y hy => h y (by simpa [Stmt.occ] using hy))]
      cases evalC σ rhs <;> rfl
  | .pass, σ, E', _ => rfl
  | .free _, σ, E', _ => rfl
  | .ite c t e, σ, E', h => by
    simp only [execS]
    rw [evalC_env c σ E' (fun y hy => h y (by simp [Stmt.occ, hy])), Except.map_bind']
    refine bind_congr (fun b => ?_)
    split
    · rw [execL_env t σ E' (fun y hy => h y (by simp [Stmt.occ, hy])), Except.map_map', Except.map_map']
      rfl
    · rw [execL_env e σ E' (fun y hy => h y (by simp [Stmt.occ, hy])), Except.map_map', Except.map_map']
      rfl
  | .loop i lo hi body par, σ, E', h => by
    simp only [execS]
    rw [evalC_env lo σ E' (fun y hy => h y (by simp [Stmt.occ, hy])),
        evalC_env hi σ E' (fun y hy => h y (by simp [Stmt.occ, hy])), Except.map_bind']
    refine bind_congr (fun l => ?_)
    rw [Except.map_bind']
    refine bind_congr (fun hh => ?_)
    split
    · rfl
    · refine iterate_map_inv (fun s => s.env = σ.env) (·.withEnv E') _ _ ?_ ?_ _ _ σ rfl
      · intro v s s' hs hstep
        obtain ⟨s2, _, rfl⟩ := map_leave_ok hstep
        exact hs
      · intro v s hs
        have hb : (s.withEnv E').bind i v = (s.bind i v).withEnv ((i, v) :: E') := rfl
        rw [hb, execL_env body (s.bind i v) ((i, v) :: E') (fun y hy => by
          simp only [State.bind, lookupSym_cons]
          by_cases hyi : y = i
          · simp [hyi]
          · simp only [hyi, if_false]
            rw [hs]
            exact h y (by
              have : (i != y) = true := by simpa [bne_iff_ne] using (fun e => hyi e.symm)
              simp [Stmt.occ, hy, this]))]
        rw [Except.map_map', Except.map_map']
        rfl
  | .alloc x shape, σ, E', h => by
    simp only [execS]
    rw [evalCs_env shape σ E' (fun y hy => h y (by simpa [Stmt.occ] using hy))]
    cases evalCs σ shape with
    | error e => rfl
    | ok sh =>
      simp only [bind, Except.bind]
      cases checkSizes sh <;> rfl
  | .call f args, σ, E', h => by
    simp only [execS]
    exact execP_env ext f args σ E' (fun y hy => h y (by simpa [Stmt.occ] using hy))
  | .window x rhs, σ, E', h => by
    simp only [execS]
    rw [evalView_env rhs σ E' (fun y hy => h y (by simpa [Stmt.occ] using hy))]
    cases evalView σ rhs <;> rfl
theorem execL_env : ∀ (ss : List Stmt) (σ : State V) (E' : List (Sym × Int)),
    (∀ y, occL y ss = true → lookupSym y E' = lookupSym y σ.env) →
    execL ext ss (σ.withEnv E') = (execL ext ss σ).map (·.withEnv E')
  | [], _, _, _ => rfl
  | s :: r, σ, E', h => by
    simp only [execL]
    rw [execS_env s σ E' (fun y hy => h y (by simp [occL, hy]))]
    cases h1 : execS ext s σ with
    | error e => rfl
    | ok s1 =>
      simp only [Except.map, bind, Except.bind]
      have he : s1.env = σ.env := (execS_scope ext s σ s1 h1).1
      exact execL_env r s1 E' (fun y hy => by rw [he]; exact h y (by simp [occL, hy]))
end


end

/-! ### Part B: substitution -/

/-- the value of an environment-only expression is determined by the values of its variables
    (the two states may differ in everything else) -/
theorem evalC_envOnly : ∀ (r : Expr), r.envOnly = true → ∀ (σ σ' : State V),
    (∀ y, r.occC y = true → lookupSym y σ'.env = lookupSym y σ.env) → evalC σ' r = evalC σ r
  | .read x [], _, σ, σ', h => by
    have := h x (by simp [Expr.occC])
    simp [evalC, this]
  | .read x (_ :: _), hr, _, _, _ => by simp [Expr.envOnly] at hr
  | .lit (.int n), _, _, _, _ => rfl
  | .lit (.bool n), _, _, _, _ => rfl
  | .lit (.data _ _), hr, _, _, _ => by simp [Expr.envOnly] at hr
  | .usub e, hr, σ, σ', h => by
    simp only [evalC]
    rw [evalC_envOnly e (by simpa [Expr.envOnly] using hr) σ σ'
      (fun y hy => h y (by simpa [Expr.occC] using hy))]
  | .binop op a b, hr, σ, σ', h => by
    simp only [Expr.envOnly, Bool.and_eq_true] at hr
    simp only [evalC]
    rw [evalC_envOnly a hr.1 σ σ' (fun y hy => h y (by simp [Expr.occC, hy])),
        evalC_envOnly b hr.2 σ σ' (fun y hy => h y (by simp [Expr.occC, hy]))]
  | .stride _ _, hr, _, _, _ => by simp [Expr.envOnly] at hr
  | .readcfg _ _, hr, _, _, _ => by simp [Expr.envOnly] at hr
  | .extern _ _, hr, _, _, _ => by simp [Expr.envOnly] at hr
  | .win _ _, hr, _, _, _ => by simp [Expr.envOnly] at hr

/-- **substitution lemma, control expressions**: if `r` evaluates to `v` in `σ`, evaluating
    `e[r/x]` in `σ` is evaluating `e` in `σ` extended by `x ↦ v` (no side condition) -/
theorem evalC_subst (x : Sym) (r : Expr) (v : Int) : ∀ (e : Expr) (σ : State V),
    evalC σ r = .ok v → evalC σ (Expr.substC x r e) = evalC (σ.bind x v) e
  | .read y [], σ, hr => by
    simp only [Expr.substC]
    by_cases hy : y = x
    · subst hy
      simp [hr, evalC, State.bind, lookupSym, pure, Except.pure]
    · simp [hy, evalC, State.bind, lookupSym]
  | .read y (_ :: _), σ, _ => rfl
  | .lit _, _, _ => by
    rename_i l _ _
    cases l <;> rfl
  | .usub e, σ, hr => by
    simp only [Expr.substC, evalC]
    rw [evalC_subst x r v e σ hr]
  | .binop op a b, σ, hr => by
    simp only [Expr.substC, evalC]
    rw [evalC_subst x r v a σ hr, evalC_subst x r v b σ hr]
  | .stride _ _, _, _ => rfl
  | .readcfg _ _, _, _ => rfl
  | .extern _ _, _, _ => rfl
  | .win _ _, _, _ => rfl

theorem evalCs_subst (x : Sym) (r : Expr) (v : Int) : ∀ (es : List Expr) (σ : State V),
    evalC σ r = .ok v → evalCs σ (substCs x r es) = evalCs (σ.bind x v) es
  | [], _, _ => rfl
  | e :: es, σ, hr => by
    simp only [substCs, List.map_cons, evalCs]
    rw [evalC_subst x r v e σ hr]
    have := evalCs_subst x r v es σ hr
    simp only [substCs] at this
    rw [this]

section
variable [DataAlg V] (ext : String → List V → V)

mutual
/-- substitution lemma, data expressions -/
theorem evalD_subst (x : Sym) (r : Expr) (v : Int) : ∀ (e : Expr) (σ : State V),
    evalC σ r = .ok v → evalD ext σ (Expr.substD x r e) = evalD ext (σ.bind x v) e
  | .read y idx, σ, hr => by
    simp only [Expr.substD, evalD]
    rw [evalCs_subst x r v idx σ hr]
    rfl
  | .lit _, _, _ => by
    rename_i l _ _
    cases l <;> rfl
  | .usub e, σ, hr => by
    simp only [Expr.substD, evalD]
    rw [evalD_subst x r v e σ hr]
  | .binop op a b, σ, hr => by
    simp only [Expr.substD, evalD]
    rw [evalD_subst x r v a σ hr, evalD_subst x r v b σ hr]
  | .extern f args, σ, hr => by
    simp only [Expr.substD, evalD]
    rw [evalDs_subst x r v args σ hr]
  | .stride _ _, _, _ => rfl
  | .readcfg _ _, _, _ => rfl
  | .win _ _, _, _ => rfl
theorem evalDs_subst (x : Sym) (r : Expr) (v : Int) : ∀ (es : List Expr) (σ : State V),
    evalC σ r = .ok v → evalDs ext σ (substDs x r es) = evalDs ext (σ.bind x v) es
  | [], _, _ => rfl
  | e :: es, σ, hr => by
    simp only [substDs, evalDs]
    rw [evalD_subst x r v e σ hr, evalDs_subst x r v es σ hr]
end

omit [DataAlg V] in
theorem applyAcc_subst (x : Sym) (r : Expr) (v : Int) : ∀ (acc : List WAcc) (σ : State V)
    (ds : List (Int × Int)) (off : Int), evalC σ r = .ok v →
    applyAcc σ (acc.map (WAcc.subst x r)) ds off = applyAcc (σ.bind x v) acc ds off
  | [], _, [], _, _ => rfl
  | [], _, _ :: _, _, _ => rfl
  | .point e :: as, σ, [], off, _ => rfl
  | .interval lo hi :: as, σ, [], off, _ => rfl
  | .point e :: as, σ, (ext, st) :: ds, off, hr => by
    simp only [List.map_cons, WAcc.subst, applyAcc]
    rw [evalC_subst x r v e σ hr]
    refine bind_congr (fun i => ?_)
    split
    · exact applyAcc_subst x r v as σ ds _ hr
    · rfl
  | .interval lo hi :: as, σ, (ext, st) :: ds, off, hr => by
    simp only [List.map_cons, WAcc.subst, applyAcc]
    rw [evalC_subst x r v lo σ hr, evalC_subst x r v hi σ hr]
    refine bind_congr (fun l => bind_congr (fun hh => ?_))
    split
    · rw [applyAcc_subst x r v as σ ds _ hr]
    · rfl

omit [DataAlg V] in
/-- substitution lemma, view expressions (window right-hand sides, buffer arguments) -/
theorem evalView_subst (x : Sym) (r : Expr) (v : Int) : ∀ (e : Expr) (σ : State V),
    evalC σ r = .ok v → evalView σ (Expr.substV x r e) = evalView (σ.bind x v) e
  | .read y [], σ, _ => rfl
  | .read y (i :: is), σ, hr => by
    simp only [Expr.substV, substCs, List.map_cons, evalView]
    have := evalCs_subst x r v (i :: is) σ hr
    simp only [substCs, List.map_cons] at this
    rw [this]
    rfl
  | .win y acc, σ, hr => by
    simp only [Expr.substV, evalView]
    simp only [State.bind_views]
    split
    · rw [applyAcc_subst x r v acc σ _ _ hr]
    · rfl
  | .lit _, _, _ => rfl
  | .usub _, _, _ => rfl
  | .binop _ _ _, _, _ => rfl
  | .extern _ _, _, _ => rfl
  | .stride _ _, _, _ => rfl
  | .readcfg _ _, _, _ => rfl

omit [DataAlg V] in
theorem bindArgs_subst (x : Sym) (r : Expr) (v : Int) : ∀ (fs : List FnArg) (as : List Expr)
    (σ : State V) (ce : List (Sym × Int)) (cv : List (Sym × View)), evalC σ r = .ok v →
    bindArgs σ fs (substArgs x r fs as) ce cv = bindArgs (σ.bind x v) fs as ce cv
  | [], [], _, _, _, _ => rfl
  | [], _ :: _, _, _, _, _ => rfl
  | _ :: _, [], _, _, _, _ => by simp [bindArgs, substArgs]
  | ⟨y, .ctrl k⟩ :: fs, a :: as, σ, ce, cv, hr => by
    simp only [substArgs, bindArgs]
    rw [evalC_subst x r v a σ hr]
    refine bind_congr (fun w => ?_)
    split
    · rfl
    · exact bindArgs_subst x r v fs as σ _ _ hr
  | ⟨y, .scalar⟩ :: fs, a :: as, σ, ce, cv, hr => by
    simp only [substArgs, bindArgs]
    rw [evalView_subst x r v a σ hr]
    exact bind_congr (fun w => bindArgs_subst x r v fs as σ _ _ hr)
  | ⟨y, .tensor _ _⟩ :: fs, a :: as, σ, ce, cv, hr => by
    simp only [substArgs, bindArgs]
    rw [evalView_subst x r v a σ hr]
    exact bind_congr (fun w => bindArgs_subst x r v fs as σ _ _ hr)

omit [DataAlg V] in
theorem writeCell_subst (x : Sym) (r : Expr) (v : Int) (σ : State V) (y : Sym) (idx : List Expr)
    (f : Option V → Option V) (hr : evalC σ r = .ok v) :
    writeCell σ y (substCs x r idx) f = (writeCell (σ.bind x v) y idx f).map (·.withEnv σ.env) := by
  simp only [writeCell]
  rw [evalCs_subst x r v idx σ hr]
  simp only [State.bind_views]
  split
  · cases evalCs (σ.bind x v) idx with
    | error e => rfl
    | ok is =>
      simp only [bind, Except.bind]
      simp only [State.bind_heap]
      split <;> rfl
  · rfl

theorem execP_subst (x : Sym) (r : Expr) (v : Int) (f : Proc) (args : List Expr) (σ : State V)
    (hr : evalC σ r = .ok v) :
    execP ext f (substArgs x r f.args args) σ =
      (execP ext f args (σ.bind x v)).map (·.withEnv σ.env) := by
  cases f with
  | mk nm fargs preds body =>
    simp only [execP, Proc.args]
    rw [bindArgs_subst x r v fargs args σ [] [] hr]
    cases bindArgs (σ.bind x v) fargs args [] [] with
    | error e => rfl
    | ok p =>
      obtain ⟨ce, cv⟩ := p
      simp only [bind, Except.bind]
      split
      · rfl
      · simp only [State.bind_heap, State.bind_cfg]
        cases checkShapes { env := ce, views := cv, heap := σ.heap, cfg := σ.cfg } fargs with
        | error e => rfl
        | ok _ =>
          cases checkPreds { env := ce, views := cv, heap := σ.heap, cfg := σ.cfg } preds with
          | error e => rfl
          | ok _ =>
            cases execL ext body { env := ce, views := cv, heap := σ.heap, cfg := σ.cfg } with
            | error e => rfl
            | ok s' => rfl


omit [DataAlg V] in
theorem withEnv_bind_eq (s1 : State V) (x : Sym) (v : Int) (E : List (Sym × Int))
    (he : s1.env = (x, v) :: E) : (s1.withEnv E).bind x v = s1 := by
  cases s1
  simp only [State.withEnv, State.bind] at he ⊢
  subst he
  rfl

omit [DataAlg V] in
theorem mem_loopVarsL_of_mem {s : Stmt} {ss : List Stmt} {i : Sym} (hs : s ∈ ss)
    (hi : i ∈ s.loopVars) : i ∈ loopVarsL ss := by
  induction ss with
  | nil => cases hs
  | cons a r ih =>
    simp only [loopVarsL, List.mem_append]
    cases hs with
    | head => exact Or.inl hi
    | tail _ h => exact Or.inr (ih h)

mutual
/-- **substitution lemma, statements**: for an environment-only expression `r` with value `v`
    in `σ` whose variables are not re-bound by a loop of `s`, running `s[r/x]` from `σ` is
    running `s` from `σ` extended by `x ↦ v` (and dropping that binding afterwards) -/
theorem execS_subst (x : Sym) (r : Expr) (v : Int) (hre : r.envOnly = true) :
    ∀ (s : Stmt) (σ : State V), evalC σ r = .ok v → (∀ i ∈ s.loopVars, r.occC i = false) →
    execS ext (Stmt.subst x r s) σ = (execS ext s (σ.bind x v)).map (·.withEnv σ.env)
  | .assign y idx rhs, σ, hr, _ => by
    simp only [Stmt.subst, execS]
    rw [evalD_subst ext x r v rhs σ hr, Except.map_bind']
    exact bind_congr (fun w => writeCell_subst x r v σ y idx _ hr)
  | .reduce y idx rhs, σ, hr, _ => by
    simp only [Stmt.subst, execS]
    rw [evalD_subst ext x r v rhs σ hr, Except.map_bind']
    exact bind_congr (fun w => writeCell_subst x r v σ y idx _ hr)
  | .writecfg c f rhs isData, σ, hr, _ => by
    cases isData with
    | true =>
      simp only [Stmt.subst, execS, if_true]
      rw [evalD_subst ext x r v rhs σ hr]
      cases evalD ext (σ.bind x v) rhs <;> rfl
    | false =>
      simp only [Stmt.subst, execS, Bool.false_eq_true, if_false]
      rw [evalC_subst x r v rhs σ hr]
      cases evalC (σ.bind x v) rhs <;> rfl
  | .pass, σ, _, _ => rfl
  | .free _, σ, _, _ => rfl
  | .ite c t e, σ, hr, hl => by
    simp only [Stmt.subst, execS]
    rw [evalC_subst x r v c σ hr, Except.map_bind']
    refine bind_congr (fun b => ?_)
    split
    · rw [execL_subst x r v hre t σ hr (fun i hi => hl i (by simp [Stmt.loopVars, hi])),
        Except.map_map', Except.map_map']
      rfl
    · rw [execL_subst x r v hre e σ hr (fun i hi => hl i (by simp [Stmt.loopVars, hi])),
        Except.map_map', Except.map_map']
      rfl
  | .loop i lo hi body par, σ, hr, hl => by
    simp only [Stmt.subst, execS]
    rw [evalC_subst x r v lo σ hr, evalC_subst x r v hi σ hr, Except.map_bind']
    refine bind_congr (fun l => ?_)
    rw [Except.map_bind']
    refine bind_congr (fun hh => ?_)
    split
    · rfl
    · have hri : r.occC i = false := hl i (by simp [Stmt.loopVars])
      refine iterate_map_inv (fun s => s.env = (x, v) :: σ.env) (·.withEnv σ.env) _ _ ?_ ?_ _ _
        (σ.bind x v) rfl
      · intro w s s' hs hstep
        obtain ⟨s2, _, rfl⟩ := map_leave_ok hstep
        exact hs
      · intro w s hs
        by_cases hix : i = x
        · -- the loop re-binds `x`: the body is not touched, and the outer binding is shadowed
          subst hix
          simp only [if_true]
          have hb : (s.withEnv σ.env).bind i w = (s.bind i w).withEnv ((i, w) :: σ.env) := rfl
          rw [hb, execL_env ext body (s.bind i w) ((i, w) :: σ.env) (fun y _ => by
            simp only [State.bind_env, hs, lookupSym_cons]
            by_cases hyi : y = i <;> simp [hyi])]
          rw [Except.map_map', Except.map_map']
          rfl
        · simp only [hix, if_false]
          have hτ : evalC ((s.withEnv σ.env).bind i w) r = .ok v := by
            rw [evalC_envOnly r hre σ _ (fun y hy => by
              simp only [State.bind_env, State.withEnv_env, lookupSym_cons]
              have : y ≠ i := by intro e; subst e; rw [hri] at hy; cases hy
              simp [this])]
            exact hr
          rw [execL_subst x r v hre body _ hτ (fun j hj => hl j (by simp [Stmt.loopVars, hj]))]
          have hb : ((s.withEnv σ.env).bind i w).bind x v
              = (s.bind i w).withEnv ((x, v) :: (i, w) :: σ.env) := rfl
          rw [hb, execL_env ext body (s.bind i w) _ (fun y _ => by
            simp only [State.bind_env, hs, lookupSym_cons]
            by_cases hyx : y = x
            · subst hyx
              have : ¬ y = i := fun e => hix e.symm
              simp [this]
            · simp [hyx])]
          rw [Except.map_map', Except.map_map', Except.map_map']
          rfl
  | .alloc y shape, σ, hr, _ => by
    simp only [Stmt.subst, execS]
    rw [evalCs_subst x r v shape σ hr]
    cases evalCs (σ.bind x v) shape with
    | error e => rfl
    | ok sh =>
      simp only [bind, Except.bind]
      cases checkSizes sh <;> rfl
  | .call f args, σ, hr, _ => by
    simp only [Stmt.subst, execS]
    exact execP_subst ext x r v f args σ hr
  | .window y rhs, σ, hr, _ => by
    simp only [Stmt.subst, execS]
    rw [evalView_subst x r v rhs σ hr]
    cases evalView (σ.bind x v) rhs <;> rfl
/-- substitution lemma, blocks -/
theorem execL_subst (x : Sym) (r : Expr) (v : Int) (hre : r.envOnly = true) :
    ∀ (ss : List Stmt) (σ : State V), evalC σ r = .ok v → (∀ i ∈ loopVarsL ss, r.occC i = false) →
    execL ext (substL x r ss) σ = (execL ext ss (σ.bind x v)).map (·.withEnv σ.env)
  | [], _, _, _ => rfl
  | s :: rest, σ, hr, hl => by
    simp only [substL, execL]
    rw [execS_subst x r v hre s σ hr (fun i hi => hl i (by simp [loopVarsL, hi]))]
    cases h1 : execS ext s (σ.bind x v) with
    | error e => rfl
    | ok s1 =>
      simp only [Except.map, bind, Except.bind]
      have he : s1.env = (x, v) :: σ.env := (execS_scope ext s (σ.bind x v) s1 h1).1
      have hr1 : evalC (s1.withEnv σ.env) r = .ok v := by
        rw [evalC_envOnly r hre σ (s1.withEnv σ.env) (fun y _ => rfl)]; exact hr
      have := execL_subst x r v hre rest (s1.withEnv σ.env) hr1
        (fun i hi => hl i (by simp [loopVarsL, hi]))
      rw [withEnv_bind_eq s1 x v σ.env he] at this
      exact this
end


/-! ### corollaries -/

/-- weakening: a binding of a variable that does not occur free in the block can be added (or,
    read right to left, dropped) without changing what the block does -/
theorem execL_weaken (ss : List Stmt) (σ : State V) (x : Sym) (v : Int) (hx : occL x ss = false) :
    execL ext ss (σ.bind x v) = (execL ext ss σ).map (·.withEnv ((x, v) :: σ.env)) := by
  have hb : σ.bind x v = σ.withEnv ((x, v) :: σ.env) := rfl
  rw [hb]
  exact execL_env ext ss σ _ (fun y hy => by
    have : y ≠ x := by intro e; subst e; rw [hx] at hy; cases hy
    simp [lookupSym_cons, this])

theorem execS_weaken (s : Stmt) (σ : State V) (x : Sym) (v : Int) (hx : s.occ x = false) :
    execS ext s (σ.bind x v) = (execS ext s σ).map (·.withEnv ((x, v) :: σ.env)) := by
  have hb : σ.bind x v = σ.withEnv ((x, v) :: σ.env) := rfl
  rw [hb]
  exact execS_env ext s σ _ (fun y hy => by
    have : y ≠ x := by intro e; subst e; rw [hx] at hy; cases hy
    simp [lookupSym_cons, this])

omit [DataAlg V] in
theorem evalC_ctrlLit (r : Expr) (h : r.isCtrlLit = true) (σ : State V) :
    evalC σ r = .ok r.ctrlLitVal := by
  match r, h with
  | .lit (.int n), _ => rfl
  | .lit (.bool b), _ => rfl

omit [DataAlg V] in
theorem envOnly_ctrlLit (r : Expr) (h : r.isCtrlLit = true) : r.envOnly = true := by
  match r, h with
  | .lit (.int n), _ => rfl
  | .lit (.bool b), _ => rfl

omit [DataAlg V] in
theorem occC_ctrlLit (r : Expr) (h : r.isCtrlLit = true) (i : Sym) : r.occC i = false := by
  match r, h with
  | .lit (.int n), _ => rfl
  | .lit (.bool b), _ => rfl

/-- substituting a literal needs no side condition at all -/
theorem execL_substLit (x : Sym) (r : Expr) (h : r.isCtrlLit = true) (ss : List Stmt) (σ : State V) :
    execL ext (substL x r ss) σ
      = (execL ext ss (σ.bind x r.ctrlLitVal)).map (·.withEnv σ.env) :=
  execL_subst ext x r _ (envOnly_ctrlLit r h) ss σ (evalC_ctrlLit r h σ) (fun i _ => occC_ctrlLit r h i)

omit [DataAlg V] in
theorem evalC_substLit (x : Sym) (r : Expr) (h : r.isCtrlLit = true) (e : Expr) (σ : State V) :
    evalC σ (Expr.substC x r e) = evalC (σ.bind x r.ctrlLitVal) e :=
  evalC_subst x r _ e σ (evalC_ctrlLit r h σ)

omit [DataAlg V] in
theorem evalCs_substLit (x : Sym) (r : Expr) (h : r.isCtrlLit = true) (es : List Expr) (σ : State V) :
    evalCs σ (substCs x r es) = evalCs (σ.bind x r.ctrlLitVal) es :=
  evalCs_subst x r _ es σ (evalC_ctrlLit r h σ)

end

end Exo
