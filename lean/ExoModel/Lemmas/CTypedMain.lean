/-
  Lemmas for C15(a), `compL_welltyped`: (4) statements.  `comp_s` of well-formed LoopIR
  (`Exo.Wf.wfS` / `wfL`) is well-typed mini-C (`Exo.CTyping.wtL`), for statement lists without
  calls.
-/
import ExoModel.Lemmas.CTypedStmt

namespace Exo.CTyping
open Exo Exo.CIndex Exo.CSem Exo.CompileS
open Exo.Range (IExpr Op)

mutual
def noCallS : Stmt → Bool
  | .call _ _ => false
  | .ite _ t e => noCallL t && noCallL e
  | .loop _ _ _ b _ => noCallL b
  | _ => true
def noCallL : List Stmt → Bool
  | [] => true
  | s :: r => noCallS s && noCallL r
end

/-- the conclusion for one statement / a statement list -/
def Typed (W W' : Wf.Env) (Γ Γ' : CEnv) (E : CTyEnv) (cs : List CStmt) : Prop :=
  ∃ E', wtL E cs = some E' ∧ Agree W' Γ' E' ∧ Stable W Γ Γ' ∧ E'.cfgT = E.cfgT ∧
    (∀ y, Wf.lookup y W ≠ none → Wf.lookup y W' ≠ none)

theorem wtL_single {E E' : CTyEnv} {s : CStmt} (h : wtS E s = some E') : wtL E [s] = some E' := by
  simp [wtL, h]

theorem wtL_append {E : CTyEnv} : ∀ (a b : List CStmt) {E1 E2 : CTyEnv},
    wtL E a = some E1 → wtL E1 b = some E2 → wtL E (a ++ b) = some E2
  | [], b, E1, E2, h1, h2 => by
      simp only [wtL, Option.some.injEq] at h1; subst h1; exact h2
  | s :: r, b, E1, E2, h1, h2 => by
      simp only [wtL, List.cons_append] at h1 ⊢
      split at h1
      · rename_i E0 h0
        exact wtL_append r b h1 h2
      · cases h1

theorem isSomeB_of {α : Type} {o : Option α} {a : α} (h : o = some a) : isSomeB o = true := by
  rw [h]; rfl

theorem get_pushInt (E : CTyEnv) (i y : Sym) :
    ((E.push [(i, .int)]).push).get y = if y = i then some .int else E.get y := by
  simp only [CTyEnv.push, CTyEnv.get, lookupSc, lookupSym]
  by_cases h : y = i <;> simp [h]

theorem accRank_eq : ∀ (acc : List WAcc), ((acc.map waccIsIv).filter id).length = Wf.accRank acc
  | [] => rfl
  | .point _ :: r => by simp [waccIsIv, Wf.accRank, accRank_eq r]
  | .interval _ _ :: r => by simp [waccIsIv, Wf.accRank, accRank_eq r]

theorem wfAccs_lo {W : Wf.Env} : ∀ {acc : List WAcc}, Wf.wfAccs W acc = true →
    ∀ w ∈ acc, Wf.wfC W (waccLo w) = true
  | [], _, w, hw => by cases hw
  | a :: r, h, w, hw => by
      simp only [Wf.wfAccs, Bool.and_eq_true] at h
      simp only [List.mem_cons] at hw
      rcases hw with rfl | hw
      · cases w with
        | point e => simpa [Wf.wfAcc, waccLo] using h.1
        | interval lo hi =>
            simp only [Wf.wfAcc, Bool.and_eq_true] at h
            exact h.1.1
      · exact wfAccs_lo h.2 w hw

theorem fresh_none {W : Wf.Env} {x : Sym} (h : Wf.fresh W x = true) : Wf.lookup x W = none := by
  unfold Wf.fresh at h
  cases hl : Wf.lookup x W with
  | none => rfl
  | some k => rw [hl] at h; cases h

variable {W : Wf.Env} {Γ : CEnv} {E : CTyEnv}

/-- a statement that declares nothing and leaves `envtyp` alone -/
theorem Typed.same {Γ' : CEnv} {s : CStmt} (ha : Agree W Γ E) (hw : wtS E s = some E)
    (ht : Γ'.typ = Γ.typ) (hr : Γ'.refs = Γ.refs) : Typed W W Γ Γ' E [s] :=
  ⟨E, wtL_single hw, ha.congr ht hr (fun _ => rfl), ⟨fun _ _ => by rw [ht], hr⟩, rfl, fun _ h => h⟩

/-- the window initialiser `comp_s` / `comp_fnarg` builds is well-typed, of rank `accRank` -/
theorem windowFields_wt (ha : Agree W Γ E) {y : Sym} {acc : List WAcc} {isW : Bool}
    {los strs : List CExpr} {ivs : List Bool} {k : Bool}
    (h : windowFields Γ y acc = .ok (isW, los, strs, ivs, k)) (hy : Wf.lookup y W ≠ none)
    (hacc : Wf.wfAccs W acc = true) :
    wtWin E y isW los strs ivs = some (Wf.accRank acc) ∧ (ivs.filter id).length = Wf.accRank acc := by
  unfold windowFields at h
  obtain ⟨ty, hty, h⟩ := bind_ok h
  obtain ⟨los', hlos, h⟩ := bind_ok h
  obtain ⟨strs', hstrs, h⟩ := bind_ok h
  split at h
  · cases h
  · rename_i hcond
    simp only [pure, Except.pure, Except.ok.injEq, Prod.mk.injEq] at h
    obtain ⟨rfl, rfl, rfl, rfl, _⟩ := h
    simp only [not_or, Decidable.not_not] at hcond
    have st := strides_wt ha hy hty
    have h1 : los'.all (wtCE E) = true := by
      rw [List.all_eq_true]
      exact mapM'_all hlos (fun w hw d hd => idx_wt ha hd (wfAccs_lo hacc w hw))
    have h2 : strs'.all (wtCE E) = true := by
      rw [List.all_eq_true]
      refine mapM'_all hstrs (fun c hc d hd => ?_)
      obtain ⟨s, hs, hd⟩ := bind_ok hd
      simp only [pure, Except.pure, Except.ok.injEq] at hd; subst hd
      rw [wtCE_compAst]
      exact simplify_leaves c (simp_ok hs) (st.1 c hc)
    have l1 := mapM'_length hlos
    have l2 := mapM'_length hstrs
    have hr := accRank_eq acc
    refine ⟨?_, hr⟩
    unfold wtWin
    have hok : wtWinOK E y (isWinTy ty) los' strs' (acc.map waccIsIv) = true := by
      unfold wtWinOK
      simp only [h1, h2, Bool.true_and, Bool.and_eq_true, beq_iff_eq, decide_eq_true_eq,
        List.length_map]
      refine ⟨⟨⟨by omega, by omega⟩, by omega⟩, ?_⟩
      rcases st.2 with ⟨e1, e2⟩ | ⟨e1, e2⟩
      · simp [e1, e2]
      · simp [e1, e2, l2]
    simp [hok, hr]

mutual
theorem typedS : ∀ (s : Stmt) {Γ Γ' : CEnv} {cs : List CStmt} {W W' : Wf.Env} {E : CTyEnv},
    compS Γ s = .ok (cs, Γ') → Wf.wfS W s = some W' → noCallS s = true → Agree W Γ E →
    CfgOK E.cfgT (cfgL cs) → Typed W W' Γ Γ' E cs
  | .pass, Γ, Γ', cs, W, W', E, hc, hw, _, ha, _ => by
      simp only [compS, pure, Except.pure, Except.ok.injEq, Prod.mk.injEq] at hc
      simp only [Wf.wfS, Option.some.injEq] at hw
      obtain ⟨rfl, rfl⟩ := hc; subst hw
      exact Typed.same ha rfl rfl rfl
  | .assign x idx rhs, Γ, Γ', cs, W, W', E, hc, hw, _, ha, hcf => by
      simp only [compS] at hc
      obtain ⟨⟨lv, k1⟩, hlv, hc⟩ := bind_ok hc
      obtain ⟨⟨e, k2⟩, he, hc⟩ := bind_ok hc
      simp only [pure, Except.pure, Except.ok.injEq, Prod.mk.injEq] at hc
      obtain ⟨rfl, rfl⟩ := hc
      simp only [Wf.wfS] at hw
      split at hw
      · rename_i n hr
        split at hw
        · rename_i hcond
          simp only [Option.some.injEq] at hw; subst hw
          simp only [Bool.and_eq_true] at hcond
          have h1 := accessLV_wt ha hlv (by rw [wf_rankOf hr]; simp) hcond.1.2
          have h2 := compD_wt ha rhs he hcond.2 (fun p hp => hcf p (by simp [cfgL, cfgS, hp]))
          exact Typed.same ha (by simp [wtS, h1, h2]) rfl rfl
        · cases hw
      · cases hw
  | .reduce x idx rhs, Γ, Γ', cs, W, W', E, hc, hw, _, ha, hcf => by
      simp only [compS] at hc
      obtain ⟨⟨lv, k1⟩, hlv, hc⟩ := bind_ok hc
      obtain ⟨⟨e, k2⟩, he, hc⟩ := bind_ok hc
      simp only [pure, Except.pure, Except.ok.injEq, Prod.mk.injEq] at hc
      obtain ⟨rfl, rfl⟩ := hc
      simp only [Wf.wfS] at hw
      split at hw
      · rename_i n hr
        split at hw
        · rename_i hcond
          simp only [Option.some.injEq] at hw; subst hw
          simp only [Bool.and_eq_true] at hcond
          have h1 := accessLV_wt ha hlv (by rw [wf_rankOf hr]; simp) hcond.1.2
          have h2 := compD_wt ha rhs he hcond.2 (fun p hp => hcf p (by simp [cfgL, cfgS, hp]))
          exact Typed.same ha (by simp [wtS, h1, h2]) rfl rfl
        · cases hw
      · cases hw
  | .writecfg c f rhs isData, Γ, Γ', cs, W, W', E, hc, hw, _, ha, hcf => by
      simp only [compS] at hc
      cases isData with
      | true =>
          have hcond : Wf.wfD W rhs = true ∧ W' = W := by
            by_cases h : Wf.wfD W rhs = true
            · simp [Wf.wfS, h] at hw; exact ⟨h, hw.symm⟩
            · simp [Wf.wfS, h] at hw
          obtain ⟨hcond, rfl⟩ := hcond
          simp only [if_true] at hc
          obtain ⟨⟨e, k⟩, he, hc⟩ := bind_ok hc
          simp only [pure, Except.pure, Except.ok.injEq, Prod.mk.injEq] at hc
          obtain ⟨rfl, rfl⟩ := hc
          have h2 := compD_wt ha rhs he hcond (fun p hp => hcf p (by simp [cfgL, cfgS, hp]))
          have h3 := hcf ((c, f), true) (by simp [cfgL, cfgS])
          exact Typed.same ha (by simp [wtS, h2, h3]) rfl rfl
      | false =>
          have hcond : Wf.wfC W rhs = true ∧ W' = W := by
            by_cases h : Wf.wfC W rhs = true
            · simp [Wf.wfS, h] at hw; exact ⟨h, hw.symm⟩
            · simp [Wf.wfS, h] at hw
          obtain ⟨hcond, rfl⟩ := hcond
          simp only [Bool.false_eq_true, if_false] at hc
          obtain ⟨⟨e, k⟩, he, hc⟩ := bind_ok hc
          simp only [pure, Except.pure, Except.ok.injEq, Prod.mk.injEq] at hc
          obtain ⟨rfl, rfl⟩ := hc
          have h2 := compC_wt ha false rhs he hcond (fun p hp => hcf p (by simp [cfgL, cfgS, hp]))
          have h3 := hcf ((c, f), false) (by simp [cfgL, cfgS])
          exact Typed.same ha (by simp [wtS, h2, h3]) rfl rfl
  | .window w (.win y acc), Γ, Γ', cs, W, W', E, hc, hw, _, ha, _ => by
      simp only [compS] at hc
      obtain ⟨⟨isW, los, strs, ivs, k⟩, hwf, hc⟩ := bind_ok hc
      simp only [pure, Except.pure, Except.ok.injEq, Prod.mk.injEq] at hc
      obtain ⟨rfl, rfl⟩ := hc
      simp only [Wf.wfS, Wf.viewRank] at hw
      split at hw
      · rename_i n hvr
        split at hvr
        · rename_i m hr
          split at hvr
          · rename_i hcond
            simp only [Option.some.injEq] at hvr; subst hvr
            simp only [Bool.and_eq_true] at hcond
            split at hw
            · rename_i hfr
              simp only [Option.some.injEq] at hw; subst hw
              have hy : Wf.lookup y W ≠ none := by rw [wf_rankOf hr]; simp
              have ww := windowFields_wt ha hwf hy hcond.2
              have hfw := fresh_none hfr
              have hEw : E.get w = none := by
                cases hg : E.get w with
                | none => rfl
                | some t => exact absurd hfw (ha.dom w (by rw [hg]; simp))
              obtain ⟨E', hd, hget, hcfgT⟩ := declare_fresh (.win (Wf.accRank acc)) hEw
              have hag := ha.declare (Γ' := (Γ.note k).declare w (.window (ivs.filter id).length))
                (k := some (Wf.accRank acc)) (ty := .window (ivs.filter id).length)
                (t := .win (Wf.accRank acc)) hfw rfl rfl hget
                (by simp [ctyOf, CEnv.declare, lookupSym, ww.2])
                (fun sh h => by cases h)
                (fun n m hn hm => by
                  simp only [Option.some.injEq] at hn
                  simp only [Ty.window.injEq] at hm
                  rw [← hn, ← hm, ww.2])
              refine ⟨E', wtL_single (by simp only [wtS, ww.1]; exact hd), hag.1, hag.2, hcfgT,
                fun z hz => ?_⟩
              rw [wf_lookup_cons]; split <;> simp_all
            · cases hw
          · cases hvr
        · cases hvr
      · cases hw
  | .window _ (.read _ _), _, _, _, _, _, _, hc, _, _, _, _ => by
      simp [compS, throw, throwThe, MonadExceptOf.throw] at hc
  | .window _ (.lit _), _, _, _, _, _, _, hc, _, _, _, _ => by
      simp [compS, throw, throwThe, MonadExceptOf.throw] at hc
  | .window _ (.usub _), _, _, _, _, _, _, hc, _, _, _, _ => by
      simp [compS, throw, throwThe, MonadExceptOf.throw] at hc
  | .window _ (.binop _ _ _), _, _, _, _, _, _, hc, _, _, _, _ => by
      simp [compS, throw, throwThe, MonadExceptOf.throw] at hc
  | .window _ (.extern _ _), _, _, _, _, _, _, hc, _, _, _, _ => by
      simp [compS, throw, throwThe, MonadExceptOf.throw] at hc
  | .window _ (.stride _ _), _, _, _, _, _, _, hc, _, _, _, _ => by
      simp [compS, throw, throwThe, MonadExceptOf.throw] at hc
  | .window _ (.readcfg _ _), _, _, _, _, _, _, hc, _, _, _, _ => by
      simp [compS, throw, throwThe, MonadExceptOf.throw] at hc
  | .ite cnd t e, Γ, Γ', cs, W, W', E, hc, hw, hn, ha, hcf => by
      simp only [compS] at hc
      obtain ⟨⟨c', k⟩, hcc, hc⟩ := bind_ok hc
      obtain ⟨⟨t', Γ1⟩, ht, hc⟩ := bind_ok hc
      obtain ⟨⟨e', Γ2⟩, hce, hc⟩ := bind_ok hc
      simp only [pure, Except.pure, Except.ok.injEq, Prod.mk.injEq] at hc
      obtain ⟨rfl, rfl⟩ := hc
      simp only [noCallS, Bool.and_eq_true] at hn
      simp only [Wf.wfS] at hw
      split at hw
      · rename_i hcond
        simp only [Option.some.injEq] at hw; subst hw
        simp only [Bool.and_eq_true, Option.isSome_iff_exists] at hcond
        obtain ⟨⟨hwc, Wt, hWt⟩, We, hWe⟩ := hcond
        have hcf' : CfgOK E.cfgT (ciCfg c' ++ cfgL t' ++ cfgL e') := by
          intro p hp; exact hcf p (by simpa [cfgL, cfgS] using hp)
        have hcw := compC_wt ha false cnd hcc hwc hcf'.left.left
        have ha1 : Agree W (Γ.note k).push E.push := ha.congr rfl rfl (get_push E)
        obtain ⟨Et, hEt, _, hs1, _, _⟩ := typedL t ht hWt hn.1 ha1 hcf'.left.right
        have ha2 : Agree W Γ1.pop.push E.push :=
          (ha1.stable hs1).congr rfl rfl (fun _ => rfl)
        obtain ⟨Ee, hEe, _, hs2, _, _⟩ := typedL e hce hWe hn.2 ha2 hcf'.right
        have hst : Stable W Γ Γ2.pop :=
          (Stable.trans (W := W) (Γ1 := Γ1) ⟨hs1.1, hs1.2⟩ ⟨hs2.1, hs2.2⟩)
        refine ⟨E, wtL_single ?_, ha.stable hst, hst, rfl, fun _ h => h⟩
        simp [wtS, hcw, isSomeB_of hEt, isSomeB_of hEe]
      · cases hw
  | .loop i lo hi body par, Γ, Γ', cs, W, W', E, hc, hw, hn, ha, hcf => by
      simp only [compS] at hc
      obtain ⟨⟨lo', k1⟩, hclo, hc⟩ := bind_ok hc
      obtain ⟨⟨hi', k2⟩, hchi, hc⟩ := bind_ok hc
      split at hc
      · cases hc
      · split at hc
        · cases hc
        · rename_i renv' hadd
          obtain ⟨⟨b', Γ1⟩, hcb, hc⟩ := bind_ok hc
          simp only [pure, Except.pure, Except.ok.injEq, Prod.mk.injEq] at hc
          obtain ⟨rfl, rfl⟩ := hc
          simp only [noCallS] at hn
          simp only [Wf.wfS] at hw
          split at hw
          · rename_i hcond
            simp only [Option.some.injEq] at hw; subst hw
            simp only [Bool.and_eq_true, Option.isSome_iff_exists] at hcond
            obtain ⟨⟨⟨hfr, hwlo⟩, hwhi⟩, Wb, hWb⟩ := hcond
            have hcf' : CfgOK E.cfgT (ciCfg lo' ++ ciCfg hi' ++ cfgL b') := by
              intro p hp; exact hcf p (by simpa [cfgL, cfgS] using hp)
            have h1 := compC_wt ha true lo hclo hwlo hcf'.left.left
            have h2 := compC_wt ha true hi hchi hwhi hcf'.left.right
            have hfi := fresh_none hfr
            have hag := ha.declare
              (Γ' := ({ (Γ.note (k1 && k2)).push with renv := renv' } : CEnv).declare i .idx)
              (E' := (E.push [(i, .int)]).push) (k := none) (ty := .idx) (t := .int) hfi rfl rfl
              (get_pushInt E i) (by simp [ctyOf, CEnv.declare, lookupSym])
              (fun sh h => by cases h) (fun n m h => by cases h)
            obtain ⟨Eb, hEb, _, hsb, _, _⟩ := typedL body hcb hWb hn hag.1 hcf'.right
            have hst : Stable W Γ Γ1.pop := by
              refine ⟨fun x hx => ?_, hsb.2.trans hag.2.2⟩
              have hxi : x ≠ i := fun e => hx (by rw [e]; exact hfi)
              have : Wf.lookup x ((i, none) :: W) ≠ none := by
                rw [wf_lookup_cons]; simp [hxi, hx]
              exact (hsb.1 x this).trans (hag.2.1 x hx)
            refine ⟨E, wtL_single ?_, ha.stable hst, hst, rfl, fun _ h => h⟩
            simp [wtS, h1, h2, isSomeB_of hEb]
          · cases hw
  | .alloc x shape, Γ, Γ', cs, W, W', E, hc, hw, _, ha, _ => by
      simp only [Wf.wfS] at hw
      split at hw
      · rename_i hcond
        simp only [Option.some.injEq] at hw; subst hw
        simp only [Bool.and_eq_true] at hcond
        have hfx := fresh_none hcond.1
        have hEx : E.get x = none := by
          cases hg : E.get x with
          | none => rfl
          | some t => exact absurd hfx (ha.dom x (by rw [hg]; simp))
        have hxr : Γ.refs.contains x = false := by
          cases hc' : Γ.refs.contains x with
          | false => rfl
          | true => exact absurd hfx (ha.refs x hc').1
        have hmono : ∀ z, Wf.lookup z W ≠ none → Wf.lookup z ((x, some shape.length) :: W) ≠ none := by
          intro z hz; rw [wf_lookup_cons]; split <;> simp_all
        simp only [compS] at hc
        cases shape with
        | nil =>
            simp only [pure, Except.pure, Except.ok.injEq, Prod.mk.injEq] at hc
            obtain ⟨rfl, rfl⟩ := hc
            obtain ⟨E', hd, hget, hcfgT⟩ := declare_fresh .data hEx
            have hag := ha.declare (Γ' := Γ.declare x .scalar) (k := some 0) (ty := .scalar)
              (t := .data) hfx rfl rfl hget
              (by
                have hm : x ∉ Γ.refs := by simpa using hxr
                simp [ctyOf, CEnv.declare, lookupSym, hm])
              (fun sh h => by cases h) (fun n m _ h => by cases h)
            exact ⟨E', wtL_single (by simp only [wtS]; exact hd), hag.1, hag.2, hcfgT, hmono⟩
        | cons e0 r0 =>
            simp only [] at hc
            obtain ⟨dims, hdims, hc⟩ := bind_ok hc
            simp only [pure, Except.pure, Except.ok.injEq, Prod.mk.injEq] at hc
            obtain ⟨rfl, rfl⟩ := hc
            obtain ⟨E', hd, hget, hcfgT⟩ := declare_fresh .ptr hEx
            have hdw : dims.all (wtCE E) = true := by
              rw [List.all_eq_true]
              exact mapM'_all hdims (fun e he d hd' => idx_wt ha hd' (wfCs_mem hcond.2 e he))
            have hag := ha.declare
              (Γ' := (Γ.note ((e0 :: r0).all (fun e => modNumOK Γ.renv (toIE Γ.typ e)))).declare x
                (.tensor ((e0 :: r0).map (toIE Γ.typ))))
              (k := some (e0 :: r0).length) (ty := .tensor ((e0 :: r0).map (toIE Γ.typ)))
              (t := .ptr) hfx rfl rfl hget
              (by simp [ctyOf, CEnv.declare, lookupSym])
              (fun sh h e he y hy => by
                simp only [Ty.tensor.injEq] at h; subst h
                obtain ⟨e1, he1, rfl⟩ := List.mem_map.1 he
                have := toIE_vars_int ha e1 (wfCs_mem hcond.2 e1 he1) y hy
                exact ⟨this.2.1, this.2.2⟩)
              (fun n m _ h => by cases h)
            exact ⟨E', wtL_single (by simp only [wtS, hdw, if_true]; exact hd), hag.1, hag.2, hcfgT,
              hmono⟩
      · cases hw
  | .free x, Γ, Γ', cs, W, W', E, hc, hw, _, ha, _ => by
      simp only [Wf.wfS] at hw
      split at hw
      · rename_i hcond
        simp only [Option.some.injEq] at hw; subst hw
        obtain ⟨n, hn⟩ := Option.isSome_iff_exists.1 hcond
        have hl := wf_rankOf hn
        simp only [compS] at hc
        split at hc
        · simp only [pure, Except.pure, Except.ok.injEq, Prod.mk.injEq] at hc
          obtain ⟨rfl, rfl⟩ := hc
          exact ⟨E, rfl, ha, Stable.refl _ _, rfl, fun _ h => h⟩
        · rename_i sh hty
          simp only [pure, Except.pure, Except.ok.injEq, Prod.mk.injEq] at hc
          obtain ⟨rfl, rfl⟩ := hc
          have := (ha.vis x _ hl).1
          exact Typed.same ha (by simp [wtS, this, ctyOf, hty]) rfl rfl
        · cases hc
      · cases hw
  | .call _ _, _, _, _, _, _, _, _, _, hn, _, _ => by simp [noCallS] at hn
theorem typedL : ∀ (ss : List Stmt) {Γ Γ' : CEnv} {cs : List CStmt} {W W' : Wf.Env} {E : CTyEnv},
    compL Γ ss = .ok (cs, Γ') → Wf.wfL W ss = some W' → noCallL ss = true → Agree W Γ E →
    CfgOK E.cfgT (cfgL cs) → Typed W W' Γ Γ' E cs
  | [], Γ, Γ', cs, W, W', E, hc, hw, _, ha, _ => by
      simp only [compL, pure, Except.pure, Except.ok.injEq, Prod.mk.injEq] at hc
      simp only [Wf.wfL, Option.some.injEq] at hw
      obtain ⟨rfl, rfl⟩ := hc; subst hw
      exact ⟨E, rfl, ha, Stable.refl _ _, rfl, fun _ h => h⟩
  | s :: r, Γ, Γ', cs, W, W', E, hc, hw, hn, ha, hcf => by
      simp only [compL] at hc
      obtain ⟨⟨c1, Γ1⟩, hs, hc⟩ := bind_ok hc
      obtain ⟨⟨c2, Γ2⟩, hr, hc⟩ := bind_ok hc
      simp only [pure, Except.pure, Except.ok.injEq, Prod.mk.injEq] at hc
      obtain ⟨rfl, rfl⟩ := hc
      simp only [noCallL, Bool.and_eq_true] at hn
      simp only [Wf.wfL] at hw
      split at hw
      · rename_i W1 hW1
        rw [cfgL_append] at hcf
        obtain ⟨E1, hE1, ha1, hs1, hc1, hm1⟩ := typedS s hs hW1 hn.1 ha hcf.left
        obtain ⟨E2, hE2, ha2, hs2, hc2, hm2⟩ := typedL r hr hw hn.2 ha1 (by rw [hc1]; exact hcf.right)
        refine ⟨E2, wtL_append c1 c2 hE1 hE2, ha2, ?_, hc2.trans hc1, fun y hy => hm2 y (hm1 y hy)⟩
        exact ⟨fun x hx => (hs2.1 x (hm1 x hx)).trans (hs1.1 x hx), hs2.2.trans hs1.2⟩
      · cases hw
end

end Exo.CTyping
