/-
  The transfer lemma of static well-formedness (C04).

  `wfL_tr`: a block that is well formed in `Γ₁` is — after substituting a control expression `e`
  for a control variable `x` (or unchanged: mode `none`) — well formed in `Γ₂`, provided
    * every name of `Γ₁` other than `x` means the same in `Γ₂`           (`Rel.keep`),
    * the names that are in `Γ₂` but not in `Γ₁` are among `N`, and no binder of the block is in
      `N`                                                                  (`Rel.frsh`),
    * `x` is a control variable of `Γ₁` and `e` is a well-formed control expression of `Γ₂`
                                                                           (`Rel.sub`).
  The substitution reaches every control position: indices, loop bounds, conditions, window
  coordinates, call arguments, configuration writes and ALLOCATION EXTENTS — the statement for
  `Stmt.alloc` is exactly the fact whose absence in the real code left an unbound iterator in
  an extent.  Weakening (more names in scope), strengthening (a control variable that does not
  occur is dropped) and permutation of the environment are the instances with mode `none`.
-/
import ExoModel.Lemmas.WfShapesBase

namespace Exo.WfShapes
open Exo Exo.Wf Exo.Rw

/-- `none`: leave the term as it is; `some (x, e)`: substitute `e` for the control variable `x` -/
abbrev Mode := Option (Sym × Expr)

def tC : Mode → Expr → Expr
  | none, c => c
  | some (x, e), c => Expr.substC x e c
def tCs : Mode → List Expr → List Expr
  | none, c => c
  | some (x, e), c => substCs x e c
def tD : Mode → Expr → Expr
  | none, c => c
  | some (x, e), c => Expr.substD x e c
def tDs : Mode → List Expr → List Expr
  | none, c => c
  | some (x, e), c => substDs x e c
def tAccs : Mode → List WAcc → List WAcc
  | none, a => a
  | some (x, e), a => a.map (WAcc.subst x e)
def tV : Mode → Expr → Expr
  | none, c => c
  | some (x, e), c => Expr.substV x e c
def tArgs : Mode → List FnArg → List Expr → List Expr
  | none, _, a => a
  | some (x, e), fs, a => substArgs x e fs a
def tS : Mode → Stmt → Stmt
  | none, s => s
  | some (x, e), s => s.subst x e
def tL : Mode → List Stmt → List Stmt
  | none, s => s
  | some (x, e), s => substL x e s

/-! ### structural equations -/

theorem tCs_nil (m : Mode) : tCs m [] = [] := by cases m <;> rfl
theorem tCs_cons (m : Mode) (c : Expr) (r : List Expr) : tCs m (c :: r) = tC m c :: tCs m r := by
  cases m <;> rfl
theorem tCs_length (m : Mode) (cs : List Expr) : (tCs m cs).length = cs.length := by
  cases m with
  | none => rfl
  | some p => simp [tCs, substCs]

theorem tC_usub (m : Mode) (a : Expr) : tC m (.usub a) = .usub (tC m a) := by
  cases m <;> simp [tC, Expr.substC]
theorem tC_binop (m : Mode) (op : BinOp) (a b : Expr) :
    tC m (.binop op a b) = .binop op (tC m a) (tC m b) := by
  cases m <;> simp [tC, Expr.substC]
theorem tC_lit (m : Mode) (l : Lit) : tC m (.lit l) = .lit l := by
  cases m <;> simp [tC, Expr.substC]
theorem tC_stride (m : Mode) (y : Sym) (d : Nat) : tC m (.stride y d) = .stride y d := by
  cases m <;> simp [tC, Expr.substC]
theorem tC_readcfg (m : Mode) (c f : String) : tC m (.readcfg c f) = .readcfg c f := by
  cases m <;> simp [tC, Expr.substC]

theorem tD_read (m : Mode) (y : Sym) (idx : List Expr) : tD m (.read y idx) = .read y (tCs m idx) := by
  cases m <;> simp [tD, tCs, Expr.substD]
theorem tD_usub (m : Mode) (a : Expr) : tD m (.usub a) = .usub (tD m a) := by
  cases m <;> simp [tD, Expr.substD]
theorem tD_binop (m : Mode) (op : BinOp) (a b : Expr) :
    tD m (.binop op a b) = .binop op (tD m a) (tD m b) := by
  cases m <;> simp [tD, Expr.substD]
theorem tD_extern (m : Mode) (f : String) (args : List Expr) :
    tD m (.extern f args) = .extern f (tDs m args) := by
  cases m <;> simp [tD, tDs, Expr.substD]
theorem tD_lit (m : Mode) (l : Lit) : tD m (.lit l) = .lit l := by
  cases m <;> simp [tD, Expr.substD]
theorem tD_readcfg (m : Mode) (c f : String) : tD m (.readcfg c f) = .readcfg c f := by
  cases m <;> simp [tD, Expr.substD]
theorem tDs_nil (m : Mode) : tDs m [] = [] := by cases m <;> simp [tDs, substDs]
theorem tDs_cons (m : Mode) (c : Expr) (r : List Expr) : tDs m (c :: r) = tD m c :: tDs m r := by
  cases m <;> simp [tDs, tD, substDs]

theorem tAccs_nil (m : Mode) : tAccs m [] = [] := by cases m <;> rfl
theorem tAccs_point (m : Mode) (c : Expr) (r : List WAcc) :
    tAccs m (.point c :: r) = .point (tC m c) :: tAccs m r := by
  cases m <;> simp [tAccs, tC, WAcc.subst]
theorem tAccs_interval (m : Mode) (lo hi : Expr) (r : List WAcc) :
    tAccs m (.interval lo hi :: r) = .interval (tC m lo) (tC m hi) :: tAccs m r := by
  cases m <;> simp [tAccs, tC, WAcc.subst]

theorem tV_read (m : Mode) (y : Sym) (idx : List Expr) : tV m (.read y idx) = .read y (tCs m idx) := by
  cases m <;> simp [tV, tCs, Expr.substV]
theorem tV_win (m : Mode) (y : Sym) (acc : List WAcc) : tV m (.win y acc) = .win y (tAccs m acc) := by
  cases m <;> simp [tV, tAccs, Expr.substV]

theorem tArgs_ctrl (m : Mode) (n : Sym) (k : CtrlKind) (fs : List FnArg) (a : Expr) (as : List Expr) :
    tArgs m (⟨n, .ctrl k⟩ :: fs) (a :: as) = tC m a :: tArgs m fs as := by
  cases m <;> simp [tArgs, tC, substArgs]
theorem tArgs_scalar (m : Mode) (n : Sym) (fs : List FnArg) (a : Expr) (as : List Expr) :
    tArgs m (⟨n, .scalar⟩ :: fs) (a :: as) = tV m a :: tArgs m fs as := by
  cases m <;> simp [tArgs, tV, substArgs]
theorem tArgs_tensor (m : Mode) (n : Sym) (sh : List Expr) (w : Bool) (fs : List FnArg) (a : Expr)
    (as : List Expr) : tArgs m (⟨n, .tensor sh w⟩ :: fs) (a :: as) = tV m a :: tArgs m fs as := by
  cases m <;> simp [tArgs, tV, substArgs]
theorem tArgs_nil (m : Mode) : tArgs m [] [] = [] := by
  cases m <;> simp [tArgs, substArgs]

theorem tS_assign (m : Mode) (y : Sym) (idx : List Expr) (rhs : Expr) :
    tS m (.assign y idx rhs) = .assign y (tCs m idx) (tD m rhs) := by
  cases m <;> simp [tS, tCs, tD, Stmt.subst]
theorem tS_reduce (m : Mode) (y : Sym) (idx : List Expr) (rhs : Expr) :
    tS m (.reduce y idx rhs) = .reduce y (tCs m idx) (tD m rhs) := by
  cases m <;> simp [tS, tCs, tD, Stmt.subst]
theorem tS_writecfg (m : Mode) (c f : String) (rhs : Expr) (d : Bool) :
    tS m (.writecfg c f rhs d) = .writecfg c f (if d then tD m rhs else tC m rhs) d := by
  cases m <;> simp [tS, tC, tD, Stmt.subst]
theorem tS_pass (m : Mode) : tS m .pass = .pass := by cases m <;> simp [tS, Stmt.subst]
theorem tS_free (m : Mode) (y : Sym) : tS m (.free y) = .free y := by
  cases m <;> simp [tS, Stmt.subst]
theorem tS_ite (m : Mode) (c : Expr) (t e : List Stmt) :
    tS m (.ite c t e) = .ite (tC m c) (tL m t) (tL m e) := by
  cases m <;> simp [tS, tC, tL, Stmt.subst]
theorem tS_loop (m : Mode) (i : Sym) (lo hi : Expr) (b : List Stmt) (par : Bool)
    (hne : ∀ x e, m = some (x, e) → i ≠ x) :
    tS m (.loop i lo hi b par) = .loop i (tC m lo) (tC m hi) (tL m b) par := by
  cases m with
  | none => rfl
  | some p =>
    obtain ⟨x, e⟩ := p
    have := hne x e rfl
    simp [tS, tC, tL, Stmt.subst, this]
theorem tS_alloc (m : Mode) (y : Sym) (sh : List Expr) : tS m (.alloc y sh) = .alloc y (tCs m sh) := by
  cases m <;> simp [tS, tCs, Stmt.subst]
theorem tS_call (m : Mode) (f : Proc) (args : List Expr) :
    tS m (.call f args) = .call f (tArgs m f.args args) := by
  cases m <;> simp [tS, tArgs, Stmt.subst]
theorem tS_window (m : Mode) (y : Sym) (rhs : Expr) : tS m (.window y rhs) = .window y (tV m rhs) := by
  cases m <;> simp [tS, tV, Stmt.subst]
theorem tL_nil (m : Mode) : tL m [] = [] := by cases m <;> simp [tL, substL]
theorem tL_cons (m : Mode) (s : Stmt) (r : List Stmt) : tL m (s :: r) = tS m s :: tL m r := by
  cases m <;> simp [tL, tS, substL]

/-! ### the relation between the two environments -/

structure Rel (m : Mode) (N : List Sym) (Γ₁ Γ₂ : Env) : Prop where
  keep : ∀ y k, (∀ x e, m = some (x, e) → y ≠ x) → lookup y Γ₁ = some k → lookup y Γ₂ = some k
  frsh : ∀ y, y ∉ N → lookup y Γ₁ = none → lookup y Γ₂ = none
  sub : ∀ x e, m = some (x, e) → lookup x Γ₁ = some none ∧ wfC Γ₂ e = true

section
variable {m : Mode} {N : List Sym} {Γ₁ Γ₂ : Env}

theorem Rel.rank (h : Rel m N Γ₁ Γ₂) (y : Sym) (n : Nat) (hr : rankOf Γ₁ y = some n) :
    rankOf Γ₂ y = some n := by
  rw [rankOf_iff] at hr ⊢
  refine h.keep y _ (fun x e hm hy => ?_) hr
  have := (h.sub x e hm).1
  rw [← hy, hr] at this
  cases this

theorem Rel.ctrl (h : Rel m N Γ₁ Γ₂) (y : Sym) (hne : ∀ x e, m = some (x, e) → y ≠ x)
    (hc : isCtrl Γ₁ y = true) : isCtrl Γ₂ y = true := by
  rw [isCtrl_iff] at hc ⊢
  exact h.keep y _ hne hc

theorem wfC_tr (h : Rel m N Γ₁ Γ₂) : ∀ (c : Expr), wfC Γ₁ c = true → wfC Γ₂ (tC m c) = true
  | .read y [], hw => by
    simp only [wfC, List.isEmpty_nil, Bool.and_true] at hw
    cases m with
    | none => simpa [tC, wfC] using h.ctrl y (fun _ _ hm => by cases hm) hw
    | some p =>
      obtain ⟨x, e⟩ := p
      by_cases hy : y = x
      · simp only [tC, Expr.substC, hy, if_true]
        exact (h.sub x e rfl).2
      · simp only [tC, Expr.substC, hy, if_false, wfC, List.isEmpty_nil, Bool.and_true]
        exact h.ctrl y (fun x' e' hm => by cases hm; exact hy) hw
  | .read y (_ :: _), hw => by simp [wfC] at hw
  | .lit (.int _), _ => by simp [tC_lit, wfC]
  | .lit (.bool _), _ => by simp [tC_lit, wfC]
  | .lit (.data _ _), hw => by simp [wfC] at hw
  | .usub a, hw => by
    simp only [wfC] at hw
    simp only [tC_usub, wfC]
    exact wfC_tr h a hw
  | .binop op a b, hw => by
    simp only [wfC, Bool.and_eq_true] at hw
    simp only [tC_binop, wfC, Bool.and_eq_true]
    exact ⟨wfC_tr h a hw.1, wfC_tr h b hw.2⟩
  | .stride y d, hw => by
    simp only [wfC] at hw
    simp only [tC_stride, wfC]
    cases hr : rankOf Γ₁ y with
    | none => simp [hr] at hw
    | some n =>
      rw [hr] at hw
      rw [h.rank y n hr]
      exact hw
  | .readcfg _ _, _ => by simp [tC_readcfg, wfC]
  | .extern _ _, hw => by simp [wfC] at hw
  | .win _ _, hw => by simp [wfC] at hw

theorem wfCs_tr (h : Rel m N Γ₁ Γ₂) : ∀ (cs : List Expr), wfCs Γ₁ cs = true →
    wfCs Γ₂ (tCs m cs) = true
  | [], _ => by simp [tCs_nil, wfCs]
  | c :: r, hw => by
    simp only [wfCs, Bool.and_eq_true] at hw
    simp only [tCs_cons, wfCs, Bool.and_eq_true]
    exact ⟨wfC_tr h c hw.1, wfCs_tr h r hw.2⟩

mutual
theorem wfD_tr (h : Rel m N Γ₁ Γ₂) : ∀ (c : Expr), wfD Γ₁ c = true → wfD Γ₂ (tD m c) = true
  | .read y idx, hw => by
    simp only [wfD] at hw
    simp only [tD_read, wfD]
    cases hr : rankOf Γ₁ y with
    | none => simp [hr] at hw
    | some n =>
      rw [hr] at hw
      simp only [Bool.and_eq_true] at hw
      rw [h.rank y n hr]
      simp only [tCs_length, Bool.and_eq_true]
      exact ⟨hw.1, wfCs_tr h idx hw.2⟩
  | .lit (.data _ _), _ => by simp [tD_lit, wfD]
  | .lit (.int _), _ => by simp [tD_lit, wfD]
  | .lit (.bool _), hw => by simp [wfD] at hw
  | .usub a, hw => by
    simp only [wfD] at hw
    simp only [tD_usub, wfD]
    exact wfD_tr h a hw
  | .binop op a b, hw => by
    simp only [wfD, Bool.and_eq_true] at hw
    simp only [tD_binop, wfD, Bool.and_eq_true]
    exact ⟨⟨hw.1.1, wfD_tr h a hw.1.2⟩, wfD_tr h b hw.2⟩
  | .extern f args, hw => by
    simp only [wfD] at hw
    simp only [tD_extern, wfD]
    exact wfDs_tr h args hw
  | .readcfg _ _, _ => by simp [tD_readcfg, wfD]
  | .win _ _, hw => by simp [wfD] at hw
  | .stride _ _, hw => by simp [wfD] at hw
theorem wfDs_tr (h : Rel m N Γ₁ Γ₂) : ∀ (cs : List Expr), wfDs Γ₁ cs = true →
    wfDs Γ₂ (tDs m cs) = true
  | [], _ => by simp [tDs_nil, wfDs]
  | c :: r, hw => by
    simp only [wfDs, Bool.and_eq_true] at hw
    simp only [tDs_cons, wfDs, Bool.and_eq_true]
    exact ⟨wfD_tr h c hw.1, wfDs_tr h r hw.2⟩
end

theorem wfAccs_tr (h : Rel m N Γ₁ Γ₂) : ∀ (acc : List WAcc), wfAccs Γ₁ acc = true →
    wfAccs Γ₂ (tAccs m acc) = true ∧ (tAccs m acc).length = acc.length ∧
      accRank (tAccs m acc) = accRank acc
  | [], _ => by simp [tAccs_nil, wfAccs]
  | .point c :: r, hw => by
    simp only [wfAccs, wfAcc, Bool.and_eq_true] at hw
    have ih := wfAccs_tr h r hw.2
    simp only [tAccs_point, wfAccs, wfAcc, Bool.and_eq_true, List.length_cons, accRank]
    exact ⟨⟨wfC_tr h c hw.1, ih.1⟩, by rw [ih.2.1], ih.2.2⟩
  | .interval lo hi :: r, hw => by
    simp only [wfAccs, wfAcc, Bool.and_eq_true] at hw
    have ih := wfAccs_tr h r hw.2
    simp only [tAccs_interval, wfAccs, wfAcc, Bool.and_eq_true, List.length_cons, accRank]
    exact ⟨⟨⟨wfC_tr h lo hw.1.1, wfC_tr h hi hw.1.2⟩, ih.1⟩, by rw [ih.2.1], by rw [ih.2.2]⟩

theorem viewRank_tr (h : Rel m N Γ₁ Γ₂) (c : Expr) (n : Nat) (hv : viewRank Γ₁ c = some n) :
    viewRank Γ₂ (tV m c) = some n := by
  cases c with
  | read y idx =>
    rw [tV_read]
    cases idx with
    | nil =>
      simp only [viewRank] at hv
      simp only [tCs_nil, viewRank]
      exact h.rank y n hv
    | cons a l =>
      simp only [viewRank] at hv
      simp only [tCs_cons, viewRank]
      cases hr : rankOf Γ₁ y with
      | none => simp [hr] at hv
      | some k =>
        rw [hr] at hv
        rw [h.rank y k hr]
        simp only [] at hv ⊢
        split at hv
        · rename_i hc
          simp only [Bool.and_eq_true] at hc
          have h2 := wfCs_tr h (a :: l) hc.2
          simp only [tCs_cons] at h2
          have h3 : (tC m a :: tCs m l).length = (a :: l).length := by simp [tCs_length]
          rw [h3]
          simp only [hc.1, h2, Bool.and_self, if_true]
          exact hv
        · cases hv
  | win y acc =>
    rw [tV_win]
    simp only [viewRank] at hv ⊢
    cases hr : rankOf Γ₁ y with
    | none => simp [hr] at hv
    | some k =>
      rw [hr] at hv
      rw [h.rank y k hr]
      simp only [] at hv ⊢
      split at hv
      · rename_i hc
        simp only [Bool.and_eq_true] at hc
        obtain ⟨h1, h2, h3⟩ := wfAccs_tr h acc hc.2
        rw [h2, h3]
        simp only [hc.1, h1, Bool.and_self, if_true]
        exact hv
      · cases hv
  | lit _ => simp [viewRank] at hv
  | usub _ => simp [viewRank] at hv
  | binop _ _ _ => simp [viewRank] at hv
  | extern _ _ => simp [viewRank] at hv
  | stride _ _ => simp [viewRank] at hv
  | readcfg _ _ => simp [viewRank] at hv

theorem wfCallArgs_tr (h : Rel m N Γ₁ Γ₂) : ∀ (fs : List FnArg) (as : List Expr),
    wfCallArgs Γ₁ fs as = true → wfCallArgs Γ₂ fs (tArgs m fs as) = true
  | [], [], _ => by simp [tArgs_nil, wfCallArgs]
  | ⟨x, .ctrl k⟩ :: fs, a :: as, hw => by
    simp only [wfCallArgs, Bool.and_eq_true] at hw
    simp only [tArgs_ctrl, wfCallArgs, Bool.and_eq_true]
    exact ⟨wfC_tr h a hw.1, wfCallArgs_tr h fs as hw.2⟩
  | ⟨x, .scalar⟩ :: fs, a :: as, hw => by
    simp only [wfCallArgs, Bool.and_eq_true, beq_iff_eq] at hw
    simp only [tArgs_scalar, wfCallArgs, Bool.and_eq_true, beq_iff_eq]
    refine ⟨?_, wfCallArgs_tr h fs as hw.2⟩
    rw [← hw.1]
    cases hv : viewRank Γ₁ a with
    | none => rw [hv] at hw; simp [argRank] at hw
    | some n => exact viewRank_tr h a n hv
  | ⟨x, .tensor sh w⟩ :: fs, a :: as, hw => by
    simp only [wfCallArgs, Bool.and_eq_true, beq_iff_eq] at hw
    simp only [tArgs_tensor, wfCallArgs, Bool.and_eq_true, beq_iff_eq]
    refine ⟨?_, wfCallArgs_tr h fs as hw.2⟩
    rw [← hw.1]
    cases hv : viewRank Γ₁ a with
    | none => rw [hv] at hw; simp [argRank] at hw
    | some n => exact viewRank_tr h a n hv
  | [], _ :: _, hw => by simp [wfCallArgs] at hw
  | ⟨_, .ctrl _⟩ :: _, [], hw => by simp [wfCallArgs] at hw
  | ⟨_, .scalar⟩ :: _, [], hw => by simp [wfCallArgs] at hw
  | ⟨_, .tensor _ _⟩ :: _, [], hw => by simp [wfCallArgs] at hw

end

/-! ### building relations -/

/-- more names in scope: `D`'s names were not in `Γ` -/
theorem Rel.ext (D Γ : Env) (N : List Sym) (hD : ∀ y ∈ D.map Prod.fst, lookup y Γ = none)
    (hN : ∀ y ∈ D.map Prod.fst, y ∈ N) : Rel none N Γ (D ++ Γ) where
  keep := by
    intro y k _ hy
    have : lookup y D = none := by
      apply lookup_none_of_not_mem
      intro hm
      rw [hD y hm] at hy; cases hy
    rw [lookup_append_none D Γ y this]; exact hy
  frsh := by
    intro y hy hl
    have : lookup y D = none := lookup_none_of_not_mem D y (fun hm => hy (hN y hm))
    rw [lookup_append_none D Γ y this]; exact hl
  sub := by intro x e hm; cases hm

/-- environments with the same meaning of every name -/
theorem Rel.ofEq (Γ₁ Γ₂ : Env) (N : List Sym) (h : ∀ y, lookup y Γ₁ = lookup y Γ₂) :
    Rel none N Γ₁ Γ₂ where
  keep := by intro y k _ hy; rw [← h y]; exact hy
  frsh := by intro y _ hl; rw [← h y]; exact hl
  sub := by intro x e hm; cases hm

theorem wfC_weaken (Γ : Env) (z : Sym) (k : Option Nat) (e : Expr) (hz : lookup z Γ = none)
    (he : wfC Γ e = true) : wfC ((z, k) :: Γ) e = true := by
  have hr : Rel none [z] Γ ([(z, k)] ++ Γ) :=
    Rel.ext [(z, k)] Γ [z] (by intro y hy; simp at hy; subst hy; exact hz) (by intro y hy; simpa using hy)
  exact wfC_tr hr e he

/-- pushing the same fresh entry on both sides -/
theorem Rel.cons {m : Mode} {N : List Sym} {Γ₁ Γ₂ : Env} (h : Rel m N Γ₁ Γ₂) (z : Sym)
    (k : Option Nat) (hz : lookup z Γ₁ = none) (hN : z ∉ N) :
    Rel m N ((z, k) :: Γ₁) ((z, k) :: Γ₂) where
  keep := by
    intro y k' hne hy
    simp only [lookup_cons] at hy ⊢
    by_cases hyz : y = z
    · simpa [hyz] using hy
    · simp only [hyz, if_false] at hy ⊢
      exact h.keep y k' hne hy
  frsh := by
    intro y hy hl
    simp only [lookup_cons] at hl ⊢
    by_cases hyz : y = z
    · simp [hyz] at hl
    · simp only [hyz, if_false] at hl ⊢
      exact h.frsh y hy hl
  sub := by
    intro x e hm
    obtain ⟨h1, h2⟩ := h.sub x e hm
    have hxz : x ≠ z := by intro e'; rw [e', hz] at h1; cases h1
    refine ⟨by simp [lookup_cons, hxz, h1], ?_⟩
    exact wfC_weaken Γ₂ z k e (h.frsh z hN hz) h2

/-! ### statements and blocks -/

mutual
theorem wfS_tr (m : Mode) (N : List Sym) : ∀ (s : Stmt) (Γ₁ Γ₂ Γ₁' : Env), Rel m N Γ₁ Γ₂ →
    wfS Γ₁ s = some Γ₁' → (∀ z ∈ bindS s, z ∉ N) →
    ∃ D : Env, Γ₁' = D ++ Γ₁ ∧ wfS Γ₂ (tS m s) = some (D ++ Γ₂) ∧ Rel m N (D ++ Γ₁) (D ++ Γ₂)
  | .assign x idx rhs, Γ₁, Γ₂, Γ₁', h, hw, _ => by
    simp only [wfS] at hw
    cases hr : rankOf Γ₁ x with
    | none => simp [hr] at hw
    | some n =>
      rw [hr] at hw
      simp only [] at hw
      split at hw
      · rename_i hc
        simp only [Bool.and_eq_true] at hc
        cases hw
        refine ⟨[], rfl, ?_, h⟩
        simp only [tS_assign, wfS, h.rank x n hr, tCs_length, hc.1.1, wfCs_tr h idx hc.1.2,
          wfD_tr h rhs hc.2, Bool.and_self, if_true, List.nil_append]
      · cases hw
  | .reduce x idx rhs, Γ₁, Γ₂, Γ₁', h, hw, _ => by
    simp only [wfS] at hw
    cases hr : rankOf Γ₁ x with
    | none => simp [hr] at hw
    | some n =>
      rw [hr] at hw
      simp only [] at hw
      split at hw
      · rename_i hc
        simp only [Bool.and_eq_true] at hc
        cases hw
        refine ⟨[], rfl, ?_, h⟩
        simp only [tS_reduce, wfS, h.rank x n hr, tCs_length, hc.1.1, wfCs_tr h idx hc.1.2,
          wfD_tr h rhs hc.2, Bool.and_self, if_true, List.nil_append]
      · cases hw
  | .writecfg c f rhs d, Γ₁, Γ₂, Γ₁', h, hw, _ => by
    cases d with
    | true =>
      simp only [wfS, if_true] at hw
      cases hc : wfD Γ₁ rhs with
      | false => rw [hc] at hw; simp at hw
      | true =>
        rw [hc] at hw
        simp only [if_true, Option.some.injEq] at hw
        subst hw
        refine ⟨[], rfl, ?_, h⟩
        simp [tS_writecfg, wfS, wfD_tr h rhs hc]
    | false =>
      simp only [wfS, Bool.false_eq_true, if_false] at hw
      cases hc : wfC Γ₁ rhs with
      | false => rw [hc] at hw; simp at hw
      | true =>
        rw [hc] at hw
        simp only [if_true, Option.some.injEq] at hw
        subst hw
        refine ⟨[], rfl, ?_, h⟩
        simp [tS_writecfg, wfS, wfC_tr h rhs hc]
  | .pass, Γ₁, Γ₂, Γ₁', h, hw, _ => by
    simp only [wfS, Option.some.injEq] at hw
    subst hw
    exact ⟨[], rfl, by simp [tS_pass, wfS], h⟩
  | .free x, Γ₁, Γ₂, Γ₁', h, hw, _ => by
    simp only [wfS] at hw
    split at hw
    · rename_i hc
      cases hw
      refine ⟨[], rfl, ?_, h⟩
      obtain ⟨n, hn⟩ := Option.isSome_iff_exists.1 hc
      simp [tS_free, wfS, h.rank x n hn]
    · cases hw
  | .ite c t e, Γ₁, Γ₂, Γ₁', h, hw, hb => by
    simp only [wfS] at hw
    split at hw
    · rename_i hc
      simp only [Bool.and_eq_true] at hc
      cases hw
      obtain ⟨Γt, hΓt⟩ := Option.isSome_iff_exists.1 hc.1.2
      obtain ⟨Γe, hΓe⟩ := Option.isSome_iff_exists.1 hc.2
      obtain ⟨Dt, _, ht, _⟩ := wfL_tr m N t Γ₁ Γ₂ Γt h hΓt
        (fun z hz => hb z (by simp [bindS, hz]))
      obtain ⟨De, _, he, _⟩ := wfL_tr m N e Γ₁ Γ₂ Γe h hΓe
        (fun z hz => hb z (by simp [bindS, hz]))
      refine ⟨[], rfl, ?_, h⟩
      simp [tS_ite, wfS, wfC_tr h c hc.1.1, ht, he]
    · cases hw
  | .loop i lo hi b par, Γ₁, Γ₂, Γ₁', h, hw, hb => by
    simp only [wfS] at hw
    split at hw
    · rename_i hc
      simp only [Bool.and_eq_true] at hc
      obtain ⟨⟨⟨hfr, hlo⟩, hhi⟩, hbw⟩ := hc
      cases hw
      have hfr1 := (fresh_iff _ _).1 hfr
      have hiN : i ∉ N := hb i (by simp [bindS])
      have hne : ∀ x e, m = some (x, e) → i ≠ x := by
        intro x e hm hix
        have := (h.sub x e hm).1
        rw [← hix, hfr1] at this
        cases this
      obtain ⟨Γb, hΓb⟩ := Option.isSome_iff_exists.1 hbw
      obtain ⟨Db, _, hb2, _⟩ := wfL_tr m N b ((i, none) :: Γ₁) ((i, none) :: Γ₂) Γb
        (h.cons i none hfr1 hiN) hΓb (fun z hz => hb z (by simp [bindS, hz]))
      refine ⟨[], rfl, ?_, h⟩
      have hfr2 : fresh Γ₂ i = true := (fresh_iff _ _).2 (h.frsh i hiN hfr1)
      simp [tS_loop m i lo hi b par hne, wfS, hfr2, wfC_tr h lo hlo, wfC_tr h hi hhi, hb2]
    · cases hw
  | .alloc x sh, Γ₁, Γ₂, Γ₁', h, hw, hb => by
    simp only [wfS] at hw
    split at hw
    · rename_i hc
      simp only [Bool.and_eq_true] at hc
      cases hw
      have hfr1 := (fresh_iff _ _).1 hc.1
      have hxN : x ∉ N := hb x (by simp [bindS])
      refine ⟨[(x, some sh.length)], rfl, ?_, h.cons x _ hfr1 hxN⟩
      have hfr2 : fresh Γ₂ x = true := (fresh_iff _ _).2 (h.frsh x hxN hfr1)
      simp [tS_alloc, wfS, hfr2, wfCs_tr h sh hc.2, tCs_length]
    · cases hw
  | .call f args, Γ₁, Γ₂, Γ₁', h, hw, _ => by
    simp only [wfS] at hw
    split at hw
    · rename_i hc
      simp only [Bool.and_eq_true] at hc
      cases hw
      refine ⟨[], rfl, ?_, h⟩
      simp [tS_call, wfS, hc.1, wfCallArgs_tr h f.args args hc.2]
    · cases hw
  | .window x rhs, Γ₁, Γ₂, Γ₁', h, hw, hb => by
    simp only [wfS] at hw
    cases hv : viewRank Γ₁ rhs with
    | none => simp [hv] at hw
    | some n =>
      rw [hv] at hw
      simp only [] at hw
      split at hw
      · rename_i hf
        cases hw
        have hfr1 := (fresh_iff _ _).1 hf
        have hxN : x ∉ N := hb x (by simp [bindS])
        refine ⟨[(x, some n)], rfl, ?_, h.cons x _ hfr1 hxN⟩
        have hfr2 : fresh Γ₂ x = true := (fresh_iff _ _).2 (h.frsh x hxN hfr1)
        simp [tS_window, wfS, viewRank_tr h rhs n hv, hfr2]
      · cases hw
theorem wfL_tr (m : Mode) (N : List Sym) : ∀ (ss : List Stmt) (Γ₁ Γ₂ Γ₁' : Env), Rel m N Γ₁ Γ₂ →
    wfL Γ₁ ss = some Γ₁' → (∀ z ∈ bindL ss, z ∉ N) →
    ∃ D : Env, Γ₁' = D ++ Γ₁ ∧ wfL Γ₂ (tL m ss) = some (D ++ Γ₂) ∧ Rel m N (D ++ Γ₁) (D ++ Γ₂)
  | [], Γ₁, Γ₂, Γ₁', h, hw, _ => by
    simp only [wfL, Option.some.injEq] at hw
    subst hw
    exact ⟨[], rfl, by simp [tL_nil, wfL], h⟩
  | s :: r, Γ₁, Γ₂, Γ₁', h, hw, hb => by
    simp only [wfL] at hw
    cases h1 : wfS Γ₁ s with
    | none => rw [h1] at hw; cases hw
    | some Γa =>
      rw [h1] at hw
      obtain ⟨D1, e1, hs, hrel⟩ := wfS_tr m N s Γ₁ Γ₂ Γa h h1 (fun z hz => hb z (by simp [bindL, hz]))
      subst e1
      obtain ⟨D2, e2, hr, hrel2⟩ := wfL_tr m N r (D1 ++ Γ₁) (D1 ++ Γ₂) Γ₁' hrel hw
        (fun z hz => hb z (by simp [bindL, hz]))
      refine ⟨D2 ++ D1, by rw [e2, List.append_assoc], ?_, by simpa [List.append_assoc] using hrel2⟩
      simp only [tL_cons, wfL, hs, List.append_assoc]
      exact hr
end

/-! ### a variable that does not occur -/

theorem substC_of_not_occ (x : Sym) (r : Expr) : ∀ (e : Expr), e.occC x = false →
    Expr.substC x r e = e
  | .read y [], h => by
    simp only [Expr.occC, decide_eq_false_iff_not] at h
    simp [Expr.substC, h]
  | .read y (_ :: _), _ => rfl
  | .lit _, _ => rfl
  | .usub e, h => by
    simp only [Expr.occC] at h
    simp [Expr.substC, substC_of_not_occ x r e h]
  | .binop op a b, h => by
    simp only [Expr.occC, Bool.or_eq_false_iff] at h
    simp [Expr.substC, substC_of_not_occ x r a h.1, substC_of_not_occ x r b h.2]
  | .extern _ _, _ => rfl
  | .win _ _, _ => rfl
  | .stride _ _, _ => rfl
  | .readcfg _ _, _ => rfl

theorem substCs_of_not_occ (x : Sym) (r : Expr) : ∀ (es : List Expr), occCs x es = false →
    substCs x r es = es
  | [], _ => rfl
  | e :: l, h => by
    simp only [occCs, List.any_cons, Bool.or_eq_false_iff] at h
    simp only [substCs, List.map_cons]
    rw [substC_of_not_occ x r e h.1]
    have := substCs_of_not_occ x r l (by simpa [occCs] using h.2)
    simp only [substCs] at this
    rw [this]

mutual
theorem substD_of_not_occ (x : Sym) (r : Expr) : ∀ (e : Expr), e.occD x = false →
    Expr.substD x r e = e
  | .read y idx, h => by
    simp only [Expr.occD] at h
    simp [Expr.substD, substCs_of_not_occ x r idx h]
  | .lit _, _ => by simp [Expr.substD]
  | .usub e, h => by
    simp only [Expr.occD] at h
    simp [Expr.substD, substD_of_not_occ x r e h]
  | .binop op a b, h => by
    simp only [Expr.occD, Bool.or_eq_false_iff] at h
    simp [Expr.substD, substD_of_not_occ x r a h.1, substD_of_not_occ x r b h.2]
  | .extern f args, h => by
    simp only [Expr.occD] at h
    simp [Expr.substD, substDs_of_not_occ x r args h]
  | .win _ _, _ => by simp [Expr.substD]
  | .stride _ _, _ => by simp [Expr.substD]
  | .readcfg _ _, _ => by simp [Expr.substD]
theorem substDs_of_not_occ (x : Sym) (r : Expr) : ∀ (es : List Expr), occDs x es = false →
    substDs x r es = es
  | [], _ => by simp [substDs]
  | e :: l, h => by
    simp only [occDs, Bool.or_eq_false_iff] at h
    simp [substDs, substD_of_not_occ x r e h.1, substDs_of_not_occ x r l h.2]
end

theorem accSubst_of_not_occ (x : Sym) (r : Expr) : ∀ (acc : List WAcc),
    acc.any (·.occ x) = false → acc.map (WAcc.subst x r) = acc
  | [], _ => rfl
  | .point e :: l, h => by
    simp only [List.any_cons, WAcc.occ, Bool.or_eq_false_iff] at h
    simp [WAcc.subst, substC_of_not_occ x r e h.1, accSubst_of_not_occ x r l h.2]
  | .interval lo hi :: l, h => by
    simp only [List.any_cons, WAcc.occ, Bool.or_eq_false_iff] at h
    simp [WAcc.subst, substC_of_not_occ x r lo h.1.1, substC_of_not_occ x r hi h.1.2,
      accSubst_of_not_occ x r l h.2]

theorem substV_of_not_occ (x : Sym) (r : Expr) (e : Expr) (h : e.occV x = false) :
    Expr.substV x r e = e := by
  cases e with
  | read y idx =>
    simp only [Expr.occV] at h
    simp [Expr.substV, substCs_of_not_occ x r idx h]
  | win y acc =>
    simp only [Expr.occV] at h
    simp [Expr.substV, accSubst_of_not_occ x r acc h]
  | lit _ => simp [Expr.substV]
  | usub _ => simp [Expr.substV]
  | binop _ _ _ => simp [Expr.substV]
  | extern _ _ => simp [Expr.substV]
  | stride _ _ => simp [Expr.substV]
  | readcfg _ _ => simp [Expr.substV]

theorem substArgs_of_not_occ (x : Sym) (r : Expr) : ∀ (fs : List FnArg) (as : List Expr),
    occArgs x fs as = false → substArgs x r fs as = as
  | [], _, _ => by simp [substArgs]
  | ⟨_, .ctrl _⟩ :: fs, a :: as, h => by
    simp only [occArgs, Bool.or_eq_false_iff] at h
    simp [substArgs, substC_of_not_occ x r a h.1, substArgs_of_not_occ x r fs as h.2]
  | ⟨_, .scalar⟩ :: fs, a :: as, h => by
    simp only [occArgs, Bool.or_eq_false_iff] at h
    simp [substArgs, substV_of_not_occ x r a h.1, substArgs_of_not_occ x r fs as h.2]
  | ⟨_, .tensor _ _⟩ :: fs, a :: as, h => by
    simp only [occArgs, Bool.or_eq_false_iff] at h
    simp [substArgs, substV_of_not_occ x r a h.1, substArgs_of_not_occ x r fs as h.2]
  | ⟨_, .ctrl _⟩ :: _, [], _ => by simp [substArgs]
  | ⟨_, .scalar⟩ :: _, [], _ => by simp [substArgs]
  | ⟨_, .tensor _ _⟩ :: _, [], _ => by simp [substArgs]

mutual
theorem substS_of_not_occ (x : Sym) (r : Expr) : ∀ (s : Stmt), s.occ x = false → s.subst x r = s
  | .assign y idx rhs, h => by
    simp only [Stmt.occ, Bool.or_eq_false_iff] at h
    simp [Stmt.subst, substCs_of_not_occ x r idx h.1, substD_of_not_occ x r rhs h.2]
  | .reduce y idx rhs, h => by
    simp only [Stmt.occ, Bool.or_eq_false_iff] at h
    simp [Stmt.subst, substCs_of_not_occ x r idx h.1, substD_of_not_occ x r rhs h.2]
  | .writecfg c f rhs d, h => by
    cases d with
    | true =>
      simp only [Stmt.occ, if_true] at h
      simp [Stmt.subst, substD_of_not_occ x r rhs h]
    | false =>
      simp only [Stmt.occ, Bool.false_eq_true, if_false] at h
      simp [Stmt.subst, substC_of_not_occ x r rhs h]
  | .pass, _ => by simp [Stmt.subst]
  | .free _, _ => by simp [Stmt.subst]
  | .ite c t e, h => by
    simp only [Stmt.occ, Bool.or_eq_false_iff] at h
    simp [Stmt.subst, substC_of_not_occ x r c h.1.1, substL_of_not_occ x r t h.1.2,
      substL_of_not_occ x r e h.2]
  | .loop i lo hi b par, h => by
    simp only [Stmt.occ, Bool.or_eq_false_iff, Bool.and_eq_false_iff] at h
    simp only [Stmt.subst, substC_of_not_occ x r lo h.1.1, substC_of_not_occ x r hi h.1.2]
    by_cases hix : i = x
    · simp [hix]
    · have : occL x b = false := by
        rcases h.2 with h2 | h2
        · simp [hix] at h2
        · exact h2
      simp [hix, substL_of_not_occ x r b this]
  | .alloc y sh, h => by
    simp only [Stmt.occ] at h
    simp [Stmt.subst, substCs_of_not_occ x r sh h]
  | .call f args, h => by
    simp only [Stmt.occ] at h
    simp [Stmt.subst, substArgs_of_not_occ x r f.args args h]
  | .window y rhs, h => by
    simp only [Stmt.occ] at h
    simp [Stmt.subst, substV_of_not_occ x r rhs h]
theorem substL_of_not_occ (x : Sym) (r : Expr) : ∀ (ss : List Stmt), occL x ss = false →
    substL x r ss = ss
  | [], _ => by simp [substL]
  | s :: l, h => by
    simp only [occL, Bool.or_eq_false_iff] at h
    simp [substL, substS_of_not_occ x r s h.1, substL_of_not_occ x r l h.2]
end

end Exo.WfShapes
