/-
  Lemmas for C02 wave 2, part 3: accesses and expressions — what `comp_e` emits evaluates in the C
  state to what the reference semantics computes.
-/
import ExoModel.Lemmas.CSimRep

namespace Exo.CompileS
open Exo Exo.CIndex Exo.CSem
open Exo.Range (IExpr Op Val Inside)

variable {V : Type}

/-- lifted index expressions of an access: `Good`, with the values `evalCs` computes -/
theorem liftIdx_all {Γ : CEnv} {σ : State V} {c : CState V} (hr : Rep Γ σ c) :
    ∀ {idx : List Expr} {cirs : List CIR} {is : List Int},
    mapM' (liftIdx Γ) idx = .ok cirs → evalCs σ idx = .ok is →
    idx.all (fun e => modNumOK Γ.renv (toIE Γ.typ e)) = true →
    (∀ k ∈ cirs, Good (ρOfL σ.env) (σOf c) k) ∧ cirs.map (·.eval (ρOfL σ.env) (σOf c)) = is
  | [], cirs, is, h, he, _ => by
      simp only [mapM', evalCs, pure, Except.pure, Except.ok.injEq] at h he
      subst h; subst he; simp
  | e :: r, cirs, is, h, he, hm => by
      simp only [mapM'] at h
      obtain ⟨k, hk, h⟩ := bind_ok h
      obtain ⟨kr, hkr, h⟩ := bind_ok h
      simp only [pure, Except.pure, Except.ok.injEq] at h; subst h
      simp only [evalCs] at he
      obtain ⟨i, hi, he⟩ := bind_ok he
      obtain ⟨ir, hir, he⟩ := bind_ok he
      simp only [pure, Except.pure, Except.ok.injEq] at he; subst he
      simp only [List.all_cons, Bool.and_eq_true] at hm
      have ih := liftIdx_all hr hkr hir hm.2
      have hl : lift (nnOf Γ.renv) (toIE Γ.typ e) = some k := by
        unfold liftIdx at hk
        split at hk
        · simp only [pure, Except.pure, Except.ok.injEq] at hk; subst hk; assumption
        · cases hk
      have te := toIE_eval Γ.typ σ e i hi (lift_noOther hl)
      have g := good_lift (σ := σOf c) hr.rng te.2 hm.1 hl
      have hki : k.eval (ρOfL σ.env) (σOf c) = i := g.2.trans te.1
      refine ⟨?_, by simp only [List.map_cons, ih.2, hki]⟩
      intro k' hk'
      simp only [List.mem_cons] at hk'
      rcases hk' with rfl | hk'
      · exact g.1
      · exact ih.1 k' hk'

theorem cellAt_false {c : CState V} {heap : List (List (Option V))} (hh : c.heap = heap)
    {b : Nat} {o : Int} {cell : Nat × Nat}
    (h : (match heap[b]? with
      | none => (throw Err.scope : Except Err (Nat × Nat))
      | some blk => if 0 ≤ o ∧ o < blk.length then pure (b, o.toNat) else throw Err.oob) = .ok cell) :
    cellAt false c b o = .ok cell := by
  cases hb : heap[b]? with
  | none => rw [hb] at h; cases h
  | some blk =>
      rw [hb] at h
      simp only [] at h
      by_cases hc : 0 ≤ o ∧ o < blk.length
      · rw [if_pos hc] at h
        simp only [cellAt, hh, hb, Bool.false_and, Bool.false_eq_true, if_false, if_pos hc]
        simp only [pure, Except.pure, Except.ok.injEq] at h ⊢
        exact h
      · rw [if_neg hc] at h; cases h

/-- the emitted lvalue addresses the cell the reference semantics addresses -/
theorem access_sim {Γ : CEnv} {σ : State V} {c : CState V} (hr : Rep Γ σ c) {x : Sym}
    {idx : List Expr} {lv : LVal} {k : Bool} (ha : accessLV Γ x idx = .ok (lv, k)) (hk : k = true)
    {v : View} (hx : lookupSym x σ.views = some v) {is : List Int} (hi : evalCs σ idx = .ok is)
    {cell : Nat × Nat} (hcell : cellOf σ.heap v is = .ok cell) :
    lvalCell false c lv = .ok cell := by
  obtain ⟨cv, hcv, hv⟩ := hr.vals x v hx
  have hv' := hv
  obtain ⟨hd, href, hm⟩ := hv
  unfold cellOf at hcell
  obtain ⟨o, ho, hcell⟩ := bind_ok hcell
  -- the scalar cases
  have scalar_case : ∀ byRef, lookupSym x Γ.typ = some .scalar →
      lvalCell false c (.scalar x byRef) = .ok cell := by
    intro byRef hty
    rw [hty] at hm
    obtain ⟨hcv', hdims⟩ := hm
    rw [hdims] at ho
    cases is with
    | nil =>
        simp only [viewOffset, pure, Except.pure, Except.ok.injEq] at ho; subst ho
        simp only [lvalCell, hcv, hcv']
        exact cellAt_false hr.heap hcell
    | cons i is => simp [viewOffset, throw, throwThe, MonadExceptOf.throw] at ho
  unfold accessLV at ha
  split at ha
  · rename_i hrf
    simp only [pure, Except.pure, Except.ok.injEq, Prod.mk.injEq] at ha
    rw [← ha.1]; exact scalar_case true (href hrf)
  · split at ha
    · rename_i hty
      simp only [pure, Except.pure, Except.ok.injEq, Prod.mk.injEq] at ha
      rw [← ha.1]; exact scalar_case false hty
    · cases ha
    · cases ha
    · -- `access_str`
      obtain ⟨cirs, hcirs, ha⟩ := bind_ok ha
      obtain ⟨ty, hty, ha⟩ := bind_ok ha
      split at ha
      · cases ha
      · rename_i off hoff
        obtain ⟨s, hs, ha⟩ := bind_ok ha
        simp only [pure, Except.pure, Except.ok.injEq, Prod.mk.injEq] at ha
        obtain ⟨hlv, hkk⟩ := ha
        rw [hk, Bool.and_eq_true] at hkk
        have hsimp : simplify off = .ok s := by
          unfold simp at hs
          split at hs
          · simp only [pure, Except.pure, Except.ok.injEq] at hs; subst hs; assumption
          · cases hs
        have hρ : ρOf c = ρOfL σ.env := hr.rho
        have gi := liftIdx_all hr hcirs hi hkk.1
        have gs := strides_sim hr hcv hv' hty hkk.2
        rw [hρ] at gs
        have nn := viewOffset_nonneg ho
        have hgood : Good (ρOfL σ.env) (σOf c) off := by
          apply good_getIdxOffset hoff
          · intro k' hk'
            refine ⟨gi.1 k' hk', ?_⟩
            have : k'.eval (ρOfL σ.env) (σOf c) ∈ cirs.map (·.eval (ρOfL σ.env) (σOf c)) :=
              List.mem_map.2 ⟨k', hk', rfl⟩
            rw [gi.2] at this
            exact nn.1 _ this
          · intro k' hk'
            refine ⟨gs.2.1 k' hk', ?_⟩
            have : k'.eval (ρOfL σ.env) (σOf c) ∈
                (getStrides x ty).map (·.eval (ρOfL σ.env) (σOf c)) :=
              List.mem_map.2 ⟨k', hk', rfl⟩
            rw [gs.1] at this
            obtain ⟨d, hd', hd''⟩ := List.mem_map.1 this
            rw [← hd'']; exact (hd d hd').2
        have hev : evalIx c (compAst s) = .ok (off.eval (ρOfL σ.env) (σOf c)) := by
          have := evalIx_comp (c := c) hsimp (by rw [hρ]; exact hgood)
          rw [hρ] at this; exact this
        have hval : v.off + off.eval (ρOfL σ.env) (σOf c) = o := by
          rw [CIndex_getIdxOffset_eval _ _ hoff, gi.2, gs.1]
          exact CIndex_viewOffset_eq_cAccess ho
        rw [← hlv]
        simp only [lvalCell, hev]
        rcases gs.2.2 with ⟨hw, hc'⟩ | ⟨hw, hc'⟩
        · simp only [hw, hcv, hc']
          show cellAt false c v.buf (v.off + _) = _
          rw [hval]; exact cellAt_false hr.heap hcell
        · simp only [hw, hcv, hc']
          show cellAt false c v.buf (v.off + _) = _
          rw [hval]; exact cellAt_false hr.heap hcell

/-! ## data expressions -/

theorem compD_sim [DataAlg V] (ext : String → List V → V) {Γ : CEnv} {σ : State V}
    {c : CState V} (hr : Rep Γ σ c) : ∀ (e : Expr) {e' : CD} {k : Bool} {val : Option V},
    compD Γ e = .ok (e', k) → k = true → evalD ext σ e = .ok val → evalCD false c e' = .ok val
  | .read x idx, e', k, val, hc, hk, he => by
      simp only [compD] at hc
      obtain ⟨⟨lv, k1⟩, hlv, hc⟩ := bind_ok hc
      simp only [pure, Except.pure, Except.ok.injEq, Prod.mk.injEq] at hc
      obtain ⟨rfl, rfl⟩ := hc
      simp only [evalD] at he
      split at he
      · rename_i v hx
        obtain ⟨is, his, he⟩ := bind_ok he
        obtain ⟨cell, hcell, he⟩ := bind_ok he
        simp only [pure, Except.pure, Except.ok.injEq] at he; subst he
        simp only [evalCD, access_sim hr hlv hk hx his hcell, hr.heap]
        rfl
      · cases he
  | .lit (.data n d), e', k, val, hc, _, he => by
      simp only [compD, pure, Except.pure, Except.ok.injEq, Prod.mk.injEq] at hc
      obtain ⟨rfl, _⟩ := hc
      simp only [evalD, pure, Except.pure, Except.ok.injEq] at he; subst he
      rfl
  | .lit (.int _), _, _, _, hc, _, _ => by simp [compD, throw, throwThe, MonadExceptOf.throw] at hc
  | .lit (.bool _), _, _, _, hc, _, _ => by simp [compD, throw, throwThe, MonadExceptOf.throw] at hc
  | .usub a, e', k, val, hc, hk, he => by
      simp only [compD] at hc
      obtain ⟨⟨a', k1⟩, ha, hc⟩ := bind_ok hc
      simp only [pure, Except.pure, Except.ok.injEq, Prod.mk.injEq] at hc
      obtain ⟨rfl, rfl⟩ := hc
      simp only [evalD] at he
      obtain ⟨w, hw, he⟩ := bind_ok he
      simp only [pure, Except.pure, Except.ok.injEq] at he; subst he
      simp only [evalCD, compD_sim ext hr a ha hk hw]
      rfl
  | .binop op a b, e', k, val, hc, hk, he => by
      simp only [compD] at hc
      obtain ⟨⟨a', k1⟩, ha, hc⟩ := bind_ok hc
      obtain ⟨⟨b', k2⟩, hb, hc⟩ := bind_ok hc
      simp only [evalD] at he
      obtain ⟨x, hx, he⟩ := bind_ok he
      obtain ⟨y, hy, he⟩ := bind_ok he
      cases op <;> simp only [pure, Except.pure, Except.ok.injEq, Prod.mk.injEq, throw, throwThe,
        MonadExceptOf.throw, reduceCtorEq] at hc
      all_goals
        obtain ⟨rfl, rfl⟩ := hc
        rw [Bool.and_eq_true] at hk
        simp only [evalCD, compD_sim ext hr a ha hk.1 hx, compD_sim ext hr b hb hk.2 hy]
        simp only [dataOp, pure, Except.pure, Except.ok.injEq] at he; subst he; rfl
  | .readcfg cf f, e', k, val, hc, _, he => by
      simp only [compD, pure, Except.pure, Except.ok.injEq, Prod.mk.injEq] at hc
      obtain ⟨rfl, _⟩ := hc
      simp only [evalD] at he
      simp only [evalCD, hr.cfg]
      split at he
      · rename_i w hw
        simp only [pure, Except.pure, Except.ok.injEq] at he; subst he
        simp only [hw]; rfl
      · cases he
      · cases he
  | .extern _ _, _, _, _, hc, _, _ => by simp [compD, throw, throwThe, MonadExceptOf.throw] at hc
  | .win _ _, _, _, _, hc, _, _ => by simp [compD, throw, throwThe, MonadExceptOf.throw] at hc
  | .stride _ _, _, _, _, hc, _, _ => by simp [compD, throw, throwThe, MonadExceptOf.throw] at hc

end Exo.CompileS
