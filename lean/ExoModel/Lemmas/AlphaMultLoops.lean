/-
  Lemmas behind `mult_loops` (Props/C01Alpha.lean): substitution does not change the loop
  binders of a block; one iteration of the product loop at `v` is iteration `(v / c, v % c)` of
  the nest.
-/
import ExoModel.RewriteMore
import ExoModel.Lemmas.Subst
import ExoModel.Lemmas.LoopSubst

set_option linter.unusedSectionVars false
namespace Exo.C01
open Exo
variable {V : Type} [DataAlg V] (ext : String → List V → V)

mutual
theorem loopVars_subst (x : Sym) (r : Expr) : ∀ (s : Stmt), (Stmt.subst x r s).loopVars = s.loopVars
  | .assign _ _ _ => rfl
  | .reduce _ _ _ => rfl
  | .writecfg _ _ _ _ => rfl
  | .pass => rfl
  | .ite c t e => by
    simp only [Stmt.subst, Stmt.loopVars, loopVarsL_substL x r t, loopVarsL_substL x r e]
  | .loop i lo hi b par => by
    simp only [Stmt.subst, Stmt.loopVars]
    split
    · rfl
    · rw [loopVarsL_substL x r b]
  | .alloc _ _ => rfl
  | .free _ => rfl
  | .call _ _ => rfl
  | .window _ _ => rfl
theorem loopVarsL_substL (x : Sym) (r : Expr) : ∀ (ss : List Stmt),
    loopVarsL (substL x r ss) = loopVarsL ss
  | [] => rfl
  | s :: rest => by
    simp only [substL, loopVarsL, loopVars_subst x r s, loopVarsL_substL x r rest]
end

omit [DataAlg V] in
/-- two iterations agree if their steps agree on the index range they visit -/
theorem iterate_congr_range (f g : Int → State V → Except Err (State V)) (lo N : Int)
    (h : ∀ v s, lo ≤ v → v < N → g v s = f v s) :
    ∀ (n : Nat) (k : Int) (s : State V), lo ≤ k → k + n ≤ N → iterate g n k s = iterate f n k s
  | 0, _, _, _, _ => rfl
  | n + 1, k, s, hlo, hk => by
    simp only [iterate, bind, Except.bind]
    rw [h k s hlo (by omega)]
    cases f k s with
    | error e => rfl
    | ok s1 => exact iterate_congr_range f g lo N h n (k + 1) s1 (by omega) (by omega)

/-- iteration `v` of the product loop is iteration `(v / c, v % c)` of the nest -/
theorem mult_step (i j k : Sym) (c : Int) (hc : 0 < c) (B : List Stmt) (v : Int) (s : State V)
    (hij : i ≠ j) (hki : k ≠ i) (hkj : k ≠ j) (hk : occL k B = false)
    (hlv : ∀ y ∈ loopVarsL B, y ≠ k) :
    loopStep ext k (substL j (.binop .mod (.read k []) (.lit (.int c)))
        (substL i (.binop .div (.read k []) (.lit (.int c))) B)) v s
      = stepIJ ext i j B (v / c) (v % c) s := by
  have hnc : ¬ c ≤ 0 := by omega
  unfold loopStep stepIJ
  rw [execL_subst ext j _ (v % c) rfl _ (s.bind k v)
      (by simp [evalC, State.bind, lookupSym, ctrlOp, bind, Except.bind, pure, Except.pure, hnc] <;> rfl)
      (fun y hy => by
        rw [loopVarsL_substL] at hy
        have := hlv y hy
        simp [Expr.occC]
        exact fun e => this e.symm)]
  rw [execL_subst ext i _ (v / c) rfl B ((s.bind k v).bind j (v % c))
      (by simp [evalC, State.bind, lookupSym, ctrlOp, bind, Except.bind, pure, Except.pure, hnc, hkj] <;> rfl)
      (fun y hy => by
        have := hlv y hy
        simp [Expr.occC]
        exact fun e => this e.symm)]
  have e : ((s.bind k v).bind j (v % c)).bind i (v / c)
      = ((s.bind i (v / c)).bind j (v % c)).withEnv
          ((i, v / c) :: (j, v % c) :: (k, v) :: s.env) := rfl
  rw [e, execL_env ext B ((s.bind i (v / c)).bind j (v % c)) _ (fun y hy => by
    simp only [State.bind, lookupSym_cons]
    by_cases h1 : y = i
    · subst h1; simp [hij]
    · by_cases h2 : y = j
      · subst h2; simp [h1]
      · have h3 : y ≠ k := by intro e'; subst e'; rw [hk] at hy; cases hy
        simp [h1, h2, h3])]
  cases execL ext B ((s.bind i (v / c)).bind j (v % c)) with
  | error e => rfl
  | ok s1 => rfl

end Exo.C01
